// Included inside `mod remapping_loop` of the harness next to the real text of src/remapping_loop.rs (so the private Driver
// trait, Device, PollResult, Next and do_remapping_loop_one_device are visible).  A scripted driver with a seeded random delivery
// schedule and executable oracles for C10, C11, C12, C20, written from the property statements.  The driver carries its own
// reference (a second instance of the real Mapper fed with the events it hands out, and the set of keys held on the output
// computed from what was written), so every driver call is judged at the moment it happens.
// Witness search / replay only: it never decides a property.
use std::collections::VecDeque;
use std::collections::BTreeSet;

struct PRng(u64);
impl PRng { fn next(&mut self) -> u64 { self.0 ^= self.0 << 13; self.0 ^= self.0 >> 7; self.0 ^= self.0 << 17; self.0 } fn below(&mut self, n: usize) -> usize { (self.next() % (n as u64)) as usize } }

#[derive(Clone, Copy, PartialEq, Debug)]
enum Origin { Step, Timer, Tablet, Start }
impl Origin {
  fn prop(&self) -> &'static str { match self { Origin::Step => "C10", Origin::Timer => "C11", Origin::Tablet => "C12", Origin::Start => "C10" } }
  fn name(&self) -> &'static str { match self { Origin::Step => "mapper output of the key event just read", Origin::Timer => "repeat chord of the timer tick", Origin::Tablet => "release-all of the tablet-mode change", Origin::Start => "start" } }
}

// next_wakeup of the real loop lies in [lo, hi]; `open` until the call after the firing step (and its write) has been entered
struct RefRepeat { keys: Vec<KeyCode>, delay_ms: i32, interval_ms: i32, lo: Instant, hi: Instant, open: bool }

struct ProbeDriver {
  r: PRng,
  hist: VecDeque<Event>,                                     // the key history still to be delivered
  wakeups_left: usize,
  kb_q: VecDeque<Event>, tab_q: VecDeque<bool>,            // delivered to the device queue, not yet read (tablet: true = On)
  kb_notified: bool, tab_notified: bool,                      // notified and not yet drained to Busy
  kb_end: bool, ended: bool,
  tablet: bool, just_switched: bool,
  interrupted_once: bool,
  fail_at: Option<usize>, calls: usize, failed: bool, spun: bool, check_all_up: bool, fresh_after_switch: bool,
  phys: BTreeSet<KeyCode>, absorbable: BTreeSet<KeyCode>,      // keys physically down as far as the mapper was told (independent of the mapper); keys some mapping may absorb
  log: Vec<String>,
  violations: Vec<(String, String)>,                          // (property, what)
  // reference
  refm: key_transforms::Mapper,
  rep: Option<RefRepeat>,
  pending: Option<(Vec<Event>, Origin)>,
  last_origin: Origin,
  out_held: BTreeSet<KeyCode>,
  last_exit: Instant,
}
impl ProbeDriver {
  fn viol(&mut self, p: &str, w: String) { self.log.push(format!("    !! {}: {}", p, w)); self.violations.push((p.to_string(), w)); }
  fn tick(&mut self, what: &str, entry: Instant) -> Result<(), String> {
    if self.failed { self.viol("C20", format!("driver call `{}` after an earlier driver call had failed", what)); }
    if self.ended { self.viol("C10", format!("driver call `{}` after the keyboard had reported end-of-device", what)); }
    if what != "send" && self.check_all_up {
      self.check_all_up = false;
      if !self.out_held.is_empty() { let h = format!("{:?}", self.out_held); self.viol("C12", format!("after the tablet-mode change (and the write that followed it, if any) these keys are still down on the virtual keyboard: {}", h)); }
    }
    if what != "send" {
      if let Some((b, o)) = self.pending.take() { self.viol(o.prop(), format!("the {} ({:?}) was not written: the next driver call is `{}`", o.name(), b, what)); }
      if let Some(rr) = &mut self.rep { if rr.open { rr.hi = entry + Duration::from_millis(rr.delay_ms as u64); rr.open = false; } }
    }
    self.calls += 1;
    // a schedule has at most 17 wake-ups and a few dozen events: thousands of driver calls mean that the loop spins (for instance it never reads a device to Busy)
    if self.calls > 4000 {
      // a loop that spins instead of waiting serves neither the timer (C11) nor the tablet switch (C12) any more, and is not "waiting for the next notification" (C10)
      if !self.spun { self.spun = true; for p in ["C10", "C11", "C12"] { self.viol(p, "the loop made more than 4000 driver calls for a schedule of at most 17 wake-ups: it spins instead of going back to waiting".to_string()); } }
      self.failed = true; self.pending = None;
      return Err("injected failure".to_string());
    }
    if Some(self.calls) == self.fail_at { self.failed = true; self.pending = None; self.log.push(format!("{} -> Err(injected failure)", what)); return Err("injected failure".to_string()); }
    Ok(())
  }
  fn deliver_kb(&mut self) {
    // usually one to three events per readiness notification, now and then a burst (everything that is left)
    let n = if self.r.below(6) == 0 { 64 } else { 1 + self.r.below(3) };
    for _ in 0..n { if let Some(e) = self.hist.pop_front() { self.kb_q.push_back(e); } }
  }
}
impl Driver for ProbeDriver {
  type PollRegistry = ();
  fn register_poll(&mut self) -> Result<(), String> { self.tick("register_poll", Instant::now())?; self.just_switched = false; self.log.push("register_poll".to_string()); self.last_exit = Instant::now(); Ok(()) }
  fn poll(&mut self, _registry: &mut (), timeout: Option<Duration>) -> Result<PollResult, String> {
    let entry = Instant::now();
    self.tick("poll", entry)?;
    self.just_switched = false;
    if self.kb_notified || self.tab_notified {
      self.viol("C10", format!("the loop went back to waiting (poll) while the {} it had been notified about was not read until it would block ({} keyboard events unread)", if self.kb_notified { "keyboard" } else { "tablet switch" }, self.kb_q.len()));
      self.kb_notified = false; self.tab_notified = false;
    }
    // C11: the time-out asked for
    let mut tv: Option<String> = None;
    match (&self.rep, timeout) {
      (None, None) => {},
      (None, Some(t)) => { tv = Some(format!("poll was given the time-out {:?} although no repeat timer is running", t)); },
      (Some(_), None) => { tv = Some("poll was called without a time-out although a Special-repeat mapping has fired and nothing has cancelled its timer".to_string()); },
      (Some(rr), Some(t)) => {
        let eps = Duration::from_micros(2);
        let zero = Duration::from_millis(0);
        let overdue_possible = entry >= rr.lo;
        let hi = if rr.hi > self.last_exit { rr.hi - self.last_exit } else { zero };
        let lo = if rr.lo > entry { rr.lo - entry } else { zero };
        let in_window = t + eps >= lo && t <= hi + eps;
        let is_overdue_value = overdue_possible && t <= Duration::from_millis(1);
        if !in_window && !is_overdue_value {
          tv = Some(format!("poll was given the time-out {:?}; the schedule (fire time + delay_ms + ticks x interval_ms) allows only [{:?}, {:?}]{}", t, lo, hi, if overdue_possible { " or 1ms when overdue" } else { "" }));
        }
      }
    }
    if let Some(w) = tv { self.viol("C11", w); }
    let res = if self.wakeups_left == 0 || (self.hist.is_empty() && self.kb_q.is_empty() && self.r.below(3) == 0) {
      self.deliver_kb(); self.kb_end = true; self.kb_notified = true; PollResult::DeviceEvent(vec![Device::Keyboard])
    } else {
      self.wakeups_left -= 1;
      let c = self.r.below(12);
      if c == 0 && !self.interrupted_once { self.interrupted_once = true; PollResult::Interrupted }
      else if c <= 4 && (timeout.is_some() || self.r.below(4) == 0) {
        // a real time-out happens after the time asked for; without a time-out asked for it is spurious
        // ... and now and then the wake-up is late by more than a whole interval (a stalled process): the schedule must not shift
        if let Some(t) = timeout { thread::sleep(t.min(Duration::from_millis(8))); if self.r.below(5) == 0 { thread::sleep(Duration::from_millis(3 + self.r.below(4) as u64)); } }
        PollResult::TimedOut
      }
      else {
        let which = self.r.below(8);
        let mut devs = Vec::new();
        match which { 0 => { devs.push(Device::Tablet); }, 1 => { devs.push(Device::Tablet); devs.push(Device::Keyboard); }, 2 => { devs.push(Device::Keyboard); devs.push(Device::Tablet); }, _ => { devs.push(Device::Keyboard); } }
        for d in &devs { match d {
          Device::Keyboard => { self.deliver_kb(); self.kb_notified = true; },
          Device::Tablet => { let n = 1 + self.r.below(2); for _ in 0..n { let on = self.r.below(2) == 0; self.tab_q.push_back(on); } self.tab_notified = true; },
        } }
        PollResult::DeviceEvent(devs)
      }
    };
    self.log.push(format!("poll(timeout {:?}) -> {:?}", timeout, res));
    if let PollResult::TimedOut = res {
      if self.tablet { self.rep = None; }
      else if let Some(rr) = &mut self.rep {
        let mut chord = Vec::new();
        for k in &rr.keys { if !self.out_held.contains(k) { chord.push(Pressed(*k)); } }
        for k in rr.keys.iter().rev() { if !self.out_held.contains(k) { chord.push(Released(*k)); } }
        self.pending = Some((chord, Origin::Timer));
        rr.lo = rr.lo + Duration::from_millis(rr.interval_ms as u64); rr.hi = rr.hi + Duration::from_millis(rr.interval_ms as u64);
      }
      self.last_origin = Origin::Timer;
    }
    self.last_exit = Instant::now();
    Ok(res)
  }
  fn next_keyboard(&mut self) -> Result<Next<Event>, String> {
    self.tick("next_keyboard", Instant::now())?;
    self.just_switched = false;
    let r = match self.kb_q.pop_front() { Some(e) => Next::One(e), None => { self.kb_notified = false; if self.kb_end { self.ended = true; Next::End } else { Next::Busy } } };
    self.log.push(format!("next_keyboard -> {:?}", r));
    if let Next::One(_) = &r { if !self.tablet { self.fresh_after_switch = false; } }
    if let Next::One(e) = &r { if !self.tablet {
      // a key change, judged without the mapper: a press of a key that is up / a release of a key that is down (C11: "as long as no further key event arrives")
      let (key, change) = match e { Pressed(k) => (*k, self.phys.insert(*k)), Released(k) => (*k, self.phys.remove(k)) };
      let out = self.refm.step(e.clone());
      if !out.events.is_empty() { self.pending = Some((out.events, Origin::Step)); }
      match out.repeat {
        ResultingRepeat::Repeating { keys, delay_ms, interval_ms } => { let t = Instant::now() + Duration::from_millis(delay_ms as u64); self.rep = Some(RefRepeat { keys, delay_ms, interval_ms, lo: t, hi: t, open: true }); },
        ResultingRepeat::Disabled => self.rep = None,
        // the reference mapper is the code under test: its "nothing changes" is believed only for events that are no key change (or for keys a mapping may have absorbed,
        // which the mapper legitimately forgets before they are released)
        ResultingRepeat::NoChange => { if change && !self.absorbable.contains(&key) { self.rep = None; } }
      }
      self.last_origin = Origin::Step;
    } }
    self.last_exit = Instant::now();
    if let Some(rr) = &mut self.rep { if rr.open { rr.lo = self.last_exit + Duration::from_millis(rr.delay_ms as u64); } }
    Ok(r)
  }
  fn next_tablet(&mut self) -> Result<Next<TableModeEvent>, String> {
    self.tick("next_tablet", Instant::now())?;
    self.just_switched = false;
    let r = match self.tab_q.pop_front() { Some(on) => { self.tablet = on; self.just_switched = true; Next::One(if on { On } else { Off }) }, None => { self.tab_notified = false; Next::Busy } };
    self.log.push(format!("next_tablet -> {:?}", r));
    if let Next::One(_) = &r {
      self.rep = None; self.check_all_up = true; self.phys.clear(); self.fresh_after_switch = true;
      let out = self.refm.release_all();
      if !out.is_empty() { self.pending = Some((out, Origin::Tablet)); }
      self.last_origin = Origin::Tablet;
    }
    self.last_exit = Instant::now();
    Ok(r)
  }
  fn send(&mut self, evs: &Vec<Event>) -> Result<(), String> {
    self.log.push(format!("send {:?}", evs));
    if self.tablet && !self.just_switched {
      self.viol("C12", format!("{:?} was written to the virtual keyboard while the tablet switch is on", evs));
    }
    match self.pending.take() {
      None => { let o = self.last_origin; self.viol(o.prop(), format!("{:?} was written although nothing is due (previous activity: {})", evs, o.name()));
        // C12 "mapping resumes as from a fresh start": between a tablet-mode change and the next key event a fresh mapper and loop have nothing armed and nothing to write
        if self.fresh_after_switch { self.viol("C12", format!("{:?} was written after a tablet-mode change although no key event has arrived since: mapping did not resume as from a fresh start", evs)); } },
      Some((b, o)) => { if &b != evs { self.viol(o.prop(), format!("{:?} was written where the {} is {:?}", evs, o.name(), b)); } }
    }
    self.tick("send", Instant::now())?;
    self.just_switched = false;
    for e in evs { match e { Pressed(k) => { self.out_held.insert(*k); }, Released(k) => { self.out_held.remove(k); } } }
    self.last_exit = Instant::now();
    if let Some(rr) = &mut self.rep { if rr.open { rr.lo = self.last_exit + Duration::from_millis(rr.delay_ms as u64); } }
    Ok(())
  }
}


// C14 ("... or runs without crashing"): the accepted layout is also run through the real per-device loop with a plain driver - one key event per
// readiness notification, short time-outs slept through - and a panic anywhere (e.g. in the wake-up arithmetic on the repeat
// values of the layout) is reported.  Used by loader_probe::check_c14.
struct PlainDriver { hist: VecDeque<Event>, q: VecDeque<Event>, ticks: usize, calls: usize, longest: Option<Duration> }
impl Driver for PlainDriver {
  type PollRegistry = ();
  fn register_poll(&mut self) -> Result<(), String> { Ok(()) }
  fn poll(&mut self, _r: &mut (), timeout: Option<Duration>) -> Result<PollResult, String> {
    self.calls += 1; if self.calls > 2000 { return Err("call budget".to_string()); }
    if let Some(t) = timeout { if self.longest.map(|l| t > l).unwrap_or(true) { self.longest = Some(t); } }
    // an honest clock: a time-out is reported only after the time asked for has really passed (short ones are slept through, at most twice in a row); otherwise the next key event arrives first
    if let Some(t) = timeout { if t <= Duration::from_millis(3) && self.ticks < 2 { self.ticks += 1; thread::sleep(t); return Ok(PollResult::TimedOut); } }
    self.ticks = 0;
    if let Some(e) = self.hist.pop_front() { self.q.push_back(e); }
    Ok(PollResult::DeviceEvent(vec![Device::Keyboard]))
  }
  fn next_keyboard(&mut self) -> Result<Next<Event>, String> { self.calls += 1; if self.calls > 2000 { return Err("call budget".to_string()); } Ok(match self.q.pop_front() { Some(e) => Next::One(e), None => if self.hist.is_empty() { Next::End } else { Next::Busy } }) }
  fn next_tablet(&mut self) -> Result<Next<TableModeEvent>, String> { Ok(Next::Busy) }
  fn send(&mut self, _evs: &Vec<Event>) -> Result<(), String> { Ok(()) }
}
/// runs the real loop; returns its result and the longest time-out it asked poll for
pub fn run_plain(layout: &Layout, hist: &Vec<Event>) -> (Result<(), String>, Option<Duration>) {
  let mut d = PlainDriver { hist: hist.iter().cloned().collect(), q: VecDeque::new(), ticks: 0, calls: 0, longest: None };
  let r = do_remapping_loop_one_device(&mut d, layout.clone(), false).map(|_| ());
  (r, d.longest)
}

const REP_KEYS: [KeyCode; 5] = [KeyCode::X, KeyCode::Y, KeyCode::LEFTSHIFT, KeyCode::RIGHTALT, KeyCode::A];

/// run one seeded case; returns the violations found (property, what), the call log, the layout and the key history
fn run_case(seed: u64) -> (Vec<(String, String)>, Vec<String>, Layout, Vec<Event>) {
  let mut gr = crate::key_transforms::Rng(seed.wrapping_mul(0x9E3779B97F4A7C15) | 1);
  let (mut layout, hist) = crate::key_transforms::gen_case(&mut gr, false);
  let mut r = PRng(seed.wrapping_mul(0xD1B54A32D192ED03) | 1);
  // Special repeats of any length, possibly overlapping keys that are held
  for m in layout.mappings.iter_mut() {
    if r.below(2) == 0 {
      let n = if r.below(8) == 0 { 0 } else { 1 + r.below(3) };      // now and then an empty chord
      let mut keys: Vec<KeyCode> = Vec::new();
      while keys.len() < n { let k = if r.below(3) == 0 && !m.to.is_empty() { m.to[r.below(m.to.len())] } else { REP_KEYS[r.below(REP_KEYS.len())] }; if !keys.contains(&k) { keys.push(k); } }
      m.repeat = crate::keys::Repeat::Special { keys, delay_ms: 1 + r.below(3) as i32, interval_ms: 1 + r.below(2) as i32 };
    }
  }
  let wakeups = 2 + r.below(14);
  let fail_at = if r.below(3) == 0 { Some(1 + r.below(40)) } else { None };
  let now = Instant::now();
  let mut d = ProbeDriver { r, hist: hist.iter().cloned().collect(), wakeups_left: wakeups, kb_q: VecDeque::new(), tab_q: VecDeque::new(), kb_notified: false, tab_notified: false, kb_end: false, ended: false,
                            tablet: false, just_switched: false, interrupted_once: false, fail_at, calls: 0, failed: false, spun: false, check_all_up: false, fresh_after_switch: false, phys: BTreeSet::new(), absorbable: layout.mappings.iter().flat_map(|m| m.absorbing.iter().cloned()).collect(), log: Vec::new(), violations: Vec::new(),
                            refm: key_transforms::Mapper::for_layout(&layout), rep: None, pending: None, last_origin: Origin::Start, out_held: BTreeSet::new(), last_exit: now };
  let result = do_remapping_loop_one_device(&mut d, layout.clone(), false);
  d.log.push(format!("loop returned {:?}", result));
  let mut v = std::mem::take(&mut d.violations);
  if d.failed { match &result { Err(m) if m == "injected failure" => {}, other => v.push(("C20".to_string(), format!("a driver call failed but the loop returned {:?} instead of that error", other))) } }
  else {
    if result.is_err() { v.push(("C20".to_string(), format!("no driver call failed but the loop returned {:?}", result))); }
    if let Some((b, o)) = d.pending.take() { v.push((o.prop().to_string(), format!("the {} ({:?}) was never written", o.name(), b))); }
    if !d.ended { v.push(("C10".to_string(), "the loop returned although the keyboard had not reported end-of-device".to_string())); }
  }
  (v, d.log, layout, hist)
}

/// the call log of one seeded case with everything that depends on the clock blanked out (time-out values, verdicts of the oracles): for the differential
/// run of the current loop against the pinned (verified) text of the loop under the same scripted driver
pub fn case_log(seed: u64) -> Vec<String> {
  let (_, log, _, _) = run_case(seed);
  log.into_iter().filter(|l| !l.trim_start().starts_with("!!")).map(|l| { if let Some(i) = l.find("poll(timeout Some(") { let j = l[i..].find("))").map(|j| i + j + 2).unwrap_or(l.len()); format!("{}poll(timeout Some(_)){}", &l[..i], &l[j..]) } else { l } }).collect()
}

pub fn explore(prop: &str, secs: f64, seed: u64) -> i32 {
  let t0 = std::time::Instant::now();
  let mut n: u64 = 0;
  let mut s = seed.wrapping_mul(1000003);
  while t0.elapsed().as_secs_f64() < secs || (n < (secs * 1500.0) as u64 && t0.elapsed().as_secs_f64() < 5.0 * secs) {
    for _ in 0..50 {
      n += 1; s = s.wrapping_add(1);
      let (v, _, _, _) = run_case(s);
      if v.iter().any(|(p, _)| p == prop) {
        // timing verdicts depend on the clock: keep the witness only if it reproduces twice more
        let again = (0..2).all(|_| run_case(s).0.iter().any(|(p, _)| p == prop));
        if !again { continue; }
        let what = &v.iter().find(|(p, _)| p == prop).unwrap().1;
        println!("WITNESS {{\"property\":{:?},\"loop_seed\":{},\"what\":{:?},\"cases_tried\":{}}}", prop, s, what, n);
        return 1;
      }
    }
  }
  println!("NO-WITNESS cases_tried={}", n);
  0
}

pub fn replay(prop: &str, text: &str) -> i32 {
  let v: serde_json::Value = serde_json::from_str(text).expect("json");
  let c = if v.get("counterexample").is_some() { v["counterexample"].clone() } else { v };
  let s = c["loop_seed"].as_u64().unwrap();
  let (viol, log, layout, hist) = run_case(s);
  println!("replay of delivery schedule #{} against the real per-device loop ({}), property {}", s, env!("VERIF_REPO_SRC"), prop);
  println!("layout: {}", serde_json::to_string(&layout).unwrap());
  println!("key history to deliver: {:?}", hist);
  for c in &log { println!("  {}", c); }
  match viol.iter().find(|(p, _)| p == prop) {
    Some((_, what)) => { println!("REPRODUCED: {}", what); 1 },
    None => { println!("NOT-REPRODUCED: this schedule does not violate {} on this tree", prop); 0 }
  }
}


// ---------------------------------------------------------------------------------------------------------------------------------
// The REAL driver on real file descriptors (bounded, native; backs the assumption "RealDriver meets the Driver contract" of C10/C12):
// keyboard, tablet switch and virtual keyboard are OS pipes; RealDriver (mio edge-triggered epoll, nix read / write, EAGAIN -> Busy),
// DevInputReader, TabletModeSwitchReader, DevInputWriter and do_remapping_loop_one_device are the real ones, running in a thread.
// A seeded schedule writes key events in batches of several records per write (so one readiness notification covers several events),
// interleaved with tablet-switch records; everything the loop writes is decoded and compared, batch by batch, with the outputs of a
// reference Mapper for the same events (no Special repeats: no timer). Not a proof and not exhaustive.
fn rec(type_: u16, code: u16, value: i32) -> Vec<u8> { let mut v = vec![0u8; 16]; v.extend_from_slice(&type_.to_ne_bytes()); v.extend_from_slice(&code.to_ne_bytes()); v.extend_from_slice(&value.to_ne_bytes()); v }
fn pending(fd: i32) -> i32 { let mut n: libc::c_int = 0; unsafe { libc::ioctl(fd, libc::FIONREAD, &mut n); } n }
thread_local! { static LOOP_GONE: std::cell::Cell<bool> = std::cell::Cell::new(false); }
// waits until the loop has read everything from fd; gives up at once when the loop thread is gone (the caller sets LOOP_GONE)
fn wait_drained(fd: i32) { let t0 = Instant::now(); while pending(fd) > 0 && t0.elapsed() < Duration::from_millis(2000) && !LOOP_GONE.with(|g| g.get()) { thread::sleep(Duration::from_micros(200)); } if !LOOP_GONE.with(|g| g.get()) { thread::sleep(Duration::from_millis(2)); } }
fn nonblock(fd: i32) { unsafe { let fl = libc::fcntl(fd, libc::F_GETFL); libc::fcntl(fd, libc::F_SETFL, fl | libc::O_NONBLOCK); } }

enum Seg { Kb(Vec<Event>), Tab(bool), Both(bool, Vec<Event>) }
fn expected_for(layout: &Layout, segs: &Vec<Seg>, choice: u32) -> Vec<Vec<Event>> {
  let mut m = key_transforms::Mapper::for_layout(layout); let mut tablet = false; let mut out: Vec<Vec<Event>> = Vec::new(); let mut b = 0;
  let mut kb = |m: &mut key_transforms::Mapper, tablet: bool, evs: &Vec<Event>, out: &mut Vec<Vec<Event>>| { if !tablet { for e in evs { let o = m.step(e.clone()); if !o.events.is_empty() { out.push(o.events); } } } };
  for sg in segs { match sg {
    Seg::Kb(evs) => kb(&mut m, tablet, evs, &mut out),
    Seg::Tab(on) => { tablet = *on; let o = m.release_all(); if !o.is_empty() { out.push(o); } },
    Seg::Both(on, evs) => { let tab_first = (choice >> b) & 1 == 1; b += 1;
      if tab_first { tablet = *on; let o = m.release_all(); if !o.is_empty() { out.push(o); } kb(&mut m, tablet, evs, &mut out); }
      else { kb(&mut m, tablet, evs, &mut out); tablet = *on; let o = m.release_all(); if !o.is_empty() { out.push(o); } } },
  } }
  out
}

fn real_case(seed: u64) -> Result<usize, String> {
  let mut gr = crate::key_transforms::Rng(seed.wrapping_mul(0x9E3779B97F4A7C15) | 1);
  let (mut layout, hist) = crate::key_transforms::gen_case(&mut gr, false);
  for m in layout.mappings.iter_mut() { if let crate::keys::Repeat::Special { .. } = m.repeat { m.repeat = crate::keys::Repeat::Normal; } }
  let mut r = PRng(seed.wrapping_mul(0xD1B54A32D192ED03) | 1);
  let (kb_r, kb_w) = nix::unistd::pipe().map_err(|e| e.to_string())?;
  let (tab_r, tab_w) = nix::unistd::pipe().map_err(|e| e.to_string())?;
  let (out_r, out_w) = nix::unistd::pipe().map_err(|e| e.to_string())?;
  nonblock(kb_r); nonblock(tab_r); nonblock(out_r);
  let mut drv = RealDriver { rw: RW { r: crate::dev_input_rw::probe_reader_on(kb_r), w: crate::dev_input_rw::probe_writer_on(out_w), t: Some(TabletModeSwitchReader { fd: tab_r }) } };
  let l2 = layout.clone();
  let th = spawn(move || do_remapping_loop_one_device(&mut drv, l2, false));
  let mut segs: Vec<Seg> = Vec::new(); let mut n_both = 0;
  let mut i = 0;
  thread::sleep(Duration::from_millis(2));     // let the loop register and block in poll
  let mut batch = |r: &mut PRng, i: &mut usize| -> (Vec<u8>, Vec<Event>) { let n = 1 + r.below(4); let mut bytes: Vec<u8> = Vec::new(); let mut evs = Vec::new();
    for _ in 0..n { if *i >= hist.len() { break; } let e = hist[*i].clone(); *i += 1; let (k, v) = match &e { Pressed(k) => (*k, 1), Released(k) => (*k, 0) };
      bytes.extend(rec(1, k as u16, v)); if r.below(3) == 0 { bytes.extend(rec(4, 4, 1234)); } bytes.extend(rec(0, 0, 0)); evs.push(e); }
    (bytes, evs) };
  LOOP_GONE.with(|g| g.set(false));
  let mut premature = false;
  while i < hist.len() {
    if th.is_finished() { LOOP_GONE.with(|g| g.set(true)); premature = true; break; }
    let c = r.below(8);
    if c == 0 && n_both < 3 {
      // tablet switch and keyboard become ready in the SAME wake-up (no waiting in between); which one the loop handles first is up to epoll: both orders are accepted
      wait_drained(kb_r); wait_drained(tab_r);
      let on = r.below(2) == 0; let (bytes, evs) = batch(&mut r, &mut i);
      nix::unistd::write(tab_w, &rec(5, 1, if on { 1 } else { 0 })).map_err(|e| e.to_string())?;
      nix::unistd::write(kb_w, &bytes).map_err(|e| e.to_string())?;
      segs.push(Seg::Both(on, evs)); n_both += 1;
      wait_drained(tab_r); if r.below(2) == 0 { wait_drained(kb_r); thread::sleep(Duration::from_millis(3)); }
      continue;
    }
    if c == 1 {
      wait_drained(kb_r);
      let on = r.below(2) == 0;
      nix::unistd::write(tab_w, &rec(5, 1, if on { 1 } else { 0 })).map_err(|e| e.to_string())?;
      segs.push(Seg::Tab(on));
      wait_drained(tab_r);
    }
    let (bytes, evs) = batch(&mut r, &mut i);
    nix::unistd::write(kb_w, &bytes).map_err(|e| e.to_string())?;     // several events in ONE write: one readiness edge
    segs.push(Seg::Kb(evs));
    if r.below(2) == 0 { wait_drained(kb_r); }
  }
  if th.is_finished() { LOOP_GONE.with(|g| g.set(true)); premature = true; }
  if premature {
    let res = th.join().map_err(|_| format!("schedule #{}: the loop thread panicked", seed))?;
    for fd in [kb_r, kb_w, tab_r, tab_w, out_r, out_w] { let _ = nix::unistd::close(fd); }
    return Err(format!("schedule #{}: the loop returned {:?} in the middle of the schedule although no read or write had failed and the keyboard was still there (events are lost)", seed, res));
  }
  wait_drained(kb_r); wait_drained(tab_r);
  // collect what was written to the virtual keyboard
  let mut raw: Vec<u8> = Vec::new(); let mut buf = vec![0u8; 65536];
  loop { match nix::unistd::read(out_r, &mut buf) { Ok(0) => break, Ok(n) => raw.extend_from_slice(&buf[..n]), Err(_) => break } }
  // stop the loop: close the reading end of the virtual keyboard, switch tablet mode off and press keys that are passed through: the write fails, the loop returns the error
  let _ = nix::unistd::close(out_r);
  let _ = nix::unistd::write(tab_w, &rec(5, 1, 0)); wait_drained(tab_r);
  let mut stopper: Vec<u8> = Vec::new(); for k in [KeyCode::F24, KeyCode::F23] { stopper.extend(rec(1, k as u16, 1)); stopper.extend(rec(0, 0, 0)); }
  let _ = nix::unistd::write(kb_w, &stopper);
  let t0 = Instant::now(); while !th.is_finished() && t0.elapsed() < Duration::from_millis(3000) { thread::sleep(Duration::from_millis(1)); }
  let finished = th.is_finished();
  for fd in [kb_w, tab_w] { let _ = nix::unistd::close(fd); }
  if !finished { return Err(format!("schedule #{}: the loop did not stop after a failed write to the virtual keyboard", seed)); }
  let res = th.join().map_err(|_| format!("schedule #{}: the loop thread panicked", seed))?;
  for fd in [kb_r, tab_r, out_w] { let _ = nix::unistd::close(fd); }
  if res.is_ok() { return Err(format!("schedule #{}: the loop returned Ok although a write failed", seed)); }
  // decode: records of 24 bytes, EV_KEY events, a SYN record closes a batch
  if raw.len() % 24 != 0 { return Err(format!("schedule #{}: {} bytes written to the virtual keyboard, not a multiple of 24", seed, raw.len())); }
  let mut got: Vec<Vec<Event>> = Vec::new(); let mut cur: Vec<Event> = Vec::new();
  for c in raw.chunks(24) {
    let t = u16::from_ne_bytes([c[16], c[17]]); let code = u16::from_ne_bytes([c[18], c[19]]); let v = i32::from_ne_bytes([c[20], c[21], c[22], c[23]]);
    if t == 0 { got.push(std::mem::take(&mut cur)); }
    else if t == 1 { let k: KeyCode = match num_traits::FromPrimitive::from_u16(code) { Some(k) => k, None => return Err(format!("schedule #{}: unknown key code {} written", seed, code)) };
      cur.push(if v == 1 { Pressed(k) } else { Released(k) }); }
  }
  let mut first: Option<Vec<Vec<Event>>> = None;
  for choice in 0..(1u32 << n_both) { let e = expected_for(&layout, &segs, choice); if e == got { return Ok(got.len()); } if first.is_none() { first = Some(e); } }
  let expected = first.unwrap();
  let n = got.iter().zip(expected.iter()).take_while(|(a, b)| a == b).count();
  Err(format!("schedule #{} (layout {}): write #{} on the real pipe is {:?}; the mapper's output for the delivered events is {:?} there ({} writes, {} expected; {} order(s) of simultaneous tablet/keyboard readiness tried)", seed,
    serde_json::to_string(&layout).unwrap(), n, got.get(n), expected.get(n), got.len(), expected.len(), 1u32 << n_both))
}

pub fn real_driver(seed: u64, cases: u64) -> i32 {
  let mut fails: Vec<String> = Vec::new(); let mut writes = 0usize;
  for c in 0..cases { match real_case(seed.wrapping_mul(7919).wrapping_add(c)) { Ok(n) => writes += n, Err(m) => { if fails.len() < 3 { fails.push(format!("{{\"input\":\"real-driver schedule {}\",\"what\":{}}}", seed.wrapping_mul(7919).wrapping_add(c), serde_json::to_string(&m).unwrap())); } } } }
  println!("{{\"cases\":{},\"writes_compared\":{},\"failures\":[{}]}}", cases, writes, fails.join(","));
  if fails.is_empty() { 0 } else { 1 }
}

pub fn real_driver_one(schedule: u64) -> i32 {
  match real_case(schedule) { Ok(n) => { println!("NOT-REPRODUCED: {} writes to the virtual keyboard, all equal to the mapper's outputs for the delivered events", n); 0 }, Err(m) => { println!("REPRODUCED: {}", m); 1 } }
}
