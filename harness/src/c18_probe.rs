// Included inside `mod dev_input_rw` of the harness next to the real text of src/dev_input_rw.rs.
// Exhaustive native enumeration for C18 through a real pipe (the quick-tier stand-in for the Kani harnesses of /verif/kani):
//   writer: every known key code x {press, release} as a one-event batch; the empty batch; seeded random batches; one batch of every length 0..=256, 512, 1024, 2000
//   reader: foreign records (other types, value 2 and other values, unknown codes) are skipped; round trip of every code
use crate::keys::KeyCode;
use nix::fcntl::{fcntl, FcntlArg};

const REC: usize = 24;

fn mkpipe() -> (RawFd, RawFd) {
  let (r, w) = nix::unistd::pipe().expect("pipe");
  fcntl(r, FcntlArg::F_SETFL(OFlag::O_NONBLOCK)).expect("nonblock");
  (r, w)
}
fn drain(r: RawFd) -> Vec<u8> {
  let mut out = Vec::new(); let mut buf = [0u8; 4096];
  loop { match read(r, &mut buf) { Ok(0) => break, Ok(n) => out.extend_from_slice(&buf[..n]), Err(_) => break } }
  out
}
fn record_ok(rec: &[u8], type_: u16, code: u16, value: i32) -> bool {
  rec.len() == REC && rec[0..16].iter().all(|b| *b == 0)
    && u16::from_ne_bytes([rec[16], rec[17]]) == type_ && u16::from_ne_bytes([rec[18], rec[19]]) == code
    && i32::from_ne_bytes([rec[20], rec[21], rec[22], rec[23]]) == value
}
fn check_batch(r: RawFd, w: RawFd, evs: &Vec<Event>) -> Result<(), String> {
  let mut wr = DevInputWriter { fd: w };
  wr.send(evs).map_err(|e| format!("send failed: {}", e))?;
  let bytes = drain(r);
  if bytes.len() != REC * (evs.len() + 1) { return Err(format!("{} bytes written for {} events, expected {}", bytes.len(), evs.len(), REC * (evs.len() + 1))); }
  for (i, ev) in evs.iter().enumerate() {
    let (k, v) = match ev { Event::Pressed(k) => (*k, 1), Event::Released(k) => (*k, 0) };
    if !record_ok(&bytes[i * REC..(i + 1) * REC], 1, k as u16, v) { return Err(format!("record {} of the batch is not [zero time, EV_KEY, {}, {}]: {:?}", i, k as u16, v, &bytes[i * REC..(i + 1) * REC])); }
  }
  if !record_ok(&bytes[evs.len() * REC..], 0, 0, 0) { return Err(format!("the batch does not end with exactly one all-zero SYN_REPORT record: {:?}", &bytes[evs.len() * REC..])); }
  Ok(())
}
fn put_record(w: RawFd, type_: u16, code: u16, value: i32) {
  let mut rec = [0u8; REC];
  rec[16..18].copy_from_slice(&type_.to_ne_bytes()); rec[18..20].copy_from_slice(&code.to_ne_bytes()); rec[20..24].copy_from_slice(&value.to_ne_bytes());
  write(w, &rec).expect("write");
}

pub fn c18(seed: u64, budget: u64) -> i32 {
  assert!(size_of::<input_event>() == REC);
  let (r, w) = mkpipe();
  let mut fails: Vec<String> = Vec::new();
  let known: Vec<(u16, KeyCode)> = (0u32..=65535).filter_map(|c| { let k: Option<KeyCode> = FromPrimitive::from_u16(c as u16); k.map(|k| (c as u16, k)) }).collect();
  let mut n_one = 0u64; let mut n_batch = 0u64; let mut n_read = 0u64; let mut n_rt = 0u64;
  // writer, one event, all codes
  for (c, k) in &known { for press in [true, false] {
    n_one += 1;
    if *k as u16 != *c { fails.push(format!("{{\"input\":\"code {}\",\"what\":\"from_u16({}) = {:?} whose numeric value is {}\"}}", c, c, k, *k as u16)); }
    let ev = if press { Event::Pressed(*k) } else { Event::Released(*k) };
    if let Err(m) = check_batch(r, w, &vec![ev.clone()]) { if fails.len() < 8 { fails.push(format!("{{\"input\":\"batch [{:?}]\",\"what\":{:?}}}", ev, m)); } }
  } }
  // empty batch and seeded random batches
  if let Err(m) = check_batch(r, w, &vec![]) { fails.push(format!("{{\"input\":\"batch []\",\"what\":{:?}}}", m)); }
  let mut s = seed.wrapping_mul(0x9E3779B97F4A7C15) | 1;
  let mut next = move || { s ^= s << 13; s ^= s >> 7; s ^= s << 17; s };
  let mut sample = String::new();
  for _ in 0..budget {
    let len = (next() % 40) as usize;
    let evs: Vec<Event> = (0..len).map(|_| { let (_, k) = known[(next() % known.len() as u64) as usize]; if next() % 2 == 0 { Event::Pressed(k) } else { Event::Released(k) } }).collect();
    n_batch += 1;
    if sample.is_empty() && len > 2 { sample = format!("{:?}", &evs[..3]); }
    if let Err(m) = check_batch(r, w, &evs) { if fails.len() < 12 { fails.push(format!("{{\"input\":\"batch {:?}\",\"what\":{:?}}}", evs, m)); } }
  }
  // length sweep: one batch of EVERY length 0..=256 and of the lengths 512, 1024, 2000 (2001 records = 48,024 bytes, below the 64 KiB capacity of the pipe), keys
  // cycling through all known codes, press / release alternating with a period coprime to the code count: a writer that treats long batches differently
  // (chunking, a fixed-size buffer, an extra or missing SYN_REPORT from some length on) shows here whatever the seed
  let mut n_len = 0u64; let mut at = 0usize;
  for len in (0usize..=256).chain([512usize, 1024, 2000]) {
    let evs: Vec<Event> = (0..len).map(|j| { let (_, k) = known[(at + j) % known.len()]; if (at + j) % 3 != 1 { Event::Pressed(k) } else { Event::Released(k) } }).collect();
    at += len; n_len += 1;
    if let Err(m) = check_batch(r, w, &evs) { if fails.len() < 14 { fails.push(format!("{{\"input\":\"length-sweep batch of {} events starting {:?}\",\"what\":{:?}}}", len, &evs[..len.min(3)], m)); } }
  }
  // reader: a foreign record followed by a valid one
  let mut rd = DevInputReader { fd: r };
  let types: [u16; 7] = [0, 1, 2, 3, 4, 17, 0xffff];
  let values: [i32; 7] = [-1, 0, 1, 2, 3, 255, i32::MAX];
  let mut codes: Vec<u16> = known.iter().map(|(c, _)| *c).collect();
  for c in [0u16, 84, 239, 249, 600, 767, 768, 1000, 32767, 65535] { if !codes.contains(&c) { codes.push(c); } }
  for t in types.iter() { for v in values.iter() { for c in codes.iter() {
    n_read += 1;
    put_record(w, *t, *c, *v);
    put_record(w, 1, 30, 1);   // A pressed
    let k: Option<KeyCode> = FromPrimitive::from_u16(*c);
    let want_first = *t == 1 && (*v == 0 || *v == 1) && k.is_some();
    let got = rd.next();
    let want = if want_first { if *v == 1 { Event::Pressed(k.unwrap()) } else { Event::Released(k.unwrap()) } } else { Event::Pressed(KeyCode::A) };
    match got { Ok(e) if e == want => {}, other => { if fails.len() < 16 { fails.push(format!("{{\"input\":\"record type={} code={} value={}\",\"what\":\"reader returned {:?}, expected {:?}\"}}", t, c, v, other, want)); } } }
    drain(r);
  } } }
  // round trip: what the writer writes, the reader reads back; the SYN record is skipped and then the pipe is empty
  for (c, k) in &known { for press in [true, false] {
    n_rt += 1;
    let ev = if press { Event::Pressed(*k) } else { Event::Released(*k) };
    let mut wr = DevInputWriter { fd: w };
    wr.send(&vec![ev.clone()]).expect("send");
    match rd.next() { Ok(e) if e == ev => {}, other => { if fails.len() < 20 { fails.push(format!("{{\"input\":\"round trip of code {}\",\"what\":\"reader returned {:?} for {:?}\"}}", c, other, ev)); } } }
    match rd.next() { Err(_) => {}, Ok(e) => { if fails.len() < 20 { fails.push(format!("{{\"input\":\"round trip of code {}\",\"what\":\"a second event {:?} was read after {:?}\"}}", c, e, ev)); } } }
  } }
  println!("{{\"known_codes\":{},\"one_event_batches\":{},\"random_batches\":{},\"length_sweep\":{},\"reader_records\":{},\"round_trips\":{},\"sample\":{:?},\"failures\":[{}]}}",
    known.len(), n_one, n_batch, n_len, n_read, n_rt, sample, fails.join(","));
  if fails.is_empty() { 0 } else { 1 }
}


// constructors for the real-driver probe of the event loop (harness/src/loop_probe.rs): reader / writer on given file descriptors
pub fn probe_reader_on(fd: RawFd) -> DevInputReader { DevInputReader { fd } }
pub fn probe_writer_on(fd: RawFd) -> DevInputWriter { DevInputWriter { fd } }
