// included inside `mod key_transforms_n2` next to the N2-normalised text of key_transforms.rs
pub fn state_string(m: &Mapper) -> String { format!("{:?}", m.state) }
