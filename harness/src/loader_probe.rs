// Witness search / replay for the converter properties (C13, C14) on the real load path:
//   JSON text -> serde_json::Value -> layout_parsing_formatting::parse_layout_from_json -> fancy_layout_interpreting::convert
//   (exactly what layout_loading::load_layout_from_file does after reading the file) -> Mapper::for_layout -> step
use crate::keys::{KeyCode, Event, Layout, Mapping, Repeat};
use std::collections::BTreeSet;

pub struct Rng(pub u64);
impl Rng { pub fn next(&mut self) -> u64 { self.0 ^= self.0 << 13; self.0 ^= self.0 >> 7; self.0 ^= self.0 << 17; self.0 } pub fn below(&mut self, n: usize) -> usize { (self.next() % (n as u64)) as usize } }

pub fn load(text: &str) -> Result<Layout, String> {
  let v: serde_json::Value = serde_json::from_str(text).map_err(|e| format!("{}", e))?;
  crate::fancy_layout_interpreting::convert(&crate::layout_parsing_formatting::parse_layout_from_json(&v)?)
}

const KEYS: [&str; 8] = ["A", "B", "C", "LEFTSHIFT", "RIGHTSHIFT", "CAPSLOCK", "TAB", "Q"];
const EV_KEYS: [KeyCode; 9] = [KeyCode::A, KeyCode::B, KeyCode::C, KeyCode::LEFTSHIFT, KeyCode::RIGHTSHIFT, KeyCode::CAPSLOCK, KeyCode::TAB, KeyCode::Q, KeyCode::E];

fn gen_repeat(r: &mut Rng, row: bool) -> String {
  match r.below(6) {
    0 => ",\"repeat\":\"Disabled\"".to_string(),
    1 => ",\"repeat\":\"Normal\"".to_string(),
    2 => format!(",\"repeat\":{{\"Special\":{{\"keys\":{},\"delay_ms\":{},\"interval_ms\":{}}}}}",
                 if row { format!("{{\"letters\":\"{}\"}}", ["ab", "a", "abcdefghijklmnop", ""][r.below(4)]) } else { format!("[\"{}\",\"{}\"]", KEYS[r.below(8)], KEYS[r.below(8)]) },
                 [100i64, 0, -5, 4294967296, 30][r.below(5)], [30i64, 0, -1, 5][r.below(4)]),
    _ => String::new(),
  }
}
fn gen_keylist(r: &mut Rng, aliases: &[&str], max: usize) -> String {
  let n = r.below(max + 1);
  let mut v: Vec<String> = Vec::new();
  for _ in 0..n { if !aliases.is_empty() && r.below(3) == 0 { v.push(format!("\"{}\"", aliases[r.below(aliases.len())])); } else { v.push(format!("\"{}\"", KEYS[r.below(8)])); } }
  format!("[{}]", v.join(","))
}
/// a random layout program in JSON: alias definitions, single / row / repeat-only mappings, with duplicates, undefined aliases, over-long rows, extreme numbers
pub fn gen_json(r: &mut Rng) -> String {
  let aliases = ["@x", "@y", "@undefined"];
  let mut ms: Vec<String> = Vec::new();
  for a in &aliases[..2] { for _ in 0..r.below(3) { ms.push(format!("{{\"from\":{},\"to\":\"{}\"}}", if r.below(2) == 0 { format!("\"{}\"", KEYS[r.below(8)]) } else { gen_keylist(r, &[], 2) }, a)); } }
  for _ in 0..(1 + r.below(3)) {
    match r.below(4) {
      0 => ms.push(format!("{{\"from\":{},\"to\":{}{}{}}}", gen_keylist(r, &aliases, 3), gen_keylist(r, &aliases, 3), gen_repeat(r, false),
                           if r.below(3) == 0 { format!(",\"absorbing\":{}", gen_keylist(r, &aliases, 2)) } else { String::new() })),
      1 => ms.push(format!("{{\"from\":{},\"repeat\":\"{}\"}}", gen_keylist(r, &aliases, 3), ["Disabled", "Normal"][r.below(2)])),
      2 => { let rows = ["`", "1", "Q", "A", "Z", "q", "X"]; let letters = ["abc", "a b", "ABCDEFGHIJKLMNOPQRST", "é", "", "~!@"];
             let mods = if r.below(2) == 0 { String::new() } else { format!("\"{}\",", ["@x", "LEFTSHIFT", "RIGHTSHIFT", "@undefined"][r.below(4)]) };
             ms.push(format!("{{\"from\":[{}{{\"row\":\"{}\"}}],\"to\":[{}{{\"letters\":\"{}\"}}]{}}}", mods, rows[r.below(7)], if r.below(3) == 0 { "\"@x\"," } else { "" }, letters[r.below(6)], gen_repeat(r, true))); },
      _ => ms.push(format!("{{\"from\":\"{}\",\"to\":\"{}\"}}", KEYS[r.below(8)], KEYS[r.below(8)])),
    }
  }
  format!("{{\"mappings\":[{}]}}", ms.join(","))
}

/// C14 on one input: Ok(()) unless something panics; Err(description) names where
pub fn check_c14(text: &str, seed: u64) -> Result<(), String> {
  let t = text.to_string();
  let loaded = std::panic::catch_unwind(move || load(&t));
  let layout = match loaded { Err(_) => return Err("loading the layout panicked".to_string()), Ok(Err(_msg)) => return Ok(()), Ok(Ok(l)) => l };
  let l2 = layout.clone();
  let ran = std::panic::catch_unwind(move || {
    let mut m = crate::key_transforms::Mapper::for_layout(&l2);
    let mut r = Rng(seed | 1);
    for _ in 0..30 { let k = EV_KEYS[r.below(EV_KEYS.len())]; let e = if r.below(2) == 0 { Event::Pressed(k) } else { Event::Released(k) }; m.step(e); }
    m.release_all();
  });
  match ran { Ok(()) => Ok(()), Err(_) => Err(format!("loading accepted the layout ({} mappings) but installing it in the mapper / driving it with key events panicked", layout.mappings.len())) }
}

/// C13, combination clause: a single mapping whose trigger has n alias modifiers (d_i single-key definitions each) must expand to exactly the
/// cartesian product, each combination once, output-side aliases replaced by the trigger-side choice, in little-endian counting order
pub fn check_c13(defs: &Vec<Vec<KeyCode>>, key: KeyCode, out: KeyCode) -> Result<(), String> {
  let names = ["@p", "@q", "@r", "@s"];
  let mut ms: Vec<String> = Vec::new();
  for (i, d) in defs.iter().enumerate() { for k in d { ms.push(format!("{{\"from\":\"{:?}\",\"to\":\"{}\"}}", k, names[i])); } }
  let from: Vec<String> = (0..defs.len()).map(|i| format!("\"{}\"", names[i])).chain(std::iter::once(format!("\"{:?}\"", key))).collect();
  let to: Vec<String> = (0..defs.len()).rev().map(|i| format!("\"{}\"", names[i])).chain(std::iter::once(format!("\"{:?}\"", out))).collect();
  ms.push(format!("{{\"from\":[{}],\"to\":[{}]}}", from.join(","), to.join(",")));
  let text = format!("{{\"mappings\":[{}]}}", ms.join(","));
  let layout = load(&text).map_err(|e| format!("the layout was rejected: {}", e))?;
  // hand-written expansion
  let mut want: Vec<Mapping> = Vec::new();
  let total: usize = defs.iter().map(|d| d.len()).product();
  for n in 0..total {
    let mut rest = n; let mut choice: Vec<KeyCode> = Vec::new();
    for d in defs { choice.push(d[rest % d.len()]); rest /= d.len(); }
    let mut f = choice.clone(); f.push(key);
    let mut t: Vec<KeyCode> = choice.iter().rev().cloned().collect(); t.push(out);
    want.push(Mapping { from: f, to: t, repeat: Repeat::Normal, absorbing: vec![] });
  }
  // alias definitions that are not a single modifier key also yield a mapping of their own (convert_alias); with single modifier keys they do not
  let got: Vec<&Mapping> = layout.mappings.iter().filter(|m| m.from.len() == defs.len() + 1).collect();
  if got.len() != want.len() { return Err(format!("{} mappings for {} combinations of alias definitions", got.len(), want.len())); }
  for (i, w) in want.iter().enumerate() { if got[i] != w { return Err(format!("combination {}: got {:?} -> {:?}, the hand-written expansion has {:?} -> {:?}", i, got[i].from, got[i].to, w.from, w.to)); } }
  Ok(())
}

pub fn explore(prop: &str, secs: f64, seed: u64) -> i32 {
  let t0 = std::time::Instant::now();
  let mut r = Rng(seed.wrapping_mul(0x9E3779B97F4A7C15) | 1);
  let mut n: u64 = 0;
  std::panic::set_hook(Box::new(|_| {}));
  let mods = [KeyCode::LEFTSHIFT, KeyCode::RIGHTSHIFT, KeyCode::LEFTCTRL, KeyCode::RIGHTCTRL, KeyCode::LEFTALT, KeyCode::RIGHTALT, KeyCode::LEFTMETA, KeyCode::RIGHTMETA];
  while t0.elapsed().as_secs_f64() < secs {
    for _ in 0..200 {
      n += 1;
      if prop == "C14" {
        let text = gen_json(&mut r); let s = r.next();
        if let Err(m) = check_c14(&text, s) {
          println!("WITNESS {{\"property\":\"C14\",\"json\":{:?},\"event_seed\":{},\"what\":{:?},\"cases_tried\":{}}}", text, s, m, n);
          return 1;
        }
      } else if prop == "C13" {
        let na = 1 + r.below(4);
        let mut pool: Vec<KeyCode> = mods.to_vec();
        let mut defs: Vec<Vec<KeyCode>> = Vec::new();
        for _ in 0..na { let d = 1 + r.below(3); let mut v = Vec::new(); for _ in 0..d { if pool.is_empty() { break; } v.push(pool.remove(r.below(pool.len()))); } if !v.is_empty() { defs.push(v); } }
        if let Err(m) = check_c13(&defs, KeyCode::Q, KeyCode::ESC) {
          println!("WITNESS {{\"property\":\"C13\",\"defs\":{:?},\"what\":{:?},\"cases_tried\":{}}}", format!("{:?}", defs), m, n);
          return 1;
        }
      }
    }
  }
  println!("NO-WITNESS cases_tried={}", n);
  0
}

pub fn replay(prop: &str, text: &str) -> i32 {
  let v: serde_json::Value = serde_json::from_str(text).expect("json");
  let c = if v.get("counterexample").is_some() { v["counterexample"].clone() } else { v };
  if prop == "C14" {
    let j = c["json"].as_str().unwrap();
    println!("layout file: {}", j);
    match check_c14(j, c["event_seed"].as_u64().unwrap_or(1)) { Ok(()) => { println!("NOT-REPRODUCED: loading rejects the file or the accepted layout runs without panicking"); 0 }, Err(m) => { println!("REPRODUCED: {}", m); 1 } }
  } else {
    // defs printed with {:?}: [[LEFTSHIFT, RIGHTSHIFT], [LEFTCTRL]]
    let s = c["defs"].as_str().unwrap();
    let defs: Vec<Vec<KeyCode>> = s.trim_matches(|ch| ch == '[' || ch == ']').split("], [").map(|g| g.split(", ").filter(|x| !x.is_empty()).map(|x| { use std::str::FromStr; KeyCode::from_str(x.trim_matches(|ch| ch == '[' || ch == ']')).unwrap() }).collect()).collect();
    println!("alias definitions: {:?}", defs);
    match check_c13(&defs, KeyCode::Q, KeyCode::ESC) { Ok(()) => { println!("NOT-REPRODUCED: the expansion equals the hand-written one"); 0 }, Err(m) => { println!("REPRODUCED: {}", m); 1 } }
  }
}
