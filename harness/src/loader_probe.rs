// Witness search / replay for the converter properties (C13, C14) on the real load path:
//   JSON text -> serde_json::Value -> layout_parsing_formatting::parse_layout_from_json -> fancy_layout_interpreting::convert
//   (exactly what layout_loading::load_layout_from_file does after reading the file) -> Mapper::for_layout -> step
use crate::keys::{KeyCode, Event, Layout, Mapping, Repeat};
use std::collections::BTreeSet;

pub struct Rng(pub u64);
impl Rng { pub fn next(&mut self) -> u64 { self.0 ^= self.0 << 13; self.0 ^= self.0 >> 7; self.0 ^= self.0 << 17; self.0 } pub fn below(&mut self, n: usize) -> usize { (self.next() % (n as u64)) as usize } }

pub fn load(text: &str) -> Result<Layout, String> {
  let v: serde_json::Value = serde_json::from_str(text).map_err(|e| format!("{}", e))?;
  crate::fancy_layout_interpreting::convert(&crate::layout_parsing_formatting::parse_layout_from_json(&v)?)
}

const KEYS: [&str; 8] = ["A", "B", "C", "LEFTSHIFT", "RIGHTSHIFT", "CAPSLOCK", "TAB", "Q"];
const EV_KEYS: [KeyCode; 9] = [KeyCode::A, KeyCode::B, KeyCode::C, KeyCode::LEFTSHIFT, KeyCode::RIGHTSHIFT, KeyCode::CAPSLOCK, KeyCode::TAB, KeyCode::Q, KeyCode::E];

fn gen_repeat(r: &mut Rng, row: bool) -> String {
  match r.below(6) {
    0 => ",\"repeat\":\"Disabled\"".to_string(),
    1 => ",\"repeat\":\"Normal\"".to_string(),
    2 => format!(",\"repeat\":{{\"Special\":{{\"keys\":{},\"delay_ms\":{},\"interval_ms\":{}}}}}",
                 if row { format!("{{\"letters\":\"{}\"}}", ["ab", "a", "abcdefghijklmnop", ""][r.below(4)]) } else { format!("[\"{}\",\"{}\"]", KEYS[r.below(8)], KEYS[r.below(8)]) },
                 [100i64, 0, -5, 4294967296, 30][r.below(5)], [30i64, 0, -1, 5][r.below(4)]),
    _ => String::new(),
  }
}
fn gen_keylist(r: &mut Rng, aliases: &[&str], max: usize) -> String {
  let n = r.below(max + 1);
  let mut v: Vec<String> = Vec::new();
  for _ in 0..n { if !aliases.is_empty() && r.below(3) == 0 { v.push(format!("\"{}\"", aliases[r.below(aliases.len())])); } else { v.push(format!("\"{}\"", KEYS[r.below(8)])); } }
  format!("[{}]", v.join(","))
}
/// a random layout program in JSON: alias definitions, single / row / repeat-only mappings, with duplicates, undefined aliases, over-long rows, extreme numbers
pub fn gen_json(r: &mut Rng) -> String {
  let aliases = ["@x", "@y", "@undefined"];
  let mut ms: Vec<String> = Vec::new();
  for a in &aliases[..2] { for _ in 0..r.below(3) { ms.push(format!("{{\"from\":{},\"to\":\"{}\"}}", if r.below(2) == 0 { format!("\"{}\"", KEYS[r.below(8)]) } else { gen_keylist(r, &[], 2) }, a)); } }
  for _ in 0..(1 + r.below(3)) {
    match r.below(4) {
      0 => ms.push(format!("{{\"from\":{},\"to\":{}{}{}}}", gen_keylist(r, &aliases, 3), gen_keylist(r, &aliases, 3), gen_repeat(r, false),
                           if r.below(3) == 0 { format!(",\"absorbing\":{}", gen_keylist(r, &aliases, 2)) } else { String::new() })),
      1 => ms.push(format!("{{\"from\":{},\"repeat\":\"{}\"}}", gen_keylist(r, &aliases, 3), ["Disabled", "Normal"][r.below(2)])),
      2 => { let rows = ["`", "1", "Q", "A", "Z", "q", "X"]; let letters = ["abc", "a b", "ABCDEFGHIJKLMNOPQRST", "é", "", "~!@", "a b c d e f", "          x", "abcdefghij  k", "q w e r t y u", " a  b  c  d  e", "abcdefghijk l", "            m"];
             let mods = if r.below(2) == 0 { String::new() } else { format!("\"{}\",", ["@x", "LEFTSHIFT", "RIGHTSHIFT", "@undefined"][r.below(4)]) };
             ms.push(format!("{{\"from\":[{}{{\"row\":\"{}\"}}],\"to\":[{}{{\"letters\":\"{}\"}}]{}}}", mods, rows[r.below(7)], if r.below(3) == 0 { "\"@x\"," } else { "" }, letters[r.below(13)], gen_repeat(r, true))); },
      _ => ms.push(format!("{{\"from\":\"{}\",\"to\":\"{}\"}}", KEYS[r.below(8)], KEYS[r.below(8)])),
    }
  }
  format!("{{\"mappings\":[{}]}}", ms.join(","))
}


// structure-aware mutation of a layout (C14's quantifier: wrong types, missing or extra fields, empty arrays, repeated keys, misplaced aliases, extreme numbers)
fn rand_atom(r: &mut Rng) -> serde_json::Value { use serde_json::json; match r.below(16) {
  0 => json!(null), 1 => json!(true), 2 => json!(0), 3 => json!(-1), 4 => json!(1e300), 5 => json!(18446744073709551615u64), 6 => json!(""), 7 => json!([]), 8 => json!({}), 9 => json!([[]]),
  10 => json!("@x"), 11 => json!("NOSUCHKEY"), 12 => json!({"row": "Q"}), 13 => json!({"letters": "a  b"}), 14 => json!({"row": "nosuchrow"}), _ => json!(KEYS[r.below(8)]) } }
fn rand_letters(r: &mut Rng) -> String {
  let alpha: Vec<char> = "abcdexyzABC12;,./~! \u{e9}".chars().collect();
  let n = r.below(18); let spaces = r.below(4);
  (0..n).map(|_| if r.below(4) < spaces { ' ' } else { alpha[r.below(alpha.len())] }).collect()
}
// arbitrary text: up to 80 characters of mixed UTF-8 widths (1 to 4 bytes), so that every byte offset is, for some draw, not a character boundary
fn rand_text(r: &mut Rng) -> String {
  let alpha: Vec<char> = "aZ_9 @\"\\\u{e9}\u{df}\u{65e5}\u{672c}\u{1f600}\u{0}\n".chars().collect();
  let n = [0, 1, 3, 9, 17, 33, 80][r.below(7)] + r.below(3);
  (0..n).map(|_| alpha[r.below(alpha.len())]).collect()
}
fn count_nodes(v: &serde_json::Value) -> usize { 1 + match v { serde_json::Value::Array(a) => a.iter().map(count_nodes).sum::<usize>(), serde_json::Value::Object(o) => o.values().map(count_nodes).sum::<usize>(), _ => 0 } }
fn mutate_at(v: &mut serde_json::Value, idx: &mut usize, r: &mut Rng) -> bool {
  use serde_json::Value as V;
  if *idx == 0 {
    let op = r.below(6);
    match v {
      V::Array(a) if op < 4 && !a.is_empty() => { let i = r.below(a.len()); match op { 0 => { let e = a[i].clone(); a.insert(r.below(a.len() + 1), e); }, 1 => { a.remove(i); }, 2 => { a.clear(); }, _ => { let j = r.below(a.len()); a.swap(i, j); } } },
      V::Object(o) if op < 4 && !o.is_empty() => { let keys: Vec<String> = o.keys().cloned().collect(); let k = keys[r.below(keys.len())].clone(); match op {
        0 => { o.remove(&k); }, 1 => { o.insert(["extra", "from", "to", "repeat", "absorbing", "row", "letters", "Special"][r.below(8)].to_string(), rand_atom(r)); },
        2 => { if let Some(x) = o.remove(&k) { o.insert(["From", "to", "from", "letters", "row"][r.below(5)].to_string(), x); } }, _ => { let x = rand_atom(r); o.insert(k, x); } } },
      V::String(s) if op < 4 => { *s = match op { 0 => if r.below(2) == 0 { rand_letters(r) } else { rand_text(r) }, 1 => ["@x", "@y", "@undefined", "", " ", "\u{0}", "@", "Q", "q", "disabled", "NORMAL"][r.below(11)].to_string(), 2 => KEYS[r.below(8)].to_string(), _ => format!("{}{}", s, s) }; },
      V::Number(_) if op < 4 => { *v = [serde_json::json!(-1), serde_json::json!(0), serde_json::json!(4294967296u64), serde_json::json!(0.5), serde_json::json!(i64::MIN), serde_json::json!(u64::MAX)][r.below(6)].clone(); },
      _ => { *v = rand_atom(r); },
    }
    return true;
  }
  *idx -= 1;
  match v {
    V::Array(a) => { for e in a.iter_mut() { if mutate_at(e, idx, r) { return true; } } false },
    V::Object(o) => { for (_, e) in o.iter_mut() { if mutate_at(e, idx, r) { return true; } } false },
    _ => false,
  }
}
pub fn gen_mutated_json(r: &mut Rng) -> String {
  let base = match r.below(3) { 0 => gen_json(r), 1 => program_json(&gen_program(r)), _ => gen_json(r).replace("\"letters\":\"abc\"", &format!("\"letters\":{:?}", rand_letters(r))) };
  let mut v: serde_json::Value = match serde_json::from_str(&base) { Ok(v) => v, Err(_) => return base };
  for _ in 0..(1 + r.below(3)) { let n = count_nodes(&v); let mut i = r.below(n); mutate_at(&mut v, &mut i, r); }
  serde_json::to_string(&v).unwrap()
}

/// a key history that fires every Special-repeat mapping of the layout: its trigger keys pressed in listed order, then released; then a few random events
fn special_history(l: &Layout, seed: u64) -> Vec<Event> {
  let mut r = Rng(seed | 1); let mut h: Vec<Event> = Vec::new(); let mut down: Vec<KeyCode> = Vec::new();
  for m in l.mappings.iter() { if let Repeat::Special { .. } = m.repeat { for k in &m.from { if !down.contains(k) { down.push(*k); h.push(Event::Pressed(*k)); } } while let Some(k) = down.pop() { h.push(Event::Released(k)); } } }
  for _ in 0..6 { let k = EV_KEYS[r.below(EV_KEYS.len())]; h.push(if r.below(2) == 0 { Event::Pressed(k) } else { Event::Released(k) }); }
  h
}
/// C11 through the loader ("the loop waits for at most delay_ms ... once per interval_ms"): on a layout FILE that loading accepts, the longest time-out the real
/// loop asks for must not exceed the largest delay / interval any Special repeat of the file names (1 ms at least: an overdue tick waits 1 ms)
pub fn check_c11_file(text: &str, seed: u64) -> Result<(), String> {
  let layout = match std::panic::catch_unwind({ let t = text.to_string(); move || load(&t) }) { Ok(Ok(l)) => l, _ => return Ok(()) };
  let mut bound_ms: i64 = 1; let mut any = false;
  for m in &layout.mappings { if let Repeat::Special { delay_ms, interval_ms, .. } = &m.repeat { any = true; bound_ms = bound_ms.max(*delay_ms as i64).max(*interval_ms as i64); } }
  if !any { return Ok(()); }
  let l2 = layout.clone();
  let ran = std::panic::catch_unwind(move || { let h = special_history(&l2, seed); crate::remapping_loop::run_plain(&l2, &h) });
  match ran {
    Ok((_, Some(t))) if t > std::time::Duration::from_millis(bound_ms as u64) => Err(format!("the loop asked to wait {:?}; the longest delay_ms / interval_ms in the accepted file is {} ms (repeat values of the loaded layout: {:?})", t, bound_ms,
      layout.mappings.iter().filter_map(|m| if let Repeat::Special { delay_ms, interval_ms, .. } = &m.repeat { Some((*delay_ms, *interval_ms)) } else { None }).collect::<Vec<_>>())),
    _ => Ok(()),
  }
}

/// C14 on one input: Ok(()) unless something panics; Err(description) names where
pub fn check_c14(text: &str, seed: u64) -> Result<(), String> {
  let t = text.to_string();
  let loaded = std::panic::catch_unwind(move || load(&t));
  let layout = match loaded { Err(_) => return Err("loading the layout panicked".to_string()), Ok(Err(_msg)) => return Ok(()), Ok(Ok(l)) => l };
  let l2 = layout.clone();
  let ran = std::panic::catch_unwind(move || {
    let mut m = crate::key_transforms::Mapper::for_layout(&l2);
    let mut r = Rng(seed | 1);
    for _ in 0..30 { let k = EV_KEYS[r.below(EV_KEYS.len())]; let e = if r.below(2) == 0 { Event::Pressed(k) } else { Event::Released(k) }; m.step(e); }
    m.release_all();
  });
  if ran.is_err() { return Err(format!("loading accepted the layout ({} mappings) but installing it in the mapper / driving it with key events panicked", layout.mappings.len())); }
  // ... and through the real per-device loop (plain driver): the repeat values of an accepted layout enter its wake-up arithmetic
  if layout.mappings.iter().any(|m| matches!(m.repeat, Repeat::Special { .. })) {
    let l3 = layout.clone();
    let ran = std::panic::catch_unwind(move || { let h = special_history(&l3, seed); crate::remapping_loop::run_plain(&l3, &h) });
    if ran.is_err() { return Err(format!("loading accepted the layout ({} mappings) but running it through the per-device loop panicked", layout.mappings.len())); }
  }
  Ok(())
}

/// C13, combination clause: a single mapping whose trigger has n alias modifiers (d_i single-key definitions each) must expand to exactly the
/// cartesian product, each combination once, output-side aliases replaced by the trigger-side choice, in little-endian counting order
pub fn check_c13(defs: &Vec<Vec<KeyCode>>, key: KeyCode, out: KeyCode) -> Result<(), String> {
  let names = ["@p", "@q", "@r", "@s"];
  let mut ms: Vec<String> = Vec::new();
  for (i, d) in defs.iter().enumerate() { for k in d { ms.push(format!("{{\"from\":\"{:?}\",\"to\":\"{}\"}}", k, names[i])); } }
  let from: Vec<String> = (0..defs.len()).map(|i| format!("\"{}\"", names[i])).chain(std::iter::once(format!("\"{:?}\"", key))).collect();
  let to: Vec<String> = (0..defs.len()).rev().map(|i| format!("\"{}\"", names[i])).chain(std::iter::once(format!("\"{:?}\"", out))).collect();
  ms.push(format!("{{\"from\":[{}],\"to\":[{}]}}", from.join(","), to.join(",")));
  let text = format!("{{\"mappings\":[{}]}}", ms.join(","));
  let layout = load(&text).map_err(|e| format!("the layout was rejected: {}", e))?;
  // hand-written expansion
  let mut want: Vec<Mapping> = Vec::new();
  let total: usize = defs.iter().map(|d| d.len()).product();
  for n in 0..total {
    let mut rest = n; let mut choice: Vec<KeyCode> = Vec::new();
    for d in defs { choice.push(d[rest % d.len()]); rest /= d.len(); }
    let mut f = choice.clone(); f.push(key);
    let mut t: Vec<KeyCode> = choice.iter().rev().cloned().collect(); t.push(out);
    want.push(Mapping { from: f, to: t, repeat: Repeat::Normal, absorbing: vec![] });
  }
  // alias definitions that are not a single modifier key also yield a mapping of their own (convert_alias); with single modifier keys they do not
  let got: Vec<&Mapping> = layout.mappings.iter().filter(|m| m.from.len() == defs.len() + 1).collect();
  if got.len() != want.len() { return Err(format!("{} mappings for {} combinations of alias definitions", got.len(), want.len())); }
  for (i, w) in want.iter().enumerate() { if got[i] != w { return Err(format!("combination {}: got {:?} -> {:?}, the hand-written expansion has {:?} -> {:?}", i, got[i].from, got[i].to, w.from, w.to)); } }
  Ok(())
}


// ---------------------------------------------------------------------------------------------------------------------------------
// C13, whole-program oracle: a random layout program (alias definitions, single / row / repeat-only mappings with alias and plain
// modifiers) is written as JSON, loaded through the real path, and compared with its expansion WRITTEN OUT BY HAND here, independently
// of the converter: one mapping per non-space letter and per combination of alias definitions (little-endian counting order), the Shift a
// US-QWERTY keyboard needs (right Shift if the trigger contains right Shift), output-side aliases replaced by the trigger-side choice,
// source order kept, repeat-only entries applied by trigger set afterwards.
#[derive(Clone, Debug)] pub enum PMod { Alias(usize), Key(KeyCode) }
#[derive(Clone, Debug)] pub enum PItem {
  AliasDef { name: usize, keys: Vec<KeyCode> },
  Single { mods: Vec<PMod>, key: KeyCode, to_mods: Vec<PMod>, to_key: KeyCode, disabled: bool, x: PExtra },
  Row { mods: Vec<PMod>, row: usize, to_mods: Vec<PMod>, letters: String, disabled: bool, x: PExtra },
  RepeatOnly { mods: Vec<PMod>, key: KeyCode, disabled: bool, x: PExtra },
}
/// the other repeat form and the absorbing list: a Special repeat (modifiers, then a key - or, for a row, letters by column) overrides `disabled`
#[derive(Clone, Debug, Default)] pub struct PExtra { pub special: Option<PSpec>, pub absorbing: Vec<PMod> }
#[derive(Clone, Debug)] pub struct PSpec { pub mods: Vec<PMod>, pub key: KeyCode, pub letters: String, pub delay: i32, pub interval: i32 }
thread_local! { pub static STYLE: std::cell::Cell<u64> = std::cell::Cell::new(0); }
/// equivalent spellings (C13 last clause): a non-zero style makes the writer choose, site by site, between a one-element array and the bare element
/// (from, to, Special keys, absorbing) and between the cases of row / repeat names; style 0 is the canonical spelling used before
fn sbit(st: &mut u64) -> bool { if *st == 0 { return false; } *st ^= *st << 13; *st ^= *st >> 7; *st ^= *st << 17; (*st >> 33) & 1 == 1 }
fn wrap(items: Vec<String>, st: &mut u64) -> String { if items.len() == 1 && sbit(st) { items[0].clone() } else { format!("[{}]", items.join(",")) } }
fn casev(name: &str, st: &mut u64) -> String { match (sbit(st), sbit(st)) { (false, _) => name.to_string(), (true, false) => name.to_lowercase(), (true, true) => name.to_uppercase() } }
fn jrepeat(x: &PExtra, disabled: bool, row: bool, always: bool, st: &mut u64) -> String {
  let mut s = String::new();
  match &x.special {
    Some(sp) => { let mut k = jmods(&sp.mods); k.push(if row { format!("{{\"letters\":{}}}", serde_json::to_string(&sp.letters).unwrap()) } else { format!("\"{:?}\"", sp.key) });
                  s.push_str(&format!(",\"repeat\":{{\"Special\":{{\"keys\":{},\"delay_ms\":{},\"interval_ms\":{}}}}}", wrap(k, st), sp.delay, sp.interval)); },
    None => { if disabled { s.push_str(&format!(",\"repeat\":\"{}\"", casev("Disabled", st))); } else if always { s.push_str(&format!(",\"repeat\":\"{}\"", casev("Normal", st))); } },
  }
  if !x.absorbing.is_empty() { s.push_str(&format!(",\"absorbing\":{}", wrap(jmods(&x.absorbing), st))); }
  s
}
const ANAMES: [&str; 3] = ["@p", "@q", "@r"];
const ROWNAMES: [&str; 5] = ["`", "1", "Q", "A", "Z"];
fn qrows() -> Vec<(&'static str, &'static str, Vec<KeyCode>)> { use KeyCode::*; vec![
  ("`1234567890-=", "~!@#$%^&*()_+", vec![GRAVE, K1, K2, K3, K4, K5, K6, K7, K8, K9, K0, MINUS, EQUAL]),
  ("qwertyuiop[]\\", "QWERTYUIOP{}|", vec![Q, W, E, R, T, Y, U, I, O, P, LEFTBRACE, RIGHTBRACE, BACKSLASH]),
  ("asdfghjkl;'", "ASDFGHJKL:\"", vec![A, S, D, F, G, H, J, K, L, SEMICOLON, APOSTROPHE]),
  ("zxcvbnm,./", "ZXCVBNM<>?", vec![Z, X, C, V, B, N, M, COMMA, DOT, SLASH]) ] }
fn qchar(c: char) -> Option<(bool, KeyCode)> {
  for (plain, shifted, keys) in qrows() { if let Some(i) = plain.chars().position(|x| x == c) { return Some((false, keys[i])); } if let Some(i) = shifted.chars().position(|x| x == c) { return Some((true, keys[i])); } }
  None
}
fn qrow(i: usize) -> Vec<KeyCode> { let r = qrows(); match i { 0 => r[0].2.clone(), 1 => r[0].2[1..].to_vec(), 2 => r[1].2[..12].to_vec(), 3 => r[2].2.clone(), _ => r[3].2.clone() } }
fn is_mod_key(k: KeyCode) -> bool { use KeyCode::*; matches!(k, LEFTSHIFT | RIGHTSHIFT | LEFTALT | RIGHTALT | LEFTCTRL | RIGHTCTRL | LEFTMETA | RIGHTMETA) }
fn jmods(ms: &Vec<PMod>) -> Vec<String> { ms.iter().map(|m| match m { PMod::Alias(a) => format!("\"{}\"", ANAMES[*a]), PMod::Key(k) => format!("\"{:?}\"", k) }).collect() }
pub fn program_json(p: &Vec<PItem>) -> String {
  let mut st: u64 = STYLE.with(|c| c.get());
  let st = &mut st;
  let mut ms: Vec<String> = Vec::new();
  for it in p { match it {
    PItem::AliasDef { name, keys } => { let f = wrap(keys.iter().map(|k| format!("\"{:?}\"", k)).collect::<Vec<_>>(), st); let t = wrap(vec![format!("\"{}\"", ANAMES[*name])], st);
      ms.push(format!("{{\"from\":{},\"to\":{}}}", f, if t.starts_with('[') { t } else { format!("\"{}\"", ANAMES[*name]) })) },
    PItem::Single { mods, key, to_mods, to_key, disabled, x } => { let mut f = jmods(mods); f.push(format!("\"{:?}\"", key)); let mut t = jmods(to_mods); t.push(format!("\"{:?}\"", to_key));
      ms.push(format!("{{\"from\":{},\"to\":{}{}}}", wrap(f, st), wrap(t, st), jrepeat(x, *disabled, false, false, st))); },
    PItem::Row { mods, row, to_mods, letters, disabled, x } => { let mut f = jmods(mods); f.push(format!("{{\"row\":\"{}\"}}", casev(ROWNAMES[*row], st))); let mut t = jmods(to_mods); t.push(format!("{{\"letters\":{}}}", serde_json::to_string(letters).unwrap()));
      ms.push(format!("{{\"from\":{},\"to\":{}{}}}", wrap(f, st), wrap(t, st), jrepeat(x, *disabled, true, false, st))); },
    PItem::RepeatOnly { mods, key, disabled, x } => { let mut f = jmods(mods); f.push(format!("\"{:?}\"", key)); ms.push(format!("{{\"from\":{}{}}}", wrap(f, st), jrepeat(x, *disabled, false, true, st))); },
  } }
  format!("{{\"mappings\":[{}]}}", ms.join(","))
}
/// the expansion written out by hand; None when the program has no meaning (an undefined alias, an output alias that is not on the trigger side, a letter without key, a row that is too short)
pub fn expand_by_hand(p: &Vec<PItem>) -> Option<Vec<Mapping>> {
  let mut table: Vec<Vec<Vec<KeyCode>>> = vec![Vec::new(); ANAMES.len()];
  for it in p { if let PItem::AliasDef { name, keys } = it { table[*name].push(keys.clone()); } }
  // all combinations for the alias modifiers of a trigger, little-endian counting order; each combination gives the definition number per alias OCCURRENCE
  let combos = |mods: &Vec<PMod>| -> Option<Vec<Vec<usize>>> {
    let occ: Vec<usize> = mods.iter().filter_map(|m| if let PMod::Alias(a) = m { Some(*a) } else { None }).collect();
    for a in &occ { if table[*a].is_empty() { return None; } }
    let total: usize = occ.iter().map(|a| table[*a].len()).product();
    let mut out = Vec::new();
    for n in 0..total { let mut rest = n; let mut c = Vec::new(); for a in &occ { c.push(rest % table[*a].len()); rest /= table[*a].len(); } out.push(c); }
    Some(out)
  };
  let trig = |mods: &Vec<PMod>, c: &Vec<usize>| -> Vec<KeyCode> { let mut j = 0; let mut v = Vec::new(); for m in mods { match m { PMod::Key(k) => v.push(*k), PMod::Alias(a) => { v.extend(table[*a][c[j]].iter()); j += 1; } } } v };
  // output side: the keys chosen for that alias on the trigger side (its last occurrence there)
  let outm = |mods: &Vec<PMod>, tmods: &Vec<PMod>, c: &Vec<usize>| -> Option<Vec<KeyCode>> { let mut v = Vec::new(); for m in tmods { match m { PMod::Key(k) => v.push(*k), PMod::Alias(a) => {
      let mut j = 0; let mut found = None; for tm in mods { if let PMod::Alias(b) = tm { if b == a { found = Some(j); } j += 1; } } v.extend(table[*a][c[found?]].iter()); } } } Some(v) };
  let mut res: Vec<Mapping> = Vec::new();
  // an absorbing list may only name modifiers of the trigger
  let same = |a: &PMod, b: &PMod| match (a, b) { (PMod::Alias(x), PMod::Alias(y)) => x == y, (PMod::Key(x), PMod::Key(y)) => x == y, _ => false };
  for it in p { match it { PItem::Single { mods, x, .. } | PItem::Row { mods, x, .. } => { for a in &x.absorbing { if !mods.iter().any(|m| same(m, a)) { return None; } } }, _ => {} } }
  for it in p { match it {
    PItem::AliasDef { keys, .. } => { if !(keys.len() == 1 && is_mod_key(keys[0])) { res.push(Mapping { from: keys.clone(), to: vec![], repeat: Repeat::Normal, absorbing: vec![] }); } },
    // a Special repeat names its keys like an output: modifiers (aliases stand for the trigger-side choice), then the key
    PItem::Single { mods, key, to_mods, to_key, disabled, x } => { for c in combos(mods)? { let mut f = trig(mods, &c); f.push(*key); let mut t = outm(mods, to_mods, &c)?; t.push(*to_key);
      let repeat = match &x.special { Some(sp) => { let mut k = outm(mods, &sp.mods, &c)?; k.push(sp.key); Repeat::Special { keys: k, delay_ms: sp.delay, interval_ms: sp.interval } }, None => if *disabled { Repeat::Disabled } else { Repeat::Normal } };
      res.push(Mapping { from: f, to: t, repeat, absorbing: outm(mods, &x.absorbing, &c)? }); } },
    // ... and for a row the repeat letters go by column like the output letters: a column without repeat letter (or with a space) repeats normally; more repeat letters than output letters has no meaning
    PItem::Row { mods, row, to_mods, letters, disabled, x } => { let prow = qrow(*row);
      if let Some(sp) = &x.special { if sp.letters.chars().count() > letters.chars().count() { return None; } }
      for c in combos(mods)? { let fm = trig(mods, &c); let tm = outm(mods, to_mods, &c)?; let rs = fm.contains(&KeyCode::RIGHTSHIFT);
      let rm = match &x.special { Some(sp) => Some(outm(mods, &sp.mods, &c)?), None => None };
      for (i, ch) in letters.chars().enumerate() { if i >= prow.len() { return None; } if ch == ' ' { continue; } let (sh, k) = qchar(ch)?;
        let mut f = fm.clone(); f.push(prow[i]); let mut t = tm.clone(); if sh { t.push(if rs { KeyCode::RIGHTSHIFT } else { KeyCode::LEFTSHIFT }); } t.push(k);
        let repeat = match &x.special {
          Some(sp) => match sp.letters.chars().nth(i) { None | Some(' ') => Repeat::Normal, Some(rc) => { let (rsh, rk) = qchar(rc)?; let mut ks = rm.clone().unwrap(); if rsh { ks.push(if rs { KeyCode::RIGHTSHIFT } else { KeyCode::LEFTSHIFT }); } ks.push(rk);
                                                          Repeat::Special { keys: ks, delay_ms: sp.delay, interval_ms: sp.interval } } },
          None => if *disabled { Repeat::Disabled } else { Repeat::Normal } };
        res.push(Mapping { from: f, to: t, repeat, absorbing: outm(mods, &x.absorbing, &c)? }); } } },
    PItem::RepeatOnly { .. } => {},
  } }
  let n_main = res.len();
  let tset = |f: &Vec<KeyCode>| -> (Vec<KeyCode>, KeyCode) { let mut a: Vec<KeyCode> = f[..f.len() - 1].to_vec(); a.sort(); (a, *f.last().unwrap()) };
  for it in p { if let PItem::RepeatOnly { mods, key, disabled, x } = it { for c in combos(mods)? { let mut f = trig(mods, &c); f.push(*key);
    let rp = match &x.special { Some(sp) => { let mut k = outm(mods, &sp.mods, &c)?; k.push(sp.key); Repeat::Special { keys: k, delay_ms: sp.delay, interval_ms: sp.interval } }, None => if *disabled { Repeat::Disabled } else { Repeat::Normal } };
    let mut hit = false; for m in res[..n_main].iter_mut() { if !m.from.is_empty() && tset(&m.from) == tset(&f) { m.repeat = rp.clone(); hit = true; } }
    if !hit { res.push(Mapping { from: f.clone(), to: f, repeat: rp, absorbing: vec![] }); } } } }
  Some(res)
}
fn gen_extra(r: &mut Rng, mods: &Vec<PMod>, keypool: &[KeyCode], row: bool) -> PExtra {
  let mut x = PExtra::default();
  let sub = |r: &mut Rng| -> Vec<PMod> { let mut v: Vec<PMod> = mods.iter().filter(|_| r.below(2) == 0).cloned().collect(); if r.below(8) == 0 { v.push(PMod::Key(KeyCode::RIGHTALT)); } v };
  if r.below(3) == 0 {
    let letters = if row { if r.below(3) == 0 { rand_row_letters(r) } else { ["a", "ab", "x y", "Q", "", "abcd", " ;", "zzzzzz"][r.below(8)].to_string() } } else { String::new() };
    x.special = Some(PSpec { mods: sub(r), key: keypool[r.below(keypool.len())], letters, delay: [0, 100, 250][r.below(3)], interval: [0, 30][r.below(2)] });
  }
  if r.below(4) == 0 { x.absorbing = sub(r); }
  x
}
/// rare shapes: row letters drawn character by character, spaces and characters of two and three bytes included (a letter under a space of the output
/// is never looked up, whatever it is; a count of bytes instead of letters shows only here)
fn rand_row_letters(r: &mut Rng) -> String { let al = ['a', 'b', 'Q', ';', '~', ' ', ' ', ' ', '\u{e9}', '\u{b7}', '\u{20ac}']; (0..r.below(6)).map(|_| al[r.below(al.len())]).collect() }
pub fn all_key_codes() -> Vec<KeyCode> { (0u32..1024).filter_map(|c| { let k: Option<KeyCode> = num_traits::FromPrimitive::from_u16(c as u16); k }).collect() }
pub fn gen_program(r: &mut Rng) -> Vec<PItem> {
  use KeyCode::*;
  let mut modpool = [LEFTSHIFT, RIGHTSHIFT, LEFTCTRL, RIGHTCTRL, LEFTALT, RIGHTALT, LEFTMETA, RIGHTMETA, CAPSLOCK, TAB];
  let mut keypool = [A, B, C, D, E, F, G, H, ESC, SPACE];
  // rare shapes: one program in four draws part of its keys from the WHOLE key-code range, including pairs of codes that agree modulo 256 / 512
  // (a change that narrows a key code - a table indexed by `code as u8`, a bit set of 256 entries - treats such keys as one)
  if r.below(4) == 0 {
    let all = all_key_codes();
    let twins: Vec<(KeyCode, KeyCode)> = all.iter().flat_map(|a| all.iter().filter(move |b| { let (x, y) = (*a as i32, **b as i32); y > x && (y - x) % 256 == 0 }).map(move |b| (*a, *b))).collect();
    let (ta, tb) = twins[r.below(twins.len())];
    for i in 4..modpool.len() { modpool[i] = all[r.below(all.len())]; }
    for i in 0..keypool.len() { keypool[i] = all[r.below(all.len())]; }
    modpool[8] = ta; modpool[9] = tb; keypool[0] = ta; keypool[1] = tb;
    for i in 0..modpool.len() { for j in 0..i { if modpool[i] == modpool[j] { modpool[i] = [F13, F14, F15, F16, F17, F18, F19, F20, F21, F22][i]; } } }
    for i in 0..keypool.len() { for j in 0..i { if keypool[i] == keypool[j] { keypool[i] = [KP0, KP1, KP2, KP3, KP4, KP5, KP6, KP7, KP8, KP9][i]; } } }
  }
  let mut p = Vec::new(); let mut used: Vec<KeyCode> = Vec::new();
  let nal = r.below(4);
  for a in 0..nal.min(3) { for _ in 0..(1 + r.below(3)) { let mut ks = Vec::new(); for _ in 0..(1 + (r.below(4) == 0) as usize) { let k = modpool[r.below(modpool.len())]; if !used.contains(&k) { used.push(k); ks.push(k); } } if !ks.is_empty() { p.push(PItem::AliasDef { name: a, keys: ks }); } } }
  let gen_mods = |r: &mut Rng, n_alias: usize| -> Vec<PMod> { let mut v: Vec<PMod> = Vec::new(); let mut seen: Vec<usize> = Vec::new(); for _ in 0..r.below(4) { if n_alias > 0 && r.below(2) == 0 { let a = r.below(n_alias); if !seen.contains(&a) || r.below(6) == 0 { seen.push(a); v.push(PMod::Alias(a)); } } else { let k = [LEFTSHIFT, RIGHTSHIFT, LEFTCTRL, CAPSLOCK, TAB][r.below(5)]; if !v.iter().any(|m| matches!(m, PMod::Key(x) if *x == k)) { v.push(PMod::Key(k)); } } } v };
  for _ in 0..(1 + r.below(4)) {
    let mods = gen_mods(r, nal.min(3));
    let to_mods: Vec<PMod> = mods.iter().filter(|_| r.below(2) == 0).cloned().collect();
    match r.below(4) {
      0 | 1 => { let x = gen_extra(r, &mods, &keypool, false); p.push(PItem::Single { mods, key: keypool[r.below(keypool.len())], to_mods, to_key: keypool[r.below(keypool.len())], disabled: r.below(3) == 0, x }) },
      2 => { let letters = if r.below(3) == 0 { rand_row_letters(r) } else { ["abc", "a b", "aB", "Hello", "~!", "q", " x", "[]", "xyz?", "1+2"][r.below(10)].to_string() }; let x = gen_extra(r, &mods, &keypool, true); p.push(PItem::Row { mods, row: r.below(5), to_mods, letters, disabled: r.below(3) == 0, x }) },
      _ => { let mut x = gen_extra(r, &mods, &keypool, false); x.absorbing.clear(); p.push(PItem::RepeatOnly { mods, key: keypool[r.below(keypool.len())], disabled: r.below(2) == 0, x }) },
    }
  }
  // two programs in three are written with a random choice of equivalent spellings (one-element array vs bare element, case of row / repeat names)
  STYLE.with(|c| c.set(if r.below(3) == 0 { 0 } else { (r.below(1 << 30) as u64) << 20 | 0x9E37 }));
  p
}
fn nodup(v: &Vec<KeyCode>) -> bool { (0..v.len()).all(|i| (i + 1..v.len()).all(|j| v[i] != v[j])) }
fn hand_usable(m: &Mapping) -> bool { !m.from.is_empty() && nodup(&m.from) && nodup(&m.to) && match &m.repeat { Repeat::Special { keys, delay_ms, interval_ms } => nodup(keys) && *delay_ms >= 0 && *interval_ms >= 0, _ => true } }
/// Ok(true): compared and equal; Ok(false): the loader rejected the program (nothing to compare); Err: the accepted layout differs from the hand-written expansion
pub fn check_c13_program(p: &Vec<PItem>) -> Result<bool, String> {
  let text = program_json(p);
  let t2 = text.clone();
  // a panic while loading a program WITHOUT meaning is C14's business only; a program that has a hand-written expansion must convert to it, and a panic is not that
  let got = match std::panic::catch_unwind(move || load(&t2)) { Ok(Ok(l)) => l,
    // a program that has a hand-written expansion which the mapper can take (no key twice in a trigger, an output or a chord) must be accepted
    Ok(Err(msg)) => return match expand_by_hand(p) { Some(w) if w.iter().all(hand_usable) => Err(format!("the loader rejected ({}) a program whose hand-written expansion has {} usable mappings ({})", msg, w.len(), text)), _ => Ok(false) },
    Err(_) => return match expand_by_hand(p) { Some(w) => Err(format!("the loader panicked on a program whose hand-written expansion has {} mappings ({})", w.len(), text)), None => Ok(false) } };
  let want = match expand_by_hand(p) { Some(w) => w, None => return Err(format!("the loader accepted a program that has no hand-written expansion (undefined alias / output alias not on the trigger side / letter without key / row too short): {}", text)) };
  if got.mappings.len() != want.len() { return Err(format!("{} mappings, the hand-written expansion has {} ({})", got.mappings.len(), want.len(), text)); }
  for (i, w) in want.iter().enumerate() { let g = &got.mappings[i]; if g.from != w.from || g.to != w.to || g.repeat != w.repeat || g.absorbing != w.absorbing {
    return Err(format!("mapping {}: got {:?} -> {:?} ({:?}, absorbing {:?}), the hand-written expansion has {:?} -> {:?} ({:?}, absorbing {:?})", i, g.from, g.to, g.repeat, g.absorbing, w.from, w.to, w.repeat, w.absorbing)); } }
  Ok(true)
}


/// bounded stand-in for the part of the load path no contract reaches (the JSON front end, layout_parsing_formatting.rs: serde_json::Value): exactly `n`
/// generated inputs, seeded - random layouts and structure-aware mutations of valid ones - through the real loader, the mapper and the loop; a panic is a failure
pub fn loader_fuzz_bounded(n: u64, seed: u64) -> i32 {
  std::panic::set_hook(Box::new(|_| {}));
  let mut r = Rng(seed.wrapping_mul(0x9E3779B97F4A7C15) | 1);
  let (mut accepted, mut rejected, mut via_file) = (0u64, 0u64, 0u64);
  let mut fails: Vec<serde_json::Value> = Vec::new();
  for i in 0..n {
    let text = if i % 3 == 0 { gen_json(&mut r) } else { gen_mutated_json(&mut r) }; let s = r.next();
    let t2 = text.clone();
    match std::panic::catch_unwind(move || load(&t2).is_ok()) { Ok(true) => accepted += 1, Ok(false) => rejected += 1, Err(_) => {} }
    if let Err(m) = check_c14(&text, s) { if fails.len() < 3 { fails.push(serde_json::json!({"input": format!("layout-file {} {}", s, text), "what": m})); } else { break; } }
    // every 64th input also goes through the REAL layout_loading::load_layout_from_file (from a scratch file): it must not panic and must give what
    // parse + convert give in memory (the chain the other cases use), so that `load` above is demonstrably the path the program takes
    if i % 64 == 0 {
      let path = std::env::temp_dir().join(format!("tmharness-{}.json", std::process::id()));
      if std::fs::write(&path, &text).is_ok() {
        let ps = path.to_str().unwrap().to_string(); let t3 = text.clone();
        let same = std::panic::catch_unwind(move || { let a = crate::layout_loading::load_layout_from_file(&ps); let b = load(&t3); match (a, b) { (Ok(x), Ok(y)) => x.mappings == y.mappings, (Err(_), Err(_)) => true, _ => false } });
        via_file += 1;
        match same { Ok(true) => {}, Ok(false) => { if fails.len() < 3 { fails.push(serde_json::json!({"input": format!("layout-file {} {}", s, text), "what": "load_layout_from_file and parse + convert disagree on this file"})); } },
                     Err(_) => { if fails.len() < 3 { fails.push(serde_json::json!({"input": format!("layout-file {} {}", s, text), "what": "load_layout_from_file panicked"})); } } }
      }
    }
  }
  let _ = std::fs::remove_file(std::env::temp_dir().join(format!("tmharness-{}.json", std::process::id())));
  println!("{}", serde_json::json!({"inputs": n, "accepted": accepted, "rejected": rejected, "through_load_layout_from_file": via_file, "failures": fails}));
  if fails.is_empty() { 0 } else { 1 }
}

/// bounded stand-in for the part of C13 no contract states (WHEN the converter accepts): exactly `n` generated programs, seeded, each loaded through the real
/// path and compared with the hand-written expansion in both directions (accepted ⇒ equal; a usable hand-written expansion ⇒ accepted; never a panic)
pub fn programs_bounded(n: u64, seed: u64) -> i32 {
  std::panic::set_hook(Box::new(|_| {}));
  let mut r = Rng(seed.wrapping_mul(0x9E3779B97F4A7C15) | 1);
  let (mut compared, mut rejected) = (0u64, 0u64);
  let mut fails: Vec<serde_json::Value> = Vec::new();
  for _ in 0..n {
    let p = gen_program(&mut r);
    match check_c13_program(&p) { Ok(true) => compared += 1, Ok(false) => rejected += 1,
      Err(m) => { if fails.len() < 3 { fails.push(serde_json::json!({"input": format!("program {}", serde_json::to_string(&prog_to_value(&p)).unwrap()), "what": m})); } else { break; } } }
  }
  println!("{}", serde_json::json!({"programs": n, "accepted_and_equal": compared, "rejected_by_both": rejected, "failures": fails}));
  if fails.is_empty() { 0 } else { 1 }
}

pub fn explore(prop: &str, secs: f64, seed: u64) -> i32 {
  let t0 = std::time::Instant::now();
  let mut r = Rng(seed.wrapping_mul(0x9E3779B97F4A7C15) | 1);
  let mut n: u64 = 0; let mut compared: u64 = 0;
  std::panic::set_hook(Box::new(|_| {}));
  let mods = [KeyCode::LEFTSHIFT, KeyCode::RIGHTSHIFT, KeyCode::LEFTCTRL, KeyCode::RIGHTCTRL, KeyCode::LEFTALT, KeyCode::RIGHTALT, KeyCode::LEFTMETA, KeyCode::RIGHTMETA];
  // the budget is a number of cases as well as a time: on a loaded machine the search goes on (up to 5x the time) until it has tried what an idle machine tries
  while t0.elapsed().as_secs_f64() < secs || (n < (secs * 30000.0) as u64 && t0.elapsed().as_secs_f64() < 5.0 * secs) {
    for _ in 0..200 {
      n += 1;
      if prop == "C14" {
        let text = if n % 2 == 0 { gen_json(&mut r) } else { gen_mutated_json(&mut r) }; let s = r.next();
        if let Err(m) = check_c14(&text, s) {
          println!("WITNESS {{\"property\":\"C14\",\"json\":{:?},\"event_seed\":{},\"what\":{:?},\"cases_tried\":{}}}", text, s, m, n);
          return 1;
        }
      } else if prop == "C11" {
        let text = gen_json(&mut r); let s = r.next();
        if let Err(m) = check_c11_file(&text, s) {
          println!("WITNESS {{\"property\":\"C11\",\"json\":{:?},\"event_seed\":{},\"what\":{:?},\"cases_tried\":{}}}", text, s, m, n);
          return 1;
        }
      } else if prop == "C13" && n % 2 == 0 {
        let p = gen_program(&mut r);
        match check_c13_program(&p) { Ok(true) => { compared += 1; }, Ok(false) => {}, Err(m) => {
          println!("WITNESS {{\"property\":\"C13\",\"program\":{:?},\"what\":{:?},\"cases_tried\":{}}}", serde_json::to_string(&prog_to_value(&p)).unwrap(), m, n);
          return 1; } }
      } else if prop == "C13" {
        let na = 1 + r.below(4);
        let mut pool: Vec<KeyCode> = mods.to_vec();
        let mut defs: Vec<Vec<KeyCode>> = Vec::new();
        for _ in 0..na { let d = 1 + r.below(3); let mut v = Vec::new(); for _ in 0..d { if pool.is_empty() { break; } v.push(pool.remove(r.below(pool.len()))); } if !v.is_empty() { defs.push(v); } }
        if let Err(m) = check_c13(&defs, KeyCode::Q, KeyCode::ESC) {
          println!("WITNESS {{\"property\":\"C13\",\"defs\":{:?},\"what\":{:?},\"cases_tried\":{}}}", format!("{:?}", defs), m, n);
          return 1;
        }
      }
    }
  }
  println!("NO-WITNESS cases_tried={} programs_compared={}", n, compared);
  0
}

// a program as JSON (for the witness file) and back
fn mods_to_value(ms: &Vec<PMod>) -> serde_json::Value { serde_json::Value::Array(ms.iter().map(|m| match m { PMod::Alias(a) => serde_json::json!({"alias": a}), PMod::Key(k) => serde_json::json!({"key": format!("{:?}", k)}) }).collect()) }
fn extra_to_value(x: &PExtra) -> serde_json::Value { serde_json::json!({"absorbing": mods_to_value(&x.absorbing), "special": match &x.special { None => serde_json::Value::Null,
  Some(sp) => serde_json::json!({"mods": mods_to_value(&sp.mods), "key": format!("{:?}", sp.key), "letters": sp.letters, "delay": sp.delay, "interval": sp.interval}) }}) }
fn value_to_extra(v: &serde_json::Value) -> PExtra { if v.is_null() { return PExtra::default(); }     // (witness files written before the repeat forms were added have no "x")
  PExtra { absorbing: value_to_mods(&v["absorbing"]), special: if v["special"].is_null() { None } else { let sp = &v["special"];
    Some(PSpec { mods: value_to_mods(&sp["mods"]), key: kc(&sp["key"]), letters: sp["letters"].as_str().unwrap().to_string(), delay: sp["delay"].as_i64().unwrap() as i32, interval: sp["interval"].as_i64().unwrap() as i32 }) } } }
pub fn program_value(p: &Vec<PItem>) -> serde_json::Value { prog_to_value(p) }
fn prog_to_value(p: &Vec<PItem>) -> serde_json::Value { let mut items: Vec<serde_json::Value> = p.iter().map(|it| match it {
  PItem::AliasDef { name, keys } => serde_json::json!({"kind": "alias", "name": name, "keys": keys.iter().map(|k| format!("{:?}", k)).collect::<Vec<_>>()}),
  PItem::Single { mods, key, to_mods, to_key, disabled, x } => serde_json::json!({"kind": "single", "mods": mods_to_value(mods), "key": format!("{:?}", key), "to_mods": mods_to_value(to_mods), "to_key": format!("{:?}", to_key), "disabled": disabled, "x": extra_to_value(x)}),
  PItem::Row { mods, row, to_mods, letters, disabled, x } => serde_json::json!({"kind": "row", "mods": mods_to_value(mods), "row": row, "to_mods": mods_to_value(to_mods), "letters": letters, "disabled": disabled, "x": extra_to_value(x)}),
  PItem::RepeatOnly { mods, key, disabled, x } => serde_json::json!({"kind": "repeat_only", "mods": mods_to_value(mods), "key": format!("{:?}", key), "disabled": disabled, "x": extra_to_value(x)}),
}).collect(); let st = STYLE.with(|c| c.get()); if st != 0 { items.push(serde_json::json!({"kind": "style", "n": st.to_string()})); } serde_json::Value::Array(items) }
fn kc(v: &serde_json::Value) -> KeyCode { use std::str::FromStr; KeyCode::from_str(v.as_str().unwrap()).unwrap() }
fn value_to_mods(v: &serde_json::Value) -> Vec<PMod> { v.as_array().unwrap().iter().map(|m| if let Some(a) = m.get("alias") { PMod::Alias(a.as_u64().unwrap() as usize) } else { PMod::Key(kc(&m["key"])) }).collect() }
fn value_to_prog(v: &serde_json::Value) -> Vec<PItem> { STYLE.with(|c| c.set(0)); for it in v.as_array().unwrap() { if it["kind"] == "style" { STYLE.with(|c| c.set(it["n"].as_str().unwrap().parse().unwrap())); } }
  v.as_array().unwrap().iter().filter(|it| it["kind"] != "style").map(|it| match it["kind"].as_str().unwrap() {
  "alias" => PItem::AliasDef { name: it["name"].as_u64().unwrap() as usize, keys: it["keys"].as_array().unwrap().iter().map(kc).collect() },
  "single" => PItem::Single { mods: value_to_mods(&it["mods"]), key: kc(&it["key"]), to_mods: value_to_mods(&it["to_mods"]), to_key: kc(&it["to_key"]), disabled: it["disabled"].as_bool().unwrap(), x: value_to_extra(&it["x"]) },
  "row" => PItem::Row { mods: value_to_mods(&it["mods"]), row: it["row"].as_u64().unwrap() as usize, to_mods: value_to_mods(&it["to_mods"]), letters: it["letters"].as_str().unwrap().to_string(), disabled: it["disabled"].as_bool().unwrap(), x: value_to_extra(&it["x"]) },
  _ => PItem::RepeatOnly { mods: value_to_mods(&it["mods"]), key: kc(&it["key"]), disabled: it["disabled"].as_bool().unwrap(), x: value_to_extra(&it["x"]) },
}).collect() }

pub fn replay(prop: &str, text: &str) -> i32 {
  let v: serde_json::Value = serde_json::from_str(text).expect("json");
  let c = if v.get("counterexample").is_some() { v["counterexample"].clone() } else { v };
  if prop == "C11" {
    let j = c["json"].as_str().unwrap();
    println!("layout file: {}", j);
    return match check_c11_file(j, c["event_seed"].as_u64().unwrap_or(1)) { Ok(()) => { println!("NOT-REPRODUCED: the file is rejected, or the real loop never asks to wait longer than the longest delay / interval of the file"); 0 }, Err(m) => { println!("REPRODUCED: {}", m); 1 } };
  }
  if prop == "C14" {
    let j = c["json"].as_str().unwrap();
    println!("layout file: {}", j);
    match check_c14(j, c["event_seed"].as_u64().unwrap_or(1)) { Ok(()) => { println!("NOT-REPRODUCED: loading rejects the file or the accepted layout runs without panicking"); 0 }, Err(m) => { println!("REPRODUCED: {}", m); 1 } }
  } else if c.get("program").is_some() {
    let p = value_to_prog(&serde_json::from_str(c["program"].as_str().unwrap()).unwrap());
    println!("layout program: {}", program_json(&p));
    match expand_by_hand(&p) { Some(w) => { println!("written out by hand:"); for m in &w { println!("  {:?} -> {:?} ({:?})", m.from, m.to, m.repeat); } }, None => println!("written out by hand: (the program has no meaning)") }
    match load(&program_json(&p)) { Ok(l) => { println!("converted by the real loader:"); for m in &l.mappings { println!("  {:?} -> {:?} ({:?})", m.from, m.to, m.repeat); } }, Err(e) => println!("the real loader rejects it: {}", e) }
    match check_c13_program(&p) { Ok(_) => { println!("NOT-REPRODUCED: the conversion equals the hand-written expansion (or the program is rejected)"); 0 }, Err(m) => { println!("REPRODUCED: {}", m); 1 } }
  } else {
    // defs printed with {:?}: [[LEFTSHIFT, RIGHTSHIFT], [LEFTCTRL]]
    let s = c["defs"].as_str().unwrap();
    let defs: Vec<Vec<KeyCode>> = s.trim_matches(|ch| ch == '[' || ch == ']').split("], [").map(|g| g.split(", ").filter(|x| !x.is_empty()).map(|x| { use std::str::FromStr; KeyCode::from_str(x.trim_matches(|ch| ch == '[' || ch == ']')).unwrap() }).collect()).collect();
    println!("alias definitions: {:?}", defs);
    match check_c13(&defs, KeyCode::Q, KeyCode::ESC) { Ok(()) => { println!("NOT-REPRODUCED: the expansion equals the hand-written one"); 0 }, Err(m) => { println!("REPRODUCED: {}", m); 1 } }
  }
}

/// Evidence for two ASSUMED contracts the C13 proof of the repeat-only pass uses: (1) the derived Ord of KeyCode is a total order consistent with == -
/// COMPLETE over all key codes (every pair for totality / antisymmetry, every triple for transitivity); (2) `sort` on a Vec<KeyCode> leaves an ascending
/// permutation - seeded random vectors (bounded).
pub fn ord_sort_probe(n: u64, seed: u64) -> i32 {
  let all = all_key_codes();
  let mut fails: Vec<serde_json::Value> = Vec::new();
  let m = all.len();
  let le: Vec<Vec<bool>> = all.iter().map(|a| all.iter().map(|b| a <= b).collect()).collect();
  for i in 0..m { for j in 0..m {
    if !(le[i][j] || le[j][i]) && fails.len() < 3 { fails.push(serde_json::json!({"input": format!("{:?}, {:?}", all[i], all[j]), "what": "neither a <= b nor b <= a"})); }
    if le[i][j] && le[j][i] && all[i] != all[j] && fails.len() < 3 { fails.push(serde_json::json!({"input": format!("{:?}, {:?}", all[i], all[j]), "what": "a <= b and b <= a but a != b"})); }
    if (all[i] == all[j]) != (i == j) && fails.len() < 3 { fails.push(serde_json::json!({"input": format!("{:?}, {:?}", all[i], all[j]), "what": "== does not agree with identity of the variant"})); }
  } }
  let mut triples = 0u64;
  for i in 0..m { for j in 0..m { if !le[i][j] { continue; } for k in 0..m { triples += 1; if le[j][k] && !le[i][k] && fails.len() < 3 { fails.push(serde_json::json!({"input": format!("{:?}, {:?}, {:?}", all[i], all[j], all[k]), "what": "<= is not transitive"})); } } } }
  let mut r = Rng(seed.wrapping_mul(0x9E3779B97F4A7C15) | 1);
  for _ in 0..n {
    let v: Vec<KeyCode> = (0..r.below(7)).map(|_| { let small = r.below(2) == 0; all[r.below(if small { 12 } else { m })] }).collect();
    let mut s = v.clone(); s.sort();
    let asc = s.windows(2).all(|w| w[0] <= w[1]);
    let mut a = v.clone(); let mut perm = s.len() == v.len();
    for x in &s { match a.iter().position(|y| y == x) { Some(p) => { a.remove(p); }, None => { perm = false; } } }
    if !(asc && perm && a.is_empty()) && fails.len() < 3 { fails.push(serde_json::json!({"input": format!("{:?}", v), "what": format!("sort gives {:?}", s)})); }
  }
  println!("{}", serde_json::json!({"key_codes": m, "pairs": (m * m) as u64, "triples": triples, "sorted_vectors": n, "failures": fails}));
  if fails.is_empty() { 0 } else { 1 }
}
