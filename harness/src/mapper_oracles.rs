// Included inside `mod key_transforms` of the harness, next to the real source
// text, so that private items (State, newly_press, ...) are visible.
// Executable oracles for the mapper properties, written from the property
// statements.  Used for witness search and replay only.

use std::collections::BTreeSet;
use std::str::FromStr;

pub struct Rng(pub u64);
impl Rng {
  pub fn next(&mut self) -> u64 { self.0 ^= self.0 << 13; self.0 ^= self.0 >> 7; self.0 ^= self.0 << 17; self.0 }
  pub fn below(&mut self, n: usize) -> usize { (self.next() % (n as u64)) as usize }
}

// the oracles classify keys on their own (the eight modifier keys of the property statements), not through the code under test
fn ref_is_action_key(k: &KeyCode) -> bool { !matches!(k, KeyCode::LEFTSHIFT | KeyCode::RIGHTSHIFT | KeyCode::LEFTCTRL | KeyCode::RIGHTCTRL | KeyCode::LEFTALT | KeyCode::RIGHTALT | KeyCode::LEFTMETA | KeyCode::RIGHTMETA) }
fn ref_is_action_mapping(m: &Mapping) -> bool { match m.to.last() { Some(k) => ref_is_action_key(k), None => false } }
pub fn state_string(m: &Mapper) -> String { format!("{:?}", m.state) }

const LKEYS: [KeyCode; 6] = [KeyCode::A, KeyCode::B, KeyCode::C, KeyCode::LEFTSHIFT, KeyCode::LEFTCTRL, KeyCode::CAPSLOCK];
const EKEYS: [KeyCode; 8] = [KeyCode::A, KeyCode::B, KeyCode::C, KeyCode::LEFTSHIFT, KeyCode::LEFTCTRL, KeyCode::CAPSLOCK, KeyCode::D, KeyCode::RIGHTCTRL];
const OUTS: [KeyCode; 3] = [KeyCode::X, KeyCode::Y, KeyCode::RIGHTALT];
const RARE_MODS: [KeyCode; 4] = [KeyCode::LEFTMETA, KeyCode::RIGHTMETA, KeyCode::LEFTALT, KeyCode::RIGHTSHIFT];
const FOREIGN: [KeyCode; 2] = [KeyCode::D, KeyCode::RIGHTCTRL];
// marker event meaning "call release_all" inside a history
pub const RELEASE_ALL: Event = Event::Released(KeyCode::KPJPCOMMA);

fn gen_layout(r: &mut Rng, absorbing: bool) -> Layout {
  let n = 1 + r.below(4);
  let heavy = absorbing && r.below(2) == 0;        // absorbing-heavy family: most chords absorb their modifiers, outputs often modifier-only
  let mut ms = Vec::new();
  for _ in 0..n {
    let fl = 1 + r.below(3);
    let mut from: Vec<KeyCode> = Vec::new();
    while from.len() < fl { let k = LKEYS[r.below(LKEYS.len())]; if !from.contains(&k) { from.push(k); } }
    let tl = r.below(3) + if r.below(6) == 0 { 1 } else { 0 };
    let mut to: Vec<KeyCode> = Vec::new();
    let pool: Vec<KeyCode> = LKEYS.iter().chain(OUTS.iter()).cloned().collect();
    let mods: [KeyCode; 3] = [KeyCode::LEFTSHIFT, KeyCode::LEFTCTRL, KeyCode::RIGHTALT];
    while to.len() < tl {
      let k = if r.below(12) == 0 { RARE_MODS[r.below(4)] } else if heavy && r.below(3) == 0 { mods[r.below(3)] } else { pool[r.below(pool.len())] };
      if !to.contains(&k) { to.push(k); }
    }
    // Special repeats: usually one plain key; now and then up to three keys drawn from the trigger, the output, the modifiers and the plain outputs
    let repeat = match r.below(4) { 0 => Repeat::Disabled, 1 => {
        let mut keys = vec![OUTS[0]];
        if r.below(2) == 0 { keys.clear(); let nk = r.below(4);      // (an empty chord is allowed: the timer then ticks without writing anything)
                             let rp: Vec<KeyCode> = from.iter().chain(to.iter()).chain(mods.iter()).chain(OUTS.iter()).cloned().collect();
                             while keys.len() < nk { let k = rp[r.below(rp.len())]; if !keys.contains(&k) { keys.push(k); } } }
        Repeat::Special { keys, delay_ms: [10, 0, 1, 250][r.below(4)], interval_ms: [5, 1, 30][r.below(3)] } }, _ => Repeat::Normal };
    let mut absorbing_l = Vec::new();
    if absorbing && from.len() > 1 {
      if heavy { if r.below(3) != 0 { for k in &from[..from.len() - 1] { if r.below(3) != 0 { absorbing_l.push(*k); } } } }
      else if r.below(3) == 0 { absorbing_l.push(from[r.below(from.len() - 1)]); }
    }
    ms.push(Mapping { from, to, repeat, absorbing: absorbing_l });
  }
  Layout { mappings: ms }
}

/// rare shapes: the non-modifier keys of a case renamed (injectively) to keys from the WHOLE key-code range, among them a pair of codes that agree
/// modulo 256; the mapper treats all non-modifier keys alike, so every oracle verdict is unchanged - unless the code under test narrows key codes
pub fn rename_keys(r: &mut Rng, mut layout: Layout, mut hist: Vec<Event>) -> (Layout, Vec<Event>) {
  let all: Vec<KeyCode> = (0u32..1024).filter_map(|c| { let k: Option<KeyCode> = num_traits::FromPrimitive::from_u16(c as u16); k }).filter(|k| ref_is_action_key(k) && *k != KeyCode::KPJPCOMMA).collect();
  let twins: Vec<(KeyCode, KeyCode)> = all.iter().flat_map(|a| all.iter().filter(move |b| { let (x, y) = (*a as i32, **b as i32); y > x && (y - x) % 256 == 0 }).map(move |b| (*a, *b))).collect();
  let mut used: Vec<KeyCode> = Vec::new();
  for m in &layout.mappings { for k in m.from.iter().chain(m.to.iter()).chain(m.absorbing.iter()) { if !used.contains(k) { used.push(*k); } } if let Repeat::Special { keys, .. } = &m.repeat { for k in keys { if !used.contains(k) { used.push(*k); } } } }
  for e in &hist { let k = match e { Pressed(k) | Released(k) => *k }; if !used.contains(&k) { used.push(k); } }
  let (ta, tb) = twins[r.below(twins.len())];
  let mut map: Vec<(KeyCode, KeyCode)> = Vec::new();
  for k in used { if !ref_is_action_key(&k) || k == KeyCode::KPJPCOMMA { continue; }
    let mut n = if !map.iter().any(|p| p.1 == ta) { ta } else if !map.iter().any(|p| p.1 == tb) { tb } else { all[r.below(all.len())] };
    while map.iter().any(|p| p.1 == n) { n = all[r.below(all.len())]; }
    map.push((k, n)); }
  let f = |k: &mut KeyCode| { if let Some(p) = map.iter().find(|p| p.0 == *k) { *k = p.1; } };
  for m in layout.mappings.iter_mut() { m.from.iter_mut().for_each(&f); m.to.iter_mut().for_each(&f); m.absorbing.iter_mut().for_each(&f); if let Repeat::Special { keys, .. } = &mut m.repeat { keys.iter_mut().for_each(&f); } }
  for e in hist.iter_mut() { match e { Pressed(k) | Released(k) => f(k) } }
  (layout, hist)
}
pub fn gen_case(r: &mut Rng, with_release_all: bool) -> (Layout, Vec<Event>) {
  let (layout, hist) = gen_case_small(r, with_release_all);
  if r.below(6) == 0 { rename_keys(r, layout, hist) } else { (layout, hist) }
}
fn gen_case_small(r: &mut Rng, with_release_all: bool) -> (Layout, Vec<Event>) {
  let absorbing = r.below(2) == 0;
  let layout = gen_layout(r, absorbing);
  let len = 1 + r.below(14);
  let mut phys: BTreeSet<KeyCode> = BTreeSet::new();
  let mut hist = Vec::new();
  let chordy = r.below(3) != 0;                     // chord-directed histories: press the trigger keys of a mapping in listed order
  while hist.len() < len {
    if with_release_all && r.below(25) == 0 { hist.push(RELEASE_ALL); continue; }
    if chordy && !layout.mappings.is_empty() && r.below(3) == 0 {
      let m = &layout.mappings[r.below(layout.mappings.len())];
      for k in &m.from { if !phys.contains(k) { phys.insert(*k); hist.push(Pressed(*k)); } }
      if r.below(3) == 0 { let k = *m.from.last().unwrap(); phys.remove(&k); hist.push(Released(k)); if r.below(2) == 0 { phys.insert(k); hist.push(Pressed(k)); } }
      continue;
    }
    if chordy && r.below(10) == 0 { let ks: Vec<KeyCode> = phys.iter().cloned().collect(); for k in ks { if r.below(4) != 0 { phys.remove(&k); hist.push(Released(k)); } } continue; }
    let k = EKEYS[r.below(EKEYS.len())];
    let press = if r.below(8) == 0 { r.below(2) == 0 } else { !phys.contains(&k) };
    if press { phys.insert(k); hist.push(Pressed(k)); } else { phys.remove(&k); hist.push(Released(k)); }
  }
  // half of the histories end with every physically held key released (C01 / C06 are about that moment)
  if r.below(2) == 0 { let mut ks: Vec<KeyCode> = phys.iter().cloned().collect(); while !ks.is_empty() { let i = r.below(ks.len()); hist.push(Released(ks.remove(i))); } }
  (layout, hist)
}

fn spec_fired(layout: &Layout, st: &State, considered: &Vec<KeyCode>, k: KeyCode) -> Option<Mapping> {
  let eff: Vec<KeyCode> = if st.absorbing_trigger == Some(k) { vec![] } else { st.mapped_absorbed_keys.iter().cloned().filter(|x| *x != k).collect() };
  let mut res = None;
  for m in &layout.mappings {
    if *m.from.last().unwrap() == k && m.from.iter().all(|f| *f == k || (considered.contains(f) && !eff.contains(f))) { res = Some(m.clone()); }
  }
  res
}
fn clone_state(st: &State) -> State {
  State { input_pressed_keys: st.input_pressed_keys.clone(), active_mappings: st.active_mappings.clone(), pass_through_keys: st.pass_through_keys.clone(), mapped_output_keys: st.mapped_output_keys.clone(), mapped_absorbed_keys: st.mapped_absorbed_keys.clone(), absorbing_trigger: st.absorbing_trigger, repeating_trigger: st.repeating_trigger }
}

/// run `hist` on a new mapper for `layout`, checking the oracles of `prop`; first violation as (step index, message)
pub fn check_history(prop: &str, layout: &Layout, hist: &Vec<Event>, trace: bool) -> Option<(usize, String)> {
  // keys of the history that occur nowhere in the layout (C05 "a key that appears nowhere in the layout")
  let mut foreign_keys: Vec<KeyCode> = Vec::new();
  for e in hist.iter() { if *e == RELEASE_ALL { continue; } let k = match e { Pressed(k) | Released(k) => *k };
    if !foreign_keys.contains(&k) && !layout.mappings.iter().any(|mp| mp.from.contains(&k) || mp.to.contains(&k) || mp.absorbing.contains(&k) || matches!(&mp.repeat, Repeat::Special { keys, .. } if keys.contains(&k))) { foreign_keys.push(k); } }
  let has_abs = layout.mappings.iter().any(|m| !m.absorbing.is_empty());
  // known finding D8 (see /verif/known_findings.txt): an absorbing mapping whose output has no non-modifier key takes over the single
  // absorbing_trigger without lifting earlier absorbed keys. The witness SEARCH stays inside the claimed scope (every absorbing mapping
  // outputs a non-modifier key); a REPLAY (trace = true) checks the full statement.
  let c08_in_scope = trace || layout.mappings.iter().all(|m| m.absorbing.is_empty() || m.to.iter().any(|k| ref_is_action_key(k)));
  let mut m = Mapper::for_layout(layout);
  let mut phys: BTreeSet<KeyCode> = BTreeSet::new();
  let mut dev: BTreeSet<KeyCode> = BTreeSet::new();
  let mut bad: Option<(usize, String)> = None;
  let mut absorbed_track: Vec<(KeyCode, KeyCode)> = Vec::new();
  let mut cons: BTreeSet<KeyCode> = BTreeSet::new();
  let mut norepeat_since: bool = false;
  for (idx, e) in hist.iter().enumerate() {
    if bad.is_some() { break; }
    let mut fail = |p: &str, msg: String| { if bad.is_none() && p == prop { bad = Some((idx, msg)); } };
    if *e == RELEASE_ALL {
      let evs = m.release_all();
      for ev in &evs { match ev {
        Pressed(x) => { if !dev.insert(*x) { fail("C19", format!("release_all: redundant press {:?}", x)); } fail("C02", format!("release_all pressed {:?}", x)); fail("C06", format!("release_all pressed {:?}", x)); },
        Released(x) => { if !dev.remove(x) { fail("C19", format!("release_all: redundant release {:?}", x)); } } } }
      if !dev.is_empty() { fail("C06", format!("after release_all the device still holds {:?}", dev)); fail("C12", format!("after release_all the device still holds {:?}", dev)); }
      if trace { println!("  release_all -> {:?}  device={:?}", evs, dev); }
      absorbed_track.clear(); cons.clear();
      continue;
    }
    let (press, k) = match e { Pressed(k) => (true, *k), Released(k) => (false, *k) };
    let before = clone_state(&m.state);
    let dev_before = dev.clone();
    // which keys the mapper considers held: without absorbing lists this is exactly "pressed and not released since the last release_all", tracked
    // here from the history (`cons`); with absorbing lists the mapper may forget an absorbed key early, and its own list is read instead
    let considered: Vec<KeyCode> = if has_abs { before.input_pressed_keys.clone() } else { cons.iter().cloned().collect() };
    let acted = if press { !considered.contains(&k) } else { considered.contains(&k) };
    if press { cons.insert(k); } else { cons.remove(&k); }
    if press { phys.insert(k); } else { phys.remove(&k); }
    let res = m.step(e.clone());
    let mut inst: Vec<(Event, BTreeSet<KeyCode>)> = Vec::new();
    for ev in &res.events {
      inst.push((ev.clone(), dev.clone()));
      match ev {
        Pressed(x) => { if !dev.insert(*x) { fail("C19", format!("redundant press of {:?} (already down)", x)); }
                        if !press { fail("C02", format!("release of {:?} caused press of {:?}", k, x)); fail("C07", format!("release of {:?} caused press of {:?}", k, x)); } },
        Released(x) => { if !dev.remove(x) { fail("C19", format!("redundant release of {:?} (already up)", x)); } },
      }
    }
    if trace { println!("  {:?} -> {:?} {:?}  device={:?}", e, res.events, res.repeat, dev); }
    // C19 bookkeeping equals device
    let mut bk: BTreeSet<KeyCode> = BTreeSet::new();
    for x in &m.state.pass_through_keys { bk.insert(*x); }
    for x in &m.state.mapped_output_keys { bk.insert(*x); }
    if bk != dev { fail("C19", format!("bookkeeping {:?} != device {:?}", bk, dev)); }
    // C01
    if phys.is_empty() && !dev.is_empty() { fail("C01", format!("no physical key held but the device holds {:?}", dev)); fail("C06", format!("at rest but the device holds {:?}", dev)); }
    // C02 (a)
    for x in &dev {
      let just = phys.contains(x) || layout.mappings.iter().any(|mp| mp.to.contains(x) && mp.from.iter().all(|f| phys.contains(f)));
      if !just { fail("C02", format!("(a) {:?} is held on the device without justification (phys {:?})", x, phys)); }
    }
    // C02 (b)
    for x in &dev {
      let single = layout.mappings.iter().any(|mp| mp.from.len() == 1 && mp.from[0] == *x);
      let in_to = layout.mappings.iter().any(|mp| mp.to.contains(x));
      if single && !in_to { fail("C02", format!("(b) {:?} has a single-key mapping, occurs in no output, but is held on the device", x)); }
    }
    // C02 (d)
    for x in &dev {
      let consumed = m.state.active_mappings.iter().any(|am| am.from.contains(x));
      let output = m.state.active_mappings.iter().any(|am| am.to.contains(x));
      if consumed && !output { fail("C02", format!("(d) {:?} is a trigger key of a mapping in effect, no mapping in effect outputs it, yet it is held on the device", x)); }
    }
    let fired = if press && acted { spec_fired(layout, &before, &considered, k) } else { None };
    // C09
    let exp_rep = if !acted { ResultingRepeat::NoChange } else if let Some(fm) = &fired { match &fm.repeat { Repeat::Special { keys, delay_ms, interval_ms } => ResultingRepeat::Repeating { keys: keys.clone(), delay_ms: *delay_ms, interval_ms: *interval_ms }, _ => ResultingRepeat::Disabled } } else { ResultingRepeat::Disabled };
    if res.repeat != exp_rep { fail("C09", format!("repeat request {:?}, expected {:?}", res.repeat, exp_rep)); }
    if !acted && !res.events.is_empty() { fail("C09", format!("ignored event produced output {:?}", res.events)); }
    if press && acted {
      match &fired {
        Some(fm) => {
          if !has_abs {
            if m.state.active_mappings.last() != Some(fm) { fail("C03", format!("expected {:?} to fire but the mapping in effect is {:?}", fm, m.state.active_mappings.last())); }
            for o in &fm.to {
              if ref_is_action_key(o) && !res.events.contains(&Pressed(*o)) { fail("C03", format!("action output {:?} not pressed in the step", o)); }
              if !ref_is_action_key(o) && !inst.iter().any(|(_, h)| h.contains(o)) && !dev.contains(o) && !res.events.contains(&Pressed(*o)) { fail("C03", format!("modifier output {:?} never down", o)); }
            }
            if fm.repeat == Repeat::Normal { for o in &fm.to { if !dev.contains(o) { fail("C03", format!("normal-repeat output {:?} not held at the end of the step", o)); } } }
          }
          if fm.repeat != Repeat::Normal {
            if dev.iter().any(|x| ref_is_action_key(x)) { fail("C07", format!("no-repeat mapping fired but a non-modifier key is held: {:?}", dev)); }
            for o in &fm.to { if ref_is_action_key(o) && !res.events.contains(&Pressed(*o)) { fail("C07", format!("output {:?} of the no-repeat mapping was not pressed", o)); } }
          }
          if !has_abs && ref_is_action_mapping(fm) {
            let fin = *fm.to.last().unwrap();
            if let Some((_, h)) = inst.iter().rev().find(|(ev, _)| *ev == Pressed(fin)) {
              for o in &fm.to { if !ref_is_action_key(o) && !h.contains(o) { fail("C04", format!("modifier {:?} not down when {:?} is pressed", o, fin)); } }
              for x in h.iter() { if !ref_is_action_key(x) && !fm.to.contains(x) {
                let ok = (phys.contains(x) && !fm.from.contains(x)) || m.state.active_mappings.iter().any(|am| !ref_is_action_mapping(am) && am.to.contains(x));
                if !ok { fail("C04", format!("stale modifier {:?} down when {:?} is pressed", x, fin)); }
              } }
            }
          }
        },
        None => {
          if !has_abs {
            let mentioned = before.active_mappings.iter().any(|am| am.from.contains(&k) || am.to.contains(&k));
            if mentioned { if !res.events.is_empty() { fail("C03", format!("key mentioned by a mapping in effect produced events {:?}", res.events)); } }
            else if res.events.last() != Some(&Pressed(k)) { fail("C03", format!("unmapped key not passed through as the last event: {:?}", res.events)); }
          }
        }
      }
    }
    // C05 foreign keys
    let norepeat_fired = fired.as_ref().map(|fm| fm.repeat != Repeat::Normal).unwrap_or(false);
    for f in foreign_keys.iter() { let f = *f;
      if layout.mappings.iter().any(|mp| mp.from.contains(&f) || mp.to.contains(&f) || mp.absorbing.contains(&f)) { continue; }
      if *e == Pressed(f) && acted && !res.events.contains(&Pressed(f)) { fail("C05", format!("foreign key {:?}: press not forwarded", f)); }
      if phys.contains(&f) && dev_before.contains(&f) && !dev.contains(&f) && *e != Released(f) {
        if !(ref_is_action_key(&f) && norepeat_fired) { fail("C05", format!("foreign key {:?} lifted before its physical release", f)); }
      }
      if !phys.contains(&f) && dev.contains(&f) { fail("C05", format!("foreign key {:?} still down after its release", f)); }
      if !dev_before.contains(&f) && dev.contains(&f) && *e != Pressed(f) { fail("C05", format!("foreign key {:?} pressed spuriously", f)); }
    }
    if layout.mappings.is_empty() && acted && res.events != vec![e.clone()] { fail("C05", format!("empty layout: output {:?} differs from input {:?}", res.events, e)); }
    // C05 release clause
    if !press && acted {
      for ev in &res.events { if let Released(x) = ev {
        let ok = *x == k || before.active_mappings.iter().any(|am| am.from.contains(&k) && am.to.contains(x));
        if !ok { fail("C05", format!("release of {:?} lifted unrelated {:?}", k, x)); }
        if m.state.active_mappings.iter().any(|am| am.to.contains(x)) { fail("C05", format!("release of {:?} lifted {:?}, which a mapping remaining in effect outputs", k, x)); }
      } }
    }
    // C05 in-effect clauses (layouts without absorbing)
    if !has_abs && acted {
      for mv in before.active_mappings.iter() {
        if !m.state.active_mappings.contains(mv) { continue; }
        for x in mv.to.iter() {
          if !layout.mappings.iter().all(|lm| !lm.to.contains(x) || lm == mv) { continue; }
          if !res.events.contains(&Released(*x)) { continue; }
          if !ref_is_action_mapping(mv) && !ref_is_action_key(x) { fail("C05", format!("modifier {:?} of the modifier-remapping {:?}, which stays in effect, was lifted by {:?}", x, mv, e)); }
          if mv.repeat == Repeat::Normal && mv.to.iter().all(|o| ref_is_action_key(o)) && !norepeat_fired { fail("C05", format!("output {:?} of the normal-repeat mapping {:?}, which stays in effect, was lifted by {:?} although no no-repeat mapping fired", x, mv, e)); }
        }
      }
    }
    // C08
    if press && acted && c08_in_scope {
      // "M counts again once it has been released and pressed again": which mapping should fire, with the absorbed keys tracked HERE (from the
      // absorbing lists of the mappings that fired and the physical presses / releases since) instead of read from the mapper's own list
      let eff: Vec<KeyCode> = absorbed_track.iter().filter(|(mk, trig)| *mk != k && *trig != k).map(|(mk, _)| *mk).collect();
      let mut indep = None;
      for mp in &layout.mappings { if *mp.from.last().unwrap() == k && mp.from.iter().all(|f| *f == k || (before.input_pressed_keys.contains(f) && !eff.contains(f))) { indep = Some(mp.clone()); } }
      if indep != fired { fail("C08", format!("with the keys absorbed at this moment being {:?} (tracked from the history) the press of {:?} should fire {:?}; the mapper's own absorbed list {:?} makes it {:?}", eff, k, indep, before.mapped_absorbed_keys, fired)); }
    }
    if press && acted {
      for (mk, trig) in absorbed_track.iter().filter(|_| c08_in_scope) {
        if k != *trig && k != *mk {
          if let Some(am) = m.state.active_mappings.last() { if fired.is_some() && am.from.contains(mk) { fail("C08", format!("absorbed {:?} used by a later mapping {:?}", mk, am)); } }
          for (ev, h) in &inst { if let Pressed(x) = ev { if ref_is_action_key(x) && h.contains(mk) && !m.state.active_mappings.iter().any(|am| am.to.contains(mk)) { fail("C08", format!("absorbed {:?} is down when non-modifier {:?} is pressed", mk, x)); } } }
        }
      }
      absorbed_track.retain(|(mk, _)| *mk != k);
      if let Some(fm) = &fired { for a in &fm.absorbing { if !absorbed_track.iter().any(|(mk, _)| mk == a) { absorbed_track.push((*a, k)); } } }
    }
    if !press { absorbed_track.retain(|(mk, _)| *mk != k); }
  }
  // C06: continuation equals a fresh mapper, when the history ended at rest
  if bad.is_none() && prop == "C06" && phys.is_empty() {
    // handled by explore_c06 (needs a continuation)
  }
  bad
}

/// C06 needs two runs: h1 (ending at rest or with release_all) then a continuation compared with a fresh mapper
pub fn check_c06(layout: &Layout, h1: &Vec<Event>, h2: &Vec<Event>, trace: bool) -> Option<(usize, String)> {
  let mut m = Mapper::for_layout(layout);
  for e in h1 { if *e == RELEASE_ALL { m.release_all(); } else { m.step(e.clone()); } }
  let mut f = Mapper::for_layout(layout);
  for (i, e) in h2.iter().enumerate() {
    let a = m.step(e.clone()); let b = f.step(e.clone());
    if trace { println!("  {:?}: after-history {:?} / fresh {:?}", e, a, b); }
    if a != b { return Some((i, format!("continuation step {} ({:?}): mapper after the history answers {:?}, a fresh mapper answers {:?}", i, e, a, b))); }
  }
  None
}

pub fn ev_string(e: &Event) -> String { ev_str(e) }
pub fn state_dump(m: &Mapper) -> String { format!("{:?}", m.state) }
fn ev_str(e: &Event) -> String { if *e == RELEASE_ALL { "RELEASE_ALL".to_string() } else { match e { Pressed(k) => format!("P:{:?}", k), Released(k) => format!("R:{:?}", k) } } }
fn ev_parse(s: &str) -> Event {
  if s == "RELEASE_ALL" { return RELEASE_ALL; }
  let k = KeyCode::from_str(&s[2..]).expect("key name");
  if s.starts_with("P:") { Pressed(k) } else { Released(k) }
}
fn hist_json(h: &Vec<Event>) -> String { format!("[{}]", h.iter().map(|e| format!("\"{}\"", ev_str(e))).collect::<Vec<_>>().join(",")) }

fn shrink(prop: &str, layout: &Layout, hist: &Vec<Event>) -> (Layout, Vec<Event>) {
  // greedy removal of events and mappings while the violation persists
  let mut l = layout.clone(); let mut h = hist.clone();
  if let Some((i, _)) = check_history(prop, &l, &h, false) { h.truncate(i + 1); }
  let mut changed = true;
  while changed {
    changed = false;
    let mut i = 0;
    while i < h.len() { let mut h2 = h.clone(); h2.remove(i); if check_history(prop, &l, &h2, false).is_some() { h = h2; changed = true; } else { i += 1; } }
    let mut j = 0;
    while j < l.mappings.len() { let mut l2 = l.clone(); l2.mappings.remove(j); if check_history(prop, &l2, &h, false).is_some() { l = l2; changed = true; } else { j += 1; } }
  }
  (l, h)
}

pub fn explore(prop: &str, secs: f64, seed: u64) -> i32 {
  let t0 = std::time::Instant::now();
  let mut r = Rng(seed.wrapping_mul(0x9E3779B97F4A7C15) | 1);
  let mut n: u64 = 0;
  // the budget is a number of cases as well as a time: on a loaded machine the search goes on (up to 5x the time) until it has tried what an idle machine tries
  while t0.elapsed().as_secs_f64() < secs || (n < (secs * 60000.0) as u64 && t0.elapsed().as_secs_f64() < 5.0 * secs) {
    for _ in 0..500 {
      n += 1;
      if prop == "C06" {
        let (layout, mut h1) = gen_case(&mut r, false);
        // end at rest: release everything physically held, or cut short by release_all
        let mut phys: BTreeSet<KeyCode> = BTreeSet::new();
        for e in &h1 { match e { Pressed(k) => { phys.insert(*k); }, Released(k) => { phys.remove(k); } } }
        if r.below(2) == 0 { h1.push(RELEASE_ALL); } else { for k in phys.iter() { h1.push(Released(*k)); } }
        let (_, h2) = gen_case(&mut r, false);
        if let Some((_, msg)) = check_c06(&layout, &h1, &h2, false) {
          println!("WITNESS {{\"property\":\"C06\",\"layout\":{},\"history\":{},\"continuation\":{},\"what\":{:?},\"cases_tried\":{}}}", serde_json::to_string(&layout).unwrap(), hist_json(&h1), hist_json(&h2), msg, n);
          return 1;
        }
        if let Some((_, msg)) = check_history("C06", &layout, &h1, false) {
          println!("WITNESS {{\"property\":\"C06\",\"layout\":{},\"history\":{},\"what\":{:?},\"cases_tried\":{}}}", serde_json::to_string(&layout).unwrap(), hist_json(&h1), msg, n);
          return 1;
        }
        continue;
      }
      let (layout, hist) = gen_case(&mut r, prop == "C19" || prop == "C01" || prop == "C02");
      if check_history(prop, &layout, &hist, false).is_some() {
        let (l, h) = shrink(prop, &layout, &hist);
        let (_, msg) = check_history(prop, &l, &h, false).unwrap();
        println!("WITNESS {{\"property\":{:?},\"layout\":{},\"history\":{},\"what\":{:?},\"cases_tried\":{}}}", prop, serde_json::to_string(&l).unwrap(), hist_json(&h), msg, n);
        return 1;
      }
    }
  }
  println!("NO-WITNESS cases_tried={}", n);
  0
}

/// bounded stand-in for the relational clause of C06 ("afterwards it answers like a fresh mapper"), which no single-run contract states: exactly `n` seeded cases -
/// a layout, a history brought to rest (every physically held key released, or release_all), a continuation - the used mapper and a fresh one must answer alike
pub fn fresh_bounded(n: u64, seed: u64) -> i32 {
  let mut r = Rng(seed.wrapping_mul(0x9E3779B97F4A7C15) | 1);
  let mut fails: Vec<serde_json::Value> = Vec::new(); let mut steps: u64 = 0;
  for _ in 0..n {
    let (layout, mut h1) = gen_case(&mut r, false);
    let mut phys: BTreeSet<KeyCode> = BTreeSet::new();
    for e in &h1 { match e { Pressed(k) => { phys.insert(*k); }, Released(k) => { phys.remove(k); } } }
    if r.below(2) == 0 { h1.push(RELEASE_ALL); } else { for k in phys.iter() { h1.push(Released(*k)); } }
    let (_, h2) = gen_case(&mut r, false);
    steps += h2.len() as u64;
    if let Some((_, msg)) = check_c06(&layout, &h1, &h2, false) {
      if fails.len() < 3 { fails.push(serde_json::json!({"input": format!("fresh-case {}", serde_json::json!({"layout": layout, "history": h1.iter().map(ev_str).collect::<Vec<_>>(), "continuation": h2.iter().map(ev_str).collect::<Vec<_>>()})), "what": msg})); } else { break; }
    }
  }
  println!("{}", serde_json::json!({"cases": n, "continuation_steps": steps, "failures": fails}));
  if fails.is_empty() { 0 } else { 1 }
}

pub fn replay(prop: &str, text: &str) -> i32 {
  let v: serde_json::Value = serde_json::from_str(text).expect("json");
  let c = if v.get("counterexample").is_some() { v["counterexample"].clone() } else { v };
  let layout: Layout = serde_json::from_value(c["layout"].clone()).expect("layout");
  let hist: Vec<Event> = c["history"].as_array().unwrap().iter().map(|s| ev_parse(s.as_str().unwrap())).collect();
  println!("replay against the real code ({}), property {}", env!("VERIF_REPO_SRC"), prop);
  println!("layout: {}", serde_json::to_string(&layout).unwrap());
  let r = if prop == "C06" && c.get("continuation").is_some() {
    let h2: Vec<Event> = c["continuation"].as_array().unwrap().iter().map(|s| ev_parse(s.as_str().unwrap())).collect();
    check_c06(&layout, &hist, &h2, true)
  } else { check_history(prop, &layout, &hist, true) };
  match r {
    Some((i, msg)) => { println!("REPRODUCED at step {}: {}", i, msg); 1 },
    None => { println!("NOT-REPRODUCED: the recorded input does not violate {} on this tree", prop); 0 }
  }
}


/// bounded validation of the ASSUMED contract of is_any_modifier (r == the list contains one of the 8 modifiers): every list of length <= 4 over 8 modifiers + 2 other keys
pub fn anymod() -> i32 {
  let mods = [KeyCode::LEFTSHIFT, KeyCode::RIGHTSHIFT, KeyCode::LEFTMETA, KeyCode::RIGHTMETA, KeyCode::LEFTCTRL, KeyCode::RIGHTCTRL, KeyCode::LEFTALT, KeyCode::RIGHTALT];
  let mut alpha: Vec<KeyCode> = mods.to_vec(); alpha.push(KeyCode::A); alpha.push(KeyCode::KPJPCOMMA);
  let mut n: u64 = 0; let mut fails: Vec<String> = Vec::new();
  for len in 0..5usize {
    let total = alpha.len().pow(len as u32);
    for code in 0..total {
      let mut c = code; let mut keys = Vec::new();
      for _ in 0..len { keys.push(alpha[c % alpha.len()]); c /= alpha.len(); }
      let want = keys.iter().filter(|k| mods.contains(k)).count() > 0;
      let got = is_any_modifier(&keys);
      n += 1;
      if want != got && fails.len() < 3 { fails.push(format!("{{\"input\":\"{:?}\",\"what\":\"is_any_modifier returned {} for a list that {} a modifier\"}}", keys, got, if want { "contains" } else { "does not contain" })); }
    }
  }
  println!("{{\"cases\":{},\"failures\":[{}]}}", n, fails.join(","));
  if fails.is_empty() { 0 } else { 1 }
}
