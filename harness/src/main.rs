// Plain-Rust harness over the REAL source files of /repo (included textually at
// compile time from $VERIF_REPO_SRC, default /repo/src).  It is NOT a deciding
// engine: it (1) searches for a concrete failing input after the verifier has
// reported a failed obligation (witness search, DESIGN 4.6), (2) replays a
// recorded input against the real code, (3) validates the N2 rewrite by
// differential execution, (4) runs the exhaustive stand-ins of C17.
#![allow(dead_code, unused_imports, unused_variables, unused_mut, non_snake_case)]
#[macro_use]
extern crate enum_display_derive;

mod key_codes { include!(concat!(env!("VERIF_REPO_SRC"), "/key_codes.rs")); }
mod events { include!(concat!(env!("VERIF_REPO_SRC"), "/events.rs")); }
mod keys { include!(concat!(env!("VERIF_REPO_SRC"), "/keys.rs")); }
mod fancy_keys { include!(concat!(env!("VERIF_REPO_SRC"), "/fancy_keys.rs")); }
mod char_production_map { include!(concat!(env!("VERIF_REPO_SRC"), "/char_production_map.rs")); }
mod physical_keyboard_layouts { include!(concat!(env!("VERIF_REPO_SRC"), "/physical_keyboard_layouts.rs")); }
mod fancy_layout_interpreting { include!(concat!(env!("VERIF_REPO_SRC"), "/fancy_layout_interpreting.rs")); }
mod layout_parsing_formatting {
  include!(concat!(env!("VERIF_REPO_SRC"), "/layout_parsing_formatting.rs"));
  pub mod probe { use super::*; include!("fe_probe.rs"); }
  pub use self::probe::*;
}

mod layout_loading { include!(concat!(env!("VERIF_REPO_SRC"), "/layout_loading.rs")); }
mod loader_probe { include!("loader_probe.rs"); }
mod tables_probe { include!("tables_probe.rs"); }
mod struct_ser { include!(concat!(env!("VERIF_REPO_SRC"), "/struct_ser.rs")); }
// The probe / oracle files live in a CHILD module of the module that holds the real text: private items and imports of the real file are visible there
// (`use super::*`), while the probe's own imports and names shadow instead of clashing - an import or a helper added to the real file cannot break the build.
mod dev_input_rw {
  include!(concat!(env!("VERIF_REPO_SRC"), "/dev_input_rw.rs"));
  pub mod probe { use super::*; include!("c18_probe.rs"); }
  pub use self::probe::*;
}

mod key_transforms {
  include!(concat!(env!("VERIF_REPO_SRC"), "/key_transforms.rs"));
  pub mod probe { use super::*; include!("mapper_oracles.rs"); }
  pub use self::probe::*;
}

mod keyboard_listing { include!(concat!(env!("VERIF_REPO_SRC"), "/keyboard_listing.rs")); }
mod tablet_mode_switch_reader { include!(concat!(env!("VERIF_REPO_SRC"), "/tablet_mode_switch_reader.rs")); }
mod remapping_loop {
  include!(concat!(env!("VERIF_REPO_SRC"), "/remapping_loop.rs"));
  pub mod probe { use super::*; include!("loop_probe.rs"); }
  pub use self::probe::*;
}

// the N2-normalised text of key_transforms.rs (written by the assembler), for differential validation
#[cfg(n2_validation)]
mod key_transforms_n2 {
  include!(concat!(env!("VERIF_N2_FILE")));
  pub mod probe { use super::*; include!("n2_probe.rs"); }
  pub use self::probe::*;
}

// The PINNED (verified) texts of the three files the units verify, compiled next to the current ones: when a function was restructured and the proof
// overlay of its body no longer applies, a bounded differential run of current against pinned stands in for the lost body proof (tools/twin.py).
#[cfg(pinned_twin)]
mod pinned {
  pub mod key_transforms {
    include!(concat!(env!("VERIF_PINNED_DIR"), "/key_transforms.rs"));
    pub fn state_string(m: &Mapper) -> String { format!("{:?}", m.state) }
  }
  pub mod fancy_layout_interpreting { include!(concat!(env!("VERIF_PINNED_DIR"), "/fancy_layout_interpreting.rs")); }
  pub mod remapping_loop {
    include!(concat!(env!("VERIF_PINNED_DIR"), "/remapping_loop.rs"));
    pub mod probe { use super::*; include!("loop_probe.rs"); }
    pub use self::probe::*;
  }
}
#[cfg(pinned_twin)]
fn twin(unit: &str, n: u64, seed: u64) -> i32 {
  std::panic::set_hook(Box::new(|_| {}));
  let mut diffs: Vec<serde_json::Value> = Vec::new();
  let mut steps: u64 = 0;
  if unit == "mapper" {
    let mut r = key_transforms::Rng(seed.wrapping_mul(0x9E3779B97F4A7C15) | 1);
    for _ in 0..n {
      let (layout, hist) = key_transforms::gen_case(&mut r, true);
      // rare shapes: one case in four has its non-modifier keys renamed (injectively) to keys from the WHOLE key-code range, among them pairs of codes
      // that agree modulo 256 (a change that narrows a key code treats such keys as one); the comparison is current text against pinned text, so any renaming is fair
      let (layout, hist) = if r.below(5) == 0 { key_transforms::rename_keys(&mut r, layout, hist) } else { (layout, hist) };
      let (l1, h1) = (layout.clone(), hist.clone());
      // (a panic counts as an answer: both must panic at the same step, or neither)
      let run = std::panic::catch_unwind(move || {
        let mut a = key_transforms::Mapper::for_layout(&l1); let mut b = pinned::key_transforms::Mapper::for_layout(&l1);
        for (i, e) in h1.iter().enumerate() {
          let (ra, rb) = if *e == key_transforms::RELEASE_ALL { (format!("{:?}", a.release_all()), format!("{:?}", b.release_all())) } else { (format!("{:?}", a.step(e.clone())), format!("{:?}", b.step(e.clone()))) };
          if ra != rb || key_transforms::state_dump(&a) != pinned::key_transforms::state_string(&b) { return Some((i, ra, rb)); }
        }
        None
      });
      steps += hist.len() as u64;
      let d = match run { Ok(None) => None, Ok(Some((i, ra, rb))) => Some(format!("step {}: current answers {}, the verified text {} (or the states differ)", i, ra, rb)),
        Err(_) => { let l2 = layout.clone(); let h2 = hist.clone(); let pa = std::panic::catch_unwind(move || { let mut a = key_transforms::Mapper::for_layout(&l2); for e in h2.iter() { if *e == key_transforms::RELEASE_ALL { a.release_all(); } else { a.step(e.clone()); } } }).is_err();
                    let l3 = layout.clone(); let h3 = hist.clone(); let pb = std::panic::catch_unwind(move || { let mut b = pinned::key_transforms::Mapper::for_layout(&l3); for e in h3.iter() { if *e == key_transforms::RELEASE_ALL { b.release_all(); } else { b.step(e.clone()); } } }).is_err();
                    if pa != pb { Some(format!("current panics: {}, the verified text panics: {}", pa, pb)) } else { None } } };
      if let Some(w) = d { diffs.push(serde_json::json!({"layout": layout, "history": hist.iter().map(key_transforms::ev_string).collect::<Vec<_>>(), "what": w})); if diffs.len() >= 40 { break; } }
    }
  } else if unit == "converter" {
    let mut r = loader_probe::Rng(seed.wrapping_mul(0x9E3779B97F4A7C15) | 1);
    for i in 0..n {
      let (text, prog) = if i % 2 == 0 { let p = loader_probe::gen_program(&mut r); (loader_probe::program_json(&p), Some(loader_probe::program_value(&p))) } else { (loader_probe::gen_mutated_json(&mut r), None) };
      let v: serde_json::Value = match serde_json::from_str(&text) { Ok(v) => v, Err(_) => continue };
      let f = match std::panic::catch_unwind(|| layout_parsing_formatting::parse_layout_from_json(&v)) { Ok(Ok(f)) => f, _ => continue };
      steps += 1;
      let a = std::panic::catch_unwind(|| fancy_layout_interpreting::convert(&f).map(|l| l.mappings));
      let b = std::panic::catch_unwind(|| pinned::fancy_layout_interpreting::convert(&f).map(|l| l.mappings));
      let same = match (&a, &b) { (Ok(Ok(x)), Ok(Ok(y))) => x == y, (Ok(Err(_)), Ok(Err(_))) => true, (Err(_), Err(_)) => true, _ => false };
      if !same { let w = format!("current: {}, the verified text: {}", match &a { Ok(Ok(x)) => format!("{} mappings", x.len()), Ok(Err(e)) => format!("rejects ({})", e), Err(_) => "panics".to_string() }, match &b { Ok(Ok(x)) => format!("{} mappings", x.len()), Ok(Err(e)) => format!("rejects ({})", e), Err(_) => "panics".to_string() });
        diffs.push(match prog { Some(p) => serde_json::json!({"program": serde_json::to_string(&p).unwrap(), "json": text, "event_seed": 1, "what": w}), None => serde_json::json!({"json": text, "event_seed": 1, "what": w}) }); if diffs.len() >= 40 { break; } }
    }
  } else if unit == "loop" {
    for i in 0..n {
      let s = seed.wrapping_mul(1000003).wrapping_add(i);
      let a = remapping_loop::case_log(s); let b = pinned::remapping_loop::case_log(s);
      steps += a.len() as u64;
      if a != b { let k = a.iter().zip(b.iter()).position(|(x, y)| x != y).unwrap_or(a.len().min(b.len()));
        diffs.push(serde_json::json!({"loop_seed": s, "what": format!("driver call {}: current `{}`, the verified text `{}`", k, a.get(k).cloned().unwrap_or("(no further call)".to_string()), b.get(k).cloned().unwrap_or("(no further call)".to_string()))})); if diffs.len() >= 40 { break; } }
    }
  } else { eprintln!("unknown unit"); return 2; }
  println!("{}", serde_json::json!({"unit": unit, "cases": n, "steps": steps, "differences": diffs}));
  if diffs.is_empty() { 0 } else { 1 }
}
#[cfg(not(pinned_twin))]
fn twin(_unit: &str, _n: u64, _seed: u64) -> i32 { eprintln!("built without --cfg pinned_twin"); 2 }

fn main() {
  let args: Vec<String> = std::env::args().collect();
  if args.len() < 2 { eprintln!("usage: tmharness explore PROP SECONDS SEED | replay PROP FILE | n2 SECONDS SEED"); std::process::exit(2); }
  match args[1].as_str() {
    "explore" => {
      let prop = &args[2]; let secs: f64 = args[3].parse().unwrap(); let seed: u64 = args[4].parse().unwrap();
      if prop == "C13" || prop == "C14" { std::process::exit(loader_probe::explore(prop, secs, seed)); }
      // C11 on layout FILES first (repeat values the loader lets through), then on delivery schedules
      if prop == "C11" { let rc = loader_probe::explore(prop, (secs / 10.0).min(2.0), seed); if rc == 1 { std::process::exit(1); } }
      if prop == "C10" || prop == "C11" || prop == "C12" || prop == "C20" { std::process::exit(remapping_loop::explore(prop, secs, seed)); }
      std::process::exit(key_transforms::explore(prop, secs, seed));
    },
    "realdriver" => { let seed: u64 = args[2].parse().unwrap(); let cases: u64 = args[3].parse().unwrap(); std::process::exit(remapping_loop::real_driver(seed, cases)); },
    "realdriver1" => { let n: u64 = args[2].parse().unwrap(); std::process::exit(remapping_loop::real_driver_one(n)); },
    "tables" => { std::process::exit(tables_probe::tables()); },
    "loaderfuzz" => { let n: u64 = args[2].parse().unwrap(); let seed: u64 = args[3].parse().unwrap(); std::process::exit(loader_probe::loader_fuzz_bounded(n, seed)); },
    "fresh" => { let n: u64 = args[2].parse().unwrap(); let seed: u64 = args[3].parse().unwrap(); std::process::exit(key_transforms::fresh_bounded(n, seed)); },
    "twin" => { let n: u64 = args[3].parse().unwrap(); let seed: u64 = args[4].parse().unwrap(); std::process::exit(twin(&args[2], n, seed)); },
    "programs" => { let n: u64 = args[2].parse().unwrap(); let seed: u64 = args[3].parse().unwrap(); std::process::exit(loader_probe::programs_bounded(n, seed)); },
    "anymod" => { std::process::exit(key_transforms::anymod()); },
    "hek" => { std::process::exit(layout_parsing_formatting::hek_bounded()); },
    "ordsort" => { let n: u64 = args[2].parse().unwrap(); let seed: u64 = args[3].parse().unwrap(); std::process::exit(loader_probe::ord_sort_probe(n, seed)); },
    "c18" => {
      let seed: u64 = args[2].parse().unwrap(); let budget: u64 = args[3].parse().unwrap();
      std::process::exit(dev_input_rw::c18(seed, budget));
    },
    "replay" => {
      let prop = &args[2];
      let text = std::fs::read_to_string(&args[3]).unwrap();
      if prop == "C13" || prop == "C14" { std::process::exit(loader_probe::replay(prop, &text)); }
      if prop == "C11" && text.contains("\"json\"") && !text.contains("\"loop_seed\"") { std::process::exit(loader_probe::replay(prop, &text)); }
      if prop == "C10" || prop == "C11" || prop == "C12" || prop == "C20" { std::process::exit(remapping_loop::replay(prop, &text)); }
      std::process::exit(key_transforms::replay(prop, &text));
    },
    #[cfg(n2_validation)]
    "n2" => {
      let secs: f64 = args[2].parse().unwrap(); let seed: u64 = args[3].parse().unwrap();
      std::process::exit(n2_validate(secs, seed));
    },
    _ => { eprintln!("unknown command"); std::process::exit(2); }
  }
}

#[cfg(n2_validation)]
fn n2_validate(secs: f64, seed: u64) -> i32 {
  use std::time::Instant;
  let t0 = Instant::now();
  let mut r = key_transforms::Rng(seed | 1);
  let mut steps: u64 = 0; let mut programs: u64 = 0;
  let mut sample = String::new();
  while t0.elapsed().as_secs_f64() < secs {
    for _ in 0..2000 {
      let (layout, hist) = key_transforms::gen_case(&mut r, true);
      programs += 1;
      let mut a = key_transforms::Mapper::for_layout(&layout);
      let mut b = key_transforms_n2::Mapper::for_layout(&layout);
      for (i, e) in hist.iter().enumerate() {
        let (ra, rb) = if *e == keys::Event::Released(keys::KeyCode::KPJPCOMMA) {
          (format!("{:?}", a.release_all()), format!("{:?}", b.release_all()))
        } else { (format!("{:?}", a.step(e.clone())), format!("{:?}", b.step(e.clone()))) };
        steps += 1;
        let sa = key_transforms::state_string(&a); let sb = key_transforms_n2::state_string(&b);
        if ra != rb || sa != sb {
          println!("N2-DISAGREEMENT at step {} of {:?} on {:?}: original {} {} / normalised {} {}", i, hist, layout, ra, sa, rb, sb);
          return 1;
        }
      }
      if sample.is_empty() { sample = format!("{:?} / {:?}", layout.mappings, hist); }
    }
  }
  println!("N2-OK programs={} steps={} disagreements=0 sample={}", programs, steps, sample.replace('\n', " "));
  0
}
