// C13: the two lazy_static tables compared with the US-QWERTY layout, written here independently of the code
// (unshifted and shifted legends of the four character rows, left to right). Complete over the domains:
// every Unicode scalar value for CHAR_ACCESS_MAP, every Row for US_KEYBOARD_LAYOUT. Enumerative; not a proof.
use crate::key_codes::KeyCode;
use crate::key_codes::KeyCode::*;
use crate::fancy_keys::Row;

const ROWS: [(&str, &str, &[KeyCode]); 4] = [
  ("`1234567890-=", "~!@#$%^&*()_+", &[GRAVE, K1, K2, K3, K4, K5, K6, K7, K8, K9, K0, MINUS, EQUAL]),
  ("qwertyuiop[]\\", "QWERTYUIOP{}|", &[Q, W, E, R, T, Y, U, I, O, P, LEFTBRACE, RIGHTBRACE, BACKSLASH]),
  ("asdfghjkl;'", "ASDFGHJKL:\"", &[A, S, D, F, G, H, J, K, L, SEMICOLON, APOSTROPHE]),
  ("zxcvbnm,./", "ZXCVBNM<>?", &[Z, X, C, V, B, N, M, COMMA, DOT, SLASH]),
];

fn us_qwerty(c: char) -> Option<(bool, KeyCode)> {
  for (plain, shifted, keys) in ROWS.iter() {
    if let Some(i) = plain.chars().position(|x| x == c) { return Some((false, keys[i])); }
    if let Some(i) = shifted.chars().position(|x| x == c) { return Some((true, keys[i])); }
  }
  None
}

pub fn tables() -> i32 {
  let mut fails: Vec<String> = Vec::new();
  let mut n: u64 = 0; let mut entries: u64 = 0;
  for u in 0u32..=0x10FFFF { if let Some(c) = char::from_u32(u) {
    n += 1;
    let got = crate::char_production_map::CHAR_ACCESS_MAP.get(&c).map(|sk| (sk.sh, sk.k));
    let want = if c == ' ' { None } else { us_qwerty(c) };
    if got.is_some() { entries += 1; }
    if got != want && fails.len() < 3 { fails.push(format!("{{\"input\":\"char U+{:04X}\",\"what\":\"CHAR_ACCESS_MAP gives {:?} for U+{:04X}, a US-QWERTY keyboard needs {:?}\"}}", u, got, u, want)); }
  } }
  let rows: [(Row, Vec<KeyCode>); 5] = [
    (Row::USQuertyGrave, ROWS[0].2.to_vec()), (Row::USQuerty1, ROWS[0].2[1..].to_vec()),
    (Row::USQuertyQ, ROWS[1].2[..12].to_vec()), (Row::USQuertyA, ROWS[2].2.to_vec()), (Row::USQuertyZ, ROWS[3].2.to_vec()) ];
  for (r, want) in rows.iter() {
    n += 1;
    let got = crate::physical_keyboard_layouts::US_KEYBOARD_LAYOUT.get(r).map(|s| s.to_vec());
    if got.as_ref() != Some(want) && fails.len() < 6 { fails.push(format!("{{\"input\":\"row {}\",\"what\":\"US_KEYBOARD_LAYOUT gives {:?} for row {}, the US-QWERTY row is {:?}\"}}", r, got, r, want)); }
  }
  println!("{{\"cases\":{},\"table_entries\":{},\"failures\":[{}]}}", n, entries, fails.join(","));
  if fails.is_empty() { 0 } else { 1 }
}
