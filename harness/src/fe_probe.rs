// Bounded validation of the ASSUMED contract of layout_parsing_formatting::has_exactly_keys (external_body in the verified text: its body collects and
// sorts key names through iterator adapters) and of the verified has_at_least_keys, against the statement "the object has exactly / at least these members":
// every object over a five-name alphabet (32 objects) x every list of at most three names (156 lists, duplicates included).
pub fn hek_bounded() -> i32 {
  let names = ["from", "to", "repeat", "a", "letters"];
  let mut lists: Vec<Vec<&str>> = vec![vec![]];
  for a in 0..5 { lists.push(vec![names[a]]); for b in 0..5 { lists.push(vec![names[a], names[b]]); for c in 0..5 { lists.push(vec![names[a], names[b], names[c]]); } } }
  let mut cases = 0u64; let mut fails: Vec<serde_json::Value> = Vec::new();
  for mask in 0u32..32 {
    let mut m = Map::new();
    for (i, n) in names.iter().enumerate() { if mask & (1 << i) != 0 { m.insert(n.to_string(), Value::Null); } }
    for l in &lists {
      cases += 1;
      let got = has_exactly_keys(&m, l);
      // reference: the sorted key names equal the sorted list (so: a list with a duplicate never matches; an exact set does)
      let mut ks: Vec<&str> = names.iter().enumerate().filter(|(i, _)| mask & (1 << i) != 0).map(|(_, n)| *n).collect(); ks.sort();
      let mut ls = l.clone(); ls.sort();
      let want = ks == ls;
      if got != want && fails.len() < 3 { fails.push(serde_json::json!({"input": format!("object with members {:?}, list {:?}", ks, l), "what": format!("has_exactly_keys answers {}, the members {} exactly the list", got, if want { "are" } else { "are not" })})); }
      // the assumed contract itself: true only if every listed name is a member
      if got && !l.iter().all(|n| m.contains_key(*n)) && fails.len() < 3 { fails.push(serde_json::json!({"input": format!("object with members {:?}, list {:?}", ks, l), "what": "has_exactly_keys answers true although a listed name is not a member (the unwrap after get would panic)"})); }
      let got2 = has_at_least_keys(&m, l); let want2 = l.iter().all(|n| m.contains_key(*n));
      if got2 != want2 && fails.len() < 3 { fails.push(serde_json::json!({"input": format!("object with members {:?}, list {:?}", ks, l), "what": format!("has_at_least_keys answers {}", got2)})); }
    }
  }
  println!("{}", serde_json::json!({"cases": cases, "failures": fails}));
  if fails.is_empty() { 0 } else { 1 }
}
