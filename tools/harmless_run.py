#!/usr/bin/env python3
"""Run the registered quick checks against a behaviour-preserving refactoring (written by a fresh sub-agent, confirmed to keep the 49 tests passing):
apply /verif/harmless/<name>/patch.diff to /repo, run the checks, undo.  No check may print VIOLATION; UNDECIDED (exit 2) is counted.
usage: harmless_run.py NAME [PROPS...]"""
import sys, os, subprocess, json
name = sys.argv[1]
sys.path.insert(0, os.path.dirname(os.path.abspath(__file__)))
import props as P
props = sys.argv[2:] or sorted(P.PROPS)
d = os.path.join('/verif/harmless', name)
assert subprocess.call('git -C /repo diff --quiet', shell=True) == 0, '/repo has uncommitted changes'
assert subprocess.call('git -C /repo apply %s/patch.diff' % d, shell=True) == 0
res = {}
try:
    for p in props:
        r = subprocess.run(['/verif/check', p], stdout=subprocess.PIPE, stderr=subprocess.STDOUT, cwd='/verif')
        first = r.stdout.decode().strip().split('\n')
        res[p] = dict(rc=r.returncode, line=first[0][:260], detail=[l[:300] for l in first[1:4]])
        print('[%s] %s rc=%d :: %s' % (name, p, r.returncode, ' | '.join(first[:2])[:300]))
finally:
    subprocess.call('git -C /repo checkout -- .', shell=True)
f = os.path.join(d, 'check_results.json')
old = json.load(open(f)) if os.path.exists(f) else {}
old.update(res)
json.dump(dict(sorted(old.items())), open(f, 'w'), indent=1)
