#!/usr/bin/env python3
"""writes /verif/MANIFEST.json from tools/props.py + tools/manifest_text.py"""
import json, os, sys
sys.path.insert(0, os.path.dirname(os.path.abspath(__file__)))
import props as P, manifest_text as T
VERIF = os.path.dirname(os.path.dirname(os.path.abspath(__file__)))
all_ids = [json.loads(l)['id'] for l in open(os.path.join(VERIF, 'properties.jsonl'))]
checks = []
for pid in all_ids:
    if pid not in P.PROPS: continue
    t = T.TEXT[pid]
    checks.append(dict(property_id=pid, quick_cmd='./check %s --tier quick' % pid, thorough_cmd='./check %s --tier thorough' % pid,
                       evidence_file='/verif/evidence/%s.json' % pid, replay_cmd_template='./check %s --replay {path}' % pid,
                       engine=t.get('engine', 'verus-on-real-source'),
                       level_claimed=dict(category=P.PROPS[pid]['level'], text=t['level_text'], design_ref=t['design_ref']),
                       level_note=t['level_note'], technique=t['technique']))
na = [dict(property_id=pid, reason=T.NOT_APPLICABLE.get(pid, 'no check built yet')) for pid in all_ids if pid not in P.PROPS]
m = dict(version=1, setup_cmd='./setup.sh',
         hooks=dict(guard='ellbur_totalmapper_verif', enable='none needed: the checks read /repo/src/*.rs directly (Verus on the extracted text; the plain-Rust harness include!s the files); no cfg-guarded code exists in /repo',
                    baseline_off_cmd='cd /repo && cargo test --workspace --no-fail-fast --offline', source_commits=[], add_only=True),
         engines=[dict(name='verus-on-real-source', path='/verif/tools', serves_properties=[c['property_id'] for c in checks if c['engine'] == 'verus-on-real-source'],
                       kind_free_text='contract-based deductive verification: Verus 0.2026.09.13 on the text of /repo/src re-extracted on every run, contracts woven in from /verif/contracts'),
                  dict(name='kani-and-native-enumeration', path='/verif/kani', serves_properties=['C18'],
                       kind_free_text='Kani 0.68 harnesses over the real dev_input_rw.rs / struct_ser.rs / key_codes.rs (thorough tier, recorded per content hash) + exhaustive native enumeration through a pipe (every run)'),
                  dict(name='harness', path='/verif/harness', serves_properties=[c['property_id'] for c in checks],
                       kind_free_text='plain-Rust crate that include!s the real source files: witness search + replay of counterexamples, N2 differential validation, exhaustive stand-ins; never decides a property on its own')],
         checks=checks, not_applicable=na, notes=T.NOTES)
json.dump(m, open(os.path.join(VERIF, 'MANIFEST.json'), 'w'), indent=1)
print('MANIFEST: %d checks, %d not applicable' % (len(checks), len(na)))
