#!/bin/bash
# Runs every confirmed seeded change of /verif/seeded against the registered quick checks of the properties it could touch.
# Applies each patch to /repo, runs the checks, undoes it (tools/seed_run.py). Results: seeded/<ID>/check_results.json.
cd /verif
MAPPER="C01 C02 C03 C04 C05 C06 C07 C08 C09 C19"
LOOP="C10 C11 C12 C20"
for s in C01 C02 C02b C03 C03b C04 C04b C05 C05b C05c C06 C07 C08 C08b C09 C19; do python3 tools/seed_run.py $s $MAPPER; done
for s in C10 C11 C11b C12 C20; do python3 tools/seed_run.py $s $LOOP; done
for s in C13 C13b C13c C14; do python3 tools/seed_run.py $s C13 C14; done
python3 tools/seed_run.py C17 C17
python3 tools/seed_run.py C18 C18
git -C /repo status --short
echo MATRIX-DONE
