#!/usr/bin/env python3
"""Confirm a seeded change delivered in /tmp/seed/<ID>/ (patch.diff, demo_test.rs.txt, meta.json) in a scratch worktree:
the patched tree compiles and passes the 49 tests; the demonstration fails with the patch and passes without it.
On success copies the three files to /verif/seeded/<name>/ and extends meta.json with what was run."""
import sys, os, subprocess, json, re, shutil
sid = sys.argv[1]; name = sys.argv[2] if len(sys.argv) > 2 else sid
src = '/tmp/seed/%s' % sid
wt = '/tmp/sv_%s' % name
def sh(cmd, cwd=None):
    p = subprocess.run(cmd, shell=True, cwd=cwd, stdout=subprocess.PIPE, stderr=subprocess.STDOUT)
    return p.returncode, p.stdout.decode(errors='replace')
sh('git -C /repo worktree remove --force %s' % wt); shutil.rmtree(wt, ignore_errors=True)
rc, out = sh('git -C /repo worktree add -q %s HEAD' % wt); assert rc == 0, out
ran = []
try:
    rc, out = sh('git apply %s/patch.diff' % src, cwd=wt); assert rc == 0, 'patch does not apply: ' + out
    rc, out = sh('cargo test --offline 2>&1 | tail -3', cwd=wt); ran.append('cargo test --offline (patched): ' + out.strip().split('\n')[-1])
    m = re.search(r'test result: ok\. (\d+) passed; 0 failed', out); assert m and int(m.group(1)) == 49, 'patched tree does not pass the 49 tests: ' + out
    demo = open('%s/demo_test.rs.txt' % src).read()
    fm = re.search(r'src/[\w_]+\.rs', demo); target = fm.group(0) if fm else 'src/key_transforms.rs'
    tm = re.search(r'#\[test\]\s*(?:#\[[^\]]*\]\s*)*fn\s+(\w+)\s*\(', demo)
    tn = tm.group(1) if tm else re.search(r'fn\s+(\w+)\s*\(', demo).group(1)
    path = os.path.join(wt, target); text = open(path).read()
    if re.search(r'^\s*(#\[cfg\(test\)\]\s*)?mod\s+\w+\s*\{', demo, re.M) and 'dev_input_rw' in target:
        open(path, 'w').write(text + '\n' + demo + '\n')
    else:
        i = text.rindex('}')
        open(path, 'w').write(text[:i] + '\n' + demo + '\n' + text[i:])
    rc1, out1 = sh('cargo test --offline %s 2>&1 | tail -30' % tn, cwd=wt); ran.append('cargo test --offline %s (patched + demo): %s' % (tn, [l for l in out1.split('\n') if 'test result' in l][-1:] ))
    assert 'FAILED' in out1 or 'failed' in out1 and '1 failed' in out1, 'demo does not fail with the patch: ' + out1[-800:]
    rc, out = sh('git apply -R %s/patch.diff' % src, cwd=wt); assert rc == 0, 'reverse apply: ' + out
    rc2, out2 = sh('cargo test --offline %s 2>&1 | tail -8' % tn, cwd=wt); ran.append('cargo test --offline %s (unpatched + demo): %s' % (tn, [l for l in out2.split('\n') if 'test result' in l][-1:]))
    assert re.search(r'test result: ok\. 1 passed', out2), 'demo does not pass without the patch: ' + out2[-800:]
    dst = os.path.join('/verif/seeded', name); os.makedirs(dst, exist_ok=True)
    for f in ('patch.diff', 'demo_test.rs.txt'): shutil.copy(os.path.join(src, f), dst)
    meta = json.load(open(os.path.join(src, 'meta.json')))
    meta['confirmed_by'] = ran; meta['demo_target_file'] = target; meta['demo_test_name'] = tn
    meta['base_commit'] = subprocess.run('git -C /repo rev-parse HEAD', shell=True, stdout=subprocess.PIPE).stdout.decode().strip()
    json.dump(meta, open(os.path.join(dst, 'meta.json'), 'w'), indent=1)
    print('CONFIRMED', name, tn, target)
finally:
    sh('git -C /repo worktree remove --force %s' % wt); shutil.rmtree(wt, ignore_errors=True)
