"""Property table: which units carry the obligations of each claimed property,
what is trusted, what is assumed.  Obligations themselves are the `//@ Cnn`
markers in /verif/contracts/*.ann.rs and /verif/spec/*.rs."""

TB_COMMON = [
    'Verus 0.2026.09.13, Z3 4.16, rustc 1.98.1 (the verifier, the solver, the compiler)',
    'the assembler /verif/tools/{vlib,assemble}.py: extraction rules E1-E5, N1-N3 and the token weave (executable tokens of the verified text are taken from /repo/src on every run; DESIGN 4.1)',
    'assumed contracts on std listed under assumed_contracts (assume_specification / external_body axioms in /verif/contracts/prelude.rs)',
    "rustc's derive(Clone) on Mapping / Repeat is the field-wise expansion written out in the overlay (E2')",
]
TB_MAPPER = TB_COMMON + [
    'N2: `Vec::retain(closure)` is replaced by its documented semantics as an index loop before verification (validated by differential execution in the thorough tier)',
    'derived PartialEq/Hash of KeyCode are structural (obeys_key_model::<KeyCode>)',
]
AS_MAPPER = [
    'Vec lengths are at most isize::MAX (axiom_vec_len_isize)',
    'machine arithmetic is NOT idealised: Verus checks overflow on every machine-integer operation',
    'the layout satisfies layout_ok (non-empty `from`, no key twice in `from`, none twice in `to`): what Mapper::for_layout panics on otherwise',
    'termination of every mapper loop is proved (decreases clauses); the universal client is ghost-instrumented code that is never executed',
]

PROPS = {
    'C19': dict(units=['mapper'], level='proof', trusted_base=TB_MAPPER, assumptions=AS_MAPPER, witness='mapper'),
    'C01': dict(units=['mapper'], level='proof', trusted_base=TB_MAPPER, assumptions=AS_MAPPER, witness='mapper', rests_on=['C19']),
    'C09': dict(units=['mapper'], level='proof', trusted_base=TB_MAPPER, assumptions=AS_MAPPER, witness='mapper'),
    'C07': dict(units=['mapper'], level='proof', trusted_base=TB_MAPPER, assumptions=AS_MAPPER, witness='mapper', rests_on=['C19']),
}
