"""Property table: which units carry the obligations of each claimed property,
what is trusted, what is assumed.  Obligations themselves are the `//@ Cnn`
markers in /verif/contracts/*.ann.rs and /verif/spec/*.rs."""

TB_COMMON = [
    'Verus 0.2026.09.13, Z3 4.16, rustc 1.98.1 (the verifier, the solver, the compiler)',
    'the assembler /verif/tools/{vlib,assemble}.py: extraction rules E1-E5, N1-N4 and the token weave (executable tokens of the verified text are taken from /repo/src on every run; DESIGN 4.1)',
    'assumed contracts on std listed under assumed_contracts (assume_specification / external_body axioms in /verif/contracts/prelude.rs)',
    "rustc's derive(Clone) on Mapping / Repeat is the field-wise expansion written out in the overlay (E2')",
]
TB_MAPPER = TB_COMMON + [
    'N2: `Vec::retain(closure)` is replaced by its documented semantics as an index loop before verification (validated by differential execution in the thorough tier)',
    'N4: `v.iter().any(closure)` (one site: is_any_modifier) is replaced by the short-circuiting index loop it stands for before verification (validated by the same differential execution, and on every run by the exhaustive bounded comparison anymod_bounded)',
    'derived PartialEq/Hash of KeyCode are structural (obeys_key_model::<KeyCode>)',
]
AS_MAPPER = [
    'Vec lengths are at most isize::MAX (axiom_vec_len_isize)',
    'machine arithmetic is NOT idealised: Verus checks overflow on every machine-integer operation',
    'the layout satisfies layout_ok (non-empty `from`, no key twice in `from`, none twice in `to`): what Mapper::for_layout panics on otherwise',
    'termination of every mapper loop is proved (decreases clauses); the universal client is ghost-instrumented code that is never executed',
]

AS_ANYMOD = 'key_transforms::is_any_modifier is verified after rewrite N4 (its body `keys.iter().any(closure)` is written out as the index loop it stands for); that the rewrite preserves behaviour rests on the documented semantics of Iterator::any and is compared with the real function for every list of length <= 4 over a 10-key alphabet on every run (extras: anymod_bounded) and by differential execution in the thorough tier'

TB_LOOP = TB_COMMON + [
    'the loop is verified against the CONTRACT of the Driver trait (ghost state failed/sends/reads_live/kb_pending/tab_pending/tablet/just_switched/interrupts); that RealDriver (mio readiness, EAGAIN -> Busy, ENODEV -> End, nix read/write) meets this contract is assumed, not proved; it is exercised on every run on OS pipes (extras: real_driver_pipes_c10 / _c20; bounded, not a proof)',
    'E4: only WorkingRepeat, Device, PollResult, trait Driver, Next and do_remapping_loop_one_device of remapping_loop.rs are part of the verified text; the thread spawning / device discovery around them is not',
    'Instant / Duration are modelled as mathematical integers of nanoseconds through axioms on vstd AddSpec / SubSpec / PartialOrdSpec (Instant + Duration is allowed only for durations of at most i32::MAX ms; Instant - Instant saturates at zero)',
    'Mapper::step / release_all / for_layout / is_held_on_output are used through their contracts, which the mapper unit proves',
]
AS_LOOP = [
    'environment: fewer than 50 Interrupted poll results between two device events (beyond that `1000 * (1 << restart_count)` overflows; an arithmetic obligation outside every listed property)',
    'environment: the clock is monotonic (needed only to read "the wait is next_wakeup - now" as "at most delay_ms after the firing")',
    'Mapper::step is a deterministic function of the mapper state and the event (safe Rust, no interior mutability): "the mapper\'s outputs for that sequence" are the values returned by the one mapper that is fed exactly the delivered events',
    'the layout satisfies layout_ok (C14 shows that the loader only accepts such layouts)',
    'the function is intentionally non-terminating (exec_allows_no_decreases_clause on do_remapping_loop_one_device only); the two inner drain loops DO carry a termination measure',
    'environment (finite bursts): between two notifications a device hands out finitely many events before it answers Busy (ghost measures kb_left / tab_left of the Driver contract); used only for the termination measure of the drain loops, which is what rejects a loop that keeps reading a device after it has answered Busy',
]

TB_CONV = TB_COMMON + [
    'N1 (reference patterns on Copy values) and N3 (`for x in user_iterator` desugared to `loop { match it.next() .. }`, the Rust reference definition of `for`) are applied to fancy_layout_interpreting.rs before verification',
    'E5: the lazy_static tables US_KEYBOARD_LAYOUT / CHAR_ACCESS_MAP are replaced by external_body accessors (assumed: `get` returns None or a reference into the table)',
    'E2: the Display impls of fancy_keys.rs are compiled but not verified; format! results are opaque (fmt_req_all axioms for Row, Modifier, KeyCode, Vec<KeyCode>)',
    'assumed contracts on std: <[T]>::sort leaves an ascending permutation of the elements (ord_leq, a total order consistent with == for KeyCode: derived Ord on a field-less enum), Vec::extend has the contract named below, Chars::count returns the number of characters left, HashMap::get_mut, String / FromSet obey the hash key model, and FromSet keys are equal exactly when their key vectors have equal contents (derived Eq/Hash; axiom_fromset_ext)',
    "N5: `s.iter().map(closure).collect()` (one site: FromSet::new) is replaced by the push loop it stands for before verification; rustc's derive(Clone) on FromSet is the field-wise expansion written out in the overlay (E2'); both are exercised on every run by the bounded program comparison programs_bounded",
]
AS_CONV = [
    'OUT OF REACH, trusted and named: serde_json::from_reader on arbitrary bytes, layout_parsing_formatting::parse_layout_from_json (serde_json::Value, String case folding) and the file I/O of load_layout_from_file; the claim starts at the fancy_keys AST that the parser returns',
    'termination of the converter is not proved (exec_allows_no_decreases_clause on the functions that loop over user iterators); panic-freedom is',
    'Vec lengths are at most isize::MAX',
]

PROPS = {
    'C19': dict(units=['mapper'], level='proof', trusted_base=TB_MAPPER, assumptions=AS_MAPPER, witness='mapper'),
    'C01': dict(units=['mapper'], level='proof', trusted_base=TB_MAPPER, assumptions=AS_MAPPER, witness='mapper', rests_on=['C19']),
    'C02': dict(units=['mapper'], level='proof', trusted_base=TB_MAPPER, assumptions=AS_MAPPER, witness='mapper', rests_on=['C19', 'C01', 'C03']),
    'C03': dict(units=['mapper'], level='proof', trusted_base=TB_MAPPER, assumptions=AS_MAPPER + ['"held" is read as "considered pressed by the mapper"; for layouts without absorbing mappings and histories without release-all the universal client proves that this is exactly the set of physically held keys'], witness='mapper', rests_on=['C19']),
    'C06': dict(units=['mapper'], level='proof', trusted_base=TB_MAPPER, assumptions=AS_MAPPER + ['ONLY the reset clause is decided (after every physical key has been released, and after release_all, nothing is considered pressed and nothing is held on the virtual keyboard); "answers every subsequent event sequence exactly as a new mapper" is a relation between two runs (the fields mapped_absorbed_keys / absorbing_trigger / repeating_trigger may keep stale values) and is not expressible as a single-run contract: NOT claimed'], witness='mapper', rests_on=['C19', 'C01'], extras=['fresh_bounded']),
    'C08': dict(units=['mapper'], level='proof', trusted_base=TB_MAPPER, assumptions=AS_MAPPER + [
                    'claimed for layouts in which every mapping with an absorbing list outputs a non-modifier key; the complementary shape is known finding D8 (known_findings.txt), replayed on every run',
                    'clause (ii) is proved for the end of the step (if the step pressed a non-modifier key, the absorbed key is not held afterwards unless a mapping in effect outputs it), not for every instant inside the step'],
                witness='mapper', rests_on=['C19', 'C03']),
    'C09': dict(units=['mapper'], level='proof', trusted_base=TB_MAPPER, assumptions=AS_MAPPER, witness='mapper', rests_on=['C03']),
    'C10': dict(units=['loop'], level='proof', trusted_base=TB_LOOP, assumptions=AS_LOOP, witness='loop', extras=['real_driver_pipes_c10']),
    # dep_units: the loop is verified against the CONTRACT of Mapper::step / Mapper::release_all; whether the mapper still meets that contract is
    # decided by the mapper unit, which therefore runs with these two checks as well (C11 uses step's repeat request, tagged C09; C12 uses
    # release_all's "nothing is held afterwards", tagged C06 C12; C11's "waits at most delay_ms" needs the repeat values of a loaded layout to be
    # non-negative, which the converter's check_mapping_is_usable guarantees under a C11 label)
    'C11': dict(units=['loop'], dep_units=['mapper', 'converter'], level='proof', trusted_base=TB_LOOP, assumptions=AS_LOOP, witness='loop', rests_on=['C09', 'C10']),   # which keys of the chord are "not already held" is read from the mapper's bookkeeping, which equals the device only if every step output was written (C10)
    'C12': dict(units=['loop'], dep_units=['mapper'], level='proof', trusted_base=TB_LOOP, assumptions=AS_LOOP, witness='loop', rests_on=['C11']),   # "all keys held are released" is about the device: the release batch comes from the mapper's bookkeeping, which equals the device only because timer chords are transient (C11)
    'C20': dict(units=['loop'], level='proof', trusted_base=TB_LOOP, assumptions=AS_LOOP, witness='loop', extras=['real_driver_pipes_c20']),
    'C14': dict(units=['converter', 'mapper', 'glue', 'frontend'], level='proof', trusted_base=TB_MAPPER + TB_CONV[4:], assumptions=AS_CONV + AS_MAPPER, witness='loader', extras=['loader_fuzz_bounded', 'hek_bounded']),
    'C13': dict(units=['converter'], level='proof', trusted_base=TB_CONV + [
                    'E5 accessors: CHAR_ACCESS_MAP.get / US_KEYBOARD_LAYOUT.get are assumed to be functions of their argument (uninterpreted cam_entry / ukl_row); that these functions ARE the US-QWERTY layout is decided by the complete enumeration tables_enum (every Unicode scalar value, every row), reported as enumerative',
                    'assumed contract on <Vec<T> as Extend<&T>>::extend (appends the items the argument yields; a &Vec yields its elements in order), used for the trigger-side and output-side key lists'],
                assumptions=AS_CONV + [
                    'the repeat-only pass IS under contract (convert ensures convert_full: first-pass expansion of every source mapping with repeat mode and absorbing list, then for every repeat-only entry and every combination, in order, the first-pass mappings with the same trigger set - same final key, same modifiers in any order - get its repeat mode, or an identity mapping is appended if there is none); "there is none" refers to the mappings of the first pass: an identity mapping added by an earlier repeat-only entry is not found by a later one (what the code does; the statement does not say)',
                    'acceptance IS under contract: convert ensures `r is Err ==> convert_rejects(f)`: a layout is refused only if a source mapping cannot be expanded (undefined alias; for some combination an output-side alias that does not occur on the trigger side, a repeat with more letters than the output, an unknown or too short row, a character that cannot be typed), a repeat-only entry cannot be applied, or the converted layout contains a mapping the mapper cannot run (check_mapping_is_usable is exact); assumed for it: Chars::count returns the number of characters left',
                    'NOT under contract (named, unproved): the equivalence of spellings (bare string vs one-element array, case of row / repeat names: these live in the parser, which is verified for panic-freedom only); the bounded extra programs_bounded compares spellings and acceptance on generated programs',
                    'an alias name that occurs twice among the trigger modifiers is resolved on the output side to its LAST trigger-side occurrence (what the code does; the statement does not say)'],
                witness='loader', extras=['tables_enum', 'programs_bounded', 'ord_sort_enum']),
    'C17': dict(units=['udev'], level='proof', extras=['udev_enum'], witness=None,
                trusted_base=TB_COMMON[:2] + [
                    'the specification of systemd\'s ExecStart parsing in /verif/spec/sd.rs (written from systemd.syntax(7) / systemd.service(5): word splitting at unquoted whitespace, quotes, C-style escapes, lone `;`, %% and $$); octal and \\U escapes are treated as not accepted, which only makes the oracle stricter',
                    'E4: build_exclude_text and build_service_text are compiled VERBATIM into the enumeration driver (verus --compile) and not verified (iterator adapters, format!); systemd_arg_escape IS verified (it returns esc_str(esc1, text): the concatenation of the per-character escapes, in order - the shape theorem_pattern is stated for); escape_one_char is external_body with the ASSUMED contract that its result is a function of the character (esc1), its values being computed by the real body for every scalar value',
                    'assumed contracts on std used by that proof: Vec::extend over an iterator of owned items appends what the iterator yields (a Chars yields the characters it has left), collecting &char items into a String gives the string of those characters',
                    'the link from one escaped pattern to the whole command line: build_exclude_text joins `--exclude <escaped>` with single spaces, build_service_text substitutes into the fixed template (assumed; exercised end to end by the driver on single patterns exhaustively, pairs, triples and random lists)',
                ],
                assumptions=['patterns are non-empty and contain no NUL (as in the statement)',
                             'the per-character condition char_ok is established for the real escape_one_char by COMPLETE enumeration of all 1,112,063 scalar values (exhaustive evaluation, not deduction); the theorem that lifts it to every pattern and every position is proved by Verus for an arbitrary escaper satisfying char_ok']),
    'C18': dict(units=[], level='model_checking', extras=['c18_native', 'c18_kani'], witness=None,
                backend='Kani 0.68.0 / CBMC 6.11 (thorough tier) + exhaustive native enumeration through a pipe (every run)',
                trusted_base=['rustc, Kani 0.68.0, CBMC 6.11',
                              'the stubs of nix::unistd::read / write in the Kani harnesses transfer exactly the bytes (short reads / writes and the unchecked return value of read are outside the claim)',
                              'libc::input_event as the layout oracle (size 24, offsets 16/18/20) on x86-64, native endianness',
                              'the native probe uses a real pipe: what the kernel delivers on a pipe is what was written'],
                assumptions=['no deductive verifier in this sandbox reaches send (closure capturing &mut, not a retain) or next (nix read, FromPrimitive derive): no Verus claim is made; Kani is the bounded model checker of the same tool family',
                             'batches of arbitrary length are covered only by fixed lengths (0, 1, 2) in Kani and natively by one batch of every length 0..=256 (and 512, 1024, 2000) plus random batches of up to 39 events: bounded, never counted as proved; the one-record layout is complete over all key codes']),
    'C04': dict(units=['mapper'], level='proof', trusted_base=TB_MAPPER + [AS_ANYMOD], assumptions=AS_MAPPER + [
                    'claimed, as the property is quantified, for layouts without absorbing lists (Mapper::step carries the contract for every state in which nothing is absorbed)',
                    '"physically held" is read through the history fact that every key the mapper considers pressed is physically held; "the output of a held modifier-remapping" is read as: an output key of a layout mapping whose output does not end in a non-modifier key and whose trigger keys are all physically held',
                    'the instant is every position of the step\'s event list at which the final output key of the fired mapping is pressed (there is exactly one: outputs have no duplicates)'],
                witness='mapper', rests_on=['C19', 'C03'], extras=['anymod_bounded']),
    'C05': dict(units=['mapper'], level='proof', trusted_base=TB_MAPPER + [AS_ANYMOD], assumptions=AS_MAPPER + [
                    '"physically pressed" is read through the mapper: the theorems are stated per step over what the mapper considers pressed (a foreign key is never absorbed, so it is considered pressed from its press to its release; after a release-all the mapper has forgotten keys that are still physically down, as the statement of C12 intends)',
                    '"with an empty layout the output stream equals the input stream" is proved for every event that is not ill-formed (a press of a key that is down / a release of a key that is up produces no output, C09)',
                    'in-effect clauses: "no other mapping also outputs it" is read as: every mapping of the layout that outputs the key has the same trigger, output, repeat and absorbing list as the mapping in effect'],
                witness='mapper', rests_on=['C19', 'C03'], extras=['anymod_bounded']),
    'C07': dict(units=['mapper'], level='proof', trusted_base=TB_MAPPER, assumptions=AS_MAPPER, witness='mapper', rests_on=['C19', 'C03']),
}


# Every mapper property is proved from the one state invariant Mapper::inv (wf: C19; J1-J6: C01 C02; support test / origin of mappings in effect: C03):
# a failed obligation carrying one of these tags weakens every other mapper proof. Such a failure counts against another property only together
# with a concrete failing input for that property (check: rests_on), never on its own.
_INV_TAGS = ['C19', 'C01', 'C02', 'C03']
# the two converter properties share every converter function: a failed obligation tagged with one weakens the proof of the other
for _p, _t in (('C13', 'C14'), ('C14', 'C13')):
    _r = list(PROPS[_p].get('rests_on') or [])
    if _t not in _r: _r.append(_t)
    PROPS[_p]['rests_on'] = _r
# the per-device loop: its four invariants are labelled separately and depend on each other only weakly; the timer invariant (C11) uses the
# tablet-mode invariant (C12)
PROPS['C11']['rests_on'] = list(PROPS['C11'].get('rests_on') or []) + ['C12']
for _p in ('C01', 'C02', 'C03', 'C04', 'C05', 'C06', 'C07', 'C08', 'C09', 'C19', 'C14'):
    _r = list(PROPS[_p].get('rests_on') or [])
    for _t in _INV_TAGS:
        if _t != _p and _t not in _r: _r.append(_t)
    PROPS[_p]['rests_on'] = _r
