#!/usr/bin/env python3
"""Parallel variant of tools/seed_run.py: runs the quick checks against confirmed seeded changes on ISOLATED scratch copies of /repo/src
(never touches /repo), several at a time, and writes seeded/<name>/check_results.json in the format of seed_run.py.
usage: seed_matrix_par.py [-j WORKERS] NAME...        scratch: /tmp/w/mx (removed afterwards)
Development aid: uses the VERIF_REPO_SRC / VERIF_BUILD_DEV / VERIF_HARNESS_TARGET_DEV overrides, which no registered command sets.
NOTE: the runs rewrite /verif/evidence/<id>.json; run `./check all` on the unchanged tree afterwards and commit that evidence."""
import subprocess, json, os, sys, shutil
from concurrent.futures import ThreadPoolExecutor
MAPPER = ['C01', 'C02', 'C03', 'C04', 'C05', 'C06', 'C07', 'C08', 'C09', 'C19']
LOOP = ['C10', 'C11', 'C12', 'C20']
CONV = ['C13', 'C14', 'C11']
args = sys.argv[1:]; nw = 6
if args and args[0] == '-j': nw = int(args[1]); args = args[2:]
ROOT = '/tmp/w/mx'; CLEAN = ROOT + '/clean'
shutil.rmtree(ROOT, ignore_errors=True); os.makedirs(CLEAN)
subprocess.check_call('git -C /repo archive HEAD src | tar -x -C %s' % CLEAN, shell=True)
work = []
for s in args:
    patch = open('/verif/seeded/%s/patch.diff' % s).read(); own = s[:3]
    ps = []
    if 'key_transforms.rs' in patch: ps += MAPPER
    if 'remapping_loop.rs' in patch: ps += LOOP
    if 'fancy_layout_interpreting.rs' in patch or 'layout_parsing_formatting.rs' in patch: ps += CONV
    if own not in ps: ps.append(own)
    ps = sorted(dict.fromkeys(ps), key=lambda p: p != own)     # own property first
    h = (len(ps) + 1) // 2 if len(ps) > 5 else len(ps)
    work.append((s, ps[:h], 'a'))
    if ps[h:]: work.append((s, ps[h:], 'b'))
def run(w):
    s, ps, tag = w; base = '%s/%s%s' % (ROOT, s, tag)
    os.makedirs(base)
    subprocess.check_call('cp -r %s/src %s/src && cd %s && patch -p1 -s < /verif/seeded/%s/patch.diff' % (CLEAN, base, base, s), shell=True)
    env = dict(os.environ, VERIF_REPO_SRC=base + '/src', VERIF_BUILD_DEV=base + '/b', VERIF_HARNESS_TARGET_DEV=base + '/t')
    res = {}
    for p in ps:
        r = subprocess.run(['/verif/check', p], stdout=subprocess.PIPE, stderr=subprocess.STDOUT, cwd='/verif', env=env)
        first = r.stdout.decode().strip().split('\n')
        res[p] = dict(rc=r.returncode, line=first[0][:260], detail=[l[:300] for l in first[1:4]])
        print('[%s] %s rc=%d :: %s' % (s, p, r.returncode, first[0][:200]), flush=True)
    shutil.rmtree(base, ignore_errors=True)
    return s, res
with ThreadPoolExecutor(nw) as ex:
    out = list(ex.map(run, work))
for s, res in out:
    f = '/verif/seeded/%s/check_results.json' % s
    old = json.load(open(f)) if os.path.exists(f) else {}
    old.update(res); json.dump(dict(sorted(old.items())), open(f, 'w'), indent=1)
shutil.rmtree(ROOT, ignore_errors=True)
print('ALLDONE - now run ./check all on the unchanged tree')
