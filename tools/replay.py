"""./check Cnn --replay FILE"""
import json, os, sys, subprocess
import witness


def replay(pid, path):
    body = json.load(open(path))
    cx = body.get('counterexample')
    print('replay of %s for %s' % (path, pid))
    for o in body.get('failed_obligations', []):
        print('failed obligation [%s] in %s::%s: %s' % (o['label'], o['module'], o['function'], o['message']))
        if o.get('clause'): print('   clause: ' + o['clause'])
        print('   site:   ' + (o.get('site') or ''))
    if cx and (cx.get('kind') in ('mapper', 'loader', 'loop') or any(cx.get(k) is not None for k in ('layout', 'json', 'defs', 'program', 'loop_seed'))):
        rc, out = witness.replay(pid, path)
        print(out)
        return 1 if rc == 1 else 0
    if cx and cx.get('kind') == 'extra':
        import extras
        return extras.replay(pid, cx)
    print('no concrete failing input was recorded (no-failing-input-found); re-running the verifier on the current tree:')
    here = os.path.dirname(os.path.dirname(os.path.abspath(__file__)))
    return subprocess.call([sys.executable, os.path.join(here, 'check'), pid, '--no-cache'])
