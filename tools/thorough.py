"""Thorough-tier machinery (DESIGN 0.7): vacuity pass, assumption scan with `verus --no-cheating`, N2 differential validation.
None of these decides a property. Each can only turn a run into UNDECIDED (exit 2) when the machinery itself is not to be trusted:
a probe that does not fail (a contradictory precondition or invariant would make proofs vacuous), an N2 disagreement."""
import os, re, json, subprocess, time, hashlib, sys
sys.path.insert(0, os.path.dirname(os.path.abspath(__file__)))
import assemble as A, vlib as V
import run_verus as RV

BUILD = RV.BUILD; CACHE = RV.CACHE


def _fn_body_open(text):
    """offset of the `{` that opens the body of a fn item (the last top-level brace group), or None"""
    m = A.mask(text) if hasattr(A, 'mask') else V.mask(text)
    depth = 0; last_open = None
    for i, c in enumerate(m):
        if c in '([{':
            if c == '{' and depth == 0: last_open = i
            depth += 1
        elif c in ')]}':
            depth -= 1
    return last_open


def add_probes(asm, verify_modules=None):
    """returns (text with probes, {line_number_of_probe: description})"""
    lines = asm.text.split('\n')
    inserts = {}   # line index (0-based) after which to insert -> description
    for it in asm.items:
        if verify_modules and it['module'] not in verify_modules: continue
        if A.MODULES.get(it['module'], {}).get('outside_verus'): continue     # compiled, not verified (C17: evaluated by enumeration instead)
        seg = '\n'.join(lines[it['line_start'] - 1:it['line_end']])
        ms = V.mask(seg)
        if not re.search(r'\bfn\b', ms): continue
        if 'external_body' in ms or re.search(r'\b(spec|uninterp)\s+fn\b', ms) and not re.search(r'\b(proof|exec)\s+fn\b|^\s*(pub\s+)?fn\b', ms, re.M): continue
        segl = seg.split('\n')
        # every fn of the item (impl blocks hold several): find `fn name` heads and the body that follows
        for m in re.finditer(r'\b(?:(proof|spec|exec)\s+)?fn\s+(\w+)', ms):
            if m.group(1) == 'spec': continue
            pre = ms[max(0, m.start() - 40):m.start()]
            if re.search(r'\bspec(\([^)]*\))?\s*$', pre) or re.search(r'\buninterp\s*$', pre) or re.search(r'\bspec\s+$', pre): continue
            # the body: first `{` at paren/brace depth 0 (relative to the fn head) that is not inside a clause expression: take the brace
            # group that ends the fn, found by scanning groups until the text after a group starts a new item or ends
            i = m.end(); depth = 0; groups = []
            while i < len(ms):
                c = ms[i]
                if c in '([{':
                    if c == '{' and depth == 0: groups.append(i)
                    depth += 1
                elif c in ')]}':
                    depth -= 1
                    if depth < 0: break
                    if depth == 0 and c == '}':
                        rest = ms[i + 1:].lstrip()
                        # a clause continues after a brace group only with an operator / comma / clause keyword
                        if rest.startswith(';'): groups = []; break      # a declaration (trait method) whose last clause ends in a brace group
                        if not re.match(r'(\{|,|&&|\|\||==>|<==>|==|\.|\?|ensures\b|decreases\b|requires\b|recommends\b|opens_invariants\b|no_unwind\b|via\b|when\b)', rest):
                            break
                elif c == ';' and depth == 0:
                    groups = []; break   # declaration without body
                i += 1
            if not groups: continue
            bo = groups[-1]
            ln = seg[:bo].count('\n')   # 0-based line inside the item
            # the probe goes on the line after the opening brace line, after leading hide(..) statements
            j = ln + 1
            while j < len(segl) and re.match(r'\s*(hide\(|broadcast use)', segl[j]): j += 1
            # if the body opens and continues on the same line (`{ stmt; ... }`), insert inline instead
            tail = ms[bo + 1:ms.find('\n', bo) if ms.find('\n', bo) >= 0 else len(ms)]
            key = (it['line_start'] - 1 + ln, bo - (seg.rfind('\n', 0, bo) + 1))
            inserts.setdefault(('fn', it['line_start'] - 1 + ln, bo - (seg.rfind('\n', 0, bo) + 1), j + it['line_start'] - 1, bool(tail.strip())), '%s::fn %s (entry: preconditions)' % (it['module'], m.group(2)))
    # loop bodies: the `{ //@ | body` markers that are not function bodies
    fn_lines = set(k[1] for k in inserts)
    for n, l in enumerate(lines):
        if re.search(r'\{\s*//@\s*\|\s*body', l) and n not in fn_lines:
            # is this inside a verified module?
            it = next((x for x in asm.items if x['line_start'] - 1 <= n <= x['line_end'] - 1), None)
            if it is None or (verify_modules and it['module'] not in verify_modules): continue
            seg = '\n'.join(lines[it['line_start'] - 1:it['line_end']])
            if 'external_body' in V.mask(seg): continue
            inserts[('loop', n, 0, n + 1, False)] = '%s::%s loop body at line %d (invariants + guard)' % (it['module'], it['key'], n + 1)
    # apply from the bottom
    out = list(lines); probes = []
    for (kind, ln, col, after, inline), desc in sorted(inserts.items(), key=lambda kv: (-kv[0][3], -kv[0][2])):
        if inline:
            l = out[ln]; out[ln] = l[:col + 1] + ' assert(false); /*VACUITY-PROBE*/ ' + l[col + 1:]
            probes.append((ln, desc, True))
        else:
            out.insert(after, 'assert(false); /*VACUITY-PROBE*/')
            probes.append((after, desc, False))
    # recompute the final line numbers of the probes
    text = '\n'.join(out)
    final = {}
    descs = [d for _, d, _ in sorted(probes, key=lambda p: p[0])]
    k = 0
    for n, l in enumerate(text.split('\n'), 1):
        c = l.count('/*VACUITY-PROBE*/')
        for _ in range(c):
            final.setdefault(n, []).append(descs[k] if k < len(descs) else '?'); k += 1
    return text, final


def vacuity(unit, use_cache=True):
    cfg = RV.UNITS[unit]
    asm = A.assemble(cfg['modules'], cfg.get('spec', ()), main_file=cfg.get('main_file'))
    vm = cfg.get('verify_only') or cfg.get('verify')
    text, probes = add_probes(asm, set(vm) if vm else None)
    key = hashlib.sha256((text + '\0vac2').encode()).hexdigest()[:24]
    cpath = os.path.join(CACHE, 'vac-%s-%s.json' % (unit, key))
    if use_cache and os.path.exists(cpath):
        return json.load(open(cpath))
    os.makedirs(CACHE, exist_ok=True)
    path = os.path.join(BUILD, 'vac_%s.rs' % unit)
    open(path, 'w').write(text)
    args = ['--rlimit', '30']
    for m in cfg.get('verify_only', []): args += ['--verify-module', m]
    t0 = time.time()
    res = RV.run_verus_once(path, args, timeout=3000)
    hit = {}
    for d in res['diags']:
        for sp in d['spans']:
            if sp.get('is_primary') and 'VACUITY-PROBE' in (sp.get('text') or ''):
                hit[sp['line_start']] = hit.get(sp['line_start'], 0) + 1
    n_probes = sum(len(v) for v in probes.values())
    silent = []
    for ln, ds in sorted(probes.items()):
        if hit.get(ln, 0) < 1: silent += ['line %d: %s' % (ln, d) for d in ds]
    out = dict(unit=unit, probes=n_probes, probe_lines=len(probes), reported_failing=sum(1 for ln in probes if hit.get(ln)), silent=silent,
               hard=res.get('hard', []), wall_s=round(time.time() - t0, 1),
               what='`assert(false)` inserted at the entry of every verified exec/proof function (after its preconditions) and at the start of every annotated loop body (after invariants and guard); each must be REPORTED as failing - one that is not means a contradictory precondition/invariant or a function that generates no obligation')
    json.dump(out, open(cpath, 'w'))
    return out


def no_cheating(unit, use_cache=True):
    """list of assumed items as Verus itself reports them (the list in the evidence cannot drift from the text)"""
    cfg = RV.UNITS[unit]
    asm = A.assemble(cfg['modules'], cfg.get('spec', ()), main_file=cfg.get('main_file'))
    key = hashlib.sha256((asm.text + '\0nc1').encode()).hexdigest()[:24]
    cpath = os.path.join(CACHE, 'nc-%s-%s.json' % (unit, key))
    if use_cache and os.path.exists(cpath):
        return json.load(open(cpath))
    path = os.path.join(BUILD, 'nc_%s.rs' % unit)
    open(path, 'w').write(asm.text)
    p = subprocess.run([RV.VERUS, path, '--no-cheating', '--no-verify', '--error-format=json'], stdout=subprocess.PIPE, stderr=subprocess.PIPE, cwd=BUILD, timeout=1200)
    sites = []
    for l in p.stderr.decode(errors='replace').split('\n'):
        l = l.strip()
        if not l.startswith('{'): continue
        try: d = json.loads(l)
        except Exception: continue
        if d.get('level') != 'error' or 'no-cheating' not in d.get('message', ''): continue
        for sp in d.get('spans', []):
            if sp.get('is_primary'):
                t = (sp.get('text') or [{}])[0].get('text', '') if isinstance(sp.get('text'), list) else ''
                sites.append('%s (line %d): %s' % (d['message'].split(' not allowed')[0], sp['line_start'], t.strip()[:160]))
    out = dict(unit=unit, sites=sites, count=len(sites))
    json.dump(out, open(cpath, 'w'))
    return out


def n2_validation(seconds=20, seed=1, use_cache=True):
    """differential execution of key_transforms.rs against its N2-normalised text (Vec::retain -> index loop), both compiled as plain Rust"""
    import witness
    raw = open(os.path.join(A.REPO_SRC, 'key_transforms.rs')).read()
    log = []
    text = A.e1_strip_tests(raw, log) if hasattr(A, 'e1_strip_tests') else V.e1_strip_tests(raw, log)
    n2 = (A.n2_retain if hasattr(A, 'n2_retain') else V.n2_retain)(text, log)
    n2 = (A.n4_iter_any if hasattr(A, 'n4_iter_any') else V.n4_iter_any)(n2, log)
    os.makedirs(BUILD, exist_ok=True)
    n2path = os.path.join(BUILD, 'kt_n2.rs')
    open(n2path, 'w').write(n2)
    key = hashlib.sha256((raw + '\0' + n2 + '\0%d %d n2v2' % (seconds, seed)).encode()).hexdigest()[:24]
    cpath = os.path.join(CACHE, 'n2-%s.json' % key)
    if use_cache and os.path.exists(cpath):
        return json.load(open(cpath))
    out = dict(rule='N2+N4', sites=sum(1 for l in log if 'N2' in l or 'N4' in l))
    try:
        exe = witness.build(extra_env={'VERIF_N2_FILE': n2path}, cfgs=('n2_validation',))
    except Exception as e:
        out['undecided'] = 'N2 validation build failed: ' + str(e)[-400:]; return out
    p = subprocess.run([exe, 'n2', str(seconds), str(seed + 1)], stdout=subprocess.PIPE, stderr=subprocess.PIPE, timeout=seconds + 300)
    o = p.stdout.decode()
    m = re.search(r'N2-OK programs=(\d+) steps=(\d+) disagreements=0', o)
    if m:
        out.update(programs=int(m.group(1)), steps=int(m.group(2)), disagreements=0)
    else:
        out['undecided'] = 'N2 DISAGREEMENT (the normalised text does not behave like the original; the mapper proofs are not about the code that runs): ' + o[-600:]
    json.dump(out, open(cpath, 'w'))
    return out


if __name__ == '__main__':
    if sys.argv[1] == 'vacuity':
        r = vacuity(sys.argv[2], use_cache='--no-cache' not in sys.argv); print(json.dumps(r, indent=1))
    elif sys.argv[1] == 'nc':
        print(json.dumps(no_cheating(sys.argv[2], use_cache=False), indent=1))
    elif sys.argv[1] == 'n2':
        print(json.dumps(n2_validation(use_cache=False), indent=1))
