"""Bounded differential run of the CURRENT text of a unit's file against its PINNED (verified) text, both compiled as plain Rust in the harness
(harness/src/main.rs, cfg pinned_twin).  Used by ./check only when a function was restructured so that the proof overlay of its body no longer
applies and the ordinary witness search found nothing:

  no difference in N seeded cases  -> the contract proved for the pinned body is carried over to the new body by a BOUNDED equivalence check
                                      (reported as such in the evidence, never counted as proof);
  a difference                      -> the differing inputs are handed to the oracle of the property (replay): a reproduced violation is a witness,
                                      otherwise the property stays UNDECIDED ("behaviour changed, proof does not apply, no violation found").
"""
import os, json, subprocess, tempfile, time
import assemble as A
import witness

FILES = {'mapper': 'key_transforms.rs', 'loop': 'remapping_loop.rs', 'converter': 'fancy_layout_interpreting.rs'}
CASES = {'quick': {'mapper': 300000, 'converter': 300000, 'loop': 12000}, 'thorough': {'mapper': 6000000, 'converter': 4000000, 'loop': 150000}}


def run(unit, tier, seed):
    """returns dict(unit, cases, steps, differences=[...], wall_s) or dict(undecided=reason)"""
    if unit not in FILES:
        return dict(undecided='no pinned twin for unit %s' % unit)
    try:
        exe = witness.build(extra_env={'VERIF_PINNED_DIR': os.path.join(A.CONTRACTS, 'pinned')}, cfgs=('pinned_twin',))
    except Exception as e:
        return dict(undecided='the pinned text no longer compiles next to the current tree: %s' % str(e)[-300:])
    t0 = time.time()
    try:
        p = subprocess.run([exe, 'twin', unit, str(CASES[tier][unit]), str(seed + 1)], stdout=subprocess.PIPE, stderr=subprocess.PIPE, timeout=3000)
        d = json.loads(p.stdout.decode().strip().split('\n')[-1])
    except Exception as e:
        return dict(undecided='differential run did not finish: %s' % str(e)[-200:])
    d['wall_s'] = round(time.time() - t0, 2)
    return d


def witness_from(pid, kind, diffs):
    """replay the differing inputs under the oracle of property `pid`; the first that reproduces a violation is a witness"""
    exe = witness.build()
    for dv in diffs:
        cx = dict(dv); cx.pop('what', None)
        if kind == 'loader' and pid == 'C13' and 'program' not in cx: continue
        if kind == 'loader' and pid == 'C14': cx.pop('program', None)
        with tempfile.NamedTemporaryFile('w', suffix='.json', delete=False) as f:
            json.dump(dict(counterexample=cx), f)
        try:
            p = subprocess.run([exe, 'replay', pid, f.name], stdout=subprocess.PIPE, stderr=subprocess.STDOUT, timeout=120)
        except Exception:
            continue
        finally:
            os.unlink(f.name)
        out = p.stdout.decode()
        if p.returncode == 1 and 'REPRODUCED' in out and 'NOT-REPRODUCED' not in out:
            w = dict(cx); w['property'] = pid; w['kind'] = kind
            w['what'] = next((l.strip() for l in out.split('\n') if 'REPRODUCED' in l), 'reproduced')[:400]
            w['found_by'] = 'differential run against the pinned (verified) text, then the oracle of %s on the differing input' % pid
            return w
    return None
