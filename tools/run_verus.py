#!/usr/bin/env python3
"""Run Verus on an assembled unit and map its diagnostics back to labelled
obligations (DESIGN 4.4).

Markers in the overlay / spec text:
    //@ C19 C01 | label text
A marker governs everything up to the next marker of the same item; a marker in
the leading trivia of an item is the item's default.  A diagnostic is
attributed to the nearest preceding marker inside its item, otherwise to the
item default, otherwise to the module default of UNITS[..]['default_tags'].
"""
import os, re, sys, json, subprocess, time, hashlib
sys.path.insert(0, os.path.dirname(os.path.abspath(__file__)))
import assemble as A

VERIF = A.VERIF
BUILD = os.environ.get('VERIF_BUILD_DEV', os.path.join(VERIF, 'build'))   # env override: development aid only (isolated scratch runs); no registered command sets it
CACHE = os.path.join(BUILD, 'cache')
VERUS = os.environ.get('VERUS', 'verus')

MARK_RE = re.compile(r'//@\s*((?:C\d\d\b\s*)*)\|?\s*([^\n]*)')

UNITS = {
    'mapper': dict(modules=['key_codes', 'events', 'keys', 'key_transforms'], spec=['trace.rs'],
                   verify=['keys', 'key_transforms', 'trace'], default_tags={'key_transforms': ['C14'], 'keys': ['C14']}),
    'converter': dict(modules=['key_codes', 'events', 'keys', 'fancy_keys', 'physical_keyboard_layouts', 'char_production_map', 'fancy_layout_interpreting'], spec=[],
                      default_tags={'fancy_layout_interpreting': ['C14'], 'fancy_keys': ['C14'], 'keys': ['C14']}),
    'glue': dict(modules=['key_codes', 'events', 'keys', 'key_transforms', 'fancy_keys', 'physical_keyboard_layouts', 'char_production_map', 'fancy_layout_interpreting', 'layout_parsing_formatting'],
                 spec=['trace.rs', 'glue.rs'], verify_only=['glue'], default_tags={'glue': ['C14']}),
    'frontend': dict(modules=['key_codes', 'events', 'keys', 'fancy_keys', 'layout_parsing_formatting'], spec=[], verify_only=['layout_parsing_formatting'],
                     default_tags={'layout_parsing_formatting': ['C14']}),
    'udev': dict(modules=['udev_utils'], spec=['sd.rs'], main_file='sd_driver.rs', compile=True, default_tags={'sd': ['C17']}),
    'loop': dict(modules=['key_codes', 'events', 'keys', 'key_transforms', 'tablet_mode_switch_reader', 'remapping_loop'], spec=[],
                 verify_only=['remapping_loop'], default_tags={'remapping_loop': ['C10', 'C12', 'C20', 'C11']}),
}


def sh(cmd, timeout=None, cwd=None):
    p = subprocess.run(cmd, stdout=subprocess.PIPE, stderr=subprocess.PIPE, timeout=timeout, cwd=cwd)
    return p.returncode, p.stdout.decode(errors='replace'), p.stderr.decode(errors='replace')


def parse_markers(text):
    """list of (line, tags, label) in the assembled text"""
    out = []
    for n, line in enumerate(text.split('\n'), 1):
        m = MARK_RE.search(line)
        if m:
            out.append((n, m.group(1).split(), m.group(2).strip()))
    return out


_RULES = {}
def load_rules(module):
    if module not in _RULES:
        p = os.path.join(A.CONTRACTS, 'rules', module + '.json')
        _RULES[module] = json.load(open(p)) if os.path.exists(p) else []
    return _RULES[module]


def fn_at(lines, item, line):
    """name of the function enclosing `line` inside item (last `fn NAME` at or before it)"""
    for i in range(min(line, item['line_end']), item['line_start'] - 1, -1):
        m = re.search(r'\bfn\s+([A-Za-z_][A-Za-z0-9_]*)', A.mask(lines[i - 1]) if i - 1 < len(lines) else '')
        if m: return m.group(1)
    m = re.match(r'fn (\w+)', item['key'])
    return m.group(1) if m else item['key']


class UnitResult:
    pass


def obligations_of(asm_text, items, unit_cfg):
    """enumerate labelled obligations: every marker, plus one implicit bundle per exec/proof fn item"""
    lines = asm_text.split('\n')
    marks = parse_markers(asm_text)
    obls = []
    for it in items:
        if it['module'] == 'prelude': continue
        ims = [mk for mk in marks if it['line_start'] <= mk[0] <= it['line_end']]
        # default marker: one that appears before the first `fn`/item keyword line of the item
        head_line = it['line_start']
        for i in range(it['line_start'], it['line_end'] + 1):
            if re.search(r'\b(fn|impl|struct|enum|trait)\b', A.mask(lines[i - 1])):
                head_line = i; break
        default = []
        for mk in ims:
            if mk[0] <= head_line: default = mk[1]
        if not default:
            default = unit_cfg.get('default_tags', {}).get(it['module'], [])
        it['default_tags'] = default
        it['head_line'] = head_line
        for mk in ims:
            if mk[0] <= head_line: continue
            obls.append(dict(module=it['module'], item=it['key'], fn=fn_at(lines, it, mk[0]), line=mk[0],
                             tags=mk[1] or default, label=mk[2], kind='labelled'))
        if re.match(r'(fn|impl) ', it['key']) :
            obls.append(dict(module=it['module'], item=it['key'], fn=None, line=it['head_line'], tags=default,
                             label='implicit obligations of %s (callee preconditions, bounds, overflow, unreachable panic, termination, unlabelled clauses)' % it['key'],
                             kind='implicit'))
    return obls, marks


def attribute(diag, items, marks, lines):
    """-> (item, fn, marker) for a diagnostic"""
    spans = diag['spans']
    msg = diag['message']
    # the clause that failed, if the verifier points at one
    clause = None
    for sp in spans:
        lab = sp.get('label') or ''
        if 'failed this postcondition' in lab or 'failed precondition' in lab or 'failed this' in lab:
            clause = sp
    primary = next((sp for sp in spans if sp.get('is_primary')), spans[0])
    # location that decides the function: primary span (call site / assert / invariant / exit point)
    loc = primary
    use = primary
    if 'precondition' in msg:
        use = primary           # label governing the call site
    elif clause is not None:
        use = clause            # label of the ensures / invariant clause that failed
    item = None
    for it in items:
        if it['line_start'] <= loc['line_start'] <= it['line_end']:
            item = it
    mk = None
    if item is not None:
        for m in marks:
            if item['line_start'] <= m[0] <= use['line_start'] and m[0] <= item['line_end']:
                if m[0] > item.get('head_line', item['line_start']) or mk is None:
                    mk = m
    if 'precondition' in msg and clause is not None:
        # a labelled `requires` clause of the callee names the obligation better than the call site does
        citem = None
        for it in items:
            if it['line_start'] <= clause['line_start'] <= it['line_end']: citem = it
        if citem is not None:
            cmk = None
            for m in marks:
                if citem.get('head_line', citem['line_start']) < m[0] <= clause['line_start']: cmk = m
            if cmk is not None and cmk[1]: mk = cmk
    fn = fn_at(lines, item, loc['line_start']) if item else None
    return item, fn, mk, clause, primary


def run_verus_once(path, extra, timeout):
    cmd = [VERUS, path, '--error-format=json', '--output-json', '--time-expanded', '--multiple-errors', '30'] + extra
    t0 = time.time()
    try:
        rc, out, err = sh(cmd, timeout=timeout, cwd=os.path.dirname(path))
    except subprocess.TimeoutExpired:
        return dict(rc=-9, timeout=True, wall=time.time() - t0, cmd=' '.join(cmd), diags=[], funcs={}, results={})
    diags = []
    hard = []
    hard_lines = []
    for l in err.split('\n'):
        l = l.strip()
        if not l.startswith('{'): continue
        try: d = json.loads(l)
        except Exception: continue
        if d.get('level') == 'error' and d.get('spans') and (d.get('code') or re.search(r'not supported|unsupported|not yet support|must have a decreases clause|decreases checks in exec functions|not allowed|is not implemented|Could not automatically infer triggers|trigger does not cover|use of moved value|cannot find|mismatched types|expected|unresolved|borrow', d['message'])):
            # a rustc / Verus front-end error: the assembled text does not compile on this tree (unsupported construct or misplaced ghost code): never a property violation
            sp0 = d['spans'][0]
            hard.append('the assembled text is rejected before verification: %s (assembled line %d: %s)' % (d['message'], sp0['line_start'], (sp0['text'][0]['text'].strip()[:120] if sp0.get('text') else '')))
            hard_lines.append(sp0['line_start'])
        elif d.get('level') == 'error' and d.get('spans'):
            # a span inside a macro of another file (panic!, assert!, vec!: the definition lives in vstd / std) is replaced by the place in OUR file
            # where the macro is used; spans that never reach our file are dropped (their line numbers mean nothing here)
            base = os.path.basename(path)
            def local(sp):
                seen = 0
                while sp is not None and os.path.basename(sp.get('file_name') or '') != base and seen < 20:
                    sp = (sp.get('expansion') or {}).get('span'); seen += 1
                return sp if sp is not None and os.path.basename(sp.get('file_name') or '') == base else None
            sps = []
            for s0 in d['spans']:
                s = local(s0)
                if s is None: continue
                sps.append(dict(line_start=s['line_start'], line_end=s['line_end'], col=s['column_start'], is_primary=s0['is_primary'], label=s0.get('label'),
                                text=(s['text'][0]['text'].strip() if s.get('text') else '')))
            if not sps:
                hard.append('a diagnostic of the verifier has no location in the assembled text: %s' % d['message'][:200]); continue
            if not any(x['is_primary'] for x in sps): sps[0]['is_primary'] = True
            diags.append(dict(message=d['message'], spans=sps, rendered=d.get('rendered', '')))
        elif d.get('level') == 'error' and not d.get('spans') and 'aborting due to' not in d['message']:
            hard.append(d['message'])
    funcs = {}; results = {}; times = {}
    try:
        j = json.loads(out)
        results = j.get('verification-results', {})
        times = dict(total_ms=j.get('times-ms', {}).get('total'), smt_ms=j.get('times-ms', {}).get('smt', {}).get('total'))
        for m in j.get('times-ms', {}).get('smt', {}).get('smt-run-module-times', []):
            for f in m.get('function-breakdown', []):
                nm = f['function'].split('::', 1)[1]
                funcs[nm] = dict(success=f['success'], ms=f['time'], rlimit=f['rlimit'], mode=f.get('mode:'))
    except Exception as e:
        hard.append('no JSON result from verus: %s; stderr tail: %s' % (e, err[-600:]))
    return dict(rc=rc, wall=time.time() - t0, cmd=' '.join(cmd), diags=diags, funcs=funcs, results=results, hard=hard, hard_lines=hard_lines, times=times)


def run_unit(name, tier='quick', use_cache=True, extra_args=(), log=print, degrade_items=(), bare_items=()):
    cfg = UNITS[name]
    os.makedirs(CACHE, exist_ok=True)
    asm = A.assemble(cfg['modules'], cfg.get('spec', ()), main_file=cfg.get('main_file'), degrade_items=degrade_items, bare_items=bare_items)
    path = os.path.join(BUILD, 'tm_%s.rs' % name)
    rlimit = '30' if tier == 'quick' else '60'
    args = ['--rlimit', rlimit] + list(extra_args)
    for vm in cfg.get('verify_only', []): args += ['--verify-module', vm]
    if cfg.get('compile'): args += ['--compile', '-o', os.path.join(BUILD, 'bin_%s' % name), '-C', 'opt-level=2']
    key = hashlib.sha256((asm.text + '\0' + ' '.join(args) + '\0v6').encode()).hexdigest()[:24]
    cpath = os.path.join(CACHE, '%s-%s.json' % (name, key))
    obls, marks = obligations_of(asm.text, asm.items, cfg)
    if cfg.get('verify_only'):
        obls = [o for o in obls if o['module'] in cfg['verify_only']]
    lines = asm.text.split('\n')
    res = None
    binpath = os.path.join(BUILD, 'bin_%s' % name)
    if use_cache and os.path.exists(cpath):
        try:
            res = json.load(open(cpath)); res['cached'] = True
        except Exception:
            res = None
        if cfg.get('compile') and not (os.path.exists(binpath) and os.path.exists(binpath + '.key') and open(binpath + '.key').read() == key):
            res = None   # the compiled driver is missing or belongs to another tree: rebuild
    if res is None:
        open(path, 'w').write(asm.text)
        if asm.problems:
            res = dict(rc=2, wall=0, cmd='', diags=[], funcs={}, results={}, hard=['assembly: ' + p for p in asm.problems], times={}, reruns=[])
        else:
            res = run_verus_once(path, args, timeout=1500)
            res['reruns'] = []
            # re-run functions that failed, alone, with another seed and a larger budget (DESIGN 4.4 step 4)
            failed = sorted(f for f, v in res['funcs'].items() if not v['success'])
            for f in failed[:6]:
                mod, _, fn = f.rpartition('::')
                if '::' in mod:   # impl method: Type::method -> module is the part before the type
                    mod2, _, ty = mod.rpartition('::'); mod, fn = mod2, ty + '::' + fn
                r2 = run_verus_once(path, ['--rlimit', str(int(rlimit) * 3), '--verify-only-module', mod, '--verify-function', fn,
                                           '--smt-option', 'smt.random_seed=7'], timeout=1500)
                ok = bool(r2['funcs'].get(f, {}).get('success')) and not r2['diags'] and not r2.get('hard')
                res['reruns'].append(dict(function=f, proved_on_rerun=ok, wall=r2['wall'], cmd=r2['cmd']))
                if ok:
                    # an unsat answer is a proof whatever the seed: drop the diagnostics of that function
                    res['funcs'][f] = dict(r2['funcs'][f], rerun=True)
                    keep = []
                    for d in res['diags']:
                        it, fnn, mk, cl, pr = attribute(d, asm.items, marks, lines)
                        full = (it['module'] + '::' + (fnn or '')) if it else ''
                        if f.endswith('::' + (fnn or '\0')) and it and f.startswith(it['module']):
                            continue
                        keep.append(d)
                    res['diags'] = keep
        res['cached'] = False
        if cfg.get('compile'):
            if res.get('rc') != 0 and not res.get('hard') and not asm.problems:
                # obligations failed but the text compiles: the enumeration driver is still needed (it is what finds the failing input), so it is
                # built without verification; the failed obligations stay failed
                try:
                    if os.path.exists(binpath): os.remove(binpath)
                    subprocess.run([VERUS, path, '--no-verify', '--compile', '-o', binpath, '-C', 'opt-level=2'], stdout=subprocess.PIPE, stderr=subprocess.PIPE, timeout=900)
                    res['driver_built_without_verification'] = os.path.exists(binpath)
                except Exception:
                    pass
                if os.path.exists(binpath): open(binpath + '.key', 'w').write(key)
                elif os.path.exists(binpath + '.key'): os.remove(binpath + '.key')
            elif res.get('rc') == 0 and os.path.exists(binpath): open(binpath + '.key', 'w').write(key)
            elif os.path.exists(binpath + '.key'): os.remove(binpath + '.key')
        json.dump(res, open(cpath, 'w'))
    # attribute diagnostics
    failures = []
    for d in res['diags']:
        it, fn, mk, clause, primary = attribute(d, asm.items, marks, lines)
        tags = mk[1] if mk and mk[1] else []
        label = mk[2] if mk and mk[1] else None
        attr = 'marker' if tags else None
        # rules on the MESSAGE of the diagnostic ("message:<regex>") come first: e.g. a failed termination measure is reported at the end of the loop,
        # where the governing marker is whatever happens to be the last one of the body
        for rx, tg, lb in (load_rules(it['module']) if it else []):
            if rx.startswith('message:') and tg and re.search(rx[len('message:'):], d['message'] or ''):
                tags = tg.split(); label = lb; attr = 'rules'; mk = None; break
        if not tags and it:
            # unlabelled site (assert / lemma call / callee precondition in a body): classify the failed clause text, then the site text
            rules = load_rules(it['module'])
            for txt in ([clause['text']] if clause else []) + [sp['text'] for sp in d['spans'] if not sp.get('is_primary')] + [primary['text']]:
                for rx, tg, lb in rules:
                    if tg and not rx.startswith('message:') and re.search(rx, txt or ''):
                        tags = tg.split(); label = lb + ' (site: ' + (primary['text'] or '')[:80] + ')'; attr = 'rules'; break
                if tags: break
        if not tags:
            tags = it.get('default_tags', []) if it else []; attr = 'default'
        rl = 'Resource limit' in d['message'] or 'rlimit' in d['message']
        failures.append(dict(message=d['message'], module=it['module'] if it else None, item=it['key'] if it else None, fn=fn,
                             marker_line=mk[0] if mk else None, label=label or ((mk[2] + ' of ' if mk and mk[2] else '') + 'implicit obligations of %s' % (it['key'] if it else '?')),
                             tags=tags, attr=attr, rlimit=rl, line=primary['line_start'], text=primary['text'][:300],
                             clause=(clause['text'][:300] if clause else None), rendered=d.get('rendered', '')[:3000],
                             item_changed=bool(it and it.get('changed_tokens')), item_structural=bool(it and (it.get('changed_tokens') or 0) < 0)))
    # degraded retry: front-end errors located only in items whose code differs from the pinned text -> assume those items' contracts
    if res.get('hard') and res.get('hard_lines') and not degrade_items and not bare_items:
        bad = set()
        for ln in res['hard_lines']:
            it = next((x for x in asm.items if x['line_start'] <= ln <= x['line_end']), None)
            if it is not None and it.get('changed_tokens') and it.get('annotated') and it['key'].startswith(('fn ', 'impl ')):
                bad.add((it['module'], it['key']))
        def _more_bad(ur, known):
            # the front end stops at the first syntax error: a restructured item further down shows only on the next run
            extra = set()
            for ln in (ur.res.get('hard_lines') or []):
                it2 = next((x for x in ur.asm.items if x['line_start'] <= ln <= x['line_end']), None)
                if it2 is not None and it2.get('changed_tokens') and it2.get('annotated') and it2['key'].startswith(('fn ', 'impl ')) and (it2['module'], it2['key']) not in known:
                    extra.add((it2['module'], it2['key']))
            return extra
        if bad:
            # stage 1: keep the restructured bodies under verification, with their contract headers but without the body hints that no longer fit
            for _round in range(8):
                ur1 = run_unit(name, tier, use_cache, extra_args, log, bare_items=tuple(sorted(bad)))
                extra = _more_bad(ur1, bad) if ur1.hard else set()
                if not extra: break
                bad |= extra
            still = set()
            if ur1.hard: still = set(bad)
            for f in ur1.failures:
                if (f['module'], f['item']) in bad: still.add((f['module'], f['item']))
            if not still:
                ur1.bare = sorted(bad); ur1.degraded = []
                return ur1
            # stage 2: what still does not verify is assumed (external_body); the other restructured items stay verified from their headers
            for _round in range(8):
                ur2 = run_unit(name, tier, use_cache, extra_args, log, degrade_items=tuple(sorted(still)), bare_items=tuple(sorted(bad - still)))
                extra = _more_bad(ur2, bad) if ur2.hard else set()
                if not extra: break
                bad |= extra; still |= extra
            ur2.degraded = sorted(still); ur2.bare = sorted(bad - still)
            return ur2
    ur = UnitResult()
    ur.degraded = list(degrade_items); ur.bare = list(bare_items)
    ur.name = name; ur.asm = asm; ur.path = path; ur.res = res; ur.obligations = obls; ur.failures = failures
    ur.hard = res.get('hard', []); ur.marks = marks; ur.binpath = binpath if cfg.get('compile') else None; ur.key = key
    return ur


if __name__ == '__main__':
    u = run_unit(sys.argv[1], sys.argv[2] if len(sys.argv) > 2 else 'quick', use_cache='--no-cache' not in sys.argv)
    print(json.dumps(dict(results=u.res['results'], wall=u.res['wall'], cached=u.res['cached'], hard=u.hard, reruns=u.res.get('reruns'),
                          failures=[{k: v for k, v in f.items() if k != 'rendered'} for f in u.failures], n_obligations=len(u.obligations)), indent=1))
