#!/usr/bin/env python3
"""Mechanical extraction + splice (DESIGN 4.1 / 4.2).

Reads /repo/src/*.rs from the current working tree, applies the extraction
rules, weaves the contract overlay of /verif/contracts/<module>.ann.rs into the
real text (token weave, see vlib.weave) and writes one single-file Verus crate.

The overlay is written against the *pinned* text kept in
/verif/contracts/pinned/ (a verbatim copy of the /repo/src files the contracts
were developed on).  On every run the assembler checks that erasing the ghost
tokens of the overlay gives exactly the (extracted) pinned text, then moves the
ghost tokens onto the current text by aligning pinned against current tokens.
Executable tokens in the output always come from /repo's current text.
"""
import os, re, sys, json
sys.path.insert(0, os.path.dirname(os.path.abspath(__file__)))
from vlib import *

VERIF = os.path.dirname(os.path.dirname(os.path.abspath(__file__)))
REPO_SRC = os.environ.get('VERIF_REPO_SRC', '/repo/src')
CONTRACTS = os.environ.get('VERIF_CONTRACTS_DEV', os.path.join(VERIF, 'contracts'))   # the env override is a development aid only; no registered command sets it
PINNED = os.path.join(CONTRACTS, 'pinned')
SPEC = os.path.join(VERIF, 'spec')

KEYCODE_DISPLAY = ("impl std::fmt::Display for KeyCode { fn fmt(&self, f: &mut std::fmt::Formatter<'_>) -> std::fmt::Result "
                   "{ write!(f, \"{:?}\", self) } }\n")

# module table: order matters only for readability
MODULES = {
    'key_codes': dict(src='key_codes.rs', structural=['KeyCode'], post=KEYCODE_DISPLAY),
    'events': dict(src='events.rs', structural=['Event']),
    'keys': dict(src='keys.rs', drop_clone=['Mapping', 'Repeat']),
    'key_transforms': dict(src='key_transforms.rs', n2=True, n4=True),
    'fancy_keys': dict(src='fancy_keys.rs', structural=['Row'], move_display=True),
    'fancy_layout_interpreting': dict(src='fancy_layout_interpreting.rs', n1=True, n5=True, drop_clone=['FromSet'],
                                      n3=['iterate_combinations']),
    'layout_parsing_formatting': dict(src='layout_parsing_formatting.rs', pre_raw='json_stub.rs',
                                      only=['fn parse_layout_from_json', 'fn parse_mapping_from_json', 'fn single_to_alias_from', 'enum FromKeys', 'fn parse_from', 'fn parse_from_modifiers', 'fn parse_from_modifier', 'enum FromKey', 'fn parse_from_key', 'fn parse_from_row', 'fn parse_from_key_text', 'fn parse_from_key_obj', 'enum SingleOrAliasToKeys', 'fn parse_single_or_alias_to', 'fn parse_single_to', 'fn parse_row_to', 'enum SingleOrAliasToTerminal', 'fn parse_single_or_alias_to_terminal', 'fn parse_single_to_terminal', 'fn parse_row_to_terminal', 'fn parse_single_or_alias_to_text', 'fn parse_single_to_text', 'fn parse_single_or_alias_to_array', 'fn parse_single_to_array', 'fn parse_row_to_array', 'fn parse_to_initial', 'fn parse_alias_to_initial', 'fn parse_to_initial_elem', 'fn parse_row_to_obj', 'fn parse_key_code_j', 'fn parse_modifier', 'fn parse_single_repeat', 'fn parse_row_repeat', 'fn parse_single_repeat_keys', 'fn parse_row_repeat_keys', 'fn parse_repeat_delay_ms', 'fn parse_repeat_interval_ms', 'fn parse_absorbing', 'fn has_exactly_keys', 'fn has_at_least_keys'],
                                      stubs=['fn format_mapping', 'fn mapping_all_used_aliases', 'fn keys_string', 'fn parse_row', 'fn parse_key_code'],
                                      uses=['use crate::key_codes::KeyCode;', 'use crate::serde_json;', 'use crate::serde_json::{Value, Map};', 'use crate::serde_json::Value::{Object, Array};',
                                            'use crate::fancy_keys::{Layout, Mapping, SingleMapping, AliasMapping, RowMapping, Modifier, SingleFromKeys, RowFromKeys, SingleToKeys, RowToKeys, SingleTerminalToKey, SingleRepeat, RowRepeat, Row, AliasToKeys, AliasFromKeys, RepeatOnlySingleMapping};',
                                            'use crate::serde_json::Value as j;']),
    'physical_keyboard_layouts': dict(src='physical_keyboard_layouts.rs', only=[], uses=['use crate::{fancy_keys::Row, key_codes::KeyCode};']),
    'char_production_map': dict(src='char_production_map.rs', only=['struct SinkKey'], uses=['use crate::keys::KeyCode;']),
    'remapping_loop': dict(src='remapping_loop.rs', only=['enum WorkingRepeat', 'enum Device', 'enum PollResult',
                                                         'trait Driver', 'enum Next', 'fn do_remapping_loop_one_device'],
                           uses=['use crate::keys::{Layout, Event, KeyCode};', 'use crate::key_transforms;', 'use crate::key_transforms::ResultingRepeat;',
                                 'use std::time::{Duration, Instant};', 'use crate::keys::Event::{Pressed, Released};', 'use std::thread;',
                                 'use crate::tablet_mode_switch_reader::TableModeEvent::{On, Off};', 'use crate::tablet_mode_switch_reader::TableModeEvent;']),
    'tablet_mode_switch_reader': dict(src='tablet_mode_switch_reader.rs', only=['enum TableModeEvent'], uses=[]),
    'udev_utils': dict(src='udev_utils.rs', only=['fn escape_one_char', 'fn systemd_arg_escape', 'fn build_exclude_text', 'fn build_service_text'],
                       uses=[], outside_verus=True, make_pub=True),
}


def extract(name, text, log):
    """apply the extraction rules to the text of one source file"""
    cfg = MODULES[name]
    text = e1_strip_tests(text, log)
    text = e2_derives(text, log, add_structural=cfg.get('structural', ()), drop_clone=cfg.get('drop_clone', ()))
    text = e3_uses(text, log)
    if cfg.get('n1'): text = n1_refpats(text, log)
    if cfg.get('n2'): text = n2_retain(text, log)
    if cfg.get('n3'): text = n3_for_user_iter(text, log, cfg['n3'])
    if cfg.get('n4'): text = n4_iter_any(text, log)
    if cfg.get('n5'): text = n5_iter_map_collect(text, log)
    return text


_KW = set('as break const continue crate else enum extern false fn for if impl in let loop match mod move mut pub ref return self Self static struct super trait true type unsafe use where while dyn'.split())
def consistent_rename(ptoks, ctoks):
    """{old: new} if the current text of an item is the pinned text with some identifiers consistently renamed (every occurrence, injectively,
    nothing else changed); else None. Renaming a local variable or parameter does not change behaviour; the proof overlay is renamed accordingly."""
    if len(ptoks) != len(ctoks): return None
    ren = {}
    for a, b in zip(ptoks, ctoks):
        if a.t == b.t: continue
        if not (re.match(r'[A-Za-z_]\w*$', a.t) and re.match(r'[A-Za-z_]\w*$', b.t)) or a.t in _KW or b.t in _KW: return None
        if ren.get(a.t, b.t) != b.t: return None
        ren[a.t] = b.t
    if not ren or len(set(ren.values())) != len(ren): return None
    names_c = set(t.t for t in ctoks)
    for a, b in zip(ptoks, ctoks):
        if a.t in ren and b.t != ren[a.t]: return None        # an occurrence that was not renamed: ambiguous
    for old in ren:
        if old in names_c: return None                         # the old name still occurs (as another entity): ambiguous
    # the name of the item itself must not change (contracts are keyed by it)
    return ren


_CTRL = ('if', 'else', 'match', 'for', 'while', 'loop', 'return', 'break', 'continue', '?', '=>')
def structural_change(ptoks, ctoks):
    """True if an edit changes the control structure of an item or the functions it calls (not just operators, constants, indices, conditions):
    the overlay's body proof is written for one control structure; after such an edit a failed obligation inside the item may be the proof
    no longer fitting rather than the property being violated, so it is reported only together with a concrete failing input (DESIGN 0.4)."""
    def prof(toks):
        # the sequence of control keywords and calls, each with its brace depth: moving a statement into or out of a branch / loop is structural too
        seq = []; depth = 0
        ts = [t.t for t in toks]
        for i, t in enumerate(ts):
            if t == '{': depth += 1
            elif t == '}': depth -= 1
            elif t in _CTRL: seq.append((t, depth))
            elif i + 1 < len(ts) and ts[i + 1] == '(' and re.match(r'[A-Za-z_]\w*$', t) and t not in ('Some', 'Ok', 'Err', 'None'):
                seq.append((t + '()', depth))
        return seq
    return prof(ptoks) != prof(ctoks)


def uniq_keys(items):
    seen = {}
    for it in items:
        k = it['key']
        if k in seen:
            seen[k] += 1; it['key'] = '%s#%d' % (k, seen[k])
        else:
            seen[k] = 0
    return items


def item_marker_tags(text):
    """property tags of the `//@ Cxx Cyy | label` markers in a text"""
    return re.findall(r'//@\s*([^|\n]*)\|?([^\n]*)', text)


class Assembled:
    def __init__(self):
        self.text = ''
        self.items = []      # dict(module, key, line_start, line_end, annotated, changed_tokens)
        self.log = []        # extraction log
        self.problems = []   # lost anchors etc. (=> UNDECIDED)
        self.changed = {}    # module -> True if current != pinned
        self.degrade = set() # (module, item key) to emit in degraded form (contract assumed)
        self.bare = set()    # (module, item key) to emit with the header contract only: body ghost dropped, still VERIFIED

    def add(self, s):
        self.text += s

    def line(self):
        return self.text.count('\n') + 1


def assemble_module(asm, name, with_contracts=True):
    cfg = MODULES[name]
    log = []
    cur_raw = open(os.path.join(REPO_SRC, cfg['src'])).read()
    pin_path = os.path.join(PINNED, cfg['src'])
    pin_raw = open(pin_path).read() if os.path.exists(pin_path) else cur_raw
    cur = extract(name, cur_raw, log)
    plog = []
    pin = extract(name, pin_raw, plog)
    asm.changed[name] = (cur_raw != pin_raw)
    for l in log: asm.log.append('%s: %s' % (name, l))
    cur_items, cur_tail = split_items(cur); uniq_keys(cur_items)
    pin_items, _ = split_items(pin); uniq_keys(pin_items)
    pin_by = {it['key']: it for it in pin_items}
    ann_path = os.path.join(CONTRACTS, name + '.ann.rs')
    ann_items = []
    if with_contracts and os.path.exists(ann_path):
        ann_items, ann_tail = split_items(open(ann_path).read()); uniq_keys(ann_items)
    ann_by = {it['key']: it for it in ann_items}
    cur_by = {it['key']: it for it in cur_items}

    if cfg.get('pre_raw'):
        l0 = asm.line(); raw = open(os.path.join(SPEC, cfg['pre_raw'])).read(); asm.add(raw if raw.endswith('\n') else raw + '\n')
        asm.items.append(dict(module='prelude', key=cfg['pre_raw'], line_start=l0, line_end=asm.line() - 1, annotated=True, changed_tokens=0))
        asm.log.append('%s: ASSUMED declarations of a dependency emitted from spec/%s' % (name, cfg['pre_raw']))
    asm.add('pub mod %s {\nuse vstd::prelude::*;\n' % name)
    moved_out = []
    body = []
    only = cfg.get('only')
    if only is not None:
        # E4 closure: helper functions of the same file that the selected items call (directly or through other helpers) are part of the text too -
        # a change that moves part of a selected function into a new helper must not make the unit unbuildable
        only = list(only); fn_items = {it['key'][3:]: it for it in cur_items if it['key'].startswith('fn ')}
        grew = True
        while grew:
            grew = False
            sel_text = ' '.join(mask(it['text']) for it in cur_items if it['key'] in only)
            for fname, it in fn_items.items():
                if it['key'] not in only and it['key'] not in cfg.get('stubs', ()) and re.search(r'\b' + re.escape(fname) + r'\s*\(', sel_text):
                    only.append(it['key']); grew = True
                    asm.log.append('%s: E4 closure: helper `%s` is called by the extracted items and is extracted with them' % (name, it['key']))
        for u in cfg.get('uses', []): body.append((None, u + '\n', False, 0))
    for it in cur_items:
        k = it['key']
        if k in cfg.get('stubs', ()):
            # E6: a function outside the verified text that the verified text calls is represented by its real signature only
            mt = mask(it['text']); b = mt.index('{')
            body.append((k, '#[verifier::external_body]\n' + it['text'][:b].rstrip() + ' { unimplemented!() }\n', False, 0))
            asm.log.append('%s: E6 `%s` is outside the verified text (iterator adapters / macros / derives Verus cannot take); it is represented by its signature, ASSUMED to return normally' % (name, k))
            continue
        if only is not None and k not in only:
            continue
        if cfg.get('move_display') and k.startswith('impl Display for'):
            moved_out.append(it['text']); asm.log.append('%s: E2 moved `%s` outside verus! (compiled, not verified)' % (name, k)); continue
        if k in ann_by and k in pin_by:
            continue   # emitted with the overlay below
        if it['kind'] == 'lazy_static!':
            continue   # E5: handled by the overlay
        body.append((k, it['text'], False, 0))
    if only is not None:
        dropped = [it['key'] for it in cur_items if it['key'] not in only and it['kind'] != 'use']
        asm.log.append('%s: E4 only %d items extracted (%s); %d other items of the file are not part of the verified text'
                       % (name, len(only), ', '.join(only), len(dropped)))
    for ait in ann_items:
        k = ait['key']
        if k in pin_by:
            if k not in cur_by:
                asm.problems.append('lost-anchor %s::%s (item no longer exists in /repo)' % (name, k))
                continue
            atoks, atail = tokenize(ait['text'])
            ptoks, _ = tokenize(pin_by[k]['text'])
            ctoks, _ = tokenize(cur_by[k]['text'])
            ren = consistent_rename(ptoks, ctoks)
            if ren:
                # the only difference is a consistent renaming of local identifiers: the overlay (executable and ghost tokens alike) is renamed with it
                for t in ptoks:
                    if t.t in ren: t.t = ren[t.t]
                for n_, t in enumerate(atoks):
                    if t.t in ren:
                        # `x is Variant` of the ghost text is an operator, not the local that happens to be called `is`
                        if t.t == 'is' and n_ + 1 < len(atoks) and atoks[n_ + 1].t[:1].isupper() and n_ > 0 and (re.match(r'[A-Za-z_)\]]', atoks[n_ - 1].t[-1:]) is not None):
                            continue
                        t.t = ren[t.t]
                asm.log.append('%s: %s: identifiers renamed in /repo (%s); the overlay follows the renaming' % (name, k, ', '.join('%s -> %s' % kv for kv in sorted(ren.items()))))
            try:
                classify_ghost(atoks, ptoks)
            except WeaveError as e:
                asm.problems.append('overlay-mismatch %s::%s: %s' % (name, k, e)); continue
            out, changed = weave(atoks, ptoks, ctoks)
            if changed and structural_change(ptoks, ctoks): changed = -abs(changed)   # negative: the control structure / the set of calls changed
            if (name, k) in asm.bare and (name, k) not in asm.degrade:
                out = degrade(out, 'fn' if k.startswith('fn ') else 'impl', assume=False)
                asm.log.append('%s: %s: the code of this item was restructured so that the proof overlay of its BODY no longer applies; it is verified on this run from its contract header alone (no body hints)' % (name, k))
            if (name, k) in asm.degrade:
                out = degrade(out, 'fn' if k.startswith('fn ') else 'impl')
                asm.log.append('%s: DEGRADED %s: the code of this item was restructured so that the proof overlay of its body no longer applies; its contract is ASSUMED (external_body) on this run' % (name, k))
            body.append((k, untokenize(out, atail), True, changed))
        else:
            body.append((k, ait['text'], True, 0))   # ghost / overlay-only item
    outside = cfg.get('outside_verus')
    if outside:
        asm.log.append('%s: the extracted items are emitted OUTSIDE verus! (compiled verbatim into the enumeration driver, not verified)' % name)
    if outside and any(b[2] for b in body):
        # items that have an overlay are verified: they go into a verus! block of their own, in front of the verbatim ones
        asm.add('verus! {\n')
        for k, text, annotated, changed in [b for b in body if b[2]]:
            if cfg.get('make_pub') and k and k.startswith('fn '):
                text = re.sub(r'(^|\n)(\s*)fn ', lambda mm: mm.group(1) + mm.group(2) + 'pub fn ', text, count=1)
            l0 = asm.line(); asm.add(text)
            if not text.endswith('\n'): asm.add('\n')
            if k is not None:
                asm.items.append(dict(module=name, key=k, line_start=l0, line_end=asm.line() - 1, annotated=annotated, changed_tokens=changed))
        asm.add('\n} // verus!\n')
        body = [b for b in body if not b[2]]
    asm.add('verus! {\n' if not outside else '// plain Rust, verbatim from /repo (not verified)\n')
    for k, text, annotated, changed in body:
        if cfg.get('make_pub') and k and k.startswith('fn '):
            text = re.sub(r'(^|\n)(\s*)fn ', lambda mm: mm.group(1) + mm.group(2) + 'pub fn ', text, count=1)
        l0 = asm.line()
        asm.add(text)
        if not text.endswith('\n'): asm.add('\n')
        if k is not None:
            asm.items.append(dict(module=name, key=k, line_start=l0, line_end=asm.line() - 1,
                                  annotated=annotated, changed_tokens=changed))
    asm.add('\n} // verus!\n' if not outside else '\n')
    if moved_out:
        asm.add('\n'.join(moved_out) + '\n')
    if cfg.get('post'): asm.add(cfg['post'])
    asm.add('} // mod %s\n' % name)


def assemble(modules, spec_files=(), with_contracts=True, main='fn main() {}\n', main_file=None, degrade_items=(), bare_items=()):
    if main_file: main = open(os.path.join(SPEC, main_file)).read()
    asm = Assembled()
    asm.degrade = set(degrade_items); asm.bare = set(bare_items)
    asm.add('#![feature(allocator_api, print_internals)]\n#![allow(unused_imports, dead_code, unused_variables, unused_mut, unused_assignments, non_snake_case, unused_parens, unused_braces)]\n'
            'use vstd::prelude::*;\n')
    if with_contracts:
        l0 = asm.line()
        ptext = open(os.path.join(CONTRACTS, 'prelude.rs')).read()
        def cond(mm):
            return mm.group(2) if mm.group(1) in modules else ''
        ptext = re.sub(r'//#if (\w+)\n(.*?)//#endif\n', cond, ptext, flags=re.S)
        asm.add('pub mod prelude_specs {\nuse vstd::prelude::*;\nverus! {\n' + ptext + '\n} // verus!\n}\n')
        asm.items.append(dict(module='prelude', key='prelude', line_start=l0, line_end=asm.line() - 1, annotated=True, changed_tokens=0))
    for m in modules:
        assemble_module(asm, m, with_contracts)
    for sf in spec_files:
        nm = os.path.splitext(os.path.basename(sf))[0]
        l0 = asm.line()
        asm.add('pub mod %s {\nuse vstd::prelude::*;\nverus! {\n' % nm)
        base = asm.line()
        text = open(os.path.join(SPEC, sf)).read()
        its, _ = split_items(text)
        for it in its:
            ls = base + text[:it['start']].count('\n')
            asm.items.append(dict(module=nm, key=it['key'], line_start=ls, line_end=ls + it['text'].count('\n'),
                                  annotated=True, changed_tokens=0))
        asm.add(text)
        asm.add('\n} // verus!\n} // mod %s\n' % nm)
    asm.add(main)
    return asm


if __name__ == '__main__':
    import argparse
    ap = argparse.ArgumentParser()
    ap.add_argument('--modules', required=True)
    ap.add_argument('--spec', default='')
    ap.add_argument('--out', required=True)
    ap.add_argument('--no-contracts', action='store_true')
    a = ap.parse_args()
    asm = assemble(a.modules.split(','), [s for s in a.spec.split(',') if s], with_contracts=not a.no_contracts)
    open(a.out, 'w').write(asm.text)
    json.dump(dict(items=asm.items, log=asm.log, problems=asm.problems, changed=asm.changed), open(a.out + '.map.json', 'w'), indent=1)
    for p in asm.problems: print('PROBLEM', p)
    print('assembled %d lines, %d items' % (asm.text.count('\n'), len(asm.items)))
