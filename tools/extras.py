"""Non-deductive parts of a check (exhaustive enumerations, bounded stand-ins, translation validation).
They are reported separately under coverage.bounded_or_enumerative and never added to `discharged`."""
import os, json, subprocess, time
import assemble as A

BUILD = os.path.join(A.VERIF, 'build')


def run(name, tier, seed):
    return globals()['run_' + name](tier, seed)


def run_udev_enum(tier, seed):
    """C17: evaluate the verified twins on the real escape_one_char / build_service_text (driver compiled by the udev unit)"""
    exe = os.path.join(BUILD, 'bin_udev')
    out = dict(name='udev_enum', kind='enumerative', counts_as_proof=False)
    if not (os.path.exists(exe) and os.path.exists(exe + '.key')):
        out['undecided'] = 'the enumeration driver was not built (the udev unit did not verify or compile)'
        return out
    budget = 20000 if tier == 'quick' else 2000000
    t0 = time.time()
    p = subprocess.run([exe, str(seed + 1), str(budget)], stdout=subprocess.PIPE, stderr=subprocess.PIPE, timeout=3000)
    try:
        d = json.loads(p.stdout.decode())
    except Exception as e:
        out['undecided'] = 'driver output unreadable: %s %s' % (e, p.stderr.decode()[-300:]); return out
    out.update(exhaustive=True,
               explanation=('every Unicode scalar value except NUL (%d) through the real escape_one_char and the verified char_ok_exec: %d failing, %d characters are escaped at all; '
                            'every single-scalar pattern end to end through the real build_service_text and the verified words_exec/arg_of_exec: %d of %d failing; '
                            'all pairs and triples over %d syntax-relevant characters: %d of %d failing; seeded random pattern lists (NOT exhaustive): %d of %d failing')
               % (d['scalars'], d['scalars_failing'], d['scalars_escaped'], d['single_failing'], d['single_patterns'], 37, d['tuples_failing'], d['tuples'], d['random_failing'], d['random_lists']),
               evaluations=d['scalars'] + d['single_patterns'] + d['tuples'] + d['random_lists'], sample=d.get('sample'), wall_s=round(time.time() - t0, 1),
               bound='single characters and single-scalar patterns: complete; tuples: length <= 3 over 37 characters; random lists: %d lists of <= 3 patterns of <= 8 characters' % d['random_lists'])
    fails = d.get('failures', [])
    nbad = d['scalars_failing'] + d['single_failing'] + d['tuples_failing'] + d['random_failing']
    out['violations'] = nbad
    out['violation_list'] = [dict(input=f['input'], what=f['what']) for f in fails[:1]] if nbad else []
    return out


def replay(pid, cx):
    if pid == 'C17':
        exe = os.path.join(BUILD, 'bin_udev')
        inp = cx['input']
        args = [exe, 'replay'] + (inp.split(' ') if inp.startswith('char ') else [inp])
        p = subprocess.run(args, stdout=subprocess.PIPE, stderr=subprocess.STDOUT)
        print(p.stdout.decode())
        return 1 if p.returncode == 1 else 0
    return 2
