"""Non-deductive parts of a check (exhaustive enumerations, bounded stand-ins, translation validation).
They are reported separately under coverage.bounded_or_enumerative and never added to `discharged`."""
import os, json, subprocess, time
import assemble as A

BUILD = os.environ.get('VERIF_BUILD_DEV', os.path.join(A.VERIF, 'build'))   # env override: development aid only


def run(name, tier, seed):
    return globals()['run_' + name](tier, seed)


def run_udev_enum(tier, seed):
    """C17: evaluate the verified twins on the real escape_one_char / build_service_text (driver compiled by the udev unit)"""
    exe = os.path.join(BUILD, 'bin_udev')
    out = dict(name='udev_enum', kind='enumerative', counts_as_proof=False)
    if not (os.path.exists(exe) and os.path.exists(exe + '.key')):
        out['undecided'] = 'the enumeration driver was not built (the udev unit did not verify or compile)'
        return out
    budget = 20000 if tier == 'quick' else 2000000
    t0 = time.time()
    p = subprocess.run([exe, str(seed + 1), str(budget)], stdout=subprocess.PIPE, stderr=subprocess.PIPE, timeout=3000)
    try:
        d = json.loads(p.stdout.decode())
    except Exception as e:
        out['undecided'] = 'driver output unreadable: %s %s' % (e, p.stderr.decode()[-300:]); return out
    out.update(exhaustive=True,
               explanation=('every Unicode scalar value except NUL (%d) through the real escape_one_char and the verified char_ok_exec: %d failing, %d characters are escaped at all; '
                            'every single-scalar pattern end to end through the real build_service_text and the verified words_exec/arg_of_exec: %d of %d failing; '
                            'all pairs and triples over %d syntax-relevant characters: %d of %d failing; seeded random pattern lists (NOT exhaustive): %d of %d failing')
               % (d['scalars'], d['scalars_failing'], d['scalars_escaped'], d['single_failing'], d['single_patterns'], 37, d['tuples_failing'], d['tuples'], d['random_failing'], d['random_lists']),
               evaluations=d['scalars'] + d['single_patterns'] + d['tuples'] + d['random_lists'], sample=d.get('sample'), wall_s=round(time.time() - t0, 1),
               bound='single characters and single-scalar patterns: complete; tuples: length <= 3 over 37 characters; random lists: %d lists of <= 3 patterns of <= 8 characters' % d['random_lists'])
    fails = d.get('failures', [])
    nbad = d['scalars_failing'] + d['single_failing'] + d['tuples_failing'] + d['random_failing']
    out['violations'] = nbad
    out['violation_list'] = [dict(input=f['input'], what=f['what']) for f in fails[:1]] if nbad else []
    return out


def replay(pid, cx):
    if pid == 'C17':
        exe = os.path.join(BUILD, 'bin_udev')
        inp = cx['input']
        args = [exe, 'replay'] + (inp.split(' ') if inp.startswith('char ') else [inp])
        p = subprocess.run(args, stdout=subprocess.PIPE, stderr=subprocess.STDOUT)
        print(p.stdout.decode())
        return 1 if p.returncode == 1 else 0
    if (cx.get('input') or '').startswith('real-driver schedule '):
        import witness
        exe = witness.build()
        n = cx['input'].split()[-1]
        p = subprocess.run([exe, 'realdriver1', n], stdout=subprocess.PIPE, stderr=subprocess.STDOUT, timeout=120)
        print('replay of real-driver schedule %s: the real RealDriver / DevInputReader / DevInputWriter / per-device loop on OS pipes' % n)
        print(p.stdout.decode())
        return 1 if p.returncode == 1 else 0
    if (cx.get('input') or '').startswith(('fresh-case ', 'layout-file ')):
        import witness, tempfile
        exe = witness.build()
        if cx['input'].startswith('fresh-case '):
            prop, body = 'C06', json.loads(cx['input'][len('fresh-case '):])
        else:
            _, sd, text = cx['input'].split(' ', 2)
            prop, body = 'C14', dict(json=text, event_seed=int(sd))
        with tempfile.NamedTemporaryFile('w', suffix='.json', delete=False) as f:
            json.dump(dict(counterexample=body), f)
        p = subprocess.run([exe, 'replay', prop, f.name], stdout=subprocess.PIPE, stderr=subprocess.STDOUT, timeout=120)
        os.unlink(f.name)
        print(p.stdout.decode())
        return 1 if p.returncode == 1 else 0
    if (cx.get('input') or '').startswith('program '):
        import witness, tempfile
        exe = witness.build()
        with tempfile.NamedTemporaryFile('w', suffix='.json', delete=False) as f:
            json.dump(dict(counterexample=dict(program=cx['input'][len('program '):])), f)
        p = subprocess.run([exe, 'replay', 'C13', f.name], stdout=subprocess.PIPE, stderr=subprocess.STDOUT, timeout=120)
        os.unlink(f.name)
        print(p.stdout.decode())
        return 1 if p.returncode == 1 else 0
    if pid == 'C18':
        import witness
        exe = witness.build()
        p = subprocess.run([exe, 'c18', '1', '100'], stdout=subprocess.PIPE, stderr=subprocess.STDOUT)
        print('recorded failing case: %s -- %s' % (cx.get('input'), cx.get('what')))
        print('re-running the exhaustive probe on the current tree: ' + p.stdout.decode()[-600:])
        return 1 if p.returncode == 1 else 0
    return 2


# ---------------------------------------------------------------------------------------------------------------------
# C18
# ---------------------------------------------------------------------------------------------------------------------
KANI_DIR = os.path.join(A.VERIF, 'kani')
KANI_HARNESSES = ['send_empty', 'send_two', 'send_one', 'next_skips_foreign_records']
C18_SOURCES = ['dev_input_rw.rs', 'struct_ser.rs', 'key_codes.rs', 'keys.rs', 'events.rs']


def c18_hash():
    import hashlib
    h = hashlib.sha256()
    for f in C18_SOURCES: h.update(open(os.path.join(A.REPO_SRC, f), 'rb').read())
    h.update(open(os.path.join(KANI_DIR, 'src', 'main.rs'), 'rb').read())
    return h.hexdigest()[:24]


def run_real_driver_pipes_c10(tier, seed):
    """mismatches between what is written and the mapper's outputs for the delivered events count against C10"""
    return run_real_driver_pipes(tier, seed, 'real_driver_pipes_c10', lambda w: 'write failed' not in w and 'did not stop' not in w)


def run_real_driver_pipes_c20(tier, seed):
    """a loop that does not stop with the error after a failed write counts against C20"""
    return run_real_driver_pipes(tier, seed, 'real_driver_pipes_c20', lambda w: 'write failed' in w or 'did not stop' in w)


_RDP = {}
def run_real_driver_pipes(tier, seed, name='real_driver_pipes', keep=lambda w: True):
    """C10 / C12 / C20: the REAL driver (mio epoll, nix read/write), readers, writer and per-device loop on OS pipes, compared with the mapper's outputs"""
    import witness
    out = dict(name=name, kind='enumerative (bounded)', counts_as_proof=False)
    try:
        exe = witness.build()
    except Exception as e:
        out['undecided'] = 'harness build failed: %s' % str(e)[-300:]; return out
    cases = 60 if tier == 'quick' else 3000
    t0 = time.time()
    try:
        p = subprocess.run([exe, 'realdriver', str(seed + 1), str(cases)], stdout=subprocess.PIPE, stderr=subprocess.PIPE, timeout=1800)
        d = json.loads(p.stdout.decode().strip().split('\n')[-1])
    except Exception as e:
        out['undecided'] = 'probe did not finish or output unreadable: %s' % str(e)[-300:]; return out
    out.update(exhaustive=False, evaluations=d['cases'], distinct_nontrivial=d['writes_compared'], sample='real-driver schedule %d' % ((seed + 1) * 7919), wall_s=round(time.time() - t0, 2),
               explanation=('the assumption "RealDriver meets the Driver contract" is exercised, not proved: keyboard, tablet switch and virtual keyboard are OS pipes; the real RealDriver (mio edge-triggered epoll, EAGAIN -> Busy), '
                            'DevInputReader, TabletModeSwitchReader, DevInputWriter and do_remapping_loop_one_device run in a thread; %d seeded schedules write several key records per write (one readiness edge for several events), '
                            'foreign records in between, tablet-switch records, also tablet and keyboard ready in the same wake-up (both handling orders accepted); every write to the virtual keyboard (%d in all) is decoded and compared, '
                            'batch by batch, with the outputs of a reference Mapper for the delivered events; at the end a failing write must stop the loop with an error. Bounded and timing-dependent: never counted as proof') % (d['cases'], d['writes_compared']),
               bound='%d random schedules of at most 14 key events, layouts of at most 4 mappings, no Special repeats' % d['cases'])
    fl = [f for f in d['failures'] if keep(f['what'])]
    out['violations'] = len(fl)
    out['violation_list'] = [dict(input=f['input'], what=f['what']) for f in fl[:1]]
    return out


def run_anymod_bounded(tier, seed):
    """bounded validation of rewrite N4 on key_transforms::is_any_modifier: the real function (iterator adapter) against the contract proved for the rewritten loop"""
    import witness
    out = dict(name='anymod_bounded', kind='enumerative (bounded)', counts_as_proof=False)
    try:
        exe = witness.build()
    except Exception as e:
        out['undecided'] = 'harness build failed: %s' % str(e)[-300:]; return out
    t0 = time.time()
    p = subprocess.run([exe, 'anymod'], stdout=subprocess.PIPE, stderr=subprocess.PIPE, timeout=600)
    try:
        d = json.loads(p.stdout.decode().strip().split('\n')[-1])
    except Exception as e:
        out['undecided'] = 'probe output unreadable: %s %s' % (e, p.stderr.decode()[-300:]); return out
    out.update(exhaustive=False, evaluations=d['cases'], distinct_nontrivial=d['cases'], sample='[LEFTSHIFT, A]', wall_s=round(time.time() - t0, 2),
               explanation='real key_transforms::is_any_modifier compared with "the list contains one of the 8 modifier keys" for every list of length <= 4 over the 8 modifiers and 2 other keys (%d lists); the contract itself is proved by Verus on the N4-rewritten loop; this comparison backs the rewrite (iter().any -> index loop) on the real, unrewritten function; bounded, not counted as proof' % d['cases'],
               bound='list length <= 4, alphabet of 10 keys')
    out['violations'] = len(d['failures'])
    out['violation_list'] = [dict(input=f['input'], what=f['what']) for f in d['failures'][:1]]
    return out


def run_hek_bounded(tier, seed):
    """bounded (exhaustive over a small alphabet) validation of the ASSUMED contract of layout_parsing_formatting::has_exactly_keys and of the verified has_at_least_keys"""
    import witness
    out = dict(name='hek_bounded', kind='enumerative (bounded)', counts_as_proof=False)
    try:
        exe = witness.build()
    except Exception as e:
        out['undecided'] = 'harness build failed: %s' % str(e)[-300:]; return out
    t0 = time.time()
    p = subprocess.run([exe, 'hek'], stdout=subprocess.PIPE, stderr=subprocess.PIPE, timeout=600)
    try:
        d = json.loads(p.stdout.decode().strip().split('\n')[-1])
    except Exception as e:
        out['undecided'] = 'probe output unreadable: %s %s' % (e, p.stderr.decode()[-300:]); return out
    out.update(exhaustive=False, evaluations=d['cases'], distinct_nontrivial=d['cases'], sample='object {"from":..,"to":..}, list ["from","to"]', wall_s=round(time.time() - t0, 2),
               explanation='real has_exactly_keys / has_at_least_keys of the JSON front end on every object over five member names (32 objects) and every list of at most three names (156 lists, duplicates included): %d cases; has_exactly_keys is compared with "the sorted member names equal the sorted list" and with its ASSUMED contract (true only if every listed name is a member - what the unwrap after get relies on); bounded, not counted as proof' % d['cases'],
               bound='five member names, lists of length <= 3')
    out['violations'] = len(d['failures'])
    out['violation_list'] = [dict(input=f['input'], what=f['what']) for f in d['failures'][:1]]
    return out


def run_ord_sort_enum(tier, seed):
    """C13: evidence for two assumed contracts of the repeat-only proof: the derived Ord of KeyCode is a total order consistent with == (complete over all key codes) and sort leaves an ascending permutation (seeded vectors)"""
    import witness
    out = dict(name='ord_sort_enum', kind='enumerative', counts_as_proof=False)
    try:
        exe = witness.build()
    except Exception as e:
        out['undecided'] = 'harness build failed: %s' % str(e)[-300:]; return out
    t0 = time.time()
    p = subprocess.run([exe, 'ordsort', '200000' if tier == 'quick' else '5000000', str(seed + 1)], stdout=subprocess.PIPE, stderr=subprocess.PIPE, timeout=900)
    try:
        d = json.loads(p.stdout.decode().strip().split('\n')[-1])
    except Exception as e:
        out['undecided'] = 'probe output unreadable: %s %s' % (e, p.stderr.decode()[-300:]); return out
    out.update(exhaustive=True, evaluations=d['pairs'] + d['triples'] + d['sorted_vectors'], distinct_nontrivial=d['pairs'], sample='RIGHTCTRL <= SELECT', wall_s=round(time.time() - t0, 2),
               explanation='the ASSUMED axiom_keycode_total_order (derived Ord of KeyCode is a total order consistent with ==) is evaluated on the real type for every pair (%d: totality, antisymmetry, == is identity of the variant) and every triple a <= b (%d: transitivity) of the %d key codes - complete; the ASSUMED contract of sort (ascending permutation) on %d seeded Vec<KeyCode> - bounded. Evidence for assumptions on std / derive, never counted as proof'
                           % (d['pairs'], d['triples'], d['key_codes'], d['sorted_vectors']),
               bound='order axioms: complete over the %d key codes; sort: %d vectors of length <= 6' % (d['key_codes'], d['sorted_vectors']))
    out['violations'] = len(d['failures'])
    out['violation_list'] = [dict(input=f['input'], what=f['what']) for f in d['failures'][:1]]
    return out


def run_tables_enum(tier, seed):
    """C13: the two lazy_static tables against the US-QWERTY layout, complete over all scalar values / all rows (real tables through the harness)"""
    import witness
    out = dict(name='tables_enum', kind='enumerative', counts_as_proof=False)
    try:
        exe = witness.build()
    except Exception as e:
        out['undecided'] = 'harness build failed: %s' % str(e)[-300:]; return out
    t0 = time.time()
    p = subprocess.run([exe, 'tables'], stdout=subprocess.PIPE, stderr=subprocess.PIPE, timeout=600)
    try:
        d = json.loads(p.stdout.decode().strip().split('\n')[-1])
    except Exception as e:
        out['undecided'] = 'probe output unreadable: %s %s' % (e, p.stderr.decode()[-300:]); return out
    out.update(exhaustive=True, evaluations=d['cases'], distinct_nontrivial=d['table_entries'] + 5, sample="'A' -> (shift, A); row Q -> [Q, W, E, R, T, Y, U, I, O, P, LEFTBRACE, RIGHTBRACE]", wall_s=round(time.time() - t0, 2),
               explanation='CHAR_ACCESS_MAP.get(c) compared with an independently written US-QWERTY legend table for every Unicode scalar value (%d lookups; %d characters have an entry, space has none) and US_KEYBOARD_LAYOUT.get(row) for all five rows; complete over both domains. This backs the uninterpreted table functions cam_entry / ukl_row of the contracts (E5); it is enumerative, not counted as proof' % (d['cases'] - 5, d['table_entries']),
               bound='none: all 1,112,064 scalar values and all 5 rows')
    out['violations'] = len(d['failures'])
    out['violation_list'] = [dict(input=f['input'], what=f['what']) for f in d['failures'][:1]]
    return out


def _bounded_probe(name, cmd, timeout=3000):
    """run a seeded, bounded harness command; returns (out-dict, parsed JSON or None)"""
    import witness
    out = dict(name=name, kind='bounded', counts_as_proof=False)
    try:
        exe = witness.build()
    except Exception as e:
        out['undecided'] = 'harness build failed: %s' % str(e)[-300:]
        return out, None
    t0 = time.time()
    p = subprocess.run([exe] + cmd, stdout=subprocess.PIPE, stderr=subprocess.PIPE, timeout=timeout)
    try:
        d = json.loads(p.stdout.decode().strip().split('\n')[-1])
    except Exception as e:
        out['undecided'] = 'probe output unreadable: %s %s' % (e, p.stderr.decode()[-300:])
        return out, None
    out['wall_s'] = round(time.time() - t0, 2)
    out['violations'] = len(d['failures'])
    out['violation_list'] = [dict(input=f['input'], what=f['what']) for f in d['failures'][:1]]
    return out, d


def run_loader_fuzz_bounded(tier, seed):
    """C14, bounded: the JSON front end (out of the verifier's reach) and the whole load path on generated inputs"""
    n = 250000 if tier == 'quick' else 8000000
    out, d = _bounded_probe('loader_fuzz_bounded', ['loaderfuzz', str(n), '20260926'])
    if d is None:
        return out
    text = ('layout_parsing_formatting.rs works on serde_json::Value and is outside the verifier (trusted in the deductive part). Bounded stand-in: %d generated inputs '
            '(fixed seed: the same inputs on every run) - random layouts with duplicates, undefined or misplaced aliases, over-long and space-padded rows, extreme numbers, '
            'and structure-aware mutations of valid layouts (a random node of the JSON tree replaced, duplicated, removed, renamed or retyped; strings replaced by text of '
            'mixed UTF-8 widths up to 80 characters) - go through the real parser + converter; %d are accepted and are then installed in the real mapper, driven with 30 '
            'random key events and, if they have Special repeats, run through the real per-device loop with a plain driver; %d are rejected with a message; every 64th input '
            '(%d) is also written to a scratch file and loaded by the real layout_loading::load_layout_from_file, which must agree with parse + convert in memory. '
            'A panic anywhere is a failure. Never counted as proof')
    out.update(exhaustive=False, evaluations=d['inputs'], distinct_nontrivial=d['accepted'],
               sample='{"mappings":[{"from":["@x",{"row":"Q"}],"to":[{"letters":"a  b"}],"repeat":{"Special":{"keys":[["x"]],"delay_ms":-1,"interval_ms":1e300}}}]} (one node of a valid layout retyped)',
               explanation=text % (d['inputs'], d['accepted'], d['rejected'], d.get('through_load_layout_from_file', 0)),
               bound='%d inputs, at most 6 mappings each, fixed seed 20260926; 30 key events per accepted layout' % d['inputs'])
    return out


def run_fresh_bounded(tier, seed):
    """C06, bounded: the relational clause (afterwards the mapper answers like a fresh one), which no single-run contract states"""
    n = 400000 if tier == 'quick' else 20000000
    out, d = _bounded_probe('fresh_bounded', ['fresh', str(n), '20260926'])
    if d is None:
        return out
    text = ('"Afterwards the mapper answers like a fresh one" relates two runs; the contracts prove the single-run half (at rest nothing is considered pressed, nothing is held, '
            'no mapping is in effect). Bounded stand-in for the other half: %d seeded cases (the same on every run) - a layout of up to 4 mappings with or without absorbing lists, '
            'a history of up to 14 events brought to rest by releasing every held key or by release_all, a continuation of up to 14 events - the real mapper that went through the '
            'history and a new real mapper are stepped through the continuation and every StepResult (events and repeat request) is compared: %d continuation steps. '
            'Never counted as proof')
    out.update(exhaustive=False, evaluations=d['cases'], distinct_nontrivial=d['continuation_steps'],
               sample='layout [LEFTSHIFT,A]->[X] absorbing LEFTSHIFT; history P:LEFTSHIFT P:A R:A R:LEFTSHIFT; continuation P:LEFTSHIFT P:A - used and fresh mapper both answer [Pressed(X)]',
               explanation=text % (d['cases'], d['continuation_steps']),
               bound='%d cases, histories and continuations of at most 14 events over 8 keys, layouts of at most 4 mappings, fixed seed 20260926' % d['cases'])
    return out


def run_programs_bounded(tier, seed):
    """C13, bounded: generated layout programs through the real loader against the expansion written out by hand, acceptance included"""
    import witness
    out = dict(name='programs_bounded', kind='bounded', counts_as_proof=False)
    try:
        exe = witness.build()
    except Exception as e:
        out['undecided'] = 'harness build failed: %s' % str(e)[-300:]; return out
    n = 150000 if tier == 'quick' else 4000000
    t0 = time.time()
    p = subprocess.run([exe, 'programs', str(n), '20260926'], stdout=subprocess.PIPE, stderr=subprocess.PIPE, timeout=3000)
    try:
        d = json.loads(p.stdout.decode().strip().split('\n')[-1])
    except Exception as e:
        out['undecided'] = 'probe output unreadable: %s %s' % (e, p.stderr.decode()[-300:]); return out
    out.update(exhaustive=False, evaluations=d['programs'], distinct_nontrivial=d['accepted_and_equal'], wall_s=round(time.time() - t0, 2),
               sample='{"from":["@p",{"row":"Q"}],"to":["@p",{"letters":"aB"}],"repeat":{"Special":{"keys":[{"letters":"x"}],...}},"absorbing":["@p"]} with two definitions of @p',
               explanation=('%d generated layout programs (fixed seed: the same programs on every run; alias definitions with one or several keys and several definitions per alias, single / row / repeat-only '
                            'mappings with up to three alias or plain modifiers, Special repeats, absorbing lists) written as JSON, loaded through the real parser + converter and compared with the expansion '
                            'written out by hand in the harness: %d accepted and equal mapping by mapping (trigger, output, repeat, absorbing), %d rejected by both; a program with a usable hand-written '
                            'expansion that the loader rejects, or on which it panics, counts as a failure. This is the only part of the C13 check that says anything about WHEN the converter accepts '
                            '(the contracts are of the form "r is Ok ==> ..."); it is bounded and never counted as proof' % (d['programs'], d['accepted_and_equal'], d['rejected_by_both'])),
               bound='%d programs of at most 4 mappings, 3 aliases, 3 definitions per alias, fixed seed 20260926' % d['programs'])
    out['violations'] = len(d['failures'])
    out['violation_list'] = [dict(input=f['input'], what=f['what']) for f in d['failures'][:1]]
    return out


def run_c18_native(tier, seed):
    """exhaustive native enumeration through a real pipe (harness crate, real dev_input_rw.rs / struct_ser.rs / key_codes.rs)"""
    import witness
    out = dict(name='c18_native', kind='enumerative', counts_as_proof=False)
    try:
        exe = witness.build()
    except Exception as e:
        out['undecided'] = 'harness build failed: %s' % str(e)[-300:]; return out
    budget = 2000 if tier == 'quick' else 200000
    t0 = time.time()
    p = subprocess.run([exe, 'c18', str(seed + 1), str(budget)], stdout=subprocess.PIPE, stderr=subprocess.PIPE, timeout=3000)
    try:
        d = json.loads(p.stdout.decode().strip().split('\n')[-1])
    except Exception as e:
        out['undecided'] = 'probe output unreadable: %s %s' % (e, p.stderr.decode()[-300:]); return out
    out.update(exhaustive=True, evaluations=d['one_event_batches'] + d['random_batches'] + d.get('length_sweep', 0) + d['reader_records'] + d['round_trips'] + 1,
               distinct_nontrivial=d['one_event_batches'] + d.get('length_sweep', 0) + d['reader_records'] + d['round_trips'],
               sample=d['sample'], wall_s=round(time.time() - t0, 2),
               explanation=('real DevInputWriter::send / DevInputReader::next over a pipe: every known key code (%d) x press/release as a one-event batch (bytes = zero timeval, EV_KEY, code, value + one all-zero SYN_REPORT): %d cases, '
                            'complete; the empty batch; %d seeded random batches of up to 39 events (NOT exhaustive); one batch of every length 0..=256 and of 512, 1024, 2000 events, keys cycling through all codes (%d batches: every batch LENGTH up to 256 is covered, batch contents are not); reader on %d foreign/valid records (7 types x 7 values x all known codes and 10 unknown ones) followed by a valid record; '
                            'round trip writer -> reader for every code: %d') % (d['known_codes'], d['one_event_batches'], d['random_batches'], d.get('length_sweep', 0), d['reader_records'], d['round_trips']),
               bound='one-event batches and reader records: complete over the code domain; batches: every length 0..=256 plus 512, 1024, 2000 with one content each, and random contents for lengths < 40')
    out['violations'] = len(d['failures'])
    out['violation_list'] = [dict(input=f['input'], what=f['what']) for f in d['failures'][:1]]
    return out


def run_c18_kani(tier, seed):
    """Kani (CBMC) harnesses of /verif/kani over the real files. thorough: run them; quick: report a recorded run for exactly this source text"""
    out = dict(name='c18_kani', kind='bounded model checking (Kani 0.68 / CBMC 6.11)', counts_as_proof=False)
    h = c18_hash()
    rec_path = os.path.join(KANI_DIR, 'verified.json')
    rec = json.load(open(rec_path)) if os.path.exists(rec_path) else {}
    if tier == 'quick':
        r = rec.get(h)
        if r:
            out.update(explanation='Kani verified these harnesses on exactly this source text (content hash %s) in a recorded thorough run: %s' % (h, json.dumps(r['harnesses'])), recorded=True, evaluations=len(r['harnesses']), distinct_nontrivial=len(r['harnesses']), violations=0, violation_list=[])
        else:
            out.update(explanation='no Kani run is recorded for this source text (content hash %s); the Kani harnesses run in the thorough tier (about 35 minutes)' % h, recorded=False, evaluations=0, distinct_nontrivial=0, violations=0, violation_list=[])
        return out
    env = dict(os.environ); env['VERIF_REPO_SRC'] = A.REPO_SRC; env['CARGO_NET_OFFLINE'] = 'true'
    import shutil
    shutil.copy('/repo/Cargo.lock', os.path.join(KANI_DIR, 'Cargo.lock'))
    res = {}; t00 = time.time(); viol = []
    procs = {}
    # build once (first harness), then run the remaining ones in parallel on the shared build
    for hn in KANI_HARNESSES:
        t0 = time.time()
        p = subprocess.run(['cargo', 'kani', '-Z', 'stubbing', '--harness', hn], cwd=KANI_DIR, env=env, stdout=subprocess.PIPE, stderr=subprocess.STDOUT, timeout=7200)
        txt = p.stdout.decode(errors='replace')
        ok = 'VERIFICATION:- SUCCESSFUL' in txt and p.returncode == 0
        import re
        m = re.search(r'\*\* (\d+) of (\d+) failed', txt); cov = re.search(r'\*\* (\d+) of (\d+) cover properties satisfied', txt)
        res[hn] = dict(status='SUCCESSFUL' if ok else 'FAILED', time_s=round(time.time() - t0), checks=int(m.group(2)) if m else None, failed=int(m.group(1)) if m else None,
                       covers='%s/%s' % (cov.group(1), cov.group(2)) if cov else None)
        if not ok:
            fl = [l for l in txt.split('\n') if 'FAILURE' in l or 'Failed Checks' in l][:5]
            viol.append(dict(input='kani harness ' + hn, what='Kani harness %s fails: %s' % (hn, ' | '.join(fl)[:400])))
    if not viol:
        rec[h] = dict(harnesses=res, kani='0.68.0', recorded_at=time.strftime('%Y-%m-%dT%H:%M:%SZ', time.gmtime()))
        json.dump(rec, open(rec_path, 'w'), indent=1)
    out.update(explanation='Kani harnesses on the real dev_input_rw.rs/struct_ser.rs/key_codes.rs (nix read/write stubbed to transfer exactly the bytes): ' + json.dumps(res),
               evaluations=len(res), distinct_nontrivial=len(res), wall_s=round(time.time() - t00), violations=len(viol), violation_list=viol[:1],
               bound='send_one and next_skips_foreign_records: complete over all u16 codes / all 24-byte records (no loop depends on a symbolic value; unwinding assertions on); send_empty, send_two: fixed lengths 0 and 2 (bounded stand-in for "any length")')
    return out
