#!/usr/bin/env python3
"""Regenerates the table of DESIGN.md section 0.11 from seeded/*/check_results.json (written by tools/seed_run.py)."""
import json, os, re
SHORT = {
 'C01': '`release_absorbed_keys`: the `input_pressed_keys.retain` hoisted out of the per-key loop (differs with ≥ 2 absorbed keys)',
 'C02': '`remove_mapping`: the `still_shadowed` scan narrowed to mappings older than the removed one',
 'C02b': '`is_supported`: a counting "pre-check" that rejects every trigger once a stale absorbed key outnumbers the pressed keys',
 'C03': '`make_hashed_layout`: a mapping with an identical trigger overwrites the earlier one in place (order within the group lost)',
 'C03b': '`newly_press`: the supported mapping with the longest trigger fires instead of the last-listed one',
 'C04': '`release_action_mappings`: only the newest active mapping is scanned instead of all',
 'C04b': '`release_action_mappings`: a modifier that is still physically held is skipped (`continue`) when collecting keys to lift',
 'C05': '`remove_mapping`: the `still_used` scan narrowed to mappings older than the removed one',
 'C05b': '`Mapper::step`: a duplicate press is turned into `newly_release` + `newly_press`',
 'C05c': '`release_action_mappings`: the `is_action_mapping` guard dropped (modifier-only outputs get lifted)',
 'C06': '`newly_press`: the pressed key is no longer removed from `mapped_absorbed_keys` (only from a local copy)',
 'C07': '`add_new_mapping`: `release_all_action_keys` guarded by "the output has a non-modifier key"',
 'C08': '`add_new_mapping`: absorbing keys assigned instead of added to the absorbed list',
 'C08b': '`release_absorbed_keys`: the absorbed key is forgotten as input only if it is passed through at that moment',
 'C09': '`StepResult::empty()` means NoChange; the pass-through branch sets Disabled explicitly, other paths forgotten',
 'C10': "per-device loop: `break` out of the tablet drain loop became `continue 'wait` (rest of the notification dropped)",
 'C11': 'per-device loop: chord built with `skip_while` instead of a filter (a held key after a non-held one stays in the chord)',
 'C11b': 'per-device loop: after a late tick the next wake-up is `now + interval` instead of `next_wakeup + interval` (the schedule shifts)',
 'C12': 'per-device loop: `!in_tablet_mode` hoisted into a per-wake-up snapshot',
 'C13': '`MultiplyIter::next`: only the digit just below the incremented one is reset',
 'C13b': '`find_right_shift`: the first Shift met in the trigger decides (left Shift before right Shift gives left)',
 'C13c': '`build_combinations`: `alias_map` stores the position among all modifiers instead of among the aliases',
 'C14': '`convert`: validation moved before `adjust_repeats` (identity mappings / overwritten repeats unchecked)',
 'C17': '`escape_one_char`: all control characters as `\\\\xHH` (bytes ≥ 0x80 are not characters for systemd)',
 'C18': '`DevInputReader::next`: lost parentheses in `type_ == 1 && (value == 0 || value == 1)`',
 'C19': '`add_new_mapping`: three branches for an action output key collapsed; a key already held for a mapping is pushed twice',
 'C20': 'per-device loop: the error of `send` on tablet-On is logged and swallowed',
 'C01b': '`remove_mapping`: tidy-up that drops the `Released(k)` arm for an output key that is physically held but shadowed by another active mapping',
 'C06b': '`Mapper::release_all`: "fast path" that returns at once when nothing is down on the output (pressed / absorbed lists and mappings not cleared)',
 'C07b': '`release_all_action_keys`: the retain over the passed-through keys dropped (only mapped outputs are lifted)',
 'C09b': '`newly_release`: a release that ends no mapping and lifts nothing answers NoChange instead of Disabled',
 'C10b': 'per-device loop: at most 8 keyboard events read per readiness notification ("fairness" cap)',
 'C12b': '`Mapper::release_all`: walks the pressed keys by index while `newly_release` shrinks the list (every second key skipped)',
 'C13d': '`FromSet::new`: the modifiers of a trigger are no longer sorted (the same trigger written in another modifier order is a different table key)',
 'C14b': '`convert_row`: a space in `letters` no longer counts towards the row length check (a padded over-long row indexes past the row)',
 'C19b': '`release_action_mappings`: the "is it held at all" test dropped when collecting modifiers to lift (Released for a key that is not down)',
 'C20b': 'per-device loop: a failed write of a repeat tick is logged and dropped instead of ending the loop',
 'C02c': '`release_absorbed_keys`: only the mappings that themselves absorb the dropped key are torn down (a non-absorbing mapping sharing the modifier stays, with its output held)',
 'C03c': '`newly_press`: a "from rest" fast path skips every multi-key trigger when nothing is passed through / in effect / absorbed (a key can still be physically held)',
 'C04c': '`release_action_mappings`: early return when no non-modifier key is among the mapped outputs (a stale modifier of an earlier chord stays down)',
 'C05d': '`release_all_action_keys`: the whole list of mapped outputs is drained, not only its non-modifier keys (modifier of a modifier-remapping lifted)',
 'C08c': '`newly_press`: the pressed key leaves the absorbed list only if it is one of the eight modifiers (an absorbed CapsLock stays absorbed after release + press)',
 'C09c': '`add_new_mapping`: modifiers that are physically held are filtered out of the repeat keys of the Repeating request',
 'C11c': '`newly_release` (mapper): releasing a modifier that is not the repeating trigger answers NoChange, so the loop keeps the timer running after a key change',
 'C13e': '`convert`: `adjust_repeats` moved into the first pass (a repeat-only entry listed before its target no longer reaches it and adds an identity mapping)',
 'C14c': '`has_duplicate_key`: sorts via `FromSet::new` and compares neighbours only (the last key is not sorted in; its duplicate is missed and the mapper panics)',
 'C17b': '`build_exclude_text`: patterns that are blank after `trim()` are skipped (a whitespace-only pattern is dropped from the command line)',
 'C18b': '`DevInputWriter::send`: an empty batch returns early without writing the SYN_REPORT',
 'C19c': '`newly_press`: a physically pressed modifier that a mapping in effect already outputs is passed through as well (second `Pressed` for a key that is down)',
 'C01c': '`newly_release`: the reverse countdown over the mappings in effect became a forward loop that removes while it walks (the mapping after a removed one is skipped)',
 'C02d': '`add_new_mapping`: `release_absorbed_keys` moved after the pass that consumes the trigger keys (a trigger key handed back to pass-through stays down)',
 'C03d': '`add_new_mapping`: a non-modifier output key that is already down is left alone instead of released and pressed again (no press event in the firing step)',
 'C07c': '`add_new_mapping`: a Special repeat with an empty key list is treated like Normal (nothing is lifted when it fires)',
 'C10c': 'per-device loop: an interrupted `poll` releases everything and resets the mapper ("suspend/resume guard")',
 'C12c': 'per-device loop: tablet events of one notification are coalesced, only a net change of the mode acts (On+Off in one wake-up releases nothing)',
 'C17c': '`escape_one_char`: every Unicode whitespace character is written as `\\s` (U+00A0 etc. come back as a plain space)',
 'C18c': '`DevInputReader::next`: an unknown key code is reported as `UNKNOWN` instead of being skipped',
 'C20c': 'per-device loop: on a failed keyboard read the held keys are released (a write after the failure, its own error discarded) before the error is returned',
 'C04d': '`add_new_mapping`: an output modifier counts as down when it is physically held (instead of: passed through), so it is not pressed after an earlier chord lifted it',
 'C05e': '`add_new_mapping`: a passed-through key that the new mapping also outputs no longer moves to the mapped outputs (a modifier stays owned by the physical key and is lifted with it)',
 'C06d': '`add_new_mapping`: `absorbing_trigger.get_or_insert(..)` instead of an assignment (a stale trigger survives the return to rest and changes a later answer)',
 'C08d': '`add_new_mapping`: absorbed keys are lifted only before a NON-absorbing key-producing mapping (an absorbed Shift stays down when another absorbing chord fires)',
 'C09d': '`newly_press`: a press swallowed because a mapping in effect mentions the key answers NoChange instead of Disabled',
 'C11d': 'per-device loop: the first wake-up is `delay_ms.max(interval_ms)` after the firing',
 'C13f': '`convert_alias`: an alias defined by a chord of two or more modifiers no longer yields its own mapping (`is_only_modifiers`)',
 'C14d': 'parser (`parse_key_code`): the error message shortens an over-long key name with a byte slice (`&text[..24]` panics inside a multi-byte character)',
 'C19d': '`remove_mapping`: the hand-over branch `continue`s past the removal from the mapped outputs (the key stays in both lists; a later release is sent twice)',
 'C20d': 'per-device loop: an error of `next_tablet` outside tablet mode is logged and treated like Busy',
 'C13i': '`convert_row`: the "repeat has more letters than the output" guard compares `String::len()` (bytes) instead of the number of letters (a legal row with a multi-byte repeat letter under a space of the output is refused)',
 'C13j': '`FromSet::new`: all keys of a trigger are sorted, the final key included (triggers with the same keys and a different final key share a table entry; a repeat-only entry overwrites the wrong mapping)',
 'C13k': 'parser (`parse_single_or_alias_to_array`): a one-element `to` array is handed to the single-key path, which refuses `["@alias"]` while the bare spelling `"@alias"` still works',
 'C14g': 'parser: a `field()` accessor treats JSON `null` as "not given" while the guards `has_at_least_keys` / `has_exactly_keys` still count the key as present (`unwrap` of `None` on `{"from":"A","to":null}`)',
 'C09e': '`Mapper::step`: the "is it considered held" guard on the release branch removed (a release the mapper ignores now answers Disabled and cancels a running custom repeat)',
 'C12d': 'per-device loop: the `On` / `Off` arms merged; the timer is cancelled only when the release batch is non-empty (a repeat whose trigger is held alone survives an On-Off bounce of the switch)',
 'C17e': '`build_exclude_text`: patterns with a space are written double-quoted and `\\s` is turned back into a space by a text replace that ignores escape boundaries (`\\\\s` is half-matched)',
 'C20e': 'per-device loop: a failed keyboard / tablet read is remembered and returned only after the other devices of the same wake-up have been served (a step and a write happen after the failure)',
 'C02e': '`add_new_mapping`: the `should_absorb` guard removed, `release_absorbed_keys` runs on every key-producing activation (a double tap of an absorbing combo forgets the held modifier; its later release is ignored and the output stays down)',
 'C04e': '`add_new_mapping`: the pass-through claim step moved before `release_absorbed_keys` (a trigger modifier handed back by a torn-down absorbing remap stays down). Manifests only with an absorbing mapping - outside the quantifier of C04 (non-absorbing layouts), hence UNDECIDED there; reported through C02 and C05',
 'C05f': '`is_action_key`: table lookup in a list that names `LEFTALT` twice and omits `RIGHTALT` (AltGr treated as a repeatable key)',
 'C06e': '`newly_release`: "nothing to undo" early return skips the removal from the keys considered pressed (the key stays recorded as down after its release and after release_all; a later press is swallowed)',
 'C10d': 'per-device loop: "contact-bounce filter" drops a press that directly follows the release of the same key within one notification',
 'C11e': 'per-device loop: the repeat outcome of a burst is applied once, after the last event (a trailing ignored event erases an earlier Disabled / Repeating of the same burst)',
 'C13g': '`adjust_repeats`: the repeat setting of a repeat-only entry is built for the first combination and reused for the others (output-side alias in the repeat keys no longer follows the trigger-side choice)',
 'C13h': '`has_duplicate_key`: seen-table indexed by `code as u8` (two keys whose codes differ by 256 count as duplicates; a legal layout is rejected)',
 'C14e': 'parser: `parse_repeat_delay_ms` / `_interval_ms` merged, `as_u64().unwrap()` panics on a negative number',
 'C14f': '`newly_release` / `release_absorbed_keys`: removal from the keys considered pressed through `position(..).unwrap()` (panics when an absorbed modifier was released before the next key)',
 'C17d': '`systemd_arg_escape`: `$` doubled only when the next character could start a variable name (a run of dollars is written bare and collapses)',
 'C19e': '`release_all_action_keys`: rewritten as one iterator chain that no longer removes the lifted keys from the passed-through keys (second `Released` at the physical key-up)',
 'C01d': '`release_absorbed_keys`: the per-key loop split into three batch passes (pass-through sweep, mapping removals, one retain on the keys considered pressed); with two absorbed keys that are also outputs the second is handed back to pass-through after the sweep and its release is ignored',
 'C03e': '`make_hashed_layout`: a mapping whose trigger is the same *set* with the same final key replaces the earlier entry in place (variant of C03: a mapping listed between the two now wins)',
 'C07d': '`newly_release`: after `remove_mapping`, an output key of the removed mapping that is still physically down and not on the output is pressed again (a key lifted by a no-repeat mapping becomes held on a later release)',
 'C18d': '`DevInputWriter::send`: the batch is written in chunks of 15 records, each with its own SYN_REPORT (a batch of 16 or more events carries extra SYN_REPORTs)',
 'C06f': '`newly_press`: the mapping that was just hit is moved to the end of its key\'s list in the hashed layout ("most recently used first" for the reverse scan): which chord was typed last survives rest and release_all and changes which mapping a later chord fires',
 'C08e': 'two sites: `add_new_mapping` appends the absorbed keys with `extend_from_slice` (duplicates when the chord fires twice), `newly_press` forgets the re-pressed key with `position` + `swap_remove` (one occurrence): after two fires a re-pressed modifier still counts as absorbed',
 'C10e': 'per-device loop: the ready devices are served through a helper that orders the tablet switch first and applies `.take(1)` to the whole chain: when one wake-up names both devices the keyboard is not read before the next poll',
 'C12e': 'per-device loop, two sites: the repeat outcome of `step` is applied once per wake-up after all devices were served (overwrites the Idle set by the On arm) and the `!in_tablet_mode` guard of the time-out branch removed as dead code: keyboard chunk with a repeating press + On in the same wake-up lets the timer write in tablet mode',
 'C13l': '`convert_row_to`: the Shift a character needs is not added when the output modifiers already hold a left or right Shift ("no key twice in `to`"): an upper-case letter or shifted symbol next to an explicit Shift on the output side loses its own Shift',
 'C14h': '`build_combinations`: an alias already seen is skipped (one table column per distinct alias) while `from_modifiers` still advances its column once per occurrence: a mapping that names the same alias twice in `from` indexes past the table and panics',
 'C17f': '`systemd_arg_escape`: quotes are escaped only as the first character of the pattern ("systemd honours quotes at the start of a word only"): a quote later in the pattern opens a quoted section',
 'C20f': 'per-device loop: an error of `poll` is treated like an interruption (back-off through `restart_count`, returned only at the third in a row; every device event resets the count): an isolated poll failure is never returned and writes continue',
}
rows = []
for s in sorted(os.listdir('/verif/seeded')):
    f = '/verif/seeded/%s/check_results.json' % s
    if not os.path.exists(f): continue
    res = json.load(open(f)); own_id = s[:3]
    own = res.get(own_id, {}); l = own.get('line', '') + ' ' + ' '.join(own.get('detail', []))
    if own.get('rc') != 1: how = '**NOT REPORTED** (%s)' % {0: 'OK', 2: 'UNDECIDED'}.get(own.get('rc'), '?')
    elif 'overlay not applicable' in l: how = 'degraded + witness'
    elif 'failed check' in l: how = 'enumeration'
    elif 'no-failing-input-found' in l: how = 'labelled obligation, no witness'
    else: how = 'labelled obligation + witness'
    others = [p for p, v in res.items() if v['rc'] == 1 and p != own_id]; und = [p for p, v in res.items() if v['rc'] == 2]; ok = [p for p, v in res.items() if v['rc'] == 0]
    rows.append('| %s | %s | %s | %s | %s | %s |' % (s, SHORT.get(s, '?'), how, ' '.join(others) or '—', ' '.join(und) or '—', ' '.join(ok) or '—'))
table = '| breaks | the change | its own check reports VIOLATION through | also VIOLATION | UNDECIDED (exit 2) | OK |\n|---|---|---|---|---|---|\n' + '\n'.join(rows)
p = '/verif/DESIGN.md'
d = open(p).read()
i = d.index('| breaks | the change |'); j = d.index('\n\n', i)
d = d[:i] + table + d[j:]
open(p, 'w').write(d)
print(table)
