#!/usr/bin/env python3
"""Development aid (not a registered check): label audit by mutation.

For a list of small token-level mutants of one source file, in an ISOLATED scratch copy (source copy, build dir and cargo target dir of its own,
so it can run next to other work): run the unit through Verus with the contracts, collect which properties get a *precisely attributed* failed
obligation, and compare with the executable oracles of the harness run on the same mutant (the "truth" as far as random search sees it):

  labelled-but-no-witness  -> candidate false alarm (a label too broad, or proof brittleness)      -> review
  witness-but-no-tag       -> candidate miss (the failing obligation does not carry the property)  -> review

usage: mutation_campaign.py UNIT FILE.rs SECONDS_PER_ORACLE [max_mutants] [start_index]
"""
import os, re, sys, json, shutil, subprocess, hashlib, time
HERE = os.path.dirname(os.path.abspath(__file__))
sys.path.insert(0, HERE)
SCR = os.environ.get('MUT_SCRATCH', '/tmp/w/mut')
os.makedirs(SCR, exist_ok=True)
os.environ['VERIF_REPO_SRC'] = SCR + '/src'
os.environ['VERIF_BUILD_DEV'] = SCR + '/build'
os.environ['VERIF_HARNESS_TARGET_DEV'] = SCR + '/target'
os.makedirs(SCR + '/build/cache', exist_ok=True)
import vlib as V


def mutants(text):
    """(description, new_text) for token-level edits outside test modules / comments / strings"""
    log = []
    body = V.e1_strip_tests(text, log)
    limit = len(body.rstrip())            # tests are at the end of the file: mutate only before them
    m = V.mask(text)
    out = []
    rules = [(r'==', '!='), (r'!=', '=='), (r'&&', '||'), (r'\|\|', '&&'), (r'<=', '<'), (r'>=', '>'), (r'(?<= )>(?= )', '>='), (r'(?<= )<(?= )', '<='),
             (r'- ?1\b', '- 0'), (r'\+ ?1\b', '+ 0'), (r'\btrue\b', 'false'), (r'\bfalse\b', 'true'), (r'\.rev\(\)', ''),
             (r'\bPressed\(', 'Released('), (r'\bReleased\(', 'Pressed('), (r'(?<![\w!])!(?=[\w(])', ''), (r'\bbreak;', ''), (r'\.len\(\) > 1\b', '.len() > 0'), (r'\.len\(\) > 0\b', '.len() > 1'),
             (r'\bSome\(', 'None.or(Some('), ]
    for rx, rep in rules:
        for mm in re.finditer(rx, m):
            if mm.start() >= limit: continue
            line = text.count('\n', 0, mm.start()) + 1
            lt = text.split('\n')[line - 1]
            if re.match(r'\s*(use |//|#\[|pub struct|struct|enum|pub enum|fn |pub fn |impl )', lt): continue
            if rep.startswith('None.or('):
                continue
            new = text[:mm.start()] + rep + text[mm.end():]
            out.append(('line %d: `%s` -> `%s` in `%s`' % (line, mm.group(0), rep, lt.strip()[:70]), new))
    return out


def main():
    unit, fname, secs = sys.argv[1], sys.argv[2], float(sys.argv[3])
    maxm = int(sys.argv[4]) if len(sys.argv) > 4 else 30
    start = int(sys.argv[5]) if len(sys.argv) > 5 else 0
    clean = '/tmp/w/clean/src'
    if not os.path.exists(clean):
        os.makedirs('/tmp/w/clean', exist_ok=True)
        subprocess.check_call('git -C /repo archive HEAD src | tar -x -C /tmp/w/clean', shell=True)
    shutil.rmtree(SCR + '/src', ignore_errors=True); shutil.copytree(clean, SCR + '/src')
    import run_verus as RV, witness as W, props as P
    props = [p for p, d in P.PROPS.items() if unit in d['units'] and d.get('witness')]
    text0 = open(os.path.join(clean, fname)).read()
    ms = mutants(text0)
    if os.environ.get('MUT_LINES'):
        lo, hi = [int(x) for x in os.environ['MUT_LINES'].split('-')]
        ms = [m for m in ms if lo <= int(re.match(r'line (\d+)', m[0]).group(1)) <= hi]
    # spread the sample over the file deterministically
    step = max(1, len(ms) // maxm)
    sample = ms[start::step][:maxm]
    print('%d mutants possible, %d sampled; properties %s' % (len(ms), len(sample), ' '.join(sorted(props))), flush=True)
    results = []
    for n, (desc, new) in enumerate(sample):
        open(os.path.join(SCR, 'src', fname), 'w').write(new)
        t0 = time.time()
        # does it compile and pass its own tests? (cheap filter: cargo check of the harness)
        try:
            exe = W.build()
        except Exception as e:
            print('[%d] %s :: does not compile, skipped' % (n, desc), flush=True); continue
        truth = {}
        for p in sorted(props):
            try:
                r = subprocess.run([exe, 'explore', p, str(secs), '1'], stdout=subprocess.PIPE, stderr=subprocess.PIPE, timeout=5 * secs + 120)
                truth[p] = bool(re.search(r'^WITNESS ', r.stdout.decode(), re.M))
            except subprocess.TimeoutExpired:
                truth[p] = True    # the code under test hangs: certainly not the specified behaviour
        u = RV.run_unit(unit, 'quick', use_cache=True, log=lambda *a: None)
        precise = set(); vague = set(); hard = bool(u.hard); rl = False; degraded = bool(getattr(u, 'degraded', []))
        for f in u.failures:
            if f.get('rlimit'): rl = True; continue
            if f.get('attr') != 'default' and not f.get('item_structural') and ('postcondition' in f['message'] or f['module'] in ('trace', 'glue', 'remapping_loop') or (f['module'] == 'layout_parsing_formatting' and f.get('attr') == 'rules')): precise.update(f['tags'])
            else: vague.update(f['tags'])
        T = set(p for p, v in truth.items() if v)
        fa = sorted((precise & set(props)) - T)
        rest = set()
        for p in props:
            if any(t in precise | vague for t in P.PROPS[p].get('rests_on', [])): rest.add(p)
        reach = precise | vague | rest | (set(props) if degraded else set())
        miss = sorted(T - reach)
        line = '[%d] %s :: truth=%s precise=%s vague=%s%s%s | FALSE-ALARM-CANDIDATES=%s MISS-CANDIDATES=%s (%.0fs)' % (
            n, desc, ' '.join(sorted(T)) or '-', ' '.join(sorted(precise & set(props))) or '-', ' '.join(sorted(vague & set(props))) or '-',
            ' HARD' if hard else '', ' RLIMIT' if rl else '', ' '.join(fa) or '-', ' '.join(miss) or '-', time.time() - t0)
        print(line, flush=True)
        results.append(dict(mutant=desc, truth=sorted(T), precise=sorted(precise), vague=sorted(vague), false_alarm_candidates=fa, miss_candidates=miss, hard=hard, rlimit=rl,
                            failures=[dict(fn=f['fn'], label=f['label'], tags=f['tags'], attr=f['attr'], msg=f['message'][:80]) for f in u.failures][:12]))
        json.dump(results, open(os.path.join(SCR, 'campaign_%s.json' % unit), 'w'), indent=1)
    open(os.path.join(SCR, 'src', fname), 'w').write(text0)


if __name__ == '__main__':
    main()
