#!/usr/bin/env python3
"""Development aid (not part of a check run): put every clause of the
requires / ensures / invariant lists of an overlay file on its own line and
insert `//@ tags | label` markers in front of runs of clauses with the same
classification.  Idempotent: existing markers are removed first.
usage: dev_mark.py contracts/key_transforms.ann.rs RULES.json
RULES: list of [regex, "Cxx Cyy", "label"], first match wins; clauses that match
nothing get the label "frame / auxiliary" and the function's default tags."""
import re, sys, json, os
sys.path.insert(0, os.path.dirname(os.path.abspath(__file__)))
from vlib import mask, match_close, split_items

KW = r'\b(requires|ensures|invariant_except_break|invariant|decreases|recommends)\b'


def split_top(s, m):
    """split s at commas that are at depth 0 in masked m"""
    out = []; d = 0; st = 0
    for i, c in enumerate(m):
        if c in '([{': d += 1
        elif c in ')]}': d -= 1
        elif c == '|' :
            pass
        elif c == ',' and d == 0:
            out.append(s[st:i]); st = i + 1
    out.append(s[st:])
    return [x for x in out if x.strip()]


def classify(clause, rules):
    for rx, tags, label in rules:
        if re.search(rx, clause): return tags, label
    return '', 'frame / auxiliary'


def process_item(text, rules, exec_only=True):
    head = text.split('{')[0]
    if re.search(r'\b(spec|proof)\s+fn\b', head) and not re.search(r'\bimpl\b', head): return text, set()
    text = re.sub(r'[ \t]*//@[^\n]*\n', '', text)
    alltags = set()
    pos = 0
    while True:
        m = mask(text)
        mm = re.compile(KW).search(m, pos)
        if not mm: break
        kw = mm.group(1)
        if kw in ('decreases', 'recommends'):
            pos = mm.end(); continue
        # skip closure ensures (preceded by ')' of `-> (e: T)` on the same line with a '|' before)
        line_start = m.rfind('\n', 0, mm.start()) + 1
        if '|' in m[line_start:mm.start()]:
            pos = mm.end(); continue
        # end of the clause list
        j = mm.end(); d = 0; end = None
        while j < len(m):
            c = m[j]
            if c in '([': d += 1
            elif c in ')]': d -= 1
            elif c == '{':
                ls = m.rfind('\n', 0, j) + 1
                if d == 0 and m[ls:j].strip() == '':
                    end = j; break
                j = match_close(m, j, '{', '}')
            elif d == 0:
                k2 = re.compile(KW).match(m, j)
                if k2 and (j == 0 or not (m[j - 1].isalnum() or m[j - 1] == '_')):
                    end = j; break
            j += 1
        if end is None: break
        seg = text[mm.end():end]; mseg = m[mm.end():end]
        clauses = split_top(seg, mseg)
        ind = re.match(r'[ \t]*', text[line_start:]).group(0) + '  '
        out = '\n'; prev = None
        for c in clauses:
            c1 = c.strip()
            tags, label = classify(c1, rules)
            for t in tags.split(): alltags.add(t)
            if (tags, label) != prev:
                out += '%s//@ %s | %s\n' % (ind, tags, label); prev = (tags, label)
            out += ind + c1 + ',\n'
        body_open = (m[end] == '{')
        tail_ind = re.match(r'[ \t]*', text[line_start:]).group(0)
        new = text[:mm.end()] + out + tail_ind
        if body_open:
            # marker that hands the body back to the function default
            close_nl = text.find('\n', end)
            new2 = new + text[end:end + 1] + ' //@ | body' + text[end + 1:]
            pos = len(new) + 1
            text = new2
        else:
            pos = len(new)
            text = new + text[end:]
    return text, alltags


def main():
    path = sys.argv[1]; rules = json.load(open(sys.argv[2]))
    src = open(path).read()
    items, tail = split_items(src)
    out = ''
    for it in items:
        t = it['text']
        if it['key'].startswith(('fn ', 'impl ')):
            try:
                t2, tags = process_item(t, rules)
                from vlib import tokenize
                a = [x.t for x in tokenize(t)[0] if x.t != ',']; b = [x.t for x in tokenize(t2)[0] if x.t != ',']
                if a != b:
                    print('dev_mark: skipped (would change tokens):', it['key']); t2, tags = re.sub(r'[ \t]*//@[^\n]*\n', '', t), set()
            except Exception as e:
                print('dev_mark: skipped (%s):' % e, it['key']); t2, tags = t, set()
            if True:
                # item default marker in front of the item
                t2 = re.sub(r'^(\s*)', lambda mm: mm.group(1), t2, count=1)
                lead = re.match(r'\s*', t2).group(0)
                t2 = lead + '//@ %s | default: %s\n' % (' '.join(sorted(tags | {'C14'})), it['key']) + t2[len(lead):]
            t = t2
        out += t
    open(path, 'w').write(out + tail)


if __name__ == '__main__':
    main()
