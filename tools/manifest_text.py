"""Per-property texts of MANIFEST.json (kept next to props.py)."""

MAPPER_NOTE = ('Trusted: Verus/Z3/rustc; the assembler (extraction rules E1-E3, E2\', N2 and the token weave; executable tokens always come from /repo/src); '
               'assumed contracts on std (<[T]>::contains, HashMap::get_mut, Vec length <= isize::MAX, KeyCode key model); rustc derive(Clone) = field-wise clone; '
               'N2 (Vec::retain -> index loop) validated by differential execution in the thorough tier. Precondition: the layout has non-empty triggers and no key twice in a trigger or an output '
               '(what Mapper::for_layout panics on otherwise). The plain-Rust witness search only attaches a concrete input to a failed obligation; it never decides.')

TEXT = {
    'C01': dict(
        technique='deductive verification (Verus): inductive invariant of Mapper::step/release_all on the real code + verified universal client',
        level_text=('Proof, unbounded: the inclusion invariant J (mapped outputs are outputs of mappings in effect; pass-through keys and triggers of mappings in effect are pressed) '
                    'and wf are requires/ensures of every function of key_transforms.rs; a verified universal client drives the real Mapper with an arbitrary layout and an arbitrary '
                    'operation sequence (ill-formed events and release_all included) and asserts after every call: physical keys all released ==> the fold of the whole output stream '
                    'from the empty device is empty. All layouts, all histories of any length, all 484 key codes.'),
        design_ref='6.1, 5', level_note=MAPPER_NOTE),
    'C07': dict(
        technique='deductive verification (Verus): postconditions of add_new_mapping / release_all_action_keys and the release paths on the real code',
        level_text=('Proof, unbounded: add_new_mapping ensures that after firing a Disabled or Special mapping every key still held is a modifier; release_all_action_keys ensures the same and that '
                    'modifiers stay; newly_release / release_all / remove_mapping / release_absorbed_keys emit only releases; the universal client asserts that a release-only batch never '
                    'enlarges the held set.'),
        design_ref='6.7', level_note=MAPPER_NOTE + ' Not covered by a contract yet: "each output key of the no-repeat mapping was pressed during that step" (event-level clause; covered only by the witness oracle).'),
    'C09': dict(
        technique='deductive verification (Verus): StepResult.repeat as a function of the fired mapping, on the real code',
        level_text=('Proof, unbounded: add_new_mapping ensures repeat_matches(m.repeat, res.repeat) (Special => Repeating with exactly its keys, delay, interval; otherwise Disabled); '
                    'newly_press ensures the request is that of the fired mapping of the group (is_fired) and Disabled when none is supported; newly_release ensures Disabled; '
                    'Mapper::step ensures NoChange <=> the event is ignored (press of a key considered held / release of one that is not), and then no events and an unchanged mapper.'),
        design_ref='6.9', level_note=MAPPER_NOTE),
    'C19': dict(
        technique='deductive verification (Verus): apply(held(old), events) == Some(held(new)) on every emitting function of the real code + verified universal client',
        level_text=('Proof, unbounded: every function that emits events (release_action_mappings, release_all_action_keys, remove_mapping, release_absorbed_keys, add_new_mapping, newly_press, '
                    'newly_release, Mapper::step, Mapper::release_all) ensures that folding its events over the held set succeeds (no press of a key that is down, no release of a key that is up) '
                    'and yields exactly the new bookkeeping; the universal client lifts this to the concatenated output of every history.'),
        design_ref='6.19', level_note=MAPPER_NOTE),
}

NOT_APPLICABLE = {
    'C15': 'both sides are serde / serde_json (derive(Serialize), serde_json::Value, enum_utils FromStr): no contract within reach of Verus or Kani can express or decide it without assuming the behaviour of the libraries, i.e. the property (DESIGN 6.15)',
    'C16': 'keyboard_listing.rs is str splitting/searching iterators, /proc and /sys I/O and an external glob crate; Verus does not reason about str contents and Kani does not terminate on symbolic text (DESIGN 6.16)',
}

NOTES = ('Contract-based deductive verification of the real code: see DESIGN.md. Exit codes of ./check: 0 held, 1 violation (VIOLATION line), 2 undecided '
         '(tool trouble / lost anchor / resource limit; never an alarm).')
