"""Per-property texts of MANIFEST.json (kept next to props.py)."""

MAPPER_NOTE = ('Trusted: Verus/Z3/rustc; the assembler (extraction rules E1-E3, E2\', N2, N4 and the token weave; executable tokens always come from /repo/src); '
               'assumed contracts on std (<[T]>::contains, HashMap::get_mut, Vec length <= isize::MAX, KeyCode key model); rustc derive(Clone) = field-wise clone; '
               'N2 (Vec::retain -> index loop) and N4 (iter().any -> index loop) validated by differential execution in the thorough tier. Precondition: the layout has non-empty triggers and no key twice in a trigger or an output '
               '(what Mapper::for_layout panics on otherwise). The plain-Rust witness search only attaches a concrete input to a failed obligation; it never decides.')

TEXT = {
    'C01': dict(
        technique='deductive verification (Verus): inductive invariant of Mapper::step/release_all on the real code + verified universal client',
        level_text=('Proof, unbounded: the inclusion invariant J (mapped outputs are outputs of mappings in effect; pass-through keys and triggers of mappings in effect are pressed) '
                    'and wf are requires/ensures of every function of key_transforms.rs; a verified universal client drives the real Mapper with an arbitrary layout and an arbitrary '
                    'operation sequence (ill-formed events and release_all included) and asserts after every call: physical keys all released ==> the fold of the whole output stream '
                    'from the empty device is empty. All layouts, all histories of any length, all 484 key codes.'),
        design_ref='6.1, 5', level_note=MAPPER_NOTE),
    'C07': dict(
        technique='deductive verification (Verus): postconditions of add_new_mapping / release_all_action_keys and the release paths on the real code',
        level_text=('Proof, unbounded: add_new_mapping ensures that after firing a Disabled or Special mapping every key still held is a modifier; release_all_action_keys ensures the same and that '
                    'modifiers stay; newly_release / release_all / remove_mapping / release_absorbed_keys emit only releases; the universal client asserts that a release-only batch never '
                    'enlarges the held set.'),
        design_ref='6.7', level_note=MAPPER_NOTE + ' Not covered by a contract yet: "each output key of the no-repeat mapping was pressed during that step" (event-level clause; covered only by the witness oracle).'),
    'C09': dict(
        technique='deductive verification (Verus): StepResult.repeat as a function of the fired mapping, on the real code',
        level_text=('Proof, unbounded: add_new_mapping ensures repeat_matches(m.repeat, res.repeat) (Special => Repeating with exactly its keys, delay, interval; otherwise Disabled); '
                    'newly_press ensures the request is that of the fired mapping of the group (is_fired) and Disabled when none is supported; newly_release ensures Disabled; '
                    'Mapper::step ensures NoChange <=> the event is ignored (press of a key considered held / release of one that is not), and then no events and an unchanged mapper.'),
        design_ref='6.9', level_note=MAPPER_NOTE),
    'C19': dict(
        technique='deductive verification (Verus): apply(held(old), events) == Some(held(new)) on every emitting function of the real code + verified universal client',
        level_text=('Proof, unbounded: every function that emits events (release_action_mappings, release_all_action_keys, remove_mapping, release_absorbed_keys, add_new_mapping, newly_press, '
                    'newly_release, Mapper::step, Mapper::release_all) ensures that folding its events over the held set succeeds (no press of a key that is down, no release of a key that is up) '
                    'and yields exactly the new bookkeeping; the universal client lifts this to the concatenated output of every history.'),
        design_ref='6.19', level_note=MAPPER_NOTE),
}

LOOP_NOTE = ('Trusted: Verus/Z3/rustc; the assembler (E1-E4 and the token weave); the Driver trait contract as the model of the environment (RealDriver meeting it is assumed; it is exercised on every run with the real driver, readers, writer and loop on OS pipes - bounded, reported under bounded_or_enumerative); '
             'Instant/Duration as mathematical integers (axioms on AddSpec/SubSpec/PartialOrdSpec); Mapper used through its contracts (proved by the mapper unit). '
             'Environment assumptions: fewer than 50 interruptions between device events; monotonic clock; layout_ok. Witness search for the loop: a scripted Driver with seeded delivery schedules in the harness (loop_probe.rs); without a witness a failed obligation is reported with no-failing-input-found.')
TEXT.update({
    'C10': dict(
        technique='deductive verification (Verus): loop invariants of do_remapping_loop_one_device against the contract of the Driver trait (typestate with ghost state), real loop text',
        level_text=('Proof, unbounded over schedules: the driver is a universally quantified implementation of the Driver trait under its contract (any batching, any interleaving of time-outs, '
                    'interruptions, tablet events, end-of-device anywhere). Invariants: sends == s0 + outs (every non-empty step output, release-all batch and timer chord written once, in order, nothing else), '
                    'stepped == reads_live (every delivered event is stepped exactly once, in order); poll requires that no notified device is left unread, which the read loops establish by draining to Busy; '
                    'End returns at once.'),
        design_ref='6.10', level_note=LOOP_NOTE),
    'C11': dict(
        technique='deductive verification (Verus): ghost repeat request + due time carried through the loop invariant; chord shape and transience by lemma; real loop text',
        level_text=('Proof, unbounded: the timer state always equals the mapper\'s last repeat request still in force (set by a Repeating result, cleared by Disabled, tablet events and a time-out in tablet mode; '
                    'NoChange leaves it); the poll time-out is exactly due-time minus a clock reading of this iteration (at least 1 ms), None iff no timer; a new timer is due delay_ms after a clock reading '
                    'taken at the firing; each tick adds exactly interval_ms to the due time (no drift); the payload of a tick equals chord(keys, held) = presses of the keys not already held in listed order, '
                    'releases in reverse, and apply(held, chord) == Some(held) (lemma by induction); chords are the only sends besides mapper outputs (C10 invariant); the fold of everything written equals the mapper\'s record. '
                    'The loop is verified against the contract of Mapper::step; this check also runs the mapper unit, and a failed obligation there that carries step\'s repeat request (C09) makes C11 conditional (witness or UNDECIDED).'),
        design_ref='6.11', level_note=LOOP_NOTE + ' "waits at most delay_ms" is proved as "time-out == due - now" and needs the monotonic clock to be read as a bound; "once per interval" is a statement about due times, not about the scheduler\'s punctuality.'),
    'C12': dict(
        technique='deductive verification (Verus): typestate precondition on Driver::send + loop invariant in_tablet_mode == switch state, real loop text',
        level_text=('Proof, unbounded: send requires that the switch is off or that the previous driver call delivered the switch event (so the only batch written while it is on is the release batch directly after On); '
                    'at On/Off release_all leaves nothing pressed and nothing held and the timer is stopped; keyboard events read while the switch is on are not stepped; later releases of keys the mapper does not consider '
                    'held are ignored with no output (C09 clause of Mapper::step). release_all\'s postcondition (nothing considered pressed, nothing held, only releases) is proved in the mapper unit, which this check runs as well.'),
        design_ref='6.12', level_note=LOOP_NOTE + ' "resumes as from a fresh start" is as strong as C06: nothing pressed, nothing held; equality of all later answers with a new mapper is a two-run property and not claimed.'),
    'C20': dict(
        technique='deductive verification (Verus): typestate `failed` on the Driver trait (every call requires !failed), real loop text',
        level_text=('Proof, unbounded: every driver method ensures Err => failed and requires !failed, the loop invariant contains !failed, so after any failing call no driver method (in particular send) can be called; '
                    'the function returns Err exactly when a call failed and returns that call\'s message; any call may fail, so every injection point is covered.'),
        design_ref='6.20', level_note=LOOP_NOTE),
})

CONV_NOTE = ('Trusted: Verus/Z3/rustc; the assembler (E1-E6, N1, N3, N5 and the token weave); assumed contracts on std (sort leaves an ascending permutation, Vec::extend appends, Chars::count, HashMap::get_mut, hash key models, FromSet keys equal iff equal contents); '
             'E5 accessors for the two lazy_static tables; format! output opaque. Front end: the parse_* functions are verified against ASSUMED declarations of serde_json::{Value, Map, Number} (spec/json_stub.rs), an assumed contract of has_exactly_keys, and five functions represented by their signatures (E6). '
             'OUT OF REACH and trusted: serde_json parsing of the bytes (from_reader) and the file I/O.')
TEXT.update({
    'C14': dict(
        technique='deductive verification (Verus): panic-freedom of every function of fancy_layout_interpreting.rs and key_transforms.rs and of the parse_* functions of layout_parsing_formatting.rs + convert ensures the mapper precondition + verified load-then-run client; a bounded run of the whole real load path stands next to it for the parts that are assumed',
        level_text=('Proof, unbounded, for the converter and the mapper: Verus proves for the real text of both files that no panic!, out-of-bounds index, arithmetic overflow or unwrap of None is reachable '
                    '(all converter inputs; all layouts satisfying layout_ok, all mapper states satisfying the invariant, all events); convert ensures r is Ok ==> layout_ok(r); a verified client feeds the result '
                    'of convert to the universal mapper client for every operation sequence. The JSON front end: the 36 parse_* functions of layout_parsing_formatting.rs are verified for the same implicit obligations (every unwrap, slice range, index, subtraction; has_at_least_keys ensures the members the unwraps rely on) '
                    'against assumed declarations of serde_json (Value / Map / Number: get is Some exactly when contains_key), an assumed contract of has_exactly_keys and five functions represented by their signatures only (format_mapping, mapping_all_used_aliases, keys_string, parse_row, parse_key_code); '
                    'serde_json\'s text parser and the file I/O are outside. Bounded, never counted as proof: 250,000 (quick) seeded inputs through the whole real load path, mapper and loop on every run (extra loader_fuzz_bounded); the assumed contract of has_exactly_keys is compared with the real function on every object over five member names and every list of at most three names (extra hek_bounded).'),
        design_ref='6.14', level_note=CONV_NOTE + ' ' + MAPPER_NOTE),
    'C13': dict(
        technique='deductive verification (Verus): functional contracts on the converter (convert_row_to, find_right_shift, from_modifiers, reify_modifiers, build_combinations, the combination iterators, convert_single, convert_row, convert_alias, convert_mapping, FromSet::new, adjust_repeats, convert) on the real code, against statement-level spec functions; the two tables by complete enumeration',
        level_text=('Proof, unbounded, of the expansion clauses for (trigger, output) pairs: convert ensures convert_shape - the result is, in source order, the pairs each source mapping stands for, followed only by identity '
                    'mappings appended by repeat-only entries (adjust_repeats leaves triggers and outputs of existing mappings alone). Per source mapping (pairs_of): an alias definition is itself a mapping unless it is a lone '
                    'modifier; a single mapping yields one pair per combination of alias definitions - every combination exactly once, in little-endian counting order (MultiplyIter / AliasCombinationIterator: handled + remaining = all) - '
                    'with trigger = the combination\'s trigger-side keys (plain keys as written, each alias replaced by the keys of the definition the combination selects, the definitions being those the alias table lists: '
                    'build_combinations ensures built) + the trigger key, output = the output modifiers with aliases replaced by the keys chosen on the trigger side + the output key; a row yields, per combination, one pair per '
                    'non-space letter in letter order (letters = the characters of the string, vstd knows chars().collect()), trigger = combination keys + the key in the letter\'s column of the physical row, output = output '
                    'modifiers + the Shift the character needs (right Shift iff the trigger contains right Shift) + the key of the character. The tables themselves (94 characters, 5 rows) are compared with the US-QWERTY layout '
                    'for every Unicode scalar value and every row on every run (enumerative, complete). The alias table is tied to the source (find_alias_mappings ensures table_for: for every alias name exactly the definitions written for it, in source order); convert_single / convert_row also ensure the repeat mode (Special keys and row repeat letters converted like outputs) and the absorbing list of each mapping they produce. The repeat-only pass is under contract too (convert ensures convert_full): FromSet::new yields the modifiers in ascending order + the final key, so two triggers share a table key exactly when they are the same trigger set (same final key, same modifiers in any order; lemma_fs_same over an assumed contract of sort); the trigger table lists exactly the first-pass mappings, each under its key; adjust_repeats ensures ar_rel: for each combination in order the first-pass mappings with the same trigger set get the entry\'s repeat mode (Special keys with aliases replaced), or an identity mapping is appended if there is none - so the repeat modes of the FINAL layout are determined. Acceptance is under contract as well: convert ensures `r is Err ==> convert_rejects(f)` (build_combinations, convert_single, convert_row, adjust_repeats, convert_mapping, check_mapping_is_usable each ensure that they refuse only for a listed reason). Not under contract: spelling equivalence (it lives in the parser, which is verified for panic-freedom only). '
                    'Bounded stand-in for that (it also re-checks everything else, acceptance included), never counted as proof: a fixed set of generated layout programs (150,000 quick / 4,000,000 thorough; same programs on every run) is loaded through the real parser + converter and compared, '
                    'mapping by mapping and acceptance included, with the expansion written out by hand in the harness (extra programs_bounded).'),
        design_ref='6.13', level_note=CONV_NOTE + ' Partial: the assumptions list the clauses that are not under contract.'),
    'C17': dict(
        technique='deductive verification (Verus) of the escaping theorem over a specification of systemd\'s ExecStart parsing and of the concatenation shape of the real systemd_arg_escape + verified executable twins run exhaustively on the real escape_one_char / build_service_text',
        level_text=('Two parts. (1) Proof, unbounded in pattern length and position: for EVERY escaper that satisfies the per-character condition char_ok, every non-empty NUL-free pattern, embedded at a word start '
                    'and followed by whitespace or end of line, is read back by systemd\'s documented rules (word splitting, quote handling, C-style unescaping, lone-semicolon rule, %% and $$ expansion) as exactly one '
                    'word that expands to the pattern, code point for code point (theorem_pattern, by induction with token-locality and un-doubling lemmas). (2) Link to the code: systemd_arg_escape is verified to return esc_str(esc1, text), the concatenation of the per-character results of escape_one_char (no look-ahead, no dependence on neighbours: the shape the theorem is stated for); the per-character condition is decided by complete enumeration: the verified '
                    'executable char_ok_exec (ensures r == char_ok) is evaluated on the real escape_one_char for all 1,112,063 Unicode scalar values; additionally the verified words_exec / arg_of_exec decode the '
                    'ExecStart line of the real build_service_text for every single-scalar pattern (exhaustive), all pairs and triples over the syntax-relevant characters and seeded random lists, checking the fixed '
                    'arguments, `--exclude p` per pattern and `--dev-file /%I`. The check is semantic: any other correct escaping passes.'),
        design_ref='6.17',
        level_note=('Trusted: Verus/Z3/rustc; the systemd specification in spec/sd.rs; systemd_arg_escape is verified (concatenation of per-character escapes); escape_one_char is external_body (format! arms) with the assumed contract that it is a function of its argument; build_exclude_text / build_service_text are compiled verbatim, not verified (iterator adapters, format!): how they '
                    'embed the escaped patterns in the command line is assumed and exercised, not proved. The enumeration part is reported as enumerative (exhaustive for single characters), never as discharged obligations.')),
})

TEXT.update({
    'C02': dict(
        technique='deductive verification (Verus): inclusion invariant J + origin invariant of Mapper::step on the real code, lifted to histories by the verified universal client',
        level_text=('Proof, unbounded, of all four clauses: (a) at every prefix of every history every key held on the virtual keyboard is physically held or is an output key of a layout mapping all of whose trigger '
                    'keys are physically held (J1-J3, "every mapping in effect is a mapping of the layout" through the grouped-layout postcondition of make_hashed_layout, pressed is a subset of physically held); (b) a key '
                    'with a single-key mapping that occurs in no output is never down (the only keys a step presses are outputs of the fired mapping or the pressed key itself when nothing fires, and a single-key mapping '
                    'always fires: lemma_single_fires); (c) a step for a release emits only releases; (d) a held key that is a trigger key of a mapping in effect is an output key of a mapping in effect (J4, needs the D6 repair).'),
        design_ref='6.2', level_note=MAPPER_NOTE),
    'C04': dict(
        technique='deductive verification (Verus): the held set at the instant of the final output key press is an invariant/postcondition chain release_action_mappings (completeness: no modifier of a key-producing mapping stays held) -> add_new_mapping (loop invariant over the output keys) -> newly_press -> Mapper::step on the real code, lifted by the verified client universal_client_c04',
        level_text=('Proof, unbounded, per step of every history from every reachable state of every layout without absorbing lists: when the mapping that fires is key-producing (its output ends in a non-modifier key), then at every '
                    'position p of the step\'s event list where that final key is pressed, with h = fold of the events before p over what was down: every modifier the mapping lists is in h, and every other modifier in h is '
                    'physically held and not a trigger key of the mapping, or is an output key of a layout mapping whose output does not end in a non-modifier key and whose trigger keys are all physically held '
                    '(c04_statement in spec/trace.rs). Carried by: release_action_mappings ensures ram_done (no output of a key-producing mapping in effect that carries modifiers is still held for a mapping), '
                    'add_new_mapping keeps c04_st over its output loop and establishes c04_anm in the iteration of the final key, newly_press and Mapper::step pass it on (c04_instant). '
                    'The helper is_any_modifier is verified after its iterator adapter is written out as a loop (rewrite N4, compared with the real function by a bounded enumeration on every run).'),
        design_ref='6.4', level_note=MAPPER_NOTE + ' is_any_modifier is verified on its N4-rewritten text.'),
    'C05': dict(
        technique='deductive verification (Verus): lift-scope / drop-scope postconditions carried from release_action_mappings, release_absorbed_keys, remove_mapping, add_new_mapping, newly_press, newly_release to Mapper::step on the real code, lifted by the verified client universal_client_c05',
        level_text=('Proof, unbounded, per step of every history from every reachable state: every Released(x) a press step emits satisfies Mapper::lift_scope (x is an output of a key-producing mapping in effect that '
                    'carries modifiers, a passed-through trigger key of the fired mapping that it does not output, a non-modifier output of the fired mapping, any non-modifier key when the fired mapping has Disabled/Special '
                    'repeat, or - only while keys are absorbed - a held mapping output / an absorbed key); every Released(x) a release step emits satisfies Mapper::drop_scope (x is the released key or an output of a mapping '
                    'in effect that has it in its trigger, and no mapping remaining in effect outputs x). From these and "mappings in effect / absorbed keys come from the layout" the client proves: a key that appears '
                    'nowhere in the layout is pressed exactly by the step of its own press, as the last event, is lifted only by its own release or (non-modifier) by a step firing a no-repeat mapping, and is down only '
                    'while considered pressed; with an empty layout every well-formed event is forwarded as the only event of its step; the release clause; the two in-effect clauses for layouts without absorbing. '
                    'The helper is_any_modifier is verified after its iterator adapter is written out as a loop (rewrite N4, compared with the real function by a bounded enumeration on every run).'),
        design_ref='6.5', level_note=MAPPER_NOTE + ' is_any_modifier is verified on its N4-rewritten text.'),
    'C03': dict(
        technique='deductive verification (Verus): firing specification of newly_press / add_new_mapping against a layout-level spec function, on the real code, lifted by the universal client',
        level_text=('Proof, unbounded, from every reachable state: the mapping that takes effect on a new key press is layout_fired(layout, pressed, absorbed, k) - by definition the last-listed mapping whose final trigger '
                    'key is k and whose other trigger keys are all held (and not absorbed) - proved through make_hashed_layout ensures grouped (order kept, nothing lost), is_supported ensures the support spec, the reverse '
                    'scan invariant of newly_press; add_new_mapping ensures every non-modifier output key is pressed by an event of the step, every modifier output is held, with Normal repeat the whole output is held; '
                    'if nothing qualifies the key is the last event of the step and held, unless a mapping in effect mentions it (then no event). The universal client states it for layouts without absorbing mappings.'),
        design_ref='6.3', level_note=MAPPER_NOTE),
    'C06': dict(
        technique='deductive verification (Verus): reset clause only (invariant + postcondition of release_all on the real code); the two-run equivalence clause is not decidable by single-run contracts',
        level_text=('Proof of the reset clause only: whenever nothing is considered pressed nothing is held on the virtual keyboard (lemma_rest through the invariant), after all physical keys are released nothing is '
                    'considered pressed (C01), and release_all ensures nothing pressed, nothing held, only releases emitted. The clause "answers every later event sequence exactly like a new mapper" relates two runs; '
                    'stale values of the absorbed list / absorbing trigger / repeating trigger survive at rest, and showing that they never influence a later answer needs a relational (two-run) proof that the installed '
                    'tools cannot express. It is named as unproved in the evidence; a bounded stand-in runs with the check (extra fresh_bounded, never counted as proof): a fixed, seeded set of cases (400,000 quick / 20,000,000 thorough) - '
                    'layout, history brought to rest, continuation - on which the real mapper after the history and a new real mapper must answer every continuation step alike.'),
        design_ref='6.6', level_note=MAPPER_NOTE),
})

TEXT.update({
    'C18': dict(
        engine='kani-and-native-enumeration',
        technique='Kani (CBMC) harnesses with harness-level postconditions over the real dev_input_rw.rs, complete over all key codes for one record; exhaustive native enumeration through a pipe on every run',
        level_text=('Bounded model checking plus exhaustive enumeration, not deduction: send builds its records through a closure that captures &mut and the reader goes through nix read and a derive, so Verus cannot take '
                    'them. Kani proves on the real files (nix read/write stubbed): for every u16 that is a known key code and press/release, send writes once, 48 bytes, [16 zero bytes | EV_KEY | code | 1 or 0][24 zero bytes]; the empty '
                    'batch is one SYN record; a two-event batch puts record i at offset 24 i with one SYN at the end; next returns exactly the EV_KEY value-0/1 known-code records and skips every other 24-byte record '
                    '(value 2, other types, unknown codes; all four branches covered). These run in the thorough tier (about 35 min) and are recorded per content hash. Every run (quick too) executes the same checks natively '
                    'and exhaustively over all 484 codes through a real pipe, plus one batch of every length 0..=256 (and 512, 1024, 2000), random batches of up to 39 events and the writer-reader round trip.'),
        design_ref='6.18',
        level_note=('Trusted: rustc, Kani, CBMC; the read/write stubs; libc::input_event layout on x86-64. Bounded: batch length (0, 1, 2 in Kani; natively every length 0..=256 plus 512, 1024, 2000 with one content each, random contents for lengths < 40). The quick tier decides with the exhaustive native enumeration '
                    'and reports whether a Kani run is recorded for exactly this source text.')),
})

TEXT.update({
    'C08': dict(
        technique='deductive verification (Verus): absorbed-list postconditions of release_absorbed_keys / add_new_mapping / newly_press on the real code + history invariant in the verified universal client',
        level_text=('Proof, unbounded, for layouts in which every absorbing mapping outputs a non-modifier key: the universal client keeps, for every key absorbed and neither released nor pressed again since, the invariant '
                    '"it is no longer considered pressed, or it is on the absorbed list under the trigger that absorbed it" over every history (every later press, not only the next one), and proves at every press: '
                    '(i) a key other than that trigger fires no mapping requiring the absorbed key (firing = layout_fired with the effective absorbed set); (ii) if the step pressed a non-modifier key the absorbed key is '
                    'not held afterwards unless a mapping in effect outputs it; (iii) when the pressed key is the absorbing trigger every held key counts, so the same chord fires the same mapping again; (iv) a key '
                    'pressed again is no longer absorbed unless the fired mapping absorbs it anew. The known finding D8 (two absorbing mappings, the later one with a modifier-only output) is outside the claim and is replayed on every run.'),
        design_ref='6.8', level_note=MAPPER_NOTE + ' Known finding D8 recorded, not repaired.'),
})

NOT_APPLICABLE = {
    'C15': 'both sides are serde / serde_json (derive(Serialize), serde_json::Value, enum_utils FromStr): no contract within reach of Verus or Kani can express or decide it without assuming the behaviour of the libraries, i.e. the property (DESIGN 6.15)',
    'C16': 'keyboard_listing.rs is str splitting/searching iterators, /proc and /sys I/O and an external glob crate; Verus does not reason about str contents and Kani does not terminate on symbolic text (DESIGN 6.16)',
}

NOTES = ('Contract-based deductive verification of the real code: see DESIGN.md. Exit codes of ./check: 0 held, 1 violation (VIOLATION line), 2 undecided '
         '(tool trouble / lost anchor / resource limit; never an alarm).')
