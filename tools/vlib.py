#!/usr/bin/env python3
"""Shared library of the /verif machinery: lexical helpers, the mechanical
extraction rules (E1-E5, N1-N3 of DESIGN 4.1) and the token weave that splices
the contract overlay (/verif/contracts/*.ann.rs) into the *current* text of
/repo/src.

Nothing in here knows anything about a particular property.
"""
import re, difflib, hashlib, json, os, sys

# --------------------------------------------------------------------------
# lexical layer
# --------------------------------------------------------------------------

def mask(src):
    """same-length copy of src with comments / string / char literals blanked"""
    out = list(src); i = 0; n = len(src)
    while i < n:
        c = src[i]
        if src.startswith('//', i):
            j = src.find('\n', i); j = n if j < 0 else j
            for t in range(i, j): out[t] = ' '
            i = j
        elif src.startswith('/*', i):
            j = src.find('*/', i); j = n if j < 0 else j + 2
            for t in range(i, j):
                if out[t] != '\n': out[t] = ' '
            i = j
        elif c == '"':
            j = i + 1
            while j < n and src[j] != '"':
                j += 2 if src[j] == '\\' else 1
            for t in range(i + 1, min(j, n)):
                if out[t] != '\n': out[t] = ' '
            i = j + 1
        elif c == "'":
            m = re.match(r"'(\\x[0-9a-fA-F]{2}|\\u\{[0-9a-fA-F]+\}|\\.|[^\\'])'", src[i:])
            if m:
                for t in range(i + 1, i + m.end() - 1): out[t] = ' '
                i += m.end()
            else:
                i += 1
        else:
            i += 1
    return ''.join(out)


def match_close(m, i, open_c, close_c):
    """index of the bracket closing the one at m[i] (m is masked text)"""
    d = 0; n = len(m)
    while i < n:
        if m[i] == open_c: d += 1
        elif m[i] == close_c:
            d -= 1
            if d == 0: return i
        i += 1
    raise ValueError('unbalanced %s' % open_c)


TOKEN_RE = re.compile(r"""
    (?P<ws>(?:\s+|//[^\n]*|/\*.*?\*/)+)
  | (?P<str>b?"(?:\\.|[^"\\])*")
  | (?P<chr>b?'(?:\\x[0-9a-fA-F]{2}|\\u\{[0-9a-fA-F]+\}|\\.|[^\\'])')
  | (?P<life>'[A-Za-z_][A-Za-z0-9_]*)
  | (?P<id>[A-Za-z_][A-Za-z0-9_]*)
  | (?P<num>[0-9][0-9A-Za-z_]*(?:\.[0-9]+)?)
  | (?P<p>.)
""", re.X | re.S)


class Tok:
    __slots__ = ('t', 'tr', 'line', 'ghost')
    def __init__(self, t, tr, line):
        self.t = t; self.tr = tr; self.line = line; self.ghost = False
    def __repr__(self): return 'Tok(%r)' % self.t


def tokenize(src, line0=1):
    """list of Tok (text, leading trivia, 1-based line) + trailing trivia"""
    toks = []; tr = ''; line = line0
    for m in TOKEN_RE.finditer(src):
        if m.lastgroup == 'ws':
            tr += m.group(0)
        else:
            line += tr.count('\n')
            toks.append(Tok(m.group(0), tr, line))
            line += m.group(0).count('\n')
            tr = ''
    return toks, tr


def untokenize(toks, tail=''):
    # two word-like tokens that end up adjacent without trivia (the token between them was removed by an edit of /repo) must not fuse
    out = []
    prev = None
    for t in toks:
        tr = t.tr
        if prev is not None and tr == '' and prev.t and t.t and (prev.t[-1].isalnum() or prev.t[-1] == '_') and (t.t[0].isalnum() or t.t[0] == '_'):
            tr = ' '
        out.append(tr + t.t); prev = t
    return ''.join(out) + tail

OPEN = {'(': ')', '[': ']', '{': '}'}
CLOSE = {')': '(', ']': '[', '}': '{'}

# --------------------------------------------------------------------------
# item splitter (top level of a module text)
# --------------------------------------------------------------------------

ITEM_KEY_RE = re.compile(r"""
   (?:pub(?:\s*\([^)]*\))?\s+)?
   (?:(?:open|closed|uninterp|broadcast|exec|proof|spec|tracked|const|unsafe|async|default|extern\s+"C")\s+)*
   (?P<kind>fn|struct|enum|trait|impl|mod|use|static|const|type|assume_specification|broadcast\s+group|macro_rules!|lazy_static!)\b
   (?P<rest>[^{;]*)""", re.X)


def split_items(src):
    """split a module text into top-level items.
    returns list of dict(key, kind, start, end, text) covering src completely
    (leading trivia/attributes belong to the item that follows)."""
    m = mask(src); n = len(src); items = []; i = 0; start = 0
    while i < n:
        # skip whitespace
        while i < n and m[i].isspace(): i += 1
        if i >= n: break
        # attributes
        if m[i] == '#':
            j = i + 1
            if j < n and m[j] == '!': j += 1
            if j < n and m[j] == '[':
                i = match_close(m, j, '[', ']') + 1
                continue
        # find the end of the item
        kw = ITEM_KEY_RE.match(m[i:i + 400].lstrip())
        kind0 = re.sub(r'\s+', ' ', kw.group('kind')) if kw else '?'
        j = i; depth = 0; end = None
        semi = kind0 in ('use', 'type')
        if kind0 in ('const', 'static'):
            # `const X: T = e;` ends at ';'   /   Verus `exec static X: T ensures .. { .. }` ends at its block
            q = i; d2 = 0
            while q < n:
                c = m[q]
                if c in '([': d2 += 1
                elif c in ')]': d2 -= 1
                elif d2 == 0 and c == '=' and m[q:q + 2] not in ('==', '=>') and m[q - 1] not in '=!<>':
                    semi = True; break
                elif d2 == 0 and c in '{;':
                    semi = (c == ';'); break
                q += 1
        if semi:
            while j < n:
                c = m[j]
                if c in '([{': depth += 1
                elif c in ')]}': depth -= 1
                elif c == ';' and depth == 0:
                    end = j + 1; break
                j += 1
            j = m.find('{', i, end) if (end and m.find('{', i, end) >= 0) else (end - 1 if end else n)
        else:
            first_brace = None
            while j < n:
                c = m[j]
                if c in '([': depth += 1
                elif c in ')]': depth -= 1
                elif c == ';' and depth == 0:
                    end = j + 1; break
                elif c == '{' and depth == 0:
                    if first_brace is None: first_brace = j
                    close = match_close(m, j, '{', '}')
                    k = close + 1
                    while k < n and m[k].isspace(): k += 1
                    nxt = m[k:k + 16]
                    if kind0 == 'fn' and (nxt[:1] in tuple(',&|=.<>+-*/?{') or re.match(r'(ensures|requires|decreases|invariant|recommends|by|via|opens_invariants|no_unwind|when)\b', nxt)):
                        j = close + 1; continue      # a brace group inside a spec clause
                    end = close + 1; break
                j += 1
            if end is None: end = n
            if first_brace is not None: j = first_brace
        head = m[i:j]
        mm = ITEM_KEY_RE.match(head.strip())
        if mm:
            kind = re.sub(r'\s+', ' ', mm.group('kind'))
            rest = mm.group('rest').strip()
            if kind == 'impl':
                r = re.sub(r'^<[^>]*>\s*', '', rest)
                r = re.sub(r'\s+where\b.*$', '', r, flags=re.S)
                key = 'impl ' + re.sub(r'\s+', ' ', r).strip()
            elif kind == 'use':
                key = 'use ' + re.sub(r'\s+', '', src[i:end])
            elif kind in ('lazy_static!',):
                key = kind + '@%d' % len([x for x in items if x['kind'] == kind])
            elif kind == 'assume_specification':
                mb = re.search(r'\[(.*?)\]\s*\(', src[i:end], re.S)
                key = 'assume_specification ' + re.sub(r'\s+', '', mb.group(1) if mb else rest)
            else:
                nm = re.match(r'[A-Za-z_][A-Za-z0-9_]*', rest)
                key = kind + ' ' + (nm.group(0) if nm else rest)
        else:
            kind = '?'; key = '? ' + re.sub(r'\s+', ' ', head.strip())[:40]
        items.append(dict(key=key, kind=kind, start=start, end=end, text=src[start:end]))
        start = end; i = end
    tail = src[start:]
    return items, tail

# --------------------------------------------------------------------------
# extraction rules
# --------------------------------------------------------------------------

DROP_DERIVES = {'Serialize', 'Deserialize', 'FromStr', 'FromPrimitive', 'Display'}


def e1_strip_tests(src, log):
    m = mask(src)
    out = src
    for mm in reversed(list(re.finditer(r'#\[cfg\(test\)\]\s*(?:pub\s+)?mod\s+\w+\s*\{', m))):
        close = match_close(m, mm.end() - 1, '{', '}')
        log.append('E1 dropped test module (%d lines)' % src[mm.start():close + 1].count('\n'))
        out = out[:mm.start()] + out[close + 1:]
    return out


def e2_derives(src, log, add_structural=(), drop_clone=()):
    """drop proc-macro derives and serde attributes; add Structural where asked;
    drop Clone from the derive list of the types in drop_clone (E2': the
    overlay supplies the written-out field-wise impl)."""
    def rep(mm):
        items = [x.strip() for x in mm.group(1).split(',') if x.strip()]
        kept = [x for x in items if x not in DROP_DERIVES]
        dropped = [x for x in items if x in DROP_DERIVES]
        if dropped: log.append('E2 dropped derives ' + ','.join(dropped))
        return '#[derive(' + ', '.join(kept) + ')]'
    src = re.sub(r'#\[derive\(([^)]*)\)\]', rep, src)
    n = len(re.findall(r'#\[serde\([^\]]*\)\]', src))
    if n: log.append('E2 dropped %d #[serde(..)] attributes' % n)
    src = re.sub(r'[ \t]*#\[serde\([^\]]*\)\][ \t]*\n?', '', src)
    for ty in add_structural:
        pat = re.compile(r'#\[derive\(([^)]*)\)\]((?:\s*#\[[^\]]*\])*\s*pub\s+(?:enum|struct)\s+' + ty + r'\b)')
        src, k = pat.subn(lambda mm: '#[derive(' + mm.group(1) + ', Structural)]' + mm.group(2), src)
        if k: log.append('E2 added Structural to ' + ty)
    for ty in drop_clone:
        pat = re.compile(r'#\[derive\(([^)]*)\)\]((?:\s*#\[[^\]]*\])*\s*(?:pub\s+)?(?:enum|struct)\s+' + ty + r'\b)')
        def rc(mm):
            items = [x.strip() for x in mm.group(1).split(',') if x.strip() and x.strip() != 'Clone']
            return '#[derive(' + ', '.join(items) + ')]' + mm.group(2)
        src, k = pat.subn(rc, src)
        if k: log.append("E2' derive(Clone) of %s replaced by its written-out field-wise expansion" % ty)
    return src


def e3_uses(src, log, crates=('serde', 'enum_utils', 'num_derive', 'lazy_static', 'num_traits')):
    for c in crates:
        src, k = re.subn(r'^[ \t]*use\s+' + c + r'\b[^;]*;[ \t]*\n', '', src, flags=re.M)
        if k: log.append('E3 dropped `use %s..`' % c)
    return src


def n1_refpats(src, log):
    """Some(&i) => B   ->   Some(i__r) => { let i = *i__r; B }   (match arm on &Copy)"""
    while True:
        m = mask(src)
        mm = re.search(r'Some\(&([a-z_][A-Za-z0-9_]*)\)\s*=>\s*\{', m)
        if not mm: break
        v = mm.group(1)
        src = src[:mm.start()] + 'Some(%s__r) => { let %s = *%s__r;' % (v, v, v) + src[mm.end():]
        log.append('N1 rewrote reference pattern Some(&%s)' % v)
    return src


def n2_retain(src, log):
    """V.retain(|p| B);  ->  index loop (documented semantics of Vec::retain)"""
    while True:
        m = mask(src)
        k = m.find('.retain(')
        if k < 0: break
        s = k
        while s > 0 and m[s - 1] not in ';{}': s -= 1
        seg = src[s:k]
        recv = seg.strip()
        open_p = k + len('.retain')
        close_p = match_close(m, open_p, '(', ')')
        inner = src[open_p + 1:close_p].strip()
        if not inner.startswith('|'):
            raise ValueError('N2: retain argument is not a closure literal: ' + inner[:40])
        bar2 = inner.index('|', 1)
        pat = inner[1:bar2].strip()
        body = inner[bar2 + 1:].strip()
        end = close_p + 1
        while src[end] in ' \t': end += 1
        if src[end] != ';':
            raise ValueError('N2: retain call is not a statement')
        end += 1
        if pat.startswith('&'):
            bind = 'let %s = %s[__i];' % (pat[1:].strip(), recv)
        else:
            bind = 'let %s = &%s[__i];' % (pat, recv)
        lead = seg[:len(seg) - len(seg.lstrip())]
        ind = lead.split('\n')[-1]
        rep = ('let mut __i: usize = 0; while __i < %s.len()\n%s{\n%s  let __keep = { %s\n%s  %s };\n'
               '%s  if __keep { __i += 1; } else { %s.remove(__i); }\n%s}') % (
                   recv, ind, ind, bind, ind, body, ind, recv, ind)
        src = src[:s] + lead + rep + src[end:]
        log.append('N2 rewrote %s.retain(|%s| ..) into an index loop' % (recv, pat))
    return src


def n4_iter_any(src, log):
    """RECV.iter().any(|P| B)  ->  { short-circuiting index loop }   (documented semantics of Iterator::any on a slice iterator: the elements
    are visited in order, the closure is called on a reference to each, the first `true` ends the walk). RECV must be a plain path
    (identifiers, `.`, `&`), the closure a literal with a single identifier parameter."""
    pos = 0
    while True:
        m = mask(src)
        mm = re.compile(r'([A-Za-z_][A-Za-z0-9_\.]*)\s*\.iter\(\)\s*\.any\s*\(').search(m, pos)
        if not mm: break
        recv = src[mm.start(1):mm.end(1)]
        open_p = mm.end() - 1
        close_p = match_close(m, open_p, '(', ')')
        inner = src[open_p + 1:close_p].strip()
        cm = re.match(r'\|\s*([a-z_][A-Za-z0-9_]*)\s*\|\s*(.*)$', inner, re.S)
        if not cm:
            # not the shape the rule covers: the site is left as it is (Verus will say what it cannot take)
            log.append('N4 left a .iter().any(..) site alone (argument is not a closure literal with one identifier parameter)'); pos = mm.end(); continue
        pat, body = cm.group(1), cm.group(2).strip()
        rep = ('{ let mut __any = false; let mut __j: usize = 0; while __j < %s.len() { let %s = &%s[__j]; '
               'if %s { __any = true; break; } __j += 1; } __any }') % (recv, pat, recv, body)
        src = src[:mm.start(1)] + rep + src[close_p + 1:]
        log.append('N4 rewrote %s.iter().any(|%s| ..) into a short-circuiting index loop' % (recv, pat))
    return src


def _recv_start(m, end):
    """start index of the postfix expression that ends just before m[end] (identifiers, paths, field accesses, balanced [..] / (..) groups)"""
    i = end
    while i > 0:
        c = m[i - 1]
        if c in ')]':
            d = 0; j = i - 1
            while j >= 0:
                if m[j] in ')]': d += 1
                elif m[j] in '([':
                    d -= 1
                    if d == 0: break
                j -= 1
            if j < 0: raise ValueError('N5: unbalanced receiver')
            i = j
        elif c.isalnum() or c in '_.:':
            i -= 1
        else:
            break
    return i


def n5_iter_map_collect(src, log):
    """RECV.iter().map(|P| E).collect()  ->  { push loop }   (documented semantics of slice::Iter / Iterator::map / collect::<Vec<_>>: the
    closure is applied to a reference to each element in order and the results are collected in that order). The closure must be a literal
    with a single identifier parameter."""
    pos = 0
    while True:
        m = mask(src)
        mm = re.compile(r'\.iter\(\)\s*\.map\s*\(').search(m, pos)
        if not mm: break
        rs = _recv_start(m, mm.start())
        recv = src[rs:mm.start()]
        open_p = mm.end() - 1
        close_p = match_close(m, open_p, '(', ')')
        inner = src[open_p + 1:close_p].strip()
        cm = re.match(r'\|\s*([a-z_][A-Za-z0-9_]*)\s*\|\s*(.*)$', inner, re.S)
        tail = re.match(r'\s*\.collect\s*\(\s*\)', m[close_p + 1:])
        if not cm or not tail or not recv:
            # not the shape the rule covers (no closure literal / no .collect()): the site is left as it is
            log.append('N5 left an .iter().map(..) site alone: ' + src[rs:close_p + 12][:60].replace('\n', ' ')); pos = mm.end(); continue
        pat, body = cm.group(1), cm.group(2).strip()
        rep = ('{ let __s = &%s; let mut __v = Vec::new(); let mut __j: usize = 0; while __j < __s.len() { let %s = &__s[__j]; '
               '__v.push(%s); __j += 1; } __v }') % (recv, pat, body)
        src = src[:rs] + rep + src[close_p + 1 + tail.end():]
        log.append('N5 rewrote %s.iter().map(|%s| ..).collect() into a push loop' % (recv, pat))
    return src


def n3_for_user_iter(src, log, callee_names):
    """for P in CALL(..) { B }  ->  let mut __it = CALL(..); loop { match __it.next() { None => break, Some(P) => { B } } }
    only for loops whose iterable is a call of one of callee_names (user-defined iterators)."""
    while True:
        m = mask(src)
        found = None
        for mm in re.finditer(r'\bfor\s+([^;{}]*?)\s+in\s+(' + '|'.join(callee_names) + r')\s*\(', m):
            found = mm; break
        if not found: break
        mm = found
        pat = src[mm.start(1):mm.end(1)]
        open_p = mm.end() - 1
        close_p = match_close(m, open_p, '(', ')')
        call = src[mm.start(2):close_p + 1]
        b = close_p + 1
        while m[b].isspace(): b += 1
        if m[b] != '{': raise ValueError('N3: unexpected loop header')
        bclose = match_close(m, b, '{', '}')
        body = src[b:bclose + 1]
        rep = 'let mut __it = %s; loop { match __it.next() { None => { break; }, Some(%s) => %s } }' % (call, pat, body)
        src = src[:mm.start()] + rep + src[bclose + 1:]
        log.append('N3 desugared `for %s in %s(..)`' % (pat.strip(), mm.group(2)))
    return src

# --------------------------------------------------------------------------
# weave
# --------------------------------------------------------------------------

class WeaveError(Exception):
    pass


def classify_ghost(ann, pin):
    """mark ann tokens as ghost / code so that the code tokens are exactly pin
    (token texts), every bracket pair having both ends in the same class."""
    # bracket partners in ann
    partner = {}; st = []
    for i, t in enumerate(ann):
        if t.t in OPEN: st.append(i)
        elif t.t in CLOSE:
            if not st: raise WeaveError('overlay: unbalanced %r at line %d' % (t.t, t.line))
            j = st.pop(); partner[i] = j; partner[j] = i
    if st: raise WeaveError('overlay: unbalanced %r at line %d' % (ann[st[-1]].t, ann[st[-1]].line))
    n = len(ann); P = len(pin)
    # first choice: longest-common-block alignment (keeps ghost statements whole: a ghost `res.events@` is not
    # mistaken for the `res` of the following real statement); accepted only if it is a complete embedding of pin
    # whose bracket pairs are class-consistent; otherwise the exact search below decides
    sm = difflib.SequenceMatcher(None, [t.t for t in pin], [t.t for t in ann], autojunk=False)
    cls0 = ['g'] * n; covered = 0; ok = True; lastb = -1
    for a0, b0, sz in sm.get_matching_blocks():
        for d in range(sz): cls0[b0 + d] = 'c'
        covered += sz
    if covered == P and [t.t for k, t in enumerate(ann) if cls0[k] == 'c'] == [t.t for t in pin]:
        for i2, j2 in partner.items():
            if cls0[i2] != cls0[j2]: ok = False; break
        if ok:
            for k, t in enumerate(ann): t.ghost = (cls0[k] == 'g')
            return ann
    # statement-level ghost code is recognisable syntactically and is never executable: `proof { .. }`, `let ghost .. ;`,
    # `broadcast use .. ;`, `hide(..);`  -- force these runs to be ghost so that the search cannot split them
    forced = [False] * n
    k = 0
    while k < n:
        t = ann[k].t
        if t == 'proof' and k + 1 < n and ann[k + 1].t == '{':
            e = partner[k + 1]
            for q in range(k, e + 1): forced[q] = True
            k = e + 1; continue
        if (t == 'let' and k + 1 < n and ann[k + 1].t == 'ghost') or (t == 'broadcast' and k + 1 < n and ann[k + 1].t == 'use') or (t in ('hide', 'reveal') and k + 1 < n and ann[k + 1].t == '('):
            q = k
            while q < n and ann[q].t != ';':
                q = partner[q] if ann[q].t in OPEN else q
                q += 1
            for r in range(k, min(q, n - 1) + 1): forced[r] = True
            k = q + 1; continue
        k += 1
    cls = [None] * n
    sys.setrecursionlimit(max(10000, n * 4))
    # iterative greedy with limited backtracking on opening brackets / plain tokens
    p = 0; i = 0
    choices = []   # stack of (i, p, snapshot_len) where we chose 'code' and 'ghost' is still possible
    def fail_back():
        nonlocal i, p
        while choices:
            ci, cp = choices.pop()
            # undo everything from ci on
            for k in range(ci, n): cls[k] = None
            # choose ghost at ci
            if ann[ci].t in CLOSE:
                continue
            cls[ci] = 'g'; i = ci + 1; p = cp
            return True
        return False
    steps = 0; best = (0, 0)
    while True:
        steps += 1
        if p > best[0]: best = (p, i)
        if steps > 400000:
            bp, bi = best
            ctx = ' '.join(t.t for t in pin[max(0, bp - 6):bp]) + '  >>> ' + ' '.join(t.t for t in pin[bp:bp + 8])
            raise WeaveError('overlay does not erase to the extracted source; furthest match: source line %d [%s], overlay line %d' % (pin[min(bp, P - 1)].line, ctx, ann[min(bi, n - 1)].line))
        if i == n:
            if p == P: break
            if not fail_back():
                bp, bi = best
                ctx = ' '.join(t.t for t in pin[max(0, bp - 6):bp]) + '  >>> ' + ' '.join(t.t for t in pin[bp:bp + 8])
                raise WeaveError('overlay does not erase to the extracted source; furthest match: source line %d [%s], overlay line %d' % (pin[min(bp, P - 1)].line, ctx, ann[min(bi, n - 1)].line))
            continue
        t = ann[i].t
        if t in CLOSE:
            c = cls[partner[i]]
            if c == 'c':
                if p < P and pin[p].t == t:
                    cls[i] = 'c'; p += 1; i += 1
                else:
                    if not fail_back():
                        raise WeaveError('overlay does not erase to the extracted source near overlay line %d (closing %r)' % (ann[i].line, t))
                continue
            cls[i] = 'g'; i += 1; continue
        if forced[i]:
            cls[i] = 'g'; i += 1; continue
        if p < P and pin[p].t == t:
            choices.append((i, p))
            cls[i] = 'c'; p += 1; i += 1
            if len(choices) > 200000: del choices[:100000]
        else:
            cls[i] = 'g'; i += 1
    for k, t in enumerate(ann): t.ghost = (cls[k] == 'g')
    return ann


def weave(ann, pin, cur):
    """ann: overlay tokens already classified against pin; cur: current tokens.
    returns the list of output tokens: cur tokens with the ghost tokens of ann
    placed by alignment of pin against cur."""
    code_idx = [k for k, t in enumerate(ann) if not t.ghost]
    assert len(code_idx) == len(pin)
    # ghost runs: ghost_before[p] = ghost tokens directly before code token p; ghost_before[P] = trailing
    P = len(pin)
    ghost_before = [[] for _ in range(P + 1)]
    p = 0
    for t in ann:
        if t.ghost: ghost_before[p].append(t)
        else: p += 1
    a = [t.t for t in pin]; b = [t.t for t in cur]
    if a == b:
        out = []
        p = 0
        for t in ann:
            out.append(t)
        return out, 0
    sm = difflib.SequenceMatcher(None, a, b, autojunk=False)
    out = []; changed = 0
    emitted = set()
    def ghost(i):
        if i in emitted: return []
        emitted.add(i); return ghost_before[i]
    STMT_GHOST = ('proof', 'let', 'assert', 'broadcast', 'hide', 'reveal', 'assume')
    for tag, i1, i2, j1, j2 in sm.get_opcodes():
        if tag == 'equal':
            for d in range(i2 - i1):
                out.extend(ghost(i1 + d))
                at = ann[code_idx[i1 + d]]
                ct = cur[j1 + d]
                out.append(Tok(ct.t, at.tr, ct.line))
        elif tag == 'insert':
            changed += j2 - j1
            g = ghost_before[i1]
            # statement-level ghost code (snapshots, proof blocks) that precedes the next statement stays in front of
            # inserted code (which typically wraps or precedes that statement); clause-level ghost text (invariant ..,
            # requires .., `it:`) stays attached to the header token that follows it, i.e. behind inserted tokens
            if g and g[0].t in STMT_GHOST:
                out.extend(ghost(i1))
            out.extend(cur[j1:j2])
        else:  # replace / delete
            changed += max(i2 - i1, j2 - j1)
            out.extend(ghost(i1))
            out.extend(cur[j1:j2])
            for d in range(i1 + 1, i2):
                out.extend(ghost(d))
    out.extend(ghost(P))
    return out, changed


def sha(s):
    return hashlib.sha256(s.encode()).hexdigest()


def degrade(out_tokens, kind, assume=True):
    """Degraded form of a woven item whose body can no longer carry the overlay (restructured code): keep the contract
    header(s) - ghost tokens outside function bodies - drop every ghost token inside a body, and mark each fn
    `#[verifier::external_body]` so that its contract is ASSUMED, not proved (the properties it carries are then
    decided by the witness search or stay undecided).  kind: 'fn' (bodies start at code-brace depth 0) or
    'impl' / 'trait' (bodies start at depth 1)."""
    base = 0 if kind == 'fn' else 1
    res = []; depth = 0
    for t in out_tokens:
        if t.ghost:
            if depth <= base: res.append(t)
            continue
        if t.t == '}': depth -= 1
        if t.t == 'fn' and depth == base and assume:
            k = len(res)
            while k > 0 and (not res[k - 1].ghost) and res[k - 1].t in ('pub', ')', 'crate', '(', 'super', 'in'): k -= 1
            a = Tok('#[verifier::external_body]', '\n', t.line); a.ghost = True
            res.insert(k, a)
        res.append(t)
        if t.t == '{': depth += 1
    return res
