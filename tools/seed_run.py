#!/usr/bin/env python3
"""Run the registered quick checks against a confirmed seeded change: apply /verif/seeded/<name>/patch.diff to /repo, run the checks, undo.
usage: seed_run.py NAME [PROPS...]   (default: every claimed property of the units the patch touches)"""
import sys, os, subprocess, json
name = sys.argv[1]
sys.path.insert(0, os.path.dirname(os.path.abspath(__file__)))
import props as P
props = sys.argv[2:] or sorted(P.PROPS)
d = os.path.join('/verif/seeded', name)
assert subprocess.call('git -C /repo diff --quiet', shell=True) == 0, '/repo has uncommitted changes'
assert subprocess.call('git -C /repo apply %s/patch.diff' % d, shell=True) == 0
res = {}
try:
    for p in props:
        r = subprocess.run(['/verif/check', p], stdout=subprocess.PIPE, stderr=subprocess.STDOUT, cwd='/verif')
        first = r.stdout.decode().strip().split('\n')
        res[p] = dict(rc=r.returncode, line=first[0][:260], detail=[l[:300] for l in first[1:4]])
        print('[%s] %s rc=%d :: %s' % (name, p, r.returncode, ' | '.join(first[:3])[:420]))
finally:
    subprocess.call('git -C /repo checkout -- .', shell=True)
f = os.path.join(d, 'check_results.json')
old = json.load(open(f)) if os.path.exists(f) else {}
old.update(res)      # a partial re-run keeps the other properties' last results
json.dump(dict(sorted(old.items())), open(f, 'w'), indent=1)
