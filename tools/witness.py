"""Witness search and replay on the real code through the plain-Rust harness
(/verif/harness, which `include!`s /repo/src/*.rs).  Never decides a property:
it only attaches a concrete failing input to a violation the verifier reported."""
import os, subprocess, json, re
import assemble as A

HARNESS = os.path.join(A.VERIF, 'harness')


def build(extra_env=None, cfgs=()):
    env = dict(os.environ)
    env['VERIF_REPO_SRC'] = A.REPO_SRC
    env['CARGO_NET_OFFLINE'] = 'true'
    if extra_env: env.update(extra_env)
    if cfgs: env['RUSTFLAGS'] = ' '.join('--cfg ' + c for c in cfgs)
    lock = os.path.join(HARNESS, 'Cargo.lock')
    if not os.path.exists(lock):
        import shutil; shutil.copy('/repo/Cargo.lock', lock)
    tdir = os.environ.get('VERIF_HARNESS_TARGET_DEV') or os.path.join(HARNESS, 'target' + ('-' + '-'.join(cfgs) if cfgs else ''))   # env override: development aid only
    p = subprocess.run(['cargo', 'build', '--release', '--offline', '--target-dir', tdir], cwd=HARNESS, env=env,
                       stdout=subprocess.PIPE, stderr=subprocess.PIPE)
    if p.returncode != 0:
        raise RuntimeError('harness build failed: ' + p.stderr.decode()[-1500:])
    return os.path.join(tdir, 'release', 'tmharness')


def search(pid, kind, seconds, seed):
    exe = build()
    p = subprocess.run([exe, 'explore', pid, str(seconds), str(seed + 1)], stdout=subprocess.PIPE, stderr=subprocess.PIPE, timeout=5 * seconds + 120)
    out = p.stdout.decode()
    m = re.search(r'^WITNESS (\{.*\})$', out, re.M)
    if m:
        w = json.loads(m.group(1)); w['kind'] = kind
        return w
    return None


def replay(pid, path):
    exe = build()
    p = subprocess.run([exe, 'replay', pid, path], stdout=subprocess.PIPE, stderr=subprocess.STDOUT)
    return p.returncode, p.stdout.decode()
