#!/bin/bash
# Regression of every kept seeded change against ITS OWN property, in parallel, on isolated scratch copies of /repo/src (never touches /repo).
# usage: tools/seed_regress.sh [WORKERS]     results: /tmp/w/reg/out<i>.txt   (scratch: /tmp/w/reg, remove afterwards)
# Development aid: it uses the VERIF_REPO_SRC / VERIF_BUILD_DEV / VERIF_HARNESS_TARGET_DEV overrides, which no registered command sets.
# NOTE: the runs rewrite /verif/evidence/<id>.json; run `./check all` on the unchanged tree afterwards.
N=${1:-6}
mkdir -p /tmp/w/reg /tmp/w/clean && rm -rf /tmp/w/clean/src && git -C /repo archive HEAD src | tar -x -C /tmp/w/clean
rm -f /tmp/w/reg/out*.txt
for I in $(seq 0 $((N-1))); do
  ( cd /verif; idx=0
    for s in $(ls seeded | sort); do
      if [ $((idx % N)) -eq $I ]; then
        pid=${s:0:3}
        rm -rf /tmp/w/reg/s$I; mkdir -p /tmp/w/reg/s$I; cp -r /tmp/w/clean/src /tmp/w/reg/s$I/src
        if (cd /tmp/w/reg/s$I && patch -p1 -s < /verif/seeded/$s/patch.diff); then
          out=$(VERIF_REPO_SRC=/tmp/w/reg/s$I/src VERIF_BUILD_DEV=/tmp/w/reg/b$I VERIF_HARNESS_TARGET_DEV=/tmp/w/reg/t$I ./check $pid 2>&1 | grep "^OK\|^VIOLATION\|^UNDECIDED" | head -1 | cut -c1-160)
          echo "$s :: $out" >> /tmp/w/reg/out$I.txt
        else echo "$s PATCH-FAILED" >> /tmp/w/reg/out$I.txt; fi
      fi
      idx=$((idx+1))
    done
    echo "WORKER $I DONE" >> /tmp/w/reg/out$I.txt ) &
done
wait
cat /tmp/w/reg/out*.txt | sort | grep -v "VIOLATION\|DONE"
