// Kani harnesses for C18 over the REAL files src/dev_input_rw.rs, src/struct_ser.rs, src/key_codes.rs (included textually,
// derives intact). nix::unistd::{read, write} are stubbed: they transfer exactly the bytes (short transfers are outside the claim).
#![allow(dead_code, unused_imports)]
#[macro_use]
extern crate enum_display_derive;
mod key_codes { include!(concat!(env!("VERIF_REPO_SRC"), "/key_codes.rs")); }
mod events { include!(concat!(env!("VERIF_REPO_SRC"), "/events.rs")); }
mod keys { include!(concat!(env!("VERIF_REPO_SRC"), "/keys.rs")); }
mod struct_ser { include!(concat!(env!("VERIF_REPO_SRC"), "/struct_ser.rs")); }
mod dev_input_rw {
  include!(concat!(env!("VERIF_REPO_SRC"), "/dev_input_rw.rs"));

  #[cfg(kani)]
  mod verif {
    use super::*;
    use crate::keys::KeyCode;
    const REC: usize = 24;   // size_of::<libc::input_event>() on x86-64, asserted below
    static mut CAP: [u8; 96] = [0; 96];
    static mut CAPLEN: usize = 0;
    static mut WRITES: usize = 0;
    fn write_stub(_fd: RawFd, buf: &[u8]) -> nix::Result<usize> {
      unsafe {
        WRITES += 1;
        CAPLEN = buf.len();
        let mut i = 0;
        while i < buf.len() && i < 96 { CAP[i] = buf[i]; i += 1; }
      }
      Ok(buf.len())
    }
    static mut SRC: [u8; 48] = [0; 48];
    static mut READS: usize = 0;
    fn read_stub(_fd: RawFd, buf: &mut [u8]) -> nix::Result<usize> {
      unsafe {
        let off = READS * REC;
        READS += 1;
        let mut i = 0;
        while i < buf.len() && i < REC { buf[i] = SRC[off + i]; i += 1; }
      }
      Ok(buf.len())
    }
    fn known(code: u16) -> Option<KeyCode> { FromPrimitive::from_u16(code) }

    /// writer, one event: for every known code and press/release the bytes are [zero timeval | EV_KEY | code | value][all-zero SYN_REPORT], written once
    #[kani::proof]
    #[kani::stub(nix::unistd::write, write_stub)]
    #[kani::unwind(100)]
    fn send_one() {
      assert!(size_of::<input_event>() == REC);
      let code: u16 = kani::any();
      #[cfg(window)] kani::assume(crate::WINDOW_LO <= code && code <= crate::WINDOW_HI);
      let k = known(code);
      kani::assume(k.is_some());
      let k = k.unwrap();
      let press: bool = kani::any();
      let ev = if press { Event::Pressed(k) } else { Event::Released(k) };
      let mut w = DevInputWriter { fd: 7 };
      let r = w.send(&vec![ev]);
      assert!(r.is_ok());
      unsafe {
        assert!(WRITES == 1);
        assert!(CAPLEN == 2 * REC);
        let mut i = 0; while i < 16 { assert!(CAP[i] == 0); i += 1; }
        assert!(u16::from_ne_bytes([CAP[16], CAP[17]]) == 1);
        assert!(u16::from_ne_bytes([CAP[18], CAP[19]]) == code);
        assert!(code == k as u16);
        assert!(i32::from_ne_bytes([CAP[20], CAP[21], CAP[22], CAP[23]]) == if press { 1 } else { 0 });
        let mut j = REC; while j < 2 * REC { assert!(CAP[j] == 0); j += 1; }
      }
      kani::cover!(press); kani::cover!(!press);
    }

    /// writer, empty batch: exactly one SYN_REPORT record
    #[kani::proof]
    #[kani::stub(nix::unistd::write, write_stub)]
    #[kani::unwind(60)]
    fn send_empty() {
      let mut w = DevInputWriter { fd: 7 };
      assert!(w.send(&vec![]).is_ok());
      unsafe { assert!(WRITES == 1 && CAPLEN == REC); let mut j = 0; while j < REC { assert!(CAP[j] == 0); j += 1; } }
    }

    /// writer, batch of two (bounded stand-in for "any length"): record i at offset 24*i, one SYN at the end
    #[kani::proof]
    #[kani::stub(nix::unistd::write, write_stub)]
    #[kani::unwind(120)]
    fn send_two() {
      let p1: bool = kani::any(); let p2: bool = kani::any();
      let e1 = if p1 { Event::Pressed(KeyCode::A) } else { Event::Released(KeyCode::A) };
      let e2 = if p2 { Event::Pressed(KeyCode::LEFTSHIFT) } else { Event::Released(KeyCode::LEFTSHIFT) };
      let mut w = DevInputWriter { fd: 7 };
      assert!(w.send(&vec![e1, e2]).is_ok());
      unsafe {
        assert!(WRITES == 1 && CAPLEN == 3 * REC);
        assert!(u16::from_ne_bytes([CAP[16], CAP[17]]) == 1 && u16::from_ne_bytes([CAP[18], CAP[19]]) == 30);
        assert!(i32::from_ne_bytes([CAP[20], CAP[21], CAP[22], CAP[23]]) == if p1 { 1 } else { 0 });
        assert!(u16::from_ne_bytes([CAP[40], CAP[41]]) == 1 && u16::from_ne_bytes([CAP[42], CAP[43]]) == 42);
        assert!(i32::from_ne_bytes([CAP[44], CAP[45], CAP[46], CAP[47]]) == if p2 { 1 } else { 0 });
        let mut j = 2 * REC; while j < 3 * REC { assert!(CAP[j] == 0); j += 1; }
      }
    }

    /// reader: an arbitrary 24-byte record followed by a valid one. The first is returned iff it is EV_KEY with value 0/1 and a known code;
    /// otherwise (auto-repeat value 2, other types, unknown codes) it is skipped and the second is returned.
    #[kani::proof]
    #[kani::stub(nix::unistd::read, read_stub)]
    #[kani::unwind(30)]
    fn next_skips_foreign_records() {
      let rec: [u8; 24] = kani::any();
      unsafe {
        let mut i = 0; while i < REC { SRC[i] = rec[i]; i += 1; }
        // second record: EV_KEY, code 30 (A), value 1
        SRC[REC + 16] = 1; SRC[REC + 18] = 30; SRC[REC + 20] = 1;
      }
      let type_ = u16::from_ne_bytes([rec[16], rec[17]]);
      let code = u16::from_ne_bytes([rec[18], rec[19]]);
      let value = i32::from_ne_bytes([rec[20], rec[21], rec[22], rec[23]]);
      #[cfg(window)] kani::assume(crate::WINDOW_LO <= code && code <= crate::WINDOW_HI);
      let mut r = DevInputReader { fd: 5 };
      let got = r.next();
      assert!(got.is_ok());
      let got = got.unwrap();
      let k = known(code);
      unsafe {
        if type_ == 1 && (value == 0 || value == 1) && k.is_some() {
          assert!(READS == 1);
          assert!(got == if value == 1 { Event::Pressed(k.unwrap()) } else { Event::Released(k.unwrap()) });
        } else {
          assert!(READS == 2);
          assert!(got == Event::Pressed(KeyCode::A));
        }
      }
      kani::cover!(type_ == 1 && value == 2);
      kani::cover!(type_ != 1);
      kani::cover!(type_ == 1 && value == 1 && k.is_none());
      kani::cover!(type_ == 1 && value == 0 && k.is_some());
    }
  }
}
// quick tier: the code domain is restricted to a seeded window [VERIF_WINDOW_LO, VERIF_WINDOW_HI] (bounded stand-in, labelled as such)
const fn parse_u16(s: &str) -> u16 { let b = s.as_bytes(); let mut i = 0; let mut v: u16 = 0; while i < b.len() { v = v * 10 + (b[i] - b'0') as u16; i += 1; } v }
#[cfg(window)] const WINDOW_LO: u16 = parse_u16(env!("VERIF_WINDOW_LO"));
#[cfg(window)] const WINDOW_HI: u16 = parse_u16(env!("VERIF_WINDOW_HI"));
fn main() {}
