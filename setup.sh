#!/bin/bash
# Run once after a fresh restore, offline. Builds the plain-Rust harness (witness search / replay / N2 validation)
# from the crates already in the cargo registry cache; everything else is Python + the pre-installed verus.
set -e
cd "$(dirname "$0")"
export CARGO_NET_OFFLINE=true
mkdir -p build/cache evidence replays
cp -f /repo/Cargo.lock harness/Cargo.lock 2>/dev/null || true
(cd harness && VERIF_REPO_SRC=/repo/src cargo build --release --offline --target-dir target >/dev/null 2>&1) || echo "warning: harness build failed (witness search unavailable; checks still decide)"
verus --version >/dev/null
echo setup-ok
