// Overlay for src/fancy_layout_interpreting.rs


use crate::fancy_keys::AliasMapping;
use crate::keys as s;
use crate::fancy_keys as f;
use crate::key_codes::KeyCode;
use std::collections::HashMap;

//@ C14 | default: fn axiom_fromset_key_model
#[verifier::external_body]
pub proof fn axiom_fromset_key_model() ensures vstd::std_specs::hash::obeys_key_model::<FromSet>() {}
//@ C14 | default: fn table_ok
spec fn table_ok(t: Map<FromSet, Vec<usize>>, n: int) -> bool { forall|k: FromSet, j: int| t.contains_key(k) && 0 <= j < t[k]@.len() ==> (#[trigger] t[k]@[j]) < n }

//@ C14 | default: fn convert
#[verifier::exec_allows_no_decreases_clause]
pub fn convert(f: &f::Layout) -> (r: Result<s::Layout, String>)
  ensures
    //@ C14 | every layout the converter accepts satisfies the precondition of Mapper::for_layout (so installing and driving it cannot panic)
    r is Ok ==> crate::keys::layout_ok(r.unwrap()),
{ //@ | body
  proof { axiom_fromset_key_model(); axiom_string_key_model(); assert(vstd::std_specs::hash::builds_valid_hashers::<std::collections::hash_map::RandomState>()); }
  broadcast use vstd::std_specs::hash::group_hash_axioms;
  let mut res = Vec::new();
  let mut from_table: HashMap<FromSet, Vec<usize>> = HashMap::new();
  
  let alias_mappings = find_alias_mappings(f);
  
  for fm in &f.mappings
    invariant alias_table_ok(alias_mappings@), table_ok(from_table@, res@.len() as int),
      vstd::std_specs::hash::obeys_key_model::<FromSet>(), vstd::std_specs::hash::builds_valid_hashers::<std::collections::hash_map::RandomState>(),
  {
    let sms = convert_mapping(&alias_mappings, fm)?;
    for sm in sms
      invariant alias_table_ok(alias_mappings@), table_ok(from_table@, res@.len() as int),
        vstd::std_specs::hash::obeys_key_model::<FromSet>(), vstd::std_specs::hash::builds_valid_hashers::<std::collections::hash_map::RandomState>(),
    {
      let ghost t0 = from_table@; let ghost n0 = res@.len() as int; let ghost mut vfin: Option<Vec<usize>> = None;
      let from_set = FromSet::new(&sm.from);
      match from_table.get_mut(&from_set) {
        Some(v) => { let ghost v0 = v@; v.push(res.len()); proof { vfin = Some(*v); assert forall|j: int| 0 <= j < v@.len() implies (#[trigger] v@[j]) < n0 + 1 by { if j < v0.len() { assert(v@[j] == v0[j]); } } } },
        None => {
          let v = vec![res.len()];
          from_table.insert(from_set.clone(), v);
        }
      };
      proof {
        if t0.contains_key(from_set) { crate::prelude_specs::axiom_borrowed_key_updated_deref::<FromSet, Vec<usize>>(t0, from_table@, &from_set, vfin.unwrap()); }
        assert forall|k: FromSet, j: int| from_table@.contains_key(k) && 0 <= j < from_table@[k]@.len() implies (#[trigger] from_table@[k]@[j]) < n0 + 1 by {
          if t0.contains_key(k) && from_table@[k] == t0[k] { assert(t0[k]@[j] < n0); }
        }
      }
      res.push(sm);
    }
  }
  
  for fm in &f.mappings
    invariant alias_table_ok(alias_mappings@), table_ok(from_table@, res@.len() as int),
  {
    adjust_repeats(&mut res, &from_table, &alias_mappings, fm)?;
  }
  
  for sm in it: &res
    invariant
      it.seq().len() == res@.len(), forall|j: int| 0 <= j < res@.len() ==> *it.seq()[j] == res@[j],
      forall|j: int| 0 <= j < it.index@ ==> crate::keys::mapping_ok(#[trigger] res@[j]),
  {
    check_mapping_is_usable(sm)?;
  }
  
  Ok(s::Layout {
    mappings: res
  })
}

//@ C14 | default: fn adjust_repeats
#[verifier::exec_allows_no_decreases_clause]
fn adjust_repeats<'a>(res: &mut Vec<s::Mapping>, from_table: &HashMap<FromSet, Vec<usize>>, alias_mappings: &'a HashMap<String, Vec<&'a f::AliasMapping>>, fm: &f::Mapping) -> (r: Result<(), String>)
  requires
    //@ C14 | data-structure invariants that keep every index in bounds (panic-freedom of the converter)
    alias_table_ok(alias_mappings@),
    table_ok(from_table@, old(res)@.len() as int),
  ensures
    //@ C14 | data-structure invariants that keep every index in bounds (panic-freedom of the converter)
    final(res)@.len() >= old(res)@.len(),
  { //@ | body
  proof { axiom_fromset_key_model(); assert(vstd::std_specs::hash::builds_valid_hashers::<std::collections::hash_map::RandomState>()); }
  broadcast use vstd::std_specs::hash::group_hash_axioms;
  match fm {
    f::Mapping::RepeatOnlySingle(single) => {
      let modifier_combinations = build_combinations(alias_mappings, &single.from.modifiers)?;
      let mut __it = iterate_combinations(&modifier_combinations);
      loop
        invariant
          //@ C14 | data-structure invariants that keep every index in bounds (panic-freedom of the converter)
          __it.wf(),
          res@.len() >= old(res)@.len(),
          table_ok(from_table@, old(res)@.len() as int),
          vstd::std_specs::hash::obeys_key_model::<FromSet>(),
          vstd::std_specs::hash::builds_valid_hashers::<std::collections::hash_map::RandomState>(),
        { //@ | body
        match __it.next() { None => { break; }, Some(modifier_combination) => {
        let mut from = modifier_combination.from_modifiers().clone();
        from.push(single.from.key.clone());

        let repeat = match &single.repeat {
          f::SingleRepeat::Normal => s::Repeat::Normal,
          f::SingleRepeat::Disabled => s::Repeat::Disabled,
          f::SingleRepeat::Special { keys, delay_ms, interval_ms } => s::Repeat::Special {
            keys: modifier_combination.translate_single_to_keys(&keys)?,
            delay_ms: *delay_ms,
            interval_ms: *interval_ms
          }
        };

        let from_set = FromSet::new(&from);
        if let Some(is) = from_table.get(&from_set) {
          for i in it2: is
            invariant
              //@ C14 | data-structure invariants that keep every index in bounds (panic-freedom of the converter)
              res@.len() >= old(res)@.len(),
              it2.seq().len() == is@.len(),
              forall|j: int| 0 <= j < is@.len() ==> *it2.seq()[j] == is@[j],
              forall|j: int| 0 <= j < is@.len() ==> (#[trigger] is@[j]) < old(res)@.len(),
            { //@ | body
            proof { assert(*i == is@[it2.index@ as int]); }
            let sm = &mut res[*i];
            sm.repeat = repeat.clone();
          }
        }
        else {
          res.push(s::Mapping { from: from.clone(), to: from, repeat, absorbing: vec![] });
        }
              } }
      }
    },
    _ => ()
  };
  Ok(())
}

#[derive(PartialEq, Eq, Hash, Clone)]
struct FromSet {
  keys: Vec<KeyCode>
}
//@ C14 | default: impl FromSet
impl FromSet {
  fn new(keys: &[KeyCode]) -> FromSet {
    if !keys.is_empty() {
      let mut res: Vec<KeyCode> = keys[..keys.len()-1].iter().map(|k| *k).collect();
      res.sort();
      res.push(*keys.last().unwrap());
      FromSet { keys: res }
    }
    else {
      FromSet { keys: vec![] }
    }
  }
}

//@ C14 | default: fn convert_mapping
fn convert_mapping<'a>(alias_mappings: &HashMap<String, Vec<&'a f::AliasMapping>>, m: &f::Mapping) -> Result<Vec<s::Mapping>, String>
  requires
    //@ C14 | data-structure invariants that keep every index in bounds (panic-freedom of the converter)
    alias_table_ok(alias_mappings@),
  { //@ | body
  match m {
    f::Mapping::Alias(alias) => Ok(convert_alias(alias)),
    f::Mapping::Single(single) => convert_single(alias_mappings, single),
    f::Mapping::Row(row) => convert_row(alias_mappings, row),
    f::Mapping::RepeatOnlySingle(_) => Ok(vec![]),
  }
}

//@ C14 | default: fn convert_alias
fn convert_alias(alias: &f::AliasMapping) -> Vec<s::Mapping> {
  // This test tries to be clever about whethere the user
  // expects modifiers to pass-through.
  if !is_just_one_modifier(&alias.from.keys) {
    vec![s::Mapping {
      from: alias.from.keys.clone(),
      to: alias.to.initial.clone(),
      repeat: s::Repeat::Normal,
      absorbing: vec![]
    }]
  }
  else {
    vec![]
  }
}

//@ C14 | default: fn convert_single
#[verifier::exec_allows_no_decreases_clause]
fn convert_single<'a>(alias_mappings: &'a HashMap<String, Vec<&'a f::AliasMapping>>, single: &f::SingleMapping) -> Result<Vec<s::Mapping>, String>
  requires
    //@ C14 | data-structure invariants that keep every index in bounds (panic-freedom of the converter)
    alias_table_ok(alias_mappings@),
  { //@ | body
  let mut res = Vec::new();
  let modifier_combinations = build_combinations(alias_mappings, &single.from.modifiers)?;
  let mut __it = iterate_combinations(&modifier_combinations);
  loop
    invariant
      //@ C14 | data-structure invariants that keep every index in bounds (panic-freedom of the converter)
      __it.wf(),
    { //@ | body
    match __it.next() { None => { break; }, Some(modifier_combination) => {
    let mut from = modifier_combination.from_modifiers().clone();
    from.push(single.from.key.clone());

    let to = modifier_combination.translate_single_to_keys(&single.to)?;

    let repeat = match &single.repeat {
      f::SingleRepeat::Normal => s::Repeat::Normal,
      f::SingleRepeat::Disabled => s::Repeat::Disabled,
      f::SingleRepeat::Special { keys, delay_ms, interval_ms } => s::Repeat::Special {
        keys: modifier_combination.translate_single_to_keys(&keys)?,
        delay_ms: *delay_ms,
        interval_ms: *interval_ms
      }
    };

    let absorbing = modifier_combination.reify_modifiers(&single.absorbing)?;

    res.push(s::Mapping {
      from,
      to,
      repeat,
      absorbing
    });
      } }
  }
  Ok(res)
}

enum RowRepeatTemplate {
  Normal,
  Disabled,
  Special {
    modifiers: Vec<KeyCode>,
    terminal: Vec<char>,
    delay_ms: i32,
    interval_ms: i32
  }
}

//@ C14 | default: fn convert_row
#[verifier::exec_allows_no_decreases_clause]
fn convert_row<'t>(alias_mappings: &'t HashMap<String, Vec<&'t f::AliasMapping>>, row_mapping: &f::RowMapping) -> Result<Vec<s::Mapping>, String>
  requires
    //@ C14 | data-structure invariants that keep every index in bounds (panic-freedom of the converter)
    alias_table_ok(alias_mappings@),
  { //@ | body
  proof { axiom_fmt_user_types(); }
  broadcast use vstd::std_specs::fmt::group_fmt_axioms;
  let mut res = Vec::new();
  let modifier_combinations = build_combinations(alias_mappings, &row_mapping.from.modifiers)?;
  let mut __it = iterate_combinations(&modifier_combinations);
  loop
    invariant
      //@ C14 | data-structure invariants that keep every index in bounds (panic-freedom of the converter)
      __it.wf(),
      vstd::std_specs::fmt::fmt_req_all::<f::Row>(),
    { //@ | body
    match __it.next() { None => { break; }, Some(modifier_combination) => {
    let from_modifiers = modifier_combination.from_modifiers().clone();
    let to_modifiers = modifier_combination.reify_modifiers(&row_mapping.to.initial)?;
    
    let repeat_template = match &row_mapping.repeat {
      f::RowRepeat::Normal => RowRepeatTemplate::Normal,
      f::RowRepeat::Disabled => RowRepeatTemplate::Disabled,
      f::RowRepeat::Special { keys, delay_ms, interval_ms } => {
        let num_repeat_chars = keys.terminal.chars().count();
        let num_to_chars = row_mapping.to.terminal.chars().count();
        if num_repeat_chars > num_to_chars {
          return Err(format!("Row mapping has more letters in its `repeat` ({} = {}) than its `to` ({} = {}). This is not allowed because it is not clear how such keys should be mapped. Use individual mappings instead.",
            keys.terminal,
            num_repeat_chars,
            row_mapping.to.terminal,
            num_to_chars
          ));
        }
        
        RowRepeatTemplate::Special {
          modifiers: modifier_combination.reify_modifiers(&keys.initial)?,
          terminal: keys.terminal.chars().collect(),
          delay_ms: *delay_ms,
          interval_ms: *interval_ms
        }
      }
    };
    
    use crate::physical_keyboard_layouts::US_KEYBOARD_LAYOUT;
    let from_physical_row = US_KEYBOARD_LAYOUT.get(&row_mapping.from.row)
      .ok_or(format!("Don't have data for row {}", row_mapping.from.row))?;
      
    let has_right_shift = find_right_shift(&from_modifiers);
    let to_terminals: Vec<char> = row_mapping.to.terminal.chars().collect();
    
    for char_i in 0..to_terminals.len()
      invariant
        //@ C14 | data-structure invariants that keep every index in bounds (panic-freedom of the converter)
        modifier_combination.wf(),
        vstd::std_specs::fmt::fmt_req_all::<f::Row>(),
      { //@ | body
      if char_i >= from_physical_row.len() {
        return Err(format!("Don't know which keycode is at index {} in row {:?}", char_i, row_mapping.from.row));
      }
      
      let to = convert_row_to(has_right_shift, &to_modifiers, &to_terminals, char_i)?;
      if let Some(to) = to {
        let mut from = from_modifiers.clone();
        from.push(from_physical_row[char_i]);
        
        let repeat = match &repeat_template {
          RowRepeatTemplate::Normal => s::Repeat::Normal,
          RowRepeatTemplate::Disabled => s::Repeat::Disabled,
          RowRepeatTemplate::Special { modifiers, terminal, delay_ms, interval_ms } => {
            match convert_row_to(has_right_shift, &modifiers, &terminal, char_i)? {
              None => s::Repeat::Normal,
              Some(keys) => s::Repeat::Special { keys, delay_ms: *delay_ms, interval_ms: *interval_ms }
            }
          }
        };

        let absorbing = modifier_combination.reify_modifiers(&row_mapping.absorbing)?;

        res.push(s::Mapping {
          from,
          to,
          repeat,
          absorbing
        });
      }
    }
      } }
  }
  Ok(res)
}

//@ C14 | default: fn find_right_shift
fn find_right_shift(from: &Vec<KeyCode>) -> bool {
  for k in from {
    if *k == KeyCode::RIGHTSHIFT {
      return true;
    }
  }
  return false;
}

//@ C14 | default: fn convert_row_to
fn convert_row_to(has_right_shift: bool, modifiers: &Vec<KeyCode>, terminals: &Vec<char>, char_i: usize) -> Result<Option<Vec<KeyCode>>, String> {
  use crate::char_production_map::CHAR_ACCESS_MAP;
  if char_i >= terminals.len() {
    Ok(None)
  }
  else {
    let ch = terminals[char_i];
    // Space is considered unmapped
    if ch == ' ' {
      Ok(None)
    }
    else {
      match CHAR_ACCESS_MAP.get(&ch) {
        None => {
          Err(format!("Don't know how to produce char '{}' on a US keyboard", ch))
        }
        Some(sk) => {
          let mut to = modifiers.clone();
          if sk.sh {
            to.push(if has_right_shift {KeyCode::RIGHTSHIFT} else {KeyCode::LEFTSHIFT});
          }
          to.push(sk.k);
          Ok(Some(to))
        }
      }
    }
  }
}

//@ C14 | default: fn is_just_one_modifier
fn is_just_one_modifier(ks: &Vec<KeyCode>) -> bool {
  if ks.len() == 1 {
    is_modifier(&ks[0])
  }
  else {
    false
  }
}

//@ C14 | default: fn is_modifier
fn is_modifier(k: &KeyCode) -> bool {
  use crate::key_codes::KeyCode::*;
  match k {
    LEFTSHIFT => true,
    RIGHTSHIFT => true,
    LEFTALT => true,
    RIGHTALT => true,
    LEFTCTRL => true,
    RIGHTCTRL => true,
    LEFTMETA => true,
    RIGHTMETA => true,
    _ => false
  }
}


//@ C14 | default: fn n_alias
// ---------- spec: alias-combination data structure ----------
pub open spec fn n_alias(mods: Seq<f::Modifier>, n: int) -> int
  decreases n
{ if n <= 0 { 0 } else { n_alias(mods, n - 1) + (if mods[n - 1] is Alias { 1int } else { 0int }) } }
//@ C14 | default: fn lemma_n_alias_mono
proof fn lemma_n_alias_mono(mods: Seq<f::Modifier>, a: int, b: int)
  requires 0 <= a <= b <= mods.len()
  ensures 0 <= n_alias(mods, a) <= n_alias(mods, b) <= b
  decreases b
{ if b > a { lemma_n_alias_mono(mods, a, b - 1); } else if b > 0 { lemma_n_alias_mono(mods, 0, b - 1); } }
//@ C14 | default: fn axiom_string_key_model
#[verifier::external_body]
pub proof fn axiom_string_key_model() ensures vstd::std_specs::hash::obeys_key_model::<String>() {}
//@ C14 | default: fn axiom_fmt_user_types
#[verifier::external_body]
pub proof fn axiom_fmt_user_types() ensures vstd::std_specs::fmt::fmt_req_all::<f::Row>(), vstd::std_specs::fmt::fmt_req_all::<f::Modifier>(), vstd::std_specs::fmt::fmt_req_all::<KeyCode>(), vstd::std_specs::fmt::fmt_req_all::<Vec<KeyCode>>() {}

struct AliasCombinationIterable<'t> {
  modifiers: &'t Vec<f::Modifier>,
  alias_quantities: Vec<usize>,
  alias_found_mappings: Vec<&'t Vec<&'t AliasMapping>>,
  alias_map: HashMap<String, usize>
}

//@ C14 | default: impl AliasCombinationIterable<'t>
impl <'t> AliasCombinationIterable<'t> {
  pub closed spec fn wf(&self) -> bool {
    &&& self.alias_quantities@.len() == self.alias_found_mappings@.len()
    &&& self.alias_quantities@.len() == n_alias(self.modifiers@, self.modifiers@.len() as int)
    &&& forall|j: int| 0 <= j < self.alias_quantities@.len() ==> (#[trigger] self.alias_quantities@[j]) == self.alias_found_mappings@[j]@.len() && self.alias_quantities@[j] >= 1
    &&& forall|name: String| #[trigger] self.alias_map@.contains_key(name) ==> self.alias_map@[name] < self.alias_quantities@.len()
  }
  pub closed spec fn q(&self) -> Seq<usize> { self.alias_quantities@ }
}
struct AliasCombinationIterator<'s, 't> {
  iterable: &'s AliasCombinationIterable<'t>,
  combinations: MultiplyIter<'s>
}

//@ C14 | default: fn afm_len
pub open spec fn afm_len<'a>(v: &Vec<&'a Vec<&'a AliasMapping>>) -> nat { v@.len() }
//@ C14 | default: fn afm_at
pub open spec fn afm_at<'a>(v: &Vec<&'a Vec<&'a AliasMapping>>, j: int) -> nat { v@[j]@.len() }
//@ C14 | default: fn atab
pub open spec fn atab<'a>(m: &HashMap<String, Vec<&'a AliasMapping>>) -> Map<String, Vec<&'a AliasMapping>> { m@ }
//@ C14 | default: fn uv
pub open spec fn uv(v: &Vec<usize>) -> Seq<usize> { v@ }
//@ C14 | default: fn smap
pub open spec fn smap(m: &HashMap<String, usize>) -> Map<String, usize> { m@ }
//@ C14 | default: fn alias_table_ok
pub open spec fn alias_table_ok(t: Map<String, Vec<&AliasMapping>>) -> bool { forall|name: String| #[trigger] t.contains_key(name) ==> t[name]@.len() >= 1 }

//@ C14 | default: fn build_combinations
fn build_combinations<'t>(alias_mappings: &'t HashMap<String, Vec<&'t AliasMapping>>, modifiers: &'t Vec<f::Modifier>) -> (r: Result<AliasCombinationIterable<'t>, String>)
  requires
    //@ C14 | data-structure invariants that keep every index in bounds (panic-freedom of the converter)
    alias_table_ok(alias_mappings@),
  ensures
    //@ C14 | data-structure invariants that keep every index in bounds (panic-freedom of the converter)
    match r { Ok(it) => it.wf(), Err(_) => true },
  { //@ | body
  proof { axiom_string_key_model(); assert(vstd::std_specs::hash::builds_valid_hashers::<std::collections::hash_map::RandomState>()); }
  broadcast use vstd::std_specs::hash::group_hash_axioms;
  let mut alias_quantities = Vec::new();
  let mut alias_found_mappings = Vec::new();
  let mut alias_map = HashMap::new();
  
  for i in 0..modifiers.len()
    invariant
      //@ C14 | data-structure invariants that keep every index in bounds (panic-freedom of the converter)
      alias_table_ok(alias_mappings@),
      uv(&alias_quantities).len() == afm_len(&alias_found_mappings),
      uv(&alias_quantities).len() == n_alias(modifiers@, i as int),
      forall|j: int| 0 <= j < uv(&alias_quantities).len() ==> (#[trigger] uv(&alias_quantities)[j]) == afm_at(&alias_found_mappings, j) && uv(&alias_quantities)[j] >= 1,
      forall|name: String| #[trigger] smap(&alias_map).contains_key(name) ==> smap(&alias_map)[name] < uv(&alias_quantities).len(),
      smap(&alias_map) == alias_map@,
    { //@ | body
    proof { axiom_string_key_model(); assert(vstd::std_specs::hash::builds_valid_hashers::<std::collections::hash_map::RandomState>()); }
    let m = &modifiers[i];
    match m {
      f::Modifier::Alias(alias) => {
        let mappings = alias_mappings.get(alias).ok_or(format!("Alias {} is undefined", alias))?;
        let i = alias_quantities.len();
        alias_quantities.push(mappings.len());
        alias_found_mappings.push(mappings);
        let ghost am0 = smap(&alias_map);
        proof { assert forall|name: String| am0.contains_key(name) implies am0[name] < i by { assert(smap(&alias_map).contains_key(name)); } }
        alias_map.insert(alias.clone(), i);
        proof { assert forall|name: String| #[trigger] alias_map@.contains_key(name) implies alias_map@[name] < alias_quantities@.len() by { assert(i + 1 == alias_quantities@.len()); if am0.contains_key(name) { assert(am0[name] < i); } } }
      },
      _ => ()
    }
  }
  
  proof { assert(modifiers@.len() as int == modifiers@.len()); }
  Ok(AliasCombinationIterable {
    modifiers,
    alias_quantities: alias_quantities.clone(),
    alias_found_mappings,
    alias_map
  })
}
  
//@ C14 | default: fn iterate_combinations
fn iterate_combinations<'s, 't>(iterable: &'s AliasCombinationIterable<'t>) -> (r: AliasCombinationIterator<'s, 't>)
  requires
    //@ C14 | data-structure invariants that keep every index in bounds (panic-freedom of the converter)
    iterable.wf(),
  ensures
    //@ C14 | data-structure invariants that keep every index in bounds (panic-freedom of the converter)
    r.wf(),
  { //@ | body
  proof { assert(q_ok(iterable.alias_quantities@)); }
  AliasCombinationIterator { iterable, combinations: multiply(&iterable.alias_quantities) }
}

struct AliasCombination<'s, 't> {
  it: &'s AliasCombinationIterable<'t>,
  tuple: Vec<usize>
}

//@ C14 | default: impl AliasCombination<'s, 't>
impl <'s, 't> AliasCombination<'s, 't> {
  pub closed spec fn wf(&self) -> bool { self.it.wf() && valid(self.it.alias_quantities@, self.tuple@) }

  fn from_modifiers(&self) -> Vec<KeyCode>
    requires
      //@ C14 | data-structure invariants that keep every index in bounds (panic-freedom of the converter)
      self.wf(),
    { //@ | body
    let mut thing = Vec::new();
    let mut j = 0;
    for i in 0..self.it.modifiers.len()
      invariant
        //@ C14 | data-structure invariants that keep every index in bounds (panic-freedom of the converter)
        self.wf(),
        //@  | frame / auxiliary
        j == n_alias(self.it.modifiers@, i as int),
      { //@ | body
      proof { lemma_n_alias_mono(self.it.modifiers@, i as int + 1, self.it.modifiers@.len() as int); lemma_n_alias_mono(self.it.modifiers@, 0, i as int); }
      let m = &self.it.modifiers[i];
      match m {
        f::Modifier::Alias(_) => {
          let keys = &self.it.alias_found_mappings[j][self.tuple[j]].from.keys;
          thing.extend(keys);
          j += 1;
        },
        f::Modifier::Key(k) => {
          thing.push(k.clone());
        }
      }
    }
    thing
  }
  
  fn translate_single_to_keys(&self, to: &f::SingleToKeys) -> Result<Vec<KeyCode>, String>
    requires
      //@ C14 | data-structure invariants that keep every index in bounds (panic-freedom of the converter)
      self.wf(),
    { //@ | body
    Ok(match to.terminal {
      f::SingleTerminalToKey::Physical(terminal) => {
        let mut to = self.reify_modifiers(&to.initial)?;
        to.push(terminal);
        to
      },
      f::SingleTerminalToKey::Null => {
        vec![]
      }
    })
  }
  
  fn reify_modifiers(&self, modifiers: &Vec<f::Modifier>) -> Result<Vec<KeyCode>, String>
    requires
      //@ C14 | data-structure invariants that keep every index in bounds (panic-freedom of the converter)
      self.wf(),
    { //@ | body
    let mut res = Vec::new();
    proof { axiom_string_key_model(); assert(vstd::std_specs::hash::builds_valid_hashers::<std::collections::hash_map::RandomState>()); }
    broadcast use vstd::std_specs::hash::group_hash_axioms;
    
    for m in modifiers
      invariant
        //@ C14 | data-structure invariants that keep every index in bounds (panic-freedom of the converter)
        self.wf(),
        vstd::std_specs::hash::obeys_key_model::<String>(),
        vstd::std_specs::hash::builds_valid_hashers::<std::collections::hash_map::RandomState>(),
      { //@ | body
      match m {
        f::Modifier::Key(k) => res.push(*k),
        f::Modifier::Alias(alias) => {
          match self.it.alias_map.get(alias) {
            None => return Err(format!("Alias used on RHS of mapping that does not appear on LHS: {}", alias)),
            Some(i__r) => { let i = *i__r;
              let keys = &self.it.alias_found_mappings[i][self.tuple[i]].from.keys;
              res.extend(keys);
            }
          }
        }
      }
    }
    
    Ok(res)
  }
}

//@ C14 | default: impl AliasCombinationIterator<'s, 't>
impl <'s, 't> AliasCombinationIterator<'s, 't> {
  pub closed spec fn wf(&self) -> bool { self.iterable.wf() && self.combinations.q_view() == self.iterable.alias_quantities@ && self.combinations.fvalid() }
}
//@ C14 | default: impl vstd::std_specs::iter::IteratorSpecImpl for AliasCombinationIterator<'s, 't>
impl <'s, 't> vstd::std_specs::iter::IteratorSpecImpl for AliasCombinationIterator<'s, 't> {
  closed spec fn obeys_prophetic_iter_laws(&self) -> bool { false }
  closed spec fn remaining(&self) -> Seq<AliasCombination<'s, 't>> { Seq::empty() }
  closed spec fn will_return_none(&self) -> bool { true }
  closed spec fn peek(&self, i: int) -> Option<AliasCombination<'s, 't>> { None }
  closed spec fn decrease(&self) -> Option<nat> { None }
}
//@ C14 | default: impl Iterator for AliasCombinationIterator<'s, 't>
impl <'s, 't> Iterator for AliasCombinationIterator<'s, 't> {
  type Item = AliasCombination<'s, 't>;
  
  fn next(&mut self) -> (r: Option<AliasCombination<'s, 't>>)
    ensures
      //@ C14 | data-structure invariants that keep every index in bounds (panic-freedom of the converter)
      old(self).wf() ==> final(self).wf() && (match r { Some(c) => c.wf(), None => true }),
    { //@ | body
    Some(AliasCombination {
      it: &self.iterable,
      tuple: self.combinations.next()?
    })
  }
}

//@ C14 | default: fn w
// ---------- spec: mixed-radix enumeration ----------
pub open spec fn w(q: Seq<usize>, j: int) -> int
  decreases j
{ if j <= 0 { 1 } else { w(q, j - 1) * (q[j - 1] as int) } }
//@ C14 | default: fn prank
pub open spec fn prank(q: Seq<usize>, p: Seq<usize>, n: int) -> int
  decreases n
{ if n <= 0 { 0 } else { prank(q, p, n - 1) + (p[n - 1] as int) * w(q, n - 1) } }
//@ C14 | default: fn q_ok
pub open spec fn q_ok(q: Seq<usize>) -> bool { forall|j: int| 0 <= j < q.len() ==> #[trigger] q[j] >= 1 }
//@ C14 | default: fn valid
pub open spec fn valid(q: Seq<usize>, p: Seq<usize>) -> bool { p.len() == q.len() && forall|j: int| 0 <= j < q.len() ==> #[trigger] p[j] < q[j] }
//@ C14 | default: fn succ_at
pub open spec fn succ_at(p: Seq<usize>, i: int) -> Seq<usize> {
  Seq::new(p.len(), |l: int| if l < i { 0usize } else if l == i { (p[l] + 1) as usize } else { p[l] })
}
//@ C14 | default: fn first_inc
pub open spec fn first_inc(q: Seq<usize>, p: Seq<usize>, i: int) -> bool {
  0 <= i < q.len() && p[i] < q[i] - 1 && forall|l: int| 0 <= l < i ==> #[trigger] p[l] == q[l] - 1
}
//@ C14 | default: fn is_max
pub open spec fn is_max(q: Seq<usize>, p: Seq<usize>) -> bool { forall|l: int| 0 <= l < q.len() ==> #[trigger] p[l] == q[l] - 1 }
//@ C14 | default: fn rem_f
/// what the iterator still has to produce: `fuel` successive tuples starting at p
pub open spec fn rem_f(q: Seq<usize>, p: Seq<usize>, fuel: nat) -> Seq<Seq<usize>>
  decreases fuel
{
  if fuel == 0 { Seq::empty() } else {
    let nxt = if exists|i: int| first_inc(q, p, i) { succ_at(p, choose|i: int| first_inc(q, p, i)) } else { p };
    seq![p] + rem_f(q, nxt, (fuel - 1) as nat)
  }
}

//@ C14 | default: fn lemma_w_pos
proof fn lemma_w_pos(q: Seq<usize>, j: int)
  requires q_ok(q), 0 <= j <= q.len()
  ensures w(q, j) >= 1
  decreases j
{
  if j > 0 { lemma_w_pos(q, j - 1); assert(q[j - 1] >= 1); assert(w(q, j - 1) * (q[j - 1] as int) >= 1) by (nonlinear_arith) requires w(q, j - 1) >= 1, q[j - 1] >= 1; }
}
//@ C14 | default: fn lemma_max_prefix
// L1: all-max prefix sums to w - 1
proof fn lemma_max_prefix(q: Seq<usize>, p: Seq<usize>, i: int)
  requires q_ok(q), p.len() == q.len(), 0 <= i <= q.len(), forall|l: int| 0 <= l < i ==> #[trigger] p[l] == q[l] - 1
  ensures prank(q, p, i) == w(q, i) - 1
  decreases i
{
  if i > 0 {
    lemma_max_prefix(q, p, i - 1);
    let a = w(q, i - 1); let b = q[i - 1] as int;
    assert(p[i - 1] == q[i - 1] - 1);
    assert((a - 1) + (b - 1) * a == a * b - 1) by (nonlinear_arith);
  }
}
//@ C14 | default: fn lemma_rank_bound
// L3: a valid tuple ranks below the product
proof fn lemma_rank_bound(q: Seq<usize>, p: Seq<usize>, n: int)
  requires q_ok(q), valid(q, p), 0 <= n <= q.len()
  ensures 0 <= prank(q, p, n) <= w(q, n) - 1
  decreases n
{
  if n > 0 {
    lemma_rank_bound(q, p, n - 1); lemma_w_pos(q, n - 1);
    let a = w(q, n - 1); let b = q[n - 1] as int; let d = p[n - 1] as int;
    assert(p[n - 1] < q[n - 1]);
    assert(0 <= d * a && d * a <= (b - 1) * a) by (nonlinear_arith) requires 0 <= d <= b - 1, a >= 1;
    assert((a - 1) + (b - 1) * a == a * b - 1) by (nonlinear_arith);
  } else { }
}
//@ C14 | default: fn lemma_zero_prefix
proof fn lemma_zero_prefix(q: Seq<usize>, p: Seq<usize>, i: int)
  requires p.len() == q.len(), 0 <= i <= q.len(), forall|l: int| 0 <= l < i ==> #[trigger] p[l] == 0
  ensures prank(q, p, i) == 0
  decreases i
{
  if i > 0 { lemma_zero_prefix(q, p, i - 1); assert(p[i - 1] == 0); assert((p[i - 1] as int) * w(q, i - 1) == 0) by (nonlinear_arith) requires p[i - 1] == 0; }
}
//@ C14 | default: fn lemma_succ_rank
// L2: the successor ranks exactly one higher
proof fn lemma_succ_rank(q: Seq<usize>, p: Seq<usize>, i: int, n: int)
  requires q_ok(q), valid(q, p), first_inc(q, p, i), i < n <= q.len()
  ensures prank(q, succ_at(p, i), n) == prank(q, p, n) + 1
  decreases n
{
  let p2 = succ_at(p, i);
  if n == i + 1 {
    lemma_zero_prefix(q, p2, i);
    lemma_max_prefix(q, p, i);
    let a = w(q, i); let d = p[i] as int;
    assert(p2[i] == p[i] + 1);
    assert((d + 1) * a == d * a + a) by (nonlinear_arith);
  } else {
    lemma_succ_rank(q, p, i, n - 1);
    assert(p2[n - 1] == p[n - 1]);
  }
}
//@ C14 | default: fn lemma_succ_valid
proof fn lemma_succ_valid(q: Seq<usize>, p: Seq<usize>, i: int)
  requires q_ok(q), valid(q, p), first_inc(q, p, i)
  ensures valid(q, succ_at(p, i))
{
  assert forall|j: int| 0 <= j < q.len() implies #[trigger] succ_at(p, i)[j] < q[j] by { assert(p[j] < q[j]); assert(q[j] >= 1); }
}

//@ C14 | default: fn total
// ---------- real code ----------
pub open spec fn total(q: Seq<usize>) -> int { w(q, q.len() as int) }
//@ C14 | default: fn rank
pub open spec fn rank(q: Seq<usize>, p: Seq<usize>) -> int { prank(q, p, q.len() as int) }

struct MultiplyIter<'s> {
  quantities: &'s Vec<usize>,
  position: Vec<usize>,
  done: bool
}

//@ C13 C14 | default: fn multiply
fn multiply<'s>(quantities: &'s Vec<usize>) -> (r: MultiplyIter<'s>)
  requires
    //@ C14 | data-structure invariants that keep every index in bounds (panic-freedom of the converter)
    q_ok(quantities@),
  ensures
    //@ C13 | MultiplyIter enumerates every tuple below the quantities exactly once, in little-endian counting order
    r.q_view() == quantities@,
    r.fvalid(),
  { //@ | body
  MultiplyIter::new(quantities)
}

//@ C13 C14 | default: impl MultiplyIter<'s>
impl <'s> MultiplyIter<'s> {
  #[verifier::type_invariant]
  pub closed spec fn wf(&self) -> bool { q_ok(self.quantities@) && self.position@.len() == self.quantities@.len() }
  /// functional validity (not needed for safety): every digit below its radix
  pub closed spec fn fvalid(&self) -> bool { !self.done ==> valid(self.quantities@, self.position@) }
  /// views of the tuples this iterator will still return, in order
  pub closed spec fn rem_view(&self) -> Seq<Seq<usize>> {
    if self.done { Seq::empty() } else { rem_f(self.quantities@, self.position@, (total(self.quantities@) - rank(self.quantities@, self.position@)) as nat) }
  }
  pub closed spec fn q_view(&self) -> Seq<usize> { self.quantities@ }
  fn new(quantities: &'s Vec<usize>) -> (r: MultiplyIter<'s>)
    requires
      //@ C14 | data-structure invariants that keep every index in bounds (panic-freedom of the converter)
      q_ok(quantities@),
    ensures
      //@ C13 | MultiplyIter enumerates every tuple below the quantities exactly once, in little-endian counting order
      r.q_view() == quantities@,
      r.fvalid(),
      r.rem_view() == rem_f(quantities@, Seq::new(quantities@.len(), |l: int| 0usize), total(quantities@) as nat),
    { //@ | body
    let mut position = Vec::new();
    for _ in it: 0..quantities.len()
      invariant
        //@ C14 | data-structure invariants that keep every index in bounds (panic-freedom of the converter)
        position@.len() == it.index@,
        forall|l: int| 0 <= l < position@.len() ==> #[trigger] position@[l] == 0,
      { //@ | body
      position.push(0);
    }
    proof {
      assert(position@ =~= Seq::new(quantities@.len(), |l: int| 0usize));
      lemma_zero_prefix(quantities@, position@, quantities@.len() as int);
      assert forall|j: int| 0 <= j < quantities@.len() implies #[trigger] position@[j] < quantities@[j] by { assert(quantities@[j] >= 1); }
    }
    
    MultiplyIter {
      quantities,
      position,
      done: false
    }
  }
}
  
//@ C14 | default: impl vstd::std_specs::iter::IteratorSpecImpl for MultiplyIter<'s>
impl <'s> vstd::std_specs::iter::IteratorSpecImpl for MultiplyIter<'s> {
  closed spec fn obeys_prophetic_iter_laws(&self) -> bool { false }   // no claim through vstd's prophetic interface (Item is a heap value); see rem_view
  closed spec fn remaining(&self) -> Seq<Vec<usize>> { Seq::empty() }
  closed spec fn will_return_none(&self) -> bool { true }
  closed spec fn peek(&self, i: int) -> Option<Vec<usize>> { None }
  closed spec fn decrease(&self) -> Option<nat> { None }
}
//@ C14 | default: impl std::iter::Iterator for MultiplyIter<'s>
impl <'s> std::iter::Iterator for MultiplyIter<'s> {
  type Item = Vec<usize>;
  
  fn next(&mut self) -> (r: Option<Vec<usize>>)
    ensures
      //@ C13 | MultiplyIter::next returns the next tuple of the mixed-radix enumeration (each tuple below the quantities exactly once, little-endian counting order), None exactly when the enumeration is exhausted
      final(self).q_view() == old(self).q_view(),
      old(self).fvalid() ==> final(self).fvalid()
        && (match r { Some(v) => old(self).rem_view() == seq![v@] + final(self).rem_view() && valid(old(self).q_view(), v@),
                      None => old(self).rem_view().len() == 0 }),
  {
    if self.done {
      None
    }
    else {
      let mut found = false;
      let res = self.position.clone();
      proof { use_type_invariant(&*self); }
      let ghost q = self.quantities@; let ghost p0 = self.position@; let ghost fv0 = old(self).fvalid();
      let ghost mut inc_at: int = -1;
      for i in 0..self.quantities.len()
        invariant_except_break
          !found,
        invariant
          self.quantities@ == q, !self.done, res@ == p0,
          !found ==> self.position@ == p0,
          q_ok(q), self.position@.len() == q.len(), p0.len() == q.len(), fv0 ==> (valid(q, p0) && valid(q, self.position@)),
          (!found && fv0) ==> forall|l: int| 0 <= l < i ==> #[trigger] p0[l] == q[l] - 1,
          found ==> (fv0 ==> first_inc(q, p0, inc_at)) && self.position@ == succ_at(p0, inc_at) && self.position@.len() == q.len(),
        ensures
          (!found && fv0) ==> is_max(q, p0),
      {
        proof { assert(q[i as int] >= 1); assert(self.position@[i as int] == p0[i as int]); if fv0 { assert(p0[i as int] < q[i as int]); } }
        if self.position[i] < self.quantities[i]-1 {
          self.position[i] += 1;
          let ghost p1 = self.position@;
          for j in 0..i
            invariant self.position@.len() == p0.len(), i < p0.len(), self.quantities@ == q, !self.done, q_ok(q), p1.len() == p0.len(), p0.len() == q.len(),
              forall|l: int| 0 <= l < j ==> #[trigger] self.position@[l] == 0,
              forall|l: int| j <= l < p0.len() ==> #[trigger] self.position@[l] == p1[l],
          { self.position[j] = 0 }
          proof { inc_at = i as int; assert(p1 =~= p0.update(i as int, (p0[i as int] + 1) as usize)); assert(self.position@ =~= succ_at(p0, i as int)); if fv0 { assert(first_inc(q, p0, i as int)); lemma_succ_valid(q, p0, i as int); } }
          found = true;
          break;
        }
      }
      if !found {
        self.done = true;
      }
      proof {
        if fv0 {
          let fuel = (total(q) - rank(q, p0)) as nat;
          lemma_rank_bound(q, p0, q.len() as int);
          assert(fuel >= 1);
          if found {
            let i = inc_at;
            // the spec's choice of "first incrementable digit" is unique
            assert forall|i2: int| first_inc(q, p0, i2) implies i2 == i by { if i2 < i { assert(p0[i2] == q[i2] - 1); } else if i2 > i { assert(p0[i] == q[i] - 1); } }
            let c = choose|i2: int| first_inc(q, p0, i2);
            assert(c == i);
            lemma_succ_rank(q, p0, i, q.len() as int);
            lemma_succ_valid(q, p0, i);
            assert(rem_f(q, p0, fuel) =~= seq![p0] + rem_f(q, succ_at(p0, i), (fuel - 1) as nat));
          } else {
            lemma_max_prefix(q, p0, q.len() as int);
            assert(fuel == 1);
            assert forall|i2: int| !first_inc(q, p0, i2) by { if 0 <= i2 < q.len() { assert(p0[i2] == q[i2] - 1); } }
            assert(rem_f(q, p0, 0) =~= Seq::<Seq<usize>>::empty());
            assert(rem_f(q, p0, fuel) =~= seq![p0] + Seq::<Seq<usize>>::empty());
          }
        }
      }
      Some(res)
    }
  }
}


//@ C14 | default: fn find_alias_mappings
fn find_alias_mappings<'a>(f: &'a f::Layout) -> (r: HashMap<String, Vec<&'a AliasMapping>>)
  ensures
    //@ C14 | data-structure invariants that keep every index in bounds (panic-freedom of the converter)
    alias_table_ok(r@),
  { //@ | body
  proof { axiom_string_key_model(); assert(vstd::std_specs::hash::builds_valid_hashers::<std::collections::hash_map::RandomState>()); }
  broadcast use vstd::std_specs::hash::group_hash_axioms;
  use f::*;
  
  let mut res = HashMap::new();
  
  for m in &f.mappings
    invariant
      //@ C14 | data-structure invariants that keep every index in bounds (panic-freedom of the converter)
      alias_table_ok(atab(&res)),
      //@  | frame / auxiliary
      atab(&res) == res@,
      //@ C14 | data-structure invariants that keep every index in bounds (panic-freedom of the converter)
      vstd::std_specs::hash::obeys_key_model::<String>(),
      vstd::std_specs::hash::builds_valid_hashers::<std::collections::hash_map::RandomState>(),
    { //@ | body
    let ghost t0 = atab(&res); let ghost mut vfin: Option<Vec<&'a AliasMapping>> = None;
    match m {
      Mapping::Alias(alias) => {
        match res.get_mut(&alias.to.terminal) {
          None => {
            res.insert(alias.to.terminal.clone(), vec![alias]);
            proof { assert forall|name: String| #[trigger] res@.contains_key(name) implies res@[name]@.len() >= 1 by { if t0.contains_key(name) && res@[name] == t0[name] { assert(t0[name]@.len() >= 1); } } }
          },
          Some(list) => {
            list.push(alias);
            proof { vfin = Some(*list); }
          }
        }
        proof {
          if t0.contains_key(alias.to.terminal) && vfin is Some {
            crate::prelude_specs::axiom_borrowed_key_updated_deref::<String, Vec<&'a AliasMapping>>(t0, res@, &alias.to.terminal, vfin.unwrap());
            assert forall|name: String| #[trigger] res@.contains_key(name) implies res@[name]@.len() >= 1 by { if name != alias.to.terminal { assert(t0.contains_key(name)); assert(t0[name]@.len() >= 1); } }
          }
        }
      },
      _ => ()
    }
  }
  
  res
}

//@ C14 | default: fn has_duplicate_key
fn has_duplicate_key(keys: &Vec<KeyCode>) -> (r: bool)
  ensures
    //@ C14 | the duplicate test is exact: true iff some key occurs twice
    r == !keys@.no_duplicates(),
{ //@ | body
  for i in 0..keys.len()
    invariant
      forall|a: int, b: int| 0 <= a < i && a < b < keys@.len() ==> keys@[a] != keys@[b],
  {
    for j in i+1..keys.len()
      invariant
        i < keys@.len(),
        forall|a: int, b: int| 0 <= a < i && a < b < keys@.len() ==> keys@[a] != keys@[b],
        forall|b: int| i < b < j ==> keys@[i as int] != keys@[b],
    {
      if keys[i] == keys[j] {
        return true;
      }
    }
  }
  proof {
    assert forall|a: int, b: int| 0 <= a < keys@.len() && 0 <= b < keys@.len() && a != b implies keys@[a] != keys@[b] by {
      if a < b { assert(keys@[a] != keys@[b]); } else { assert(keys@[b] != keys@[a]); }
    }
  }
  return false;
}

//@ C14 | default: fn check_mapping_is_usable
fn check_mapping_is_usable(sm: &s::Mapping) -> (r: Result<(), String>)
  ensures
    //@ C14 | a mapping that passes the check satisfies the precondition of Mapper::for_layout (and of the event loop's timer arithmetic)
    r is Ok ==> crate::keys::mapping_ok(*sm),
{ //@ | body
  proof { axiom_fmt_user_types(); }
  broadcast use vstd::std_specs::fmt::group_fmt_axioms;
  if sm.from.is_empty() {
    return Err(format!("A mapping to {:?} has an empty `from`", sm.to));
  }
  if has_duplicate_key(&sm.from) {
    return Err(format!("The same key appears twice in `from`: {:?}", sm.from));
  }
  if has_duplicate_key(&sm.to) {
    return Err(format!("The same key appears twice in `to`: {:?} (mapping from {:?})", sm.to, sm.from));
  }
  match &sm.repeat {
    s::Repeat::Special { keys, delay_ms, interval_ms } => {
      if has_duplicate_key(keys) {
        return Err(format!("The same key appears twice in the `repeat` keys: {:?} (mapping from {:?})", keys, sm.from));
      }
      if *delay_ms < 0 || *interval_ms < 0 {
        return Err(format!("`delay_ms` and `interval_ms` must not be negative (mapping from {:?})", sm.from));
      }
    },
    _ => ()
  };
  Ok(())
}
