// Overlay for src/fancy_layout_interpreting.rs


use crate::fancy_keys::AliasMapping;
use crate::keys as s;
use crate::fancy_keys as f;
use crate::key_codes::KeyCode;
use std::collections::HashMap;

//@ C14 | default: fn axiom_fromset_key_model
#[verifier::external_body]
pub proof fn axiom_fromset_key_model() ensures vstd::std_specs::hash::obeys_key_model::<FromSet>() {}
//@ C14 | default: fn table_ok
spec fn table_ok(t: Map<FromSet, Vec<usize>>, n: int) -> bool { forall|k: FromSet, j: int| t.contains_key(k) && 0 <= j < t[k]@.len() ==> (#[trigger] t[k]@[j]) < n }

// ---- C13, top level: what a whole layout converts to ----
pub open spec fn is_modifier_spec(k: KeyCode) -> bool {
  k == KeyCode::LEFTSHIFT || k == KeyCode::RIGHTSHIFT || k == KeyCode::LEFTALT || k == KeyCode::RIGHTALT || k == KeyCode::LEFTCTRL || k == KeyCode::RIGHTCTRL || k == KeyCode::LEFTMETA || k == KeyCode::RIGHTMETA
}
pub open spec fn flat(chunks: Seq<Seq<(Seq<KeyCode>, Seq<KeyCode>)>>) -> Seq<(Seq<KeyCode>, Seq<KeyCode>)>
  decreases chunks.len()
{ if chunks.len() == 0 { Seq::empty() } else { flat(chunks.drop_last()) + chunks.last() } }
/// the (trigger, output) pairs ONE source mapping stands for, given the alias table: an alias definition is itself a mapping unless it is a lone modifier;
/// a single mapping: single_pairs; a row: row_pairs over the physical row; a repeat-only entry: nothing (it only adjusts repeat modes / adds identity mappings at the end)
spec fn pairs_of(table: Map<String, Vec<&AliasMapping>>, fm: f::Mapping, pairs: Seq<(Seq<KeyCode>, Seq<KeyCode>)>) -> bool {
  match fm {
    f::Mapping::Alias(a) => pairs == (if a.from.keys@.len() == 1 && is_modifier_spec(a.from.keys@[0]) { Seq::empty() } else { seq![(a.from.keys@, a.to.initial@)] }),
    f::Mapping::Single(sg) => exists|it: AliasCombinationIterable| it.built(table, sg.from.modifiers@) && pairs == single_pairs(it, all_combos(it.q()), sg),
    f::Mapping::Row(rm) => match crate::physical_keyboard_layouts::ukl_row(rm.from.row) {
      Some(row) => exists|it: AliasCombinationIterable| it.built(table, rm.from.modifiers@) && pairs == row_pairs(it, all_combos(it.q()), rm, row),
      None => pairs.len() == 0 },
    f::Mapping::RepeatOnlySingle(_) => pairs.len() == 0,
  }
}
/// C13: with the alias table that lists for every alias name the definitions written for it in source order (table_for), the converted layout is,
/// in source order, the pairs of each source mapping, followed only by identity mappings (added by repeat-only entries)
spec fn shape_w(f: f::Layout, l: s::Layout, table: Map<String, Vec<&AliasMapping>>, chunks: Seq<Seq<(Seq<KeyCode>, Seq<KeyCode>)>>, n: int) -> bool {
  table_for(table, f.mappings@, f.mappings@.len() as int)
  && chunks.len() == f.mappings@.len() && (forall|i: int| 0 <= i < chunks.len() ==> pairs_of(table, f.mappings@[i], #[trigger] chunks[i]))
  && 0 <= n <= l.mappings@.len() && fts(l.mappings@).take(n) == flat(chunks)
  && forall|j: int| n <= j < l.mappings@.len() ==> (#[trigger] l.mappings@[j]).from@ == l.mappings@[j].to@
}
pub closed spec fn convert_shape(f: f::Layout, l: s::Layout) -> bool {
  exists|table: Map<String, Vec<&AliasMapping>>, chunks: Seq<Seq<(Seq<KeyCode>, Seq<KeyCode>)>>, n: int| #[trigger] shape_w(f, l, table, chunks, n)
}
proof fn lemma_fts_take(ms: Seq<s::Mapping>, n: int)
  requires 0 <= n <= ms.len()
  ensures fts(ms).take(n) == fts(ms.take(n))
{ assert(fts(ms).take(n) =~= fts(ms.take(n))); }

/// everything ONE source mapping expands to in the first pass: the (trigger, output) pairs of pairs_of AND the repeat mode / absorbing list of each mapping
spec fn expands(table: Map<String, Vec<&AliasMapping>>, fm: f::Mapping, ms: Seq<s::Mapping>) -> bool {
  match fm {
    f::Mapping::Alias(a) => pairs_of(table, fm, fts(ms)) && forall|i: int| 0 <= i < ms.len() ==> crate::keys::rview((#[trigger] ms[i]).repeat) == crate::keys::RepeatV::Normal && ms[i].absorbing@.len() == 0,
    f::Mapping::Single(sg) => exists|it: AliasCombinationIterable| #[trigger] it.built(table, sg.from.modifiers@) && fts(ms) == single_pairs(it, all_combos(it.q()), sg) && single_extras(it, all_combos(it.q()), sg, ms),
    f::Mapping::Row(rm) => match crate::physical_keyboard_layouts::ukl_row(rm.from.row) {
      Some(row) => exists|it: AliasCombinationIterable| #[trigger] it.built(table, rm.from.modifiers@) && fts(ms) == row_pairs(it, all_combos(it.q()), rm, row) && row_extras(it, rm, row, ms),
      None => ms.len() == 0 },
    f::Mapping::RepeatOnlySingle(_) => ms.len() == 0,
  }
}
pub open spec fn flatm(chunks: Seq<Seq<s::Mapping>>) -> Seq<s::Mapping>
  decreases chunks.len()
{ if chunks.len() == 0 { Seq::empty() } else { flatm(chunks.drop_last()) + chunks.last() } }
/// C13, the whole converter: the first pass expands every source mapping in source order (mchunks); then the repeat-only pass goes through the source
/// mappings in source order again (stages), each repeat-only entry acting (ar_rel) on the mappings of the first pass: n = their number
spec fn full_w(f: f::Layout, l: s::Layout, table: Map<String, Vec<&AliasMapping>>, mchunks: Seq<Seq<s::Mapping>>, stages: Seq<Seq<crate::keys::MappingV>>) -> bool {
  table_for(table, f.mappings@, f.mappings@.len() as int)
  && mchunks.len() == f.mappings@.len() && (forall|i: int| 0 <= i < mchunks.len() ==> expands(table, f.mappings@[i], #[trigger] mchunks[i]))
  && stages.len() == f.mappings@.len() + 1 && stages[0] == mvs(flatm(mchunks))
  && (forall|i: int| 0 <= i < f.mappings@.len() ==> ar_rel(table, f.mappings@[i], flatm(mchunks).len() as int, #[trigger] stages[i], stages[i + 1]))
  && stages.last() == mvs(l.mappings@)
}
pub closed spec fn convert_full(f: f::Layout, l: s::Layout) -> bool {
  exists|table: Map<String, Vec<&AliasMapping>>, mchunks: Seq<Seq<s::Mapping>>, stages: Seq<Seq<crate::keys::MappingV>>| #[trigger] full_w(f, l, table, mchunks, stages)
}
/// C13, acceptance of a whole layout: with the alias table of the layout, some source mapping cannot be expanded (first_rejects), some repeat-only
/// entry cannot be applied (ro_rejects), or the fully converted layout contains a mapping the mapper cannot run (empty trigger, a key twice in a
/// trigger / output / repeat chord, negative repeat times)
spec fn rejects_w(f: f::Layout, table: Map<String, Vec<&AliasMapping>>) -> bool {
  table_for(table, f.mappings@, f.mappings@.len() as int) && (
    (exists|i: int| 0 <= i < f.mappings@.len() && first_rejects(table, #[trigger] f.mappings@[i]))
    || (exists|i: int| 0 <= i < f.mappings@.len() && ro_rejects(table, #[trigger] f.mappings@[i]))
    || (exists|l: s::Layout| #[trigger] convert_full(f, l) && !crate::keys::layout_ok(l)))
}
pub closed spec fn convert_rejects(f: f::Layout) -> bool { exists|table: Map<String, Vec<&AliasMapping>>| #[trigger] rejects_w(f, table) }
/// one more mapping entered into the trigger table
proof fn lemma_tab_step(t0: Map<FromSet, Vec<usize>>, t1: Map<FromSet, Vec<usize>>, key: FromSet, vnew: Vec<usize>, ms: Seq<s::Mapping>, m: s::Mapping)
  requires
    //@ C13 | the trigger table is exact
    tab_sound(t0, ms), forall|i: int| #[trigger] covered(t0, i) <==> 0 <= i < ms.len(), fs_of(m.from@, key.keys@),
    t1 == t0.insert(key, vnew), ms.len() < usize::MAX,
    vnew@ == (if t0.contains_key(key) { t0[key]@.push(ms.len() as usize) } else { seq![ms.len() as usize] }),
  ensures tab_sound(t1, ms.push(m)), forall|i: int| #[trigger] covered(t1, i) <==> 0 <= i < ms.len() + 1
{
  let ms1 = ms.push(m); let n0 = ms.len() as int;
  assert forall|k: FromSet, j: int| t1.contains_key(k) && 0 <= j < t1[k]@.len() implies (#[trigger] t1[k]@[j]) < ms1.len() && fs_of(ms1[t1[k]@[j] as int].from@, k.keys@) by {
    if k == key {
      if t0.contains_key(key) && j < t0[key]@.len() { assert(t1[k]@[j] == t0[key]@[j]); assert(t0[key]@[j] < ms.len()); assert(ms1[t0[key]@[j] as int] == ms[t0[key]@[j] as int]); }
      else { assert(t1[k]@[j] == n0); assert(ms1[n0] == m); }
    } else { assert(t1[k] == t0[k]); assert(t0[k]@[j] < ms.len()); assert(ms1[t0[k]@[j] as int] == ms[t0[k]@[j] as int]); }
  }
  assert forall|k: FromSet| #[trigger] t1.contains_key(k) implies t1[k]@.len() >= 1 by { if k != key { assert(t0.contains_key(k)); } }
  assert forall|i: int| #[trigger] covered(t1, i) <==> 0 <= i < n0 + 1 by {
    if covered(t1, i) {
      let (k, j) = choose|k: FromSet, j: int| t1.contains_key(k) && 0 <= j < t1[k]@.len() && #[trigger] t1[k]@[j] == i;
      if k == key {
        if t0.contains_key(key) && j < t0[key]@.len() { assert(t0[key]@[j] == i); assert(covered(t0, i)); }
      } else { assert(t0.contains_key(k)); assert(t0[k]@[j] == i); assert(covered(t0, i)); }
    }
    if 0 <= i < n0 {
      assert(covered(t0, i));
      let (k, j) = choose|k: FromSet, j: int| t0.contains_key(k) && 0 <= j < t0[k]@.len() && #[trigger] t0[k]@[j] == i;
      if k == key { assert(t1[key]@[j] == i); } else { assert(t1[k]@[j] == i); }
      assert(covered(t1, i));
    }
    if i == n0 { assert(t1[key]@[t1[key]@.len() - 1] == i); assert(covered(t1, i)); }
  }
}
proof fn lemma_flatm_push(chunks: Seq<Seq<s::Mapping>>, c: Seq<s::Mapping>)
  ensures flatm(chunks.push(c)) == flatm(chunks) + c
{ assert(chunks.push(c).drop_last() =~= chunks); }
proof fn lemma_expands_pairs(table: Map<String, Vec<&AliasMapping>>, fm: f::Mapping, ms: Seq<s::Mapping>)
  requires expands(table, fm, ms)
  ensures pairs_of(table, fm, fts(ms))
{}

//@ C13 C14 | default: fn convert
#[verifier::exec_allows_no_decreases_clause]
pub fn convert(f: &f::Layout) -> (r: Result<s::Layout, String>)
  ensures
    //@ C14 | every layout the converter accepts satisfies the precondition of Mapper::for_layout (so installing and driving it cannot panic)
    r is Ok ==> crate::keys::layout_ok(r.unwrap()),
    //@ C13 | source order: the result is the expansion of each source mapping in source order, followed only by identity mappings added for repeat-only entries
    r is Ok ==> convert_shape(*f, r.unwrap()),
    //@ C13 | the whole result: the first-pass expansion of every source mapping (trigger, output, repeat mode, absorbing list) in source order, then every repeat-only entry in source order sets the repeat mode of the first-pass mappings with the same trigger set, or adds an identity mapping if there is none
    r is Ok ==> convert_full(*f, r.unwrap()),
    //@ C13 | acceptance: a layout is refused only if a source mapping cannot be expanded, a repeat-only entry cannot be applied, or the converted layout contains a mapping the mapper cannot run
    r is Err ==> convert_rejects(*f),
{ //@ | body
  proof { axiom_fromset_key_model(); axiom_string_key_model(); assert(vstd::std_specs::hash::builds_valid_hashers::<std::collections::hash_map::RandomState>()); }
  broadcast use vstd::std_specs::hash::group_hash_axioms;
  let mut res = Vec::new();
  let mut from_table: HashMap<FromSet, Vec<usize>> = HashMap::new();
  
  let alias_mappings = find_alias_mappings(f);
  //@ C13 | the expansions of the source mappings handled so far
  let ghost mut chunks: Seq<Seq<(Seq<KeyCode>, Seq<KeyCode>)>> = Seq::empty(); let ghost table = alias_mappings@;
  let ghost mut mchunks: Seq<Seq<s::Mapping>> = Seq::empty();
  proof { assert(fts(res@) =~= Seq::empty()); assert(res@ =~= flatm(mchunks));
    assert forall|i: int| #[trigger] covered(from_table@, i) <==> 0 <= i < 0 by { if covered(from_table@, i) { let (k, j) = choose|k: FromSet, j: int| from_table@.contains_key(k) && 0 <= j < from_table@[k]@.len() && #[trigger] from_table@[k]@[j] == i; } } }
  
  for fm in itf: &f.mappings
    invariant alias_table_ok(alias_mappings@), table_ok(from_table@, res@.len() as int),
      vstd::std_specs::hash::obeys_key_model::<FromSet>(), vstd::std_specs::hash::builds_valid_hashers::<std::collections::hash_map::RandomState>(),
      //@ C13 | the result so far is the expansion of the source mappings handled so far, in source order
      table == alias_mappings@, itf.seq().len() == f.mappings@.len(), forall|j: int| 0 <= j < f.mappings@.len() ==> *itf.seq()[j] == f.mappings@[j],
      table_for(table, f.mappings@, f.mappings@.len() as int),
      chunks.len() == itf.index@, forall|i: int| 0 <= i < chunks.len() ==> pairs_of(table, f.mappings@[i], #[trigger] chunks[i]),
      fts(res@) == flat(chunks),
      mchunks.len() == itf.index@, forall|i: int| 0 <= i < mchunks.len() ==> expands(table, f.mappings@[i], #[trigger] mchunks[i]),
      res@ == flatm(mchunks),
      //@ C13 | the trigger table lists every mapping produced so far under the key of its trigger set
      tab_sound(from_table@, res@), forall|i: int| #[trigger] covered(from_table@, i) <==> 0 <= i < res@.len(),
  { //@ | body
    //@ C13 | the source mapping of this iteration
    proof { assert(*fm == f.mappings@[itf.index@ as int]); }
    //@ C13 | acceptance: a refusal of this source mapping is a refusal of the layout
    proof { assert(first_rejects(table, f.mappings@[itf.index@ as int]) ==> rejects_w(*f, table)); }
    //@ C13 | the source mapping of this iteration
    let sms = convert_mapping(&alias_mappings, fm)?;
    //@ C13 | its expansion
    let ghost smsv = sms@; let ghost ft0 = fts(res@); let ghost rs0 = res@;
    proof { assert(smsv.take(0) =~= Seq::empty()); assert(fts(smsv.take(0)) =~= Seq::empty()); assert(ft0 + fts(smsv.take(0)) =~= ft0); assert(rs0 + smsv.take(0) =~= rs0); }
    for sm in its: sms
      invariant alias_table_ok(alias_mappings@), table_ok(from_table@, res@.len() as int),
        vstd::std_specs::hash::obeys_key_model::<FromSet>(), vstd::std_specs::hash::builds_valid_hashers::<std::collections::hash_map::RandomState>(),
        //@ C13 | the mappings of this expansion are appended one by one, in order
        its.seq() == smsv, fts(res@) == ft0 + fts(smsv.take(its.index@ as int)), res@ == rs0 + smsv.take(its.index@ as int),
        //@ C13 | the trigger table lists every mapping produced so far under the key of its trigger set
        tab_sound(from_table@, res@), forall|i: int| #[trigger] covered(from_table@, i) <==> 0 <= i < res@.len(),
    { //@ | body
      //@ C13 | the mapping of this iteration
      let ghost smg = sm; let ghost res0 = res@; let ghost k = its.index@ as int;
      proof { assert(sm == smsv[k]); }
      let ghost t0 = from_table@; let ghost n0 = res@.len() as int; let ghost mut vfin: Option<Vec<usize>> = None;
      let from_set = FromSet::new(&sm.from);
      match from_table.get_mut(&from_set) {
        Some(v) => { let ghost v0 = v@; proof { assert(t0.contains_key(from_set)); assert(t0[from_set]@ == v0); } v.push(res.len()); proof { vfin = Some(*v); assert(v@ == v0.push(n0 as usize)); assert forall|j: int| 0 <= j < v@.len() implies (#[trigger] v@[j]) < n0 + 1 by { if j < v0.len() { assert(v@[j] == v0[j]); } } } },
        None => {
          let v = vec![res.len()];
          //@ C13 | a new table key
          proof { vfin = Some(v); }
          from_table.insert(from_set.clone(), v);
        }
      };
      //@ C13 | the key entered is the key looked up (the clone compares equal)
      proof {
        if !t0.contains_key(from_set) {
          assert(exists|c: FromSet| c.kv() == from_set.kv() && from_table@ == t0.insert(c, vfin.unwrap()));
          let c = choose|c: FromSet| c.kv() == from_set.kv() && from_table@ == t0.insert(c, vfin.unwrap());
          axiom_fromset_ext(c, from_set);
        }
      }
      proof {
        if t0.contains_key(from_set) { crate::prelude_specs::axiom_borrowed_key_updated_deref::<FromSet, Vec<usize>>(t0, from_table@, &from_set, vfin.unwrap()); }
        assert forall|k: FromSet, j: int| from_table@.contains_key(k) && 0 <= j < from_table@[k]@.len() implies (#[trigger] from_table@[k]@[j]) < n0 + 1 by {
          if t0.contains_key(k) && from_table@[k] == t0[k] { assert(t0[k]@[j] < n0); }
        }
      }
      //@ C13 | the table after this mapping
      proof { if t0.contains_key(from_set) { assert(vfin.unwrap()@ == t0[from_set]@.push(n0 as usize)); } else { assert(vfin.unwrap()@ =~= seq![n0 as usize]); } }
      proof { crate::prelude_specs::axiom_vec_len_isize(&res); lemma_tab_step(t0, from_table@, from_set, vfin.unwrap(), res0, smg); }
      res.push(sm);
      //@ C13 | appended
      proof { lemma_fts_push(res0, smg); assert(res@ == res0.push(smg)); assert(smsv.take(k + 1) =~= smsv.take(k).push(smg)); lemma_fts_push(smsv.take(k), smg);
        assert(ft0 + fts(smsv.take(k)).push((smg.from@, smg.to@)) =~= (ft0 + fts(smsv.take(k))).push((smg.from@, smg.to@)));
        assert(rs0 + smsv.take(k).push(smg) =~= (rs0 + smsv.take(k)).push(smg)); }
    }
    //@ C13 | this source mapping is done
    proof { assert(smsv.take(smsv.len() as int) =~= smsv); let c2 = chunks.push(fts(smsv)); assert(c2.drop_last() =~= chunks); assert(c2.last() == fts(smsv));
      assert forall|i: int| 0 <= i < c2.len() implies pairs_of(table, f.mappings@[i], #[trigger] c2[i]) by { if i < chunks.len() { assert(c2[i] == chunks[i]); } }
      chunks = c2;
      let m2 = mchunks.push(smsv); lemma_flatm_push(mchunks, smsv);
      assert forall|i: int| 0 <= i < m2.len() implies expands(table, f.mappings@[i], #[trigger] m2[i]) by { if i < mchunks.len() { assert(m2[i] == mchunks[i]); } }
      mchunks = m2; }
  }
  //@ C13 | all source mappings expanded; from here on triggers and outputs of these mappings do not change, only identity mappings are appended
  let ghost n_main = res@.len() as int; let ghost ft_main = fts(res@);
  proof { assert(fts(res@).take(n_main) =~= ft_main); }
  //@ C13 | the repeat-only pass starts from the first-pass mappings; the trigger table describes exactly them
  let ghost mut stages: Seq<Seq<crate::keys::MappingV>> = seq![mvs(res@)];
  proof { assert(tab_dense(from_table@, n_main)); lemma_tab_n(from_table@, n_main); }
  
  for fm in itg: &f.mappings
    invariant alias_table_ok(alias_mappings@), table_ok(from_table@, res@.len() as int),
      //@ C13 | repeat-only entries leave triggers and outputs alone and append identity mappings only
      0 <= n_main <= res@.len(), fts(res@).take(n_main) == ft_main, forall|j: int| n_main <= j < res@.len() ==> (#[trigger] res@[j]).from@ == res@[j].to@,
      //@ C13 | the repeat-only pass so far: one stage per source mapping handled
      table == alias_mappings@, itg.seq().len() == f.mappings@.len(), forall|j: int| 0 <= j < f.mappings@.len() ==> *itg.seq()[j] == f.mappings@[j],
      tab_sound(from_table@, res@), tab_dense(from_table@, n_main), tab_n(from_table@) == n_main,
      table_for(table, f.mappings@, f.mappings@.len() as int),
      stages.len() == itg.index@ + 1, stages[0] == mvs(flatm(mchunks)), flatm(mchunks).len() == n_main, stages.last() == mvs(res@),
      forall|i: int| 0 <= i < itg.index@ ==> ar_rel(table, f.mappings@[i], n_main, #[trigger] stages[i], stages[i + 1]),
  { //@ | body
    //@ C13 | frame of one repeat-only pass
    let ghost r0 = res@;
    proof { assert(*fm == f.mappings@[itg.index@ as int]); }
    //@ C13 | acceptance: a refusal of this repeat-only entry is a refusal of the layout
    proof { assert(ro_rejects(table, f.mappings@[itg.index@ as int]) ==> rejects_w(*f, table)); }
    //@ C13 | frame of one repeat-only pass
    adjust_repeats(&mut res, &from_table, &alias_mappings, fm)?;
    proof { lemma_frame_take(r0, res@, n_main); lemma_frame_id(r0, res@, n_main); }
    //@ C13 | one more stage
    proof { lemma_tab_frame(from_table@, r0, res@);
      let st2 = stages.push(mvs(res@));
      assert forall|i: int| 0 <= i < itg.index@ + 1 implies ar_rel(table, f.mappings@[i], n_main, #[trigger] st2[i], st2[i + 1]) by {
        if i < itg.index@ { assert(st2[i] == stages[i]); assert(st2[i + 1] == stages[i + 1]); } else { assert(st2[i] == mvs(r0)); assert(st2[i + 1] == mvs(res@)); } }
      assert(st2[0] == stages[0]);
      stages = st2; }
  }
  
  //@ C13 | acceptance: the converted layout as a value; a mapping refused below is an unusable mapping of it
  let ghost lg = s::Layout { mappings: res };
  proof { assert(full_w(*f, lg, table, mchunks, stages)); assert(convert_full(*f, lg)); }
  for sm in it: &res
    invariant
      it.seq().len() == res@.len(), forall|j: int| 0 <= j < res@.len() ==> *it.seq()[j] == res@[j],
      forall|j: int| 0 <= j < it.index@ ==> crate::keys::mapping_ok(#[trigger] res@[j]),
      //@ C13 | acceptance: the converted layout
      lg.mappings@ == res@, convert_full(*f, lg), table_for(table, f.mappings@, f.mappings@.len() as int),
  { //@ | body
    //@ C13 | acceptance: an unusable mapping of the converted layout is a reason to refuse
    proof { assert(*sm == lg.mappings@[it.index@ as int]);
      assert(!crate::keys::mapping_ok(*sm) ==> !crate::keys::layout_ok(lg));
      assert(!crate::keys::layout_ok(lg) ==> rejects_w(*f, table)); }
    check_mapping_is_usable(sm)?;
  }
  //@ C13 | the shape of the result
  proof { assert forall|l: s::Layout| l.mappings@ == res@ implies #[trigger] convert_shape(*f, l) by { assert(chunks.len() == f.mappings@.len()); assert(fts(l.mappings@).take(n_main) == flat(chunks)); assert(shape_w(*f, l, table, chunks, n_main)); } }
  //@ C13 | the whole result
  proof { assert forall|l: s::Layout| l.mappings@ == res@ implies #[trigger] convert_full(*f, l) by { assert(full_w(*f, l, table, mchunks, stages)); } }
  
  Ok(s::Layout {
    mappings: res
  })
}

/// C13: triggers and outputs of the mappings present before are unchanged; every mapping appended is an identity mapping (output = trigger)
spec fn ar_frame(o: Seq<s::Mapping>, n: Seq<s::Mapping>) -> bool {
  n.len() >= o.len() && (forall|j: int| 0 <= j < o.len() ==> (#[trigger] n[j]).from@ == o[j].from@ && n[j].to@ == o[j].to@) && (forall|j: int| o.len() <= j < n.len() ==> (#[trigger] n[j]).from@ == n[j].to@)
}
proof fn lemma_frame_take(o: Seq<s::Mapping>, n: Seq<s::Mapping>, k: int)
  requires
    //@ C13 | frame of a repeat-only pass
    ar_frame(o, n), 0 <= k <= o.len()
  ensures fts(n).take(k) == fts(o).take(k)
{
  assert forall|j: int| 0 <= j < k implies fts(n).take(k)[j] == fts(o).take(k)[j] by { assert(n[j].from@ == o[j].from@ && n[j].to@ == o[j].to@); }
  assert(fts(n).take(k) =~= fts(o).take(k));
}
proof fn lemma_frame_id(o: Seq<s::Mapping>, n: Seq<s::Mapping>, k: int)
  requires
    //@ C13 | frame of a repeat-only pass
    ar_frame(o, n), 0 <= k <= o.len(), forall|j: int| k <= j < o.len() ==> (#[trigger] o[j]).from@ == o[j].to@
  ensures forall|j: int| k <= j < n.len() ==> (#[trigger] n[j]).from@ == n[j].to@
{
  assert forall|j: int| k <= j < n.len() implies (#[trigger] n[j]).from@ == n[j].to@ by { if j < o.len() { assert(o[j].from@ == o[j].to@); assert(n[j].from@ == o[j].from@ && n[j].to@ == o[j].to@); } }
}
// ---- C13, the repeat-only pass: "set the repeat mode of the mappings with the same trigger set, or add an identity mapping if there is none" ----
pub open spec fn mvs(ms: Seq<s::Mapping>) -> Seq<crate::keys::MappingV> { ms.map_values(|m: s::Mapping| crate::keys::mview(m)) }
/// the trigger table: index i is listed (under some key)
spec fn covered(t: Map<FromSet, Vec<usize>>, i: int) -> bool { exists|k: FromSet, j: int| t.contains_key(k) && 0 <= j < t[k]@.len() && #[trigger] t[k]@[j] == i }
/// every index listed under a key is a mapping whose trigger has that table key; no key has an empty list
spec fn tab_sound(t: Map<FromSet, Vec<usize>>, ms: Seq<s::Mapping>) -> bool {
  (forall|k: FromSet, j: int| t.contains_key(k) && 0 <= j < t[k]@.len() ==> (#[trigger] t[k]@[j]) < ms.len() && fs_of(ms[t[k]@[j] as int].from@, k.keys@))
  && (forall|k: FromSet| #[trigger] t.contains_key(k) ==> t[k]@.len() >= 1)
}
/// the table lists exactly the indices 0..n (the mappings of the first pass)
spec fn tab_dense(t: Map<FromSet, Vec<usize>>, n: int) -> bool { n >= 0 && forall|i: int| #[trigger] covered(t, i) <==> 0 <= i < n }
spec fn tab_n(t: Map<FromSet, Vec<usize>>) -> int { choose|n: int| tab_dense(t, n) }
proof fn lemma_tab_n(t: Map<FromSet, Vec<usize>>, n: int)
  requires tab_dense(t, n)
  ensures tab_n(t) == n
{
  let m = tab_n(t);
  assert(tab_dense(t, m));
  if m < n { assert(covered(t, m)); } else if n < m { assert(covered(t, n)); }
}
/// one combination of a repeat-only entry, trigger `trig`, repeat mode `rep`: every mapping of the first pass (index < n) with the same trigger set gets
/// that repeat mode; if there is none, an identity mapping with that repeat mode is appended
pub open spec fn ar_step(v: Seq<crate::keys::MappingV>, n: int, trig: Seq<KeyCode>, rep: crate::keys::RepeatV) -> Seq<crate::keys::MappingV> {
  if exists|i: int| 0 <= i < n && i < v.len() && same_trigger(#[trigger] v[i].from, trig) {
    Seq::new(v.len(), |i: int| if i < n && same_trigger(v[i].from, trig) { crate::keys::MappingV { from: v[i].from, to: v[i].to, repeat: rep, absorbing: v[i].absorbing } } else { v[i] })
  } else {
    v.push(crate::keys::MappingV { from: trig, to: trig, repeat: rep, absorbing: Seq::empty() })
  }
}
spec fn ro_trig(it: AliasCombinationIterable, t: Seq<usize>, single: f::RepeatOnlySingleMapping) -> Seq<KeyCode> { from_mods_spec(it, t, it.modifiers@.len() as int).push(single.from.key) }
/// ... for the combinations `tuples` in order (None: an alias of the repeat keys does not occur on the trigger side, the converter rejects the layout)
spec fn ar_fold(v: Seq<crate::keys::MappingV>, n: int, it: AliasCombinationIterable, tuples: Seq<Seq<usize>>, single: f::RepeatOnlySingleMapping) -> Option<Seq<crate::keys::MappingV>>
  decreases tuples.len()
{
  if tuples.len() == 0 { Some(v) } else {
    match ar_fold(v, n, it, tuples.drop_last(), single) {
      None => None,
      Some(v1) => match single_repeat_spec(it, tuples.last(), single.repeat) {
        None => None,
        Some(rep) => Some(ar_step(v1, n, ro_trig(it, tuples.last(), single), rep)) } }
  }
}
/// what one source mapping does in the repeat-only pass
spec fn ar_rel(table: Map<String, Vec<&AliasMapping>>, fm: f::Mapping, n: int, v0: Seq<crate::keys::MappingV>, v1: Seq<crate::keys::MappingV>) -> bool {
  match fm {
    f::Mapping::RepeatOnlySingle(single) => exists|it: AliasCombinationIterable| it.built(table, single.from.modifiers@) && #[trigger] ar_fold(v0, n, it, all_combos(it.q()), single) == Some(v1),
    _ => v1 == v0,
  }
}
/// the branch the code takes on a table hit does what ar_step says
proof fn lemma_ar_hit(t: Map<FromSet, Vec<usize>>, n: int, r1: Seq<s::Mapping>, r2: Seq<s::Mapping>, trig: Seq<KeyCode>, fsk: FromSet, rep: crate::keys::RepeatV)
  requires
    //@ C13 | the trigger table is exact
    tab_sound(t, r1), tab_dense(t, n), fs_of(trig, fsk.keys@), t.contains_key(fsk), r2.len() == r1.len(),
    forall|x: int| 0 <= x < r1.len() ==> crate::keys::mview(#[trigger] r2[x]) == (if (exists|j: int| 0 <= j < t[fsk]@.len() && #[trigger] t[fsk]@[j] == x) { crate::keys::MappingV { from: r1[x].from@, to: r1[x].to@, repeat: rep, absorbing: r1[x].absorbing@ } } else { crate::keys::mview(r1[x]) }),
  ensures mvs(r2) == ar_step(mvs(r1), n, trig, rep)
{
  let v = mvs(r1);
  assert forall|x: int| 0 <= x < r1.len() implies ((x < n && same_trigger(v[x].from, trig)) <==> (exists|j: int| 0 <= j < t[fsk]@.len() && #[trigger] t[fsk]@[j] == x)) by {
    if exists|j: int| 0 <= j < t[fsk]@.len() && #[trigger] t[fsk]@[j] == x {
      let j = choose|j: int| 0 <= j < t[fsk]@.len() && #[trigger] t[fsk]@[j] == x;
      assert(covered(t, x));
      lemma_fs_same(r1[x].from@, fsk.keys@, trig, fsk.keys@);
    }
    if x < n && same_trigger(v[x].from, trig) {
      assert(covered(t, x));
      let (k, j) = choose|k: FromSet, j: int| t.contains_key(k) && 0 <= j < t[k]@.len() && #[trigger] t[k]@[j] == x;
      lemma_fs_same(r1[x].from@, k.keys@, trig, fsk.keys@);
      axiom_fromset_ext(k, fsk);
    }
  }
  let x0 = t[fsk]@[0] as int;
  assert(x0 < n && same_trigger(v[x0].from, trig));
  assert(mvs(r2) =~= ar_step(v, n, trig, rep));
}
/// ... and on a table miss
proof fn lemma_ar_miss(t: Map<FromSet, Vec<usize>>, n: int, r1: Seq<s::Mapping>, trig: Seq<KeyCode>, fsk: FromSet, rep: crate::keys::RepeatV, m: s::Mapping)
  requires
    //@ C13 | the trigger table is exact
    tab_sound(t, r1), tab_dense(t, n), fs_of(trig, fsk.keys@), !t.contains_key(fsk),
    crate::keys::mview(m) == (crate::keys::MappingV { from: trig, to: trig, repeat: rep, absorbing: Seq::empty() }),
  ensures mvs(r1.push(m)) == ar_step(mvs(r1), n, trig, rep)
{
  let v = mvs(r1);
  assert forall|x: int| 0 <= x < n && x < v.len() implies !same_trigger(#[trigger] v[x].from, trig) by {
    if same_trigger(v[x].from, trig) {
      assert(covered(t, x));
      let (k, j) = choose|k: FromSet, j: int| t.contains_key(k) && 0 <= j < t[k]@.len() && #[trigger] t[k]@[j] == x;
      lemma_fs_same(r1[x].from@, k.keys@, trig, fsk.keys@);
      axiom_fromset_ext(k, fsk);
    }
  }
  assert(mvs(r1.push(m)) =~= mvs(r1).push(crate::keys::mview(m)));
}
/// triggers unchanged => the table stays sound
proof fn lemma_tab_frame(t: Map<FromSet, Vec<usize>>, o: Seq<s::Mapping>, n: Seq<s::Mapping>)
  requires tab_sound(t, o), ar_frame(o, n)
  ensures tab_sound(t, n)
{
  assert forall|k: FromSet, j: int| t.contains_key(k) && 0 <= j < t[k]@.len() implies (#[trigger] t[k]@[j]) < n.len() && fs_of(n[t[k]@[j] as int].from@, k.keys@) by {
    let x = t[k]@[j] as int; assert(x < o.len()); assert(n[x].from@ == o[x].from@);
  }
}
/// C13, acceptance of a repeat-only entry
spec fn ro_rej_w(table: Map<String, Vec<&AliasMapping>>, single: f::RepeatOnlySingleMapping, it: AliasCombinationIterable, t: Seq<usize>) -> bool {
  it.built(table, single.from.modifiers@) && all_combos(it.q()).contains(t) && single_repeat_spec(it, t, single.repeat) is None
}
spec fn ro_rejects(table: Map<String, Vec<&AliasMapping>>, fm: f::Mapping) -> bool {
  match fm {
    f::Mapping::RepeatOnlySingle(single) => undefined_alias(table, single.from.modifiers@) || exists|it: AliasCombinationIterable, t: Seq<usize>| #[trigger] ro_rej_w(table, single, it, t),
    _ => false,
  }
}
//@ C13 C14 | default: fn adjust_repeats
#[verifier::exec_allows_no_decreases_clause]
fn adjust_repeats<'a>(res: &mut Vec<s::Mapping>, from_table: &HashMap<FromSet, Vec<usize>>, alias_mappings: &'a HashMap<String, Vec<&'a f::AliasMapping>>, fm: &f::Mapping) -> (r: Result<(), String>)
  requires
    //@ C14 | data-structure invariants that keep every index in bounds (panic-freedom of the converter)
    alias_table_ok(alias_mappings@),
    table_ok(from_table@, old(res)@.len() as int),
    //@ C13 | the trigger table lists the mappings of the first pass, each under the key of its trigger set
    tab_sound(from_table@, old(res)@), tab_dense(from_table@, tab_n(from_table@)),
  ensures
    //@ C14 | data-structure invariants that keep every index in bounds (panic-freedom of the converter)
    final(res)@.len() >= old(res)@.len(),
    //@ C13 | a repeat-only entry changes only repeat modes of existing mappings and appends identity mappings
    ar_frame(old(res)@, final(res)@),
    //@ C13 | repeat-only pass: for each combination, in order, the first-pass mappings with the same trigger set get the entry's repeat mode, or an identity mapping is added if there is none; other source mappings change nothing
    r is Ok ==> ar_rel(alias_mappings@, *fm, tab_n(from_table@), mvs(old(res)@), mvs(final(res)@)),
    //@ C13 | acceptance: a repeat-only entry is refused only if a trigger alias is undefined, or for some combination an alias of its repeat keys does not occur on the trigger side
    r is Err ==> ro_rejects(alias_mappings@, *fm),
  { //@ | body
  proof { axiom_fromset_key_model(); assert(vstd::std_specs::hash::builds_valid_hashers::<std::collections::hash_map::RandomState>()); }
  broadcast use vstd::std_specs::hash::group_hash_axioms;
  //@ C13 | bookkeeping of the repeat-only pass
  let ghost n = tab_n(from_table@); let ghost v0 = mvs(res@);
  match fm {
    f::Mapping::RepeatOnlySingle(single) => {
      let modifier_combinations = build_combinations(alias_mappings, &single.from.modifiers)?;
      let mut __it = iterate_combinations(&modifier_combinations);
      //@ C13 | combinations handled so far
      let ghost mut seen: Seq<Seq<usize>> = Seq::empty(); let ghost mc = modifier_combinations; let ghost all = all_combos(modifier_combinations.q());
      proof { assert(all =~= seen + __it.rem()); }
      loop
        invariant
          //@ C14 | data-structure invariants that keep every index in bounds (panic-freedom of the converter)
          __it.wf(),
          res@.len() >= old(res)@.len(),
          //@ C13 | frame so far
          ar_frame(old(res)@, res@),
          //@ C14 | data-structure invariants that keep every index in bounds (panic-freedom of the converter)
          table_ok(from_table@, old(res)@.len() as int),
          vstd::std_specs::hash::obeys_key_model::<FromSet>(),
          vstd::std_specs::hash::builds_valid_hashers::<std::collections::hash_map::RandomState>(),
          //@ C13 | the list so far is the fold of the combinations handled so far; handled + remaining = all
          __it.itv() == mc, mc == modifier_combinations, all == seen + __it.rem(), all == all_combos(mc.q()), mc.built(alias_mappings@, single.from.modifiers@),
          n == tab_n(from_table@), v0 == mvs(old(res)@), tab_sound(from_table@, res@), tab_dense(from_table@, n),
          ar_fold(v0, n, mc, seen, *single) == Some(mvs(res@)),
          *fm == f::Mapping::RepeatOnlySingle(*single),
        ensures
          //@ C13 | every combination has been handled
          seen == all,
        { //@ | body
        //@ C13 | bookkeeping of the enumeration
        let ghost rem0 = __it.rem();
        match __it.next() { None => { proof { assert(rem0 =~= Seq::empty()); assert(__it.rem() =~= Seq::empty()); assert(seen + rem0 =~= seen); } break; }, Some(modifier_combination) => {
        //@ C13 | the combination of this iteration
        let ghost t = modifier_combination.tv(); let ghost r1 = res@;
        proof { assert(rem0 == seq![t] + __it.rem()); assert(seen.push(t) + __it.rem() =~= seen + rem0); }
        //@ C13 | acceptance: t is one of the combinations; a failure below is a failure for t
        proof { assert(all[seen.len() as int] == t); assert(all.contains(t));
          assert(single_repeat_spec(mc, t, single.repeat) is None ==> ro_rej_w(alias_mappings@, *single, mc, t));
          assert(ro_rej_w(alias_mappings@, *single, mc, t) ==> ro_rejects(alias_mappings@, *fm)); }
        //@ C13 | the combination of this iteration
        let mut from = modifier_combination.from_modifiers().clone();
        from.push(single.from.key.clone());
        //@ C13 | the trigger of this combination
        let ghost trig = from@;
        proof { assert(trig == ro_trig(mc, t, *single)); }

        let repeat = match &single.repeat {
          f::SingleRepeat::Normal => s::Repeat::Normal,
          f::SingleRepeat::Disabled => s::Repeat::Disabled,
          f::SingleRepeat::Special { keys, delay_ms, interval_ms } => s::Repeat::Special {
            keys: modifier_combination.translate_single_to_keys(&keys)?,
            delay_ms: *delay_ms,
            interval_ms: *interval_ms
          }
        };
        //@ C13 | the repeat mode of this combination
        let ghost rep = crate::keys::rview(repeat);
        proof { assert(single_repeat_spec(mc, t, single.repeat) == Some(rep)); }

        let from_set = FromSet::new(&from);
        if let Some(is) = from_table.get(&from_set) {
          //@ C13 | table hit: exactly the first-pass mappings with the same trigger set are listed
          proof { assert(from_table@.contains_key(from_set)); assert(*is == from_table@[from_set]); }
          for i in it2: is
            invariant
              //@ C14 | data-structure invariants that keep every index in bounds (panic-freedom of the converter)
              res@.len() >= old(res)@.len(),
              //@ C13 | frame so far
              ar_frame(old(res)@, res@),
              //@ C14 | data-structure invariants that keep every index in bounds (panic-freedom of the converter)
              it2.seq().len() == is@.len(),
              forall|j: int| 0 <= j < is@.len() ==> *it2.seq()[j] == is@[j],
              forall|j: int| 0 <= j < is@.len() ==> (#[trigger] is@[j]) < old(res)@.len(),
              //@ C13 | the listed mappings handled so far have the new repeat mode, nothing else has changed
              res@.len() == r1.len(), rep == crate::keys::rview(repeat),
              forall|x: int| 0 <= x < r1.len() ==> crate::keys::mview(#[trigger] res@[x]) == (if (exists|j: int| 0 <= j < it2.index@ && #[trigger] is@[j] == x) { crate::keys::MappingV { from: r1[x].from@, to: r1[x].to@, repeat: rep, absorbing: r1[x].absorbing@ } } else { crate::keys::mview(r1[x]) }),
            { //@ | body
            proof { assert(*i == is@[it2.index@ as int]); }
            //@ C13 | one more listed mapping
            let ghost rb = res@; let ghost idx = it2.index@ as int;
            let sm = &mut res[*i];
            sm.repeat = repeat.clone();
            proof {
              assert forall|x: int| 0 <= x < r1.len() implies crate::keys::mview(#[trigger] res@[x]) == (if (exists|j: int| 0 <= j < idx + 1 && #[trigger] is@[j] == x) { crate::keys::MappingV { from: r1[x].from@, to: r1[x].to@, repeat: rep, absorbing: r1[x].absorbing@ } } else { crate::keys::mview(r1[x]) }) by {
                if x == is@[idx] as int { assert(is@[idx] == x); }
                else {
                  assert(res@[x] == rb[x]);
                  if exists|j: int| 0 <= j < idx + 1 && #[trigger] is@[j] == x { let j = choose|j: int| 0 <= j < idx + 1 && #[trigger] is@[j] == x; assert(j < idx); }
                }
              }
            }
          }
          //@ C13 | this combination is done (hit)
          proof { lemma_ar_hit(from_table@, n, r1, res@, trig, from_set, rep); }
        }
        else {
          //@ C13 | table miss: no first-pass mapping has this trigger set; an identity mapping is appended
          proof { assert(!from_table@.contains_key(from_set)); }
          res.push(s::Mapping { from: from.clone(), to: from, repeat, absorbing: vec![] });
          proof { lemma_ar_miss(from_table@, n, r1, trig, from_set, rep, res@.last()); assert(res@ == r1.push(res@.last())); }
        }
        //@ C13 | one more combination handled
        proof {
          lemma_tab_frame(from_table@, old(res)@, res@);
          let s2 = seen.push(t); assert(s2.drop_last() =~= seen); assert(s2.last() == t);
          seen = s2; }
              } }
      }
      //@ C13 | the whole entry
      proof { assert(ar_fold(v0, n, mc, all_combos(mc.q()), *single) == Some(mvs(res@))); }
    },
    _ => ()
  };
  Ok(())
}

#[derive(PartialEq, Eq, Hash)]
struct FromSet {
  keys: Vec<KeyCode>
}
// E2': rustc's derive(Clone) on FromSet, written out field-wise
impl Clone for FromSet {
  fn clone(&self) -> (r: Self)
    ensures r.kv() == self.kv()
  {
    FromSet { keys: self.keys.clone() }
  }
}
/// C13 "the same trigger set": the same final key and the same modifiers in any order
pub open spec fn same_trigger(a: Seq<KeyCode>, b: Seq<KeyCode>) -> bool {
  (a.len() == 0 && b.len() == 0)
  || (a.len() > 0 && b.len() > 0 && a.last() == b.last() && a.drop_last().to_multiset() == b.drop_last().to_multiset())
}
/// what FromSet::new makes of a trigger: the modifiers in ascending order, then the final key
pub open spec fn fs_of(k: Seq<KeyCode>, r: Seq<KeyCode>) -> bool {
  if k.len() == 0 { r.len() == 0 } else {
    r.len() == k.len() && r.last() == k.last() && vstd::relations::sorted_by(r.drop_last(), crate::prelude_specs::ord_leq_fn::<KeyCode>())
    && r.drop_last().to_multiset() == k.drop_last().to_multiset() }
}
/// two triggers get the same table key exactly when they are the same trigger set
proof fn lemma_fs_same(a: Seq<KeyCode>, ra: Seq<KeyCode>, b: Seq<KeyCode>, rb: Seq<KeyCode>)
  requires fs_of(a, ra), fs_of(b, rb)
  ensures (ra == rb) == same_trigger(a, b)
{
  crate::prelude_specs::axiom_keycode_total_order();
  if same_trigger(a, b) {
    if a.len() > 0 {
      vstd::seq_lib::lemma_sorted_unique(ra.drop_last(), rb.drop_last(), crate::prelude_specs::ord_leq_fn::<KeyCode>());
      assert(ra =~= ra.drop_last().push(ra.last())); assert(rb =~= rb.drop_last().push(rb.last()));
    } else { assert(ra =~= rb); }
  } else if ra == rb {
    if a.len() == 0 { assert(rb.len() == 0); assert(b.len() == 0); }
    else { assert(b.len() > 0); }
  }
}
/// the table key as a value: FromSet compares (derived Eq / Hash) by the contents of `keys`  (ASSUMED with the key model)
#[verifier::external_body]
proof fn axiom_fromset_ext(a: FromSet, b: FromSet)
  ensures (a == b) == (a.keys@ == b.keys@)
{}
//@ C13 C14 | default: impl FromSet
impl FromSet {
  pub closed spec fn kv(self) -> Seq<KeyCode> { self.keys@ }
  fn new(keys: &[KeyCode]) -> (r: FromSet)
    ensures
      //@ C13 | the table key of a trigger: its modifiers in ascending order, then its final key (so: same key iff same trigger set)
      fs_of(keys@, r.keys@),
  { //@ | body
    if !keys.is_empty() {
      let mut res: Vec<KeyCode> = { let __s = &keys[..keys.len()-1]; let mut __v = Vec::new(); let mut __j: usize = 0; while __j < __s.len()
        invariant
          //@ C13 | the copy of the modifiers
          __s@ == keys@.drop_last(), __j <= __s.len(), __v@ == __s@.take(__j as int),
        decreases __s.len() - __j,
        { //@ | body
        let k = &__s[__j]; __v.push(*k); __j += 1;
        proof { assert(__s@.take(__j as int) =~= __s@.take(__j as int - 1).push(*k)); }
        } __v };
      proof { assert(res@ =~= keys@.drop_last()); }
      res.sort();
      let ghost srt = res@;
      res.push(*keys.last().unwrap());
      proof { assert(res@.drop_last() =~= srt); }
      FromSet { keys: res }
    }
    else {
      FromSet { keys: vec![] }
    }
  }
}

/// C13, acceptance of one source mapping in the first pass (alias definitions and repeat-only entries are never refused there)
spec fn first_rejects(table: Map<String, Vec<&AliasMapping>>, fm: f::Mapping) -> bool {
  match fm { f::Mapping::Single(sg) => single_rejects(table, sg), f::Mapping::Row(rm) => row_rejects(table, rm), _ => false }
}
//@ C13 C14 | default: fn convert_mapping
fn convert_mapping<'a>(alias_mappings: &HashMap<String, Vec<&'a f::AliasMapping>>, m: &f::Mapping) -> (r: Result<Vec<s::Mapping>, String>)
  requires
    //@ C14 | data-structure invariants that keep every index in bounds (panic-freedom of the converter)
    alias_table_ok(alias_mappings@),
  ensures
    //@ C13 | each kind of source mapping converts to the pairs it stands for
    match r { Ok(v) => pairs_of(alias_mappings@, *m, fts(v@)), Err(_) => true },
    //@ C13 | ... with the repeat mode and the absorbing list the statement prescribes
    match r { Ok(v) => expands(alias_mappings@, *m, v@), Err(_) => true },
    //@ C13 | acceptance: a source mapping is refused in the first pass only for the reasons of single_rejects / row_rejects
    r is Err ==> first_rejects(alias_mappings@, *m),
  { //@ | body
  match m {
    f::Mapping::Alias(alias) => Ok(convert_alias(alias)),
    f::Mapping::Single(single) => convert_single(alias_mappings, single),
    f::Mapping::Row(row) => convert_row(alias_mappings, row),
    f::Mapping::RepeatOnlySingle(_) => Ok(vec![]),
  }
}

//@ C13 C14 | default: fn convert_alias
fn convert_alias(alias: &f::AliasMapping) -> (r: Vec<s::Mapping>)
  ensures
    //@ C13 | an alias definition is itself a mapping from its keys to its extra output keys, unless it is a lone modifier
    fts(r@) == (if alias.from.keys@.len() == 1 && is_modifier_spec(alias.from.keys@[0]) { Seq::<(Seq<KeyCode>, Seq<KeyCode>)>::empty() } else { seq![(alias.from.keys@, alias.to.initial@)] }),
    //@ C13 | ... with normal repeat and nothing absorbed
    forall|i: int| 0 <= i < r@.len() ==> crate::keys::rview((#[trigger] r@[i]).repeat) == crate::keys::RepeatV::Normal && r@[i].absorbing@.len() == 0,
  { //@ | body
  // This test tries to be clever about whethere the user
  // expects modifiers to pass-through.
  if !is_just_one_modifier(&alias.from.keys) {
    vec![s::Mapping {
      from: alias.from.keys.clone(),
      to: alias.to.initial.clone(),
      repeat: s::Repeat::Normal,
      absorbing: vec![]
    }]
  }
  else {
    vec![]
  }
}

/// C13, statement level: the (trigger, output) pairs a single mapping with alias modifiers stands for: one per combination, in combination order;
/// trigger = the combination's modifier keys + the trigger key, output = the output modifiers with aliases replaced + the output key
spec fn single_pairs(it: AliasCombinationIterable, tuples: Seq<Seq<usize>>, single: f::SingleMapping) -> Seq<(Seq<KeyCode>, Seq<KeyCode>)>
  decreases tuples.len()
{
  if tuples.len() == 0 { Seq::empty() } else {
    let t = tuples.last();
    single_pairs(it, tuples.drop_last(), single).push((from_mods_spec(it, t, it.modifiers@.len() as int).push(single.from.key),
      match translate_spec(it, t, single.to) { Some(v) => v, None => Seq::empty() }))
  }
}

/// C13: repeat mode and absorbing list of the mapping a single mapping yields for combination t: the repeat mode as written, the keys of a Special
/// repeat and the absorbing list with aliases replaced by the keys chosen on the trigger side
spec fn single_repeat_spec(it: AliasCombinationIterable, t: Seq<usize>, r: f::SingleRepeat) -> Option<crate::keys::RepeatV> {
  match r {
    f::SingleRepeat::Normal => Some(crate::keys::RepeatV::Normal),
    f::SingleRepeat::Disabled => Some(crate::keys::RepeatV::Disabled),
    f::SingleRepeat::Special { keys, delay_ms, interval_ms } => match translate_spec(it, t, keys) { Some(v) => Some(crate::keys::RepeatV::Special { keys: v, delay_ms, interval_ms }), None => None },
  }
}
spec fn single_extras(it: AliasCombinationIterable, tuples: Seq<Seq<usize>>, single: f::SingleMapping, ms: Seq<s::Mapping>) -> bool {
  ms.len() == tuples.len() && forall|i: int| 0 <= i < tuples.len() ==> single_repeat_spec(it, tuples[i], single.repeat) == Some(crate::keys::rview((#[trigger] ms[i]).repeat))
    && reify_spec(it, tuples[i], single.absorbing@, single.absorbing@.len() as int) == Some(ms[i].absorbing@)
}
/// C13, acceptance: what makes a single mapping unconvertible for combination t
spec fn single_fails_at(it: AliasCombinationIterable, t: Seq<usize>, single: f::SingleMapping) -> bool {
  translate_spec(it, t, single.to) is None || single_repeat_spec(it, t, single.repeat) is None || reify_spec(it, t, single.absorbing@, single.absorbing@.len() as int) is None
}
spec fn single_rej_w(table: Map<String, Vec<&AliasMapping>>, single: f::SingleMapping, it: AliasCombinationIterable, t: Seq<usize>) -> bool {
  it.built(table, single.from.modifiers@) && all_combos(it.q()).contains(t) && single_fails_at(it, t, single)
}
spec fn single_rejects(table: Map<String, Vec<&AliasMapping>>, single: f::SingleMapping) -> bool {
  undefined_alias(table, single.from.modifiers@) || exists|it: AliasCombinationIterable, t: Seq<usize>| #[trigger] single_rej_w(table, single, it, t)
}
//@ C13 C14 | default: fn convert_single
#[verifier::exec_allows_no_decreases_clause]
fn convert_single<'a>(alias_mappings: &'a HashMap<String, Vec<&'a f::AliasMapping>>, single: &f::SingleMapping) -> (r: Result<Vec<s::Mapping>, String>)
  requires
    //@ C14 | data-structure invariants that keep every index in bounds (panic-freedom of the converter)
    alias_table_ok(alias_mappings@),
  ensures
    //@ C13 | a single mapping with alias modifiers converts to exactly one mapping per combination of alias definitions (every combination once, in counting order), with the trigger and output the statement prescribes
    match r { Ok(v) => exists|it: AliasCombinationIterable| it.built(alias_mappings@, single.from.modifiers@) && fts(v@) == single_pairs(it, all_combos(it.q()), *single)
        //@ C13 | ... and each of them has the repeat mode as written (Special keys with aliases replaced) and the absorbing list with aliases replaced
        && single_extras(it, all_combos(it.q()), *single, v@), Err(_) => true },
    //@ C13 | acceptance: a single mapping is refused only if a trigger alias is undefined, or for some combination an output-side alias (output, repeat keys, absorbing list) does not occur on the trigger side
    r is Err ==> single_rejects(alias_mappings@, *single),
  { //@ | body
  let mut res = Vec::new();
  let modifier_combinations = build_combinations(alias_mappings, &single.from.modifiers)?;
  let mut __it = iterate_combinations(&modifier_combinations);
  //@ C13 | combinations handled so far
  let ghost mut seen: Seq<Seq<usize>> = Seq::empty(); let ghost mc = modifier_combinations; let ghost all = all_combos(modifier_combinations.q());
  proof { assert(fts(res@) =~= Seq::empty()); assert(all =~= seen + __it.rem()); }
  loop
    invariant
      //@ C14 | data-structure invariants that keep every index in bounds (panic-freedom of the converter)
      __it.wf(),
      //@ C13 | the mappings produced so far are those of the combinations handled so far, in order; handled + remaining = all
      __it.itv() == mc, mc == modifier_combinations, all == seen + __it.rem(), all == all_combos(mc.q()), mc.built(alias_mappings@, single.from.modifiers@),
      fts(res@) == single_pairs(mc, seen, *single),
      //@ C13 | repeat mode and absorbing list of the mappings produced so far
      single_extras(mc, seen, *single, res@),
    ensures
      //@ C13 | every combination has been handled
      seen == all,
    { //@ | body
    //@ C13 | bookkeeping of the enumeration
    let ghost rem0 = __it.rem();
    match __it.next() { None => { proof { assert(rem0 =~= Seq::empty()); assert(__it.rem() =~= Seq::empty()); assert(seen + rem0 =~= seen); } break; }, Some(modifier_combination) => {
    //@ C13 | the combination of this iteration
    let ghost t = modifier_combination.tv(); let ghost res0 = res@;
    proof { assert(rem0 == seq![t] + __it.rem()); assert(seen.push(t) + __it.rem() =~= seen + rem0); }
    //@ C13 | acceptance: t is one of the combinations; a failure below is a failure for t
    proof { assert(all[seen.len() as int] == t); assert(all.contains(t));
      assert(single_fails_at(mc, t, *single) ==> single_rej_w(alias_mappings@, *single, mc, t)); }
    //@ C13 | the combination of this iteration
    let mut from = modifier_combination.from_modifiers().clone();
    from.push(single.from.key.clone());

    let to = modifier_combination.translate_single_to_keys(&single.to)?;
    //@ C13 | trigger and output of the mapping of this combination
    let ghost fg = from@; let ghost tg = to@;

    let repeat = match &single.repeat {
      f::SingleRepeat::Normal => s::Repeat::Normal,
      f::SingleRepeat::Disabled => s::Repeat::Disabled,
      f::SingleRepeat::Special { keys, delay_ms, interval_ms } => s::Repeat::Special {
        keys: modifier_combination.translate_single_to_keys(&keys)?,
        delay_ms: *delay_ms,
        interval_ms: *interval_ms
      }
    };

    let absorbing = modifier_combination.reify_modifiers(&single.absorbing)?;

    res.push(s::Mapping {
      from,
      to,
      repeat,
      absorbing
    });
    //@ C13 | one more combination handled
    proof { lemma_fts_push(res0, res@.last()); assert(res@ == res0.push(res@.last()));
      let s2 = seen.push(t); assert(s2.drop_last() =~= seen); assert(s2.last() == t);
      assert forall|i: int| 0 <= i < s2.len() implies single_repeat_spec(mc, s2[i], single.repeat) == Some(crate::keys::rview((#[trigger] res@[i]).repeat))
        && reify_spec(mc, s2[i], single.absorbing@, single.absorbing@.len() as int) == Some(res@[i].absorbing@) by { if i < seen.len() { assert(res@[i] == res0[i]); assert(s2[i] == seen[i]); } }
      seen = s2; }
      } }
  }
  Ok(res)
}

enum RowRepeatTemplate {
  Normal,
  Disabled,
  Special {
    modifiers: Vec<KeyCode>,
    terminal: Vec<char>,
    delay_ms: i32,
    interval_ms: i32
  }
}

/// C13, statement level: the (trigger, output) pairs a row shorthand stands for, for ONE combination of alias definitions whose trigger-side modifier
/// keys are fm and whose output-side modifier keys are tm: one pair per non-space letter among the first n letters, in letter order; the trigger is fm
/// followed by the key in the letter's column of the physical row, the output is row_to_spec of the letter
pub open spec fn row_chunk(fm: Seq<KeyCode>, tm: Seq<KeyCode>, row: Seq<KeyCode>, letters: Seq<char>, n: int) -> Seq<(Seq<KeyCode>, Seq<KeyCode>)>
  decreases n
{
  if n <= 0 { Seq::empty() } else {
    let prev = row_chunk(fm, tm, row, letters, n - 1);
    if letters[n - 1] == ' ' { prev } else { match row_to_spec(fm.contains(KeyCode::RIGHTSHIFT), tm, letters[n - 1]) { Some(to) => prev.push((fm.push(row[n - 1]), to)), None => prev } }
  }
}
/// ... and for the combinations `tuples` of the iterable, in combination order: fm / tm are the trigger-side / output-side modifier keys of each combination
spec fn row_pairs(it: AliasCombinationIterable, tuples: Seq<Seq<usize>>, rm: f::RowMapping, row: Seq<KeyCode>) -> Seq<(Seq<KeyCode>, Seq<KeyCode>)>
  decreases tuples.len()
{
  if tuples.len() == 0 { Seq::empty() } else {
    let t = tuples.last();
    row_pairs(it, tuples.drop_last(), rm, row)
      + row_chunk(from_mods_spec(it, t, it.modifiers@.len() as int), match reify_spec(it, t, rm.to.initial@, rm.to.initial@.len() as int) { Some(v) => v, None => Seq::empty() },
                  row, rm.to.terminal@, rm.to.terminal@.len() as int)
  }
}
/// the (trigger, output) pairs of a list of basic mappings
pub open spec fn fts(ms: Seq<s::Mapping>) -> Seq<(Seq<KeyCode>, Seq<KeyCode>)> { ms.map_values(|m: s::Mapping| (m.from@, m.to@)) }
proof fn lemma_fts_push(ms: Seq<s::Mapping>, m: s::Mapping)
  ensures fts(ms.push(m)) == fts(ms).push((m.from@, m.to@))
{ assert(fts(ms.push(m)) =~= fts(ms).push((m.from@, m.to@))); }

/// C13: repeat mode of the mapping a row yields for combination t and letter column c: as written; for a Special repeat the letter in column c of the
/// repeat letters is typed like an output letter (after the repeat modifiers, aliases replaced); no repeat letter in that column (or a space) means Normal
spec fn row_repeat_spec(it: AliasCombinationIterable, t: Seq<usize>, c: int, rm: f::RowMapping) -> Option<crate::keys::RepeatV> {
  match rm.repeat {
    f::RowRepeat::Normal => Some(crate::keys::RepeatV::Normal),
    f::RowRepeat::Disabled => Some(crate::keys::RepeatV::Disabled),
    f::RowRepeat::Special { keys, delay_ms, interval_ms } => match reify_spec(it, t, keys.initial@, keys.initial@.len() as int) {
      None => None,
      Some(rmods) => if c >= keys.terminal@.len() || keys.terminal@[c] == ' ' { Some(crate::keys::RepeatV::Normal) } else {
        match row_to_spec(from_mods_spec(it, t, it.modifiers@.len() as int).contains(KeyCode::RIGHTSHIFT), rmods, keys.terminal@[c]) { Some(k) => Some(crate::keys::RepeatV::Special { keys: k, delay_ms, interval_ms }), None => None } } },
  }
}
/// m is the mapping the row yields for combination t and letter column c
spec fn row_item_ok(it: AliasCombinationIterable, t: Seq<usize>, c: int, rm: f::RowMapping, row: Seq<KeyCode>, m: s::Mapping) -> bool {
  0 <= c < rm.to.terminal@.len() && rm.to.terminal@[c] != ' ' && c < row.len()
  && m.from@ == from_mods_spec(it, t, it.modifiers@.len() as int).push(row[c])
  && reify_spec(it, t, rm.absorbing@, rm.absorbing@.len() as int) == Some(m.absorbing@)
  && row_repeat_spec(it, t, c, rm) == Some(crate::keys::rview(m.repeat))
}
spec fn item_has(it: AliasCombinationIterable, rm: f::RowMapping, row: Seq<KeyCode>, m: s::Mapping) -> bool { exists|t: Seq<usize>, c: int| #[trigger] row_item_ok(it, t, c, rm, row, m) }
spec fn row_extras(it: AliasCombinationIterable, rm: f::RowMapping, row: Seq<KeyCode>, ms: Seq<s::Mapping>) -> bool {
  forall|i: int| 0 <= i < ms.len() ==> item_has(it, rm, row, #[trigger] ms[i])
}
/// what the per-combination repeat template holds
spec fn template_ok(tp: RowRepeatTemplate, it: AliasCombinationIterable, t: Seq<usize>, rm: f::RowMapping) -> bool {
  match rm.repeat {
    f::RowRepeat::Normal => tp is Normal,
    f::RowRepeat::Disabled => tp is Disabled,
    f::RowRepeat::Special { keys, delay_ms, interval_ms } => match tp {
      RowRepeatTemplate::Special { modifiers, terminal, delay_ms: d2, interval_ms: i2 } => reify_spec(it, t, keys.initial@, keys.initial@.len() as int) == Some(modifiers@) && terminal@ == keys.terminal@ && d2 == delay_ms && i2 == interval_ms,
      _ => false },
  }
}
/// C13, acceptance: letter column c of a row mapping cannot be converted for combination t: the character cannot be typed on a US keyboard, its repeat
/// letter cannot, or an alias of the absorbing list does not occur on the trigger side
spec fn row_letter_fails(it: AliasCombinationIterable, t: Seq<usize>, rm: f::RowMapping, c: int) -> bool {
  0 <= c < rm.to.terminal@.len() && rm.to.terminal@[c] != ' ' && (
    (match reify_spec(it, t, rm.to.initial@, rm.to.initial@.len() as int) { Some(tm) => row_to_spec(from_mods_spec(it, t, it.modifiers@.len() as int).contains(KeyCode::RIGHTSHIFT), tm, rm.to.terminal@[c]) is None, None => true })
    || row_repeat_spec(it, t, c, rm) is None
    || reify_spec(it, t, rm.absorbing@, rm.absorbing@.len() as int) is None)
}
/// ... the row mapping cannot be converted for combination t: an output-side alias (output, repeat keys) does not occur on the trigger side, the repeat has
/// more letters than the output, the row is unknown or has fewer keys than there are letters, or some letter fails
spec fn row_fails_at(it: AliasCombinationIterable, t: Seq<usize>, rm: f::RowMapping) -> bool {
  reify_spec(it, t, rm.to.initial@, rm.to.initial@.len() as int) is None
  || (match rm.repeat { f::RowRepeat::Special { keys, delay_ms, interval_ms } => keys.terminal@.len() > rm.to.terminal@.len() || reify_spec(it, t, keys.initial@, keys.initial@.len() as int) is None, _ => false })
  || (match crate::physical_keyboard_layouts::ukl_row(rm.from.row) { Some(row) => rm.to.terminal@.len() > row.len(), None => true })
  || exists|c: int| #[trigger] row_letter_fails(it, t, rm, c)
}
spec fn row_rej_w(table: Map<String, Vec<&AliasMapping>>, rm: f::RowMapping, it: AliasCombinationIterable, t: Seq<usize>) -> bool {
  it.built(table, rm.from.modifiers@) && all_combos(it.q()).contains(t) && row_fails_at(it, t, rm)
}
spec fn row_rejects(table: Map<String, Vec<&AliasMapping>>, rm: f::RowMapping) -> bool {
  undefined_alias(table, rm.from.modifiers@) || exists|it: AliasCombinationIterable, t: Seq<usize>| #[trigger] row_rej_w(table, rm, it, t)
}
//@ C13 C14 | default: fn convert_row
#[verifier::exec_allows_no_decreases_clause]
fn convert_row<'t>(alias_mappings: &'t HashMap<String, Vec<&'t f::AliasMapping>>, row_mapping: &f::RowMapping) -> (r: Result<Vec<s::Mapping>, String>)
  requires
    //@ C14 | data-structure invariants that keep every index in bounds (panic-freedom of the converter)
    alias_table_ok(alias_mappings@),
  ensures
    //@ C13 | a row shorthand converts to exactly: for each combination of alias definitions in turn, one mapping per non-space letter in letter order, with trigger = the combination's modifier keys + the key in the letter's column of the row, output = the output modifiers + the Shift the character needs (right Shift iff the trigger has right Shift) + the key of the character
    match r { Ok(v) => (match crate::physical_keyboard_layouts::ukl_row(row_mapping.from.row) {
        Some(row) => exists|it: AliasCombinationIterable| #[trigger] it.built(alias_mappings@, row_mapping.from.modifiers@) && fts(v@) == row_pairs(it, all_combos(it.q()), *row_mapping, row)
          //@ C13 | ... and each of them has the repeat mode the statement prescribes for its combination and letter column, and the absorbing list with aliases replaced
          && row_extras(it, *row_mapping, row, v@),
        None => v@.len() == 0 }), Err(_) => true },
    //@ C13 | acceptance: a row mapping is refused only for one of the reasons of row_rejects (undefined alias; for some combination: output-side alias not on the trigger side, repeat longer than the output, unknown or too short row, a character that cannot be typed)
    r is Err ==> row_rejects(alias_mappings@, *row_mapping),
  { //@ | body
  proof { axiom_fmt_user_types(); }
  broadcast use vstd::std_specs::fmt::group_fmt_axioms;
  let mut res = Vec::new();
  let modifier_combinations = build_combinations(alias_mappings, &row_mapping.from.modifiers)?;
  let mut __it = iterate_combinations(&modifier_combinations);
  //@ C13 | combinations handled so far
  let ghost mut seen: Seq<Seq<usize>> = Seq::empty(); let ghost mc = modifier_combinations; let ghost all = all_combos(modifier_combinations.q());
  let ghost rowo = crate::physical_keyboard_layouts::ukl_row(row_mapping.from.row); let ghost letters = row_mapping.to.terminal@;
  proof { assert(fts(res@) =~= Seq::empty()); assert(all =~= seen + __it.rem()); }
  loop
    invariant
      //@ C14 | data-structure invariants that keep every index in bounds (panic-freedom of the converter)
      __it.wf(),
      vstd::std_specs::fmt::fmt_req_all::<f::Row>(),
      //@ C13 | the mappings produced so far are those of the combinations handled so far, in order; handled + remaining = all
      rowo == crate::physical_keyboard_layouts::ukl_row(row_mapping.from.row), letters == row_mapping.to.terminal@,
      __it.itv() == mc, mc == modifier_combinations, all == seen + __it.rem(), all == all_combos(mc.q()), mc.built(alias_mappings@, row_mapping.from.modifiers@),
      match rowo { Some(row) => fts(res@) == row_pairs(mc, seen, *row_mapping, row) && row_extras(mc, *row_mapping, row, res@), None => res@.len() == 0 },
    ensures
      //@ C13 | every combination has been handled
      seen == all,
    { //@ | body
    //@ C13 | bookkeeping of the enumeration
    let ghost rem0 = __it.rem();
    match __it.next() { None => { proof { assert(rem0 =~= Seq::empty()); assert(__it.rem() =~= Seq::empty()); assert(seen + rem0 =~= seen); } break; }, Some(modifier_combination) => {
    //@ C13 | the combination of this iteration
    let ghost t = modifier_combination.tv();
    proof { assert(rem0 == seq![t] + __it.rem()); assert(seen.push(t) + __it.rem() =~= seen + rem0); }
    //@ C13 | acceptance: t is one of the combinations; a failure below is a failure for t
    proof { assert(all[seen.len() as int] == t); assert(all.contains(t));
      assert(row_fails_at(mc, t, *row_mapping) ==> row_rej_w(alias_mappings@, *row_mapping, mc, t)); }
    //@ C13 | the combination of this iteration
    let from_modifiers = modifier_combination.from_modifiers().clone();
    let to_modifiers = modifier_combination.reify_modifiers(&row_mapping.to.initial)?;
    
    let repeat_template = match &row_mapping.repeat {
      f::RowRepeat::Normal => RowRepeatTemplate::Normal,
      f::RowRepeat::Disabled => RowRepeatTemplate::Disabled,
      f::RowRepeat::Special { keys, delay_ms, interval_ms } => {
        let num_repeat_chars = keys.terminal.chars().count();
        let num_to_chars = row_mapping.to.terminal.chars().count();
        //@ C13 | acceptance: the two counts are the numbers of letters
        proof { assert(num_repeat_chars == keys.terminal@.len()); assert(num_to_chars == row_mapping.to.terminal@.len()); }
        //@ C13 | the combination of this iteration
        if num_repeat_chars > num_to_chars {
          return Err(format!("Row mapping has more letters in its `repeat` ({} = {}) than its `to` ({} = {}). This is not allowed because it is not clear how such keys should be mapped. Use individual mappings instead.",
            keys.terminal,
            num_repeat_chars,
            row_mapping.to.terminal,
            num_to_chars
          ));
        }
        
        RowRepeatTemplate::Special {
          modifiers: modifier_combination.reify_modifiers(&keys.initial)?,
          terminal: keys.terminal.chars().collect(),
          delay_ms: *delay_ms,
          interval_ms: *interval_ms
        }
      }
    };
    
    use crate::physical_keyboard_layouts::US_KEYBOARD_LAYOUT;
    let from_physical_row = US_KEYBOARD_LAYOUT.get(&row_mapping.from.row)
      .ok_or(format!("Don't have data for row {}", row_mapping.from.row))?;
      
    let has_right_shift = find_right_shift(&from_modifiers);
    let to_terminals: Vec<char> = row_mapping.to.terminal.chars().collect();
    //@ C13 | this combination: its trigger-side and output-side modifier keys, the physical row, the letters
    let ghost ft0 = fts(res@); let ghost row = (**from_physical_row)@; let ghost fm = from_modifiers@; let ghost tm = to_modifiers@;
    proof { assert(rowo == Some(row)); assert(to_terminals@ == letters); assert(template_ok(repeat_template, mc, t, *row_mapping)); }
    
    for char_i in 0..to_terminals.len()
      invariant
        //@ C14 | data-structure invariants that keep every index in bounds (panic-freedom of the converter)
        modifier_combination.wf(),
        vstd::std_specs::fmt::fmt_req_all::<f::Row>(),
        //@ C13 | one mapping per non-space letter handled so far, in letter order, with the trigger and output the statement prescribes
        fts(res@) == ft0 + row_chunk(fm, tm, row, letters, char_i as int),
        row == (**from_physical_row)@, fm == from_modifiers@, tm == to_modifiers@, to_terminals@ == letters, has_right_shift == fm.contains(KeyCode::RIGHTSHIFT),
        //@ C13 | repeat mode and absorbing list of every mapping produced so far
        row_extras(mc, *row_mapping, row, res@), template_ok(repeat_template, mc, t, *row_mapping), modifier_combination.itv() == mc, modifier_combination.tv() == t,
        fm == from_mods_spec(mc, t, mc.modifiers@.len() as int), letters == row_mapping.to.terminal@,
        //@ C13 | acceptance: what a failure inside this loop means
        mc.built(alias_mappings@, row_mapping.from.modifiers@), all_combos(mc.q()).contains(t),
        reify_spec(mc, t, row_mapping.to.initial@, row_mapping.to.initial@.len() as int) == Some(tm),
        crate::physical_keyboard_layouts::ukl_row(row_mapping.from.row) == Some(row),
      { //@ | body
      //@ C13 | acceptance: a failure for this letter is a failure of the row mapping for t
      proof { assert(row_letter_fails(mc, t, *row_mapping, char_i as int) ==> row_fails_at(mc, t, *row_mapping));
        assert(row_fails_at(mc, t, *row_mapping) ==> row_rej_w(alias_mappings@, *row_mapping, mc, t)); }
      //@ C13 | one mapping per non-space letter handled so far, in letter order, with the trigger and output the statement prescribes
      if char_i >= from_physical_row.len() {
        return Err(format!("Don't know which keycode is at index {} in row {:?}", char_i, row_mapping.from.row));
      }
      
      let to = convert_row_to(has_right_shift, &to_modifiers, &to_terminals, char_i)?;
      //@ C13 | a space produces no mapping
      proof { if to is None { assert(row_chunk(fm, tm, row, letters, char_i as int + 1) == row_chunk(fm, tm, row, letters, char_i as int)); } }
      if let Some(to) = to {
        let mut from = from_modifiers.clone();
        from.push(from_physical_row[char_i]);
        
        let repeat = match &repeat_template {
          RowRepeatTemplate::Normal => s::Repeat::Normal,
          RowRepeatTemplate::Disabled => s::Repeat::Disabled,
          RowRepeatTemplate::Special { modifiers, terminal, delay_ms, interval_ms } => {
            match convert_row_to(has_right_shift, &modifiers, &terminal, char_i)? {
              None => s::Repeat::Normal,
              Some(keys) => s::Repeat::Special { keys, delay_ms: *delay_ms, interval_ms: *interval_ms }
            }
          }
        };

        let absorbing = modifier_combination.reify_modifiers(&row_mapping.absorbing)?;

        //@ C13 | the mapping of this letter
        let ghost res0 = res@; let ghost fg = from@; let ghost tg = to@;
        res.push(s::Mapping {
          from,
          to,
          repeat,
          absorbing
        });
        //@ C13 | repeat mode and absorbing list of the mapping of this letter
        proof { assert(row_item_ok(mc, t, char_i as int, *row_mapping, row, res@.last()));
          assert forall|i: int| 0 <= i < res@.len() implies item_has(mc, *row_mapping, row, #[trigger] res@[i]) by {
            if i < res0.len() { assert(res@[i] == res0[i]); assert(item_has(mc, *row_mapping, row, res0[i])); }
            else { assert(res@[i] == res@.last()); } } }
        //@ C13 | the mapping of this letter
        proof { lemma_fts_push(res0, res@.last()); assert(res@ == res0.push(res@.last()));
          assert(row_chunk(fm, tm, row, letters, char_i as int + 1) == row_chunk(fm, tm, row, letters, char_i as int).push((fg, tg)));
          assert(ft0 + row_chunk(fm, tm, row, letters, char_i as int).push((fg, tg)) =~= (ft0 + row_chunk(fm, tm, row, letters, char_i as int)).push((fg, tg))); }
      }
    }
    //@ C13 | this combination is done
    proof { let s2 = seen.push(t); assert(s2.drop_last() =~= seen); assert(s2.last() == t); seen = s2; }
      } }
  }
  //@ C13 | the iterable built above is the witness
  proof { match rowo { Some(row) => { assert(mc.built(alias_mappings@, row_mapping.from.modifiers@) && fts(res@) == row_pairs(mc, all_combos(mc.q()), *row_mapping, row) && row_extras(mc, *row_mapping, row, res@)); }, None => {} } }
  Ok(res)
}

//@ C13 C14 | default: fn find_right_shift
fn find_right_shift(from: &Vec<KeyCode>) -> (r: bool)
  ensures
    //@ C13 | right-Shift rule: true iff the trigger contains right Shift
    r == from@.contains(KeyCode::RIGHTSHIFT),
  { //@ | body
  for k in it: from
    invariant
      //@ C13 | right-Shift rule: no right Shift among the keys scanned so far
      it.seq().len() == from@.len(), forall|j: int| 0 <= j < from@.len() ==> *it.seq()[j] == from@[j],
      forall|j: int| 0 <= j < it.index@ ==> from@[j] != KeyCode::RIGHTSHIFT,
    { //@ | body
    if *k == KeyCode::RIGHTSHIFT {
      return true;
    }
  }
  return false;
}

/// C13, statement level: the keys that type character ch after the output modifiers `mods`: the Shift a US-QWERTY keyboard needs for it
/// (right Shift if the trigger contains right Shift), then the key; None if the table has no entry for ch
pub open spec fn shift_key(has_right_shift: bool) -> KeyCode { if has_right_shift { KeyCode::RIGHTSHIFT } else { KeyCode::LEFTSHIFT } }
pub open spec fn row_to_spec(has_right_shift: bool, mods: Seq<KeyCode>, ch: char) -> Option<Seq<KeyCode>> {
  match crate::char_production_map::cam_entry(ch) { None => None, Some((sh, k)) => Some(if sh { mods.push(shift_key(has_right_shift)).push(k) } else { mods.push(k) }) }
}

//@ C13 C14 | default: fn convert_row_to
fn convert_row_to(has_right_shift: bool, modifiers: &Vec<KeyCode>, terminals: &Vec<char>, char_i: usize) -> (r: Result<Option<Vec<KeyCode>>, String>)
  ensures
    //@ C13 | per-letter rule: nothing for a missing letter or a space; otherwise the output modifiers, the Shift the character needs (right Shift iff the trigger has right Shift), the key of the character; an error iff the table has no entry
    match r {
      Ok(None) => char_i >= terminals@.len() || terminals@[char_i as int] == ' ',
      Ok(Some(to)) => char_i < terminals@.len() && terminals@[char_i as int] != ' ' && row_to_spec(has_right_shift, modifiers@, terminals@[char_i as int]) == Some(to@),
      Err(_) => char_i < terminals@.len() && terminals@[char_i as int] != ' ' && row_to_spec(has_right_shift, modifiers@, terminals@[char_i as int]) is None,
    },
  { //@ | body
  use crate::char_production_map::CHAR_ACCESS_MAP;
  if char_i >= terminals.len() {
    Ok(None)
  }
  else {
    let ch = terminals[char_i];
    // Space is considered unmapped
    if ch == ' ' {
      Ok(None)
    }
    else {
      match CHAR_ACCESS_MAP.get(&ch) {
        None => {
          Err(format!("Don't know how to produce char '{}' on a US keyboard", ch))
        }
        Some(sk) => {
          let mut to = modifiers.clone();
          if sk.sh {
            to.push(if has_right_shift {KeyCode::RIGHTSHIFT} else {KeyCode::LEFTSHIFT});
          }
          to.push(sk.k);
          Ok(Some(to))
        }
      }
    }
  }
}

//@ C13 C14 | default: fn is_just_one_modifier
fn is_just_one_modifier(ks: &Vec<KeyCode>) -> (r: bool)
  ensures
    //@ C13 | exact test: a one-element list holding a modifier
    r == (ks@.len() == 1 && is_modifier_spec(ks@[0])),
  { //@ | body
  if ks.len() == 1 {
    is_modifier(&ks[0])
  }
  else {
    false
  }
}

//@ C13 C14 | default: fn is_modifier
fn is_modifier(k: &KeyCode) -> (r: bool)
  ensures
    //@ C13 | exact test: one of the eight modifier keys
    r == is_modifier_spec(*k),
  { //@ | body
  use crate::key_codes::KeyCode::*;
  match k {
    LEFTSHIFT => true,
    RIGHTSHIFT => true,
    LEFTALT => true,
    RIGHTALT => true,
    LEFTCTRL => true,
    RIGHTCTRL => true,
    LEFTMETA => true,
    RIGHTMETA => true,
    _ => false
  }
}


//@ C14 | default: fn n_alias
// ---------- spec: alias-combination data structure ----------
pub open spec fn n_alias(mods: Seq<f::Modifier>, n: int) -> int
  decreases n
{ if n <= 0 { 0 } else { n_alias(mods, n - 1) + (if mods[n - 1] is Alias { 1int } else { 0int }) } }
//@ C14 | default: fn lemma_n_alias_mono
proof fn lemma_n_alias_mono(mods: Seq<f::Modifier>, a: int, b: int)
  requires 0 <= a <= b <= mods.len()
  ensures 0 <= n_alias(mods, a) <= n_alias(mods, b) <= b
  decreases b
{ if b > a { lemma_n_alias_mono(mods, a, b - 1); } else if b > 0 { lemma_n_alias_mono(mods, 0, b - 1); } }
//@ C14 | default: fn axiom_string_key_model
#[verifier::external_body]
pub proof fn axiom_string_key_model() ensures vstd::std_specs::hash::obeys_key_model::<String>() {}
//@ C14 | default: fn axiom_fmt_user_types
#[verifier::external_body]
pub proof fn axiom_fmt_user_types() ensures vstd::std_specs::fmt::fmt_req_all::<f::Row>(), vstd::std_specs::fmt::fmt_req_all::<f::Modifier>(), vstd::std_specs::fmt::fmt_req_all::<KeyCode>(), vstd::std_specs::fmt::fmt_req_all::<Vec<KeyCode>>() {}

struct AliasCombinationIterable<'t> {
  modifiers: &'t Vec<f::Modifier>,
  alias_quantities: Vec<usize>,
  alias_found_mappings: Vec<&'t Vec<&'t AliasMapping>>,
  alias_map: HashMap<String, usize>
}

//@ C14 | default: impl AliasCombinationIterable<'t>
impl <'t> AliasCombinationIterable<'t> {
  pub closed spec fn wf(&self) -> bool {
    &&& self.alias_quantities@.len() == self.alias_found_mappings@.len()
    &&& self.alias_quantities@.len() == n_alias(self.modifiers@, self.modifiers@.len() as int)
    &&& forall|j: int| 0 <= j < self.alias_quantities@.len() ==> (#[trigger] self.alias_quantities@[j]) == self.alias_found_mappings@[j]@.len() && self.alias_quantities@[j] >= 1
    &&& forall|name: String| #[trigger] self.alias_map@.contains_key(name) ==> self.alias_map@[name] < self.alias_quantities@.len()
  }
  pub closed spec fn q(&self) -> Seq<usize> { self.alias_quantities@ }
  /// C13: how the iterable relates to the alias table and the trigger-side modifiers it was built from: same modifiers; the alias with ordinal j
  /// (the j-th alias modifier of the trigger) has the definitions the table lists for its name, in table order; a name maps to the ordinal of its
  /// LAST occurrence on the trigger side
  spec fn built(&self, table: Map<String, Vec<&'t AliasMapping>>, mods: Seq<f::Modifier>) -> bool {
    &&& self.modifiers@ == mods
    &&& forall|i: int| 0 <= i < mods.len() ==> occ_ok(*self, table, mods, i)
    &&& forall|name: String| #[trigger] self.alias_map@.contains_key(name) ==> exists|i: int| #[trigger] last_occ(mods, mods.len() as int, name, i) && self.alias_map@[name] == n_alias(mods, i)
  }
}
spec fn occ_ok<'t>(it: AliasCombinationIterable<'t>, table: Map<String, Vec<&'t AliasMapping>>, mods: Seq<f::Modifier>, i: int) -> bool {
  match mods[i] {
    f::Modifier::Alias(a) => table.contains_key(a) && n_alias(mods, i) < it.alias_found_mappings@.len() && *it.alias_found_mappings@[n_alias(mods, i)] == table[a] && it.alias_map@.contains_key(a),
    f::Modifier::Key(_) => true,
  }
}
/// i is the last position below n at which the alias `name` occurs among the modifiers
spec fn last_occ(mods: Seq<f::Modifier>, n: int, name: String, i: int) -> bool {
  0 <= i < n && i < mods.len() && mods[i] == f::Modifier::Alias(name) && forall|i2: int| i < i2 < n && i2 < mods.len() ==> #[trigger] mods[i2] != f::Modifier::Alias(name)
}
struct AliasCombinationIterator<'s, 't> {
  iterable: &'s AliasCombinationIterable<'t>,
  combinations: MultiplyIter<'s>
}

//@ C14 | default: fn afm_len
pub open spec fn afm_len<'a>(v: &Vec<&'a Vec<&'a AliasMapping>>) -> nat { v@.len() }
//@ C14 | default: fn afm_at
pub open spec fn afm_at<'a>(v: &Vec<&'a Vec<&'a AliasMapping>>, j: int) -> nat { v@[j]@.len() }
//@ C14 | default: fn atab
pub open spec fn atab<'a>(m: &HashMap<String, Vec<&'a AliasMapping>>) -> Map<String, Vec<&'a AliasMapping>> { m@ }
//@ C14 | default: fn uv
pub open spec fn uv(v: &Vec<usize>) -> Seq<usize> { v@ }
//@ C14 | default: fn smap
pub open spec fn smap(m: &HashMap<String, usize>) -> Map<String, usize> { m@ }
//@ C14 | default: fn alias_table_ok
pub open spec fn alias_table_ok(t: Map<String, Vec<&AliasMapping>>) -> bool { forall|name: String| #[trigger] t.contains_key(name) ==> t[name]@.len() >= 1 }

spec fn occ_part_v<'a>(afm: Seq<&'a Vec<&'a AliasMapping>>, amap: Map<String, usize>, table: Map<String, Vec<&'a AliasMapping>>, mods: Seq<f::Modifier>, i: int) -> bool {
  match mods[i] {
    f::Modifier::Alias(a) => table.contains_key(a) && n_alias(mods, i) < afm.len() && *afm[n_alias(mods, i)] == table[a] && amap.contains_key(a),
    f::Modifier::Key(_) => true,
  }
}
spec fn occ_part<'a>(v: &Vec<&'a Vec<&'a AliasMapping>>, amap: Map<String, usize>, table: Map<String, Vec<&'a AliasMapping>>, mods: Seq<f::Modifier>, i: int) -> bool { occ_part_v(v@, amap, table, mods, i) }
proof fn lemma_n_alias_step(mods: Seq<f::Modifier>, i: int)
  requires 0 <= i < mods.len()
  ensures n_alias(mods, i + 1) == n_alias(mods, i) + (if mods[i] is Alias { 1int } else { 0int })
{}
/// C13, acceptance: a trigger names an alias that has no definition
pub open spec fn undefined_alias(table: Map<String, Vec<&AliasMapping>>, mods: Seq<f::Modifier>) -> bool {
  exists|i: int| 0 <= i < mods.len() && (match #[trigger] mods[i] { f::Modifier::Alias(a) => !table.contains_key(a), _ => false })
}
//@ C13 C14 | default: fn build_combinations
fn build_combinations<'t>(alias_mappings: &'t HashMap<String, Vec<&'t AliasMapping>>, modifiers: &'t Vec<f::Modifier>) -> (r: Result<AliasCombinationIterable<'t>, String>)
  requires
    //@ C14 | data-structure invariants that keep every index in bounds (panic-freedom of the converter)
    alias_table_ok(alias_mappings@),
  ensures
    //@ C14 | data-structure invariants that keep every index in bounds (panic-freedom of the converter)
    match r { Ok(it) => it.wf(), Err(_) => true },
    //@ C13 | the iterable holds, for each trigger-side alias in order, the definitions the table lists for it, and maps each alias name to its last trigger-side occurrence
    match r { Ok(it) => it.built(alias_mappings@, modifiers@), Err(_) => true },
    //@ C13 | acceptance: the only reason to refuse a list of trigger modifiers is an alias that is not defined
    r is Err ==> undefined_alias(alias_mappings@, modifiers@),
  { //@ | body
  proof { axiom_string_key_model(); assert(vstd::std_specs::hash::builds_valid_hashers::<std::collections::hash_map::RandomState>()); }
  broadcast use vstd::std_specs::hash::group_hash_axioms;
  let mut alias_quantities = Vec::new();
  let mut alias_found_mappings = Vec::new();
  let mut alias_map = HashMap::new();
  //@ C13 | number of modifiers scanned
  let ghost mut done: int = 0;
  
  for i in 0..modifiers.len()
    invariant
      //@ C14 | data-structure invariants that keep every index in bounds (panic-freedom of the converter)
      alias_table_ok(alias_mappings@),
      uv(&alias_quantities).len() == afm_len(&alias_found_mappings),
      uv(&alias_quantities).len() == n_alias(modifiers@, i as int),
      forall|j: int| 0 <= j < uv(&alias_quantities).len() ==> (#[trigger] uv(&alias_quantities)[j]) == afm_at(&alias_found_mappings, j) && uv(&alias_quantities)[j] >= 1,
      forall|name: String| #[trigger] smap(&alias_map).contains_key(name) ==> smap(&alias_map)[name] < uv(&alias_quantities).len(),
      smap(&alias_map) == alias_map@,
      //@ C13 | the part of the iterable built so far agrees with the table and the modifiers scanned so far
      forall|i2: int| 0 <= i2 < i ==> occ_part(&alias_found_mappings, smap(&alias_map), alias_mappings@, modifiers@, i2),
      done == i as int,
      forall|name: String| #[trigger] smap(&alias_map).contains_key(name) ==> exists|i2: int| #[trigger] last_occ(modifiers@, done, name, i2) && smap(&alias_map)[name] == n_alias(modifiers@, i2),
    { //@ | body
    proof { axiom_string_key_model(); assert(vstd::std_specs::hash::builds_valid_hashers::<std::collections::hash_map::RandomState>()); }
    let m = &modifiers[i];
    //@ C13 | bookkeeping for the modifier of this iteration
    let ghost iq = i as int; let ghost afm0 = alias_found_mappings@; let ghost amap0 = smap(&alias_map);
    proof { lemma_n_alias_mono(modifiers@, 0, iq);
      assert forall|i2: int| 0 <= i2 < iq implies occ_part_v(afm0, amap0, alias_mappings@, modifiers@, i2) by { assert(occ_part(&alias_found_mappings, smap(&alias_map), alias_mappings@, modifiers@, i2)); } }
    match m {
      f::Modifier::Alias(alias) => {
        //@ C13 | acceptance: the alias of this iteration
        proof { assert(modifiers@[iq] == f::Modifier::Alias(*alias)); }
        let mappings = alias_mappings.get(alias).ok_or(format!("Alias {} is undefined", alias))?;
        //@ C13 | bookkeeping for the modifier of this iteration
        let i = alias_quantities.len();
        alias_quantities.push(mappings.len());
        alias_found_mappings.push(mappings);
        let ghost am0 = smap(&alias_map);
        proof { assert forall|name: String| am0.contains_key(name) implies am0[name] < i by { assert(smap(&alias_map).contains_key(name)); } }
        alias_map.insert(alias.clone(), i);
        proof { assert forall|name: String| #[trigger] alias_map@.contains_key(name) implies alias_map@[name] < alias_quantities@.len() by { assert(i + 1 == alias_quantities@.len()); if am0.contains_key(name) { assert(am0[name] < i); } } }
        //@ C13 | the new alias: its definitions are the table's, its name now maps to this (latest) occurrence; earlier occurrences keep their definitions
        proof {
          assert(alias_map@ == am0.insert(*alias, i));
          assert(modifiers@[iq] == f::Modifier::Alias(*alias));
          assert(i == n_alias(modifiers@, iq));
          assert forall|i2: int| 0 <= i2 < iq + 1 implies occ_part(&alias_found_mappings, smap(&alias_map), alias_mappings@, modifiers@, i2) by {
            if i2 < iq { assert(occ_part_v(afm0, amap0, alias_mappings@, modifiers@, i2)); lemma_n_alias_mono(modifiers@, i2, iq); match modifiers@[i2] { f::Modifier::Alias(a) => { lemma_n_alias_step(modifiers@, i2); assert(n_alias(modifiers@, i2) < afm0.len()); assert(alias_found_mappings@[n_alias(modifiers@, i2)] == afm0[n_alias(modifiers@, i2)]); }, _ => {} } }
            else { assert(alias_found_mappings@[i as int] == mappings); }
          }
          assert forall|name: String| #[trigger] smap(&alias_map).contains_key(name) implies exists|i2: int| #[trigger] last_occ(modifiers@, iq + 1, name, i2) && smap(&alias_map)[name] == n_alias(modifiers@, i2) by {
            if name == *alias { assert(last_occ(modifiers@, iq + 1, name, iq)); }
            else { let i2 = choose|i2: int| #[trigger] last_occ(modifiers@, iq, name, i2) && amap0[name] == n_alias(modifiers@, i2); assert(last_occ(modifiers@, iq + 1, name, i2)); }
          }
        }
      },
      _ => {
        //@ C13 | a plain key changes nothing in the alias bookkeeping
        proof {
          assert forall|name: String| #[trigger] smap(&alias_map).contains_key(name) implies exists|i2: int| #[trigger] last_occ(modifiers@, iq + 1, name, i2) && smap(&alias_map)[name] == n_alias(modifiers@, i2) by {
            let i2 = choose|i2: int| #[trigger] last_occ(modifiers@, iq, name, i2) && amap0[name] == n_alias(modifiers@, i2); assert(last_occ(modifiers@, iq + 1, name, i2));
          }
        }
        ()
      }
    }
    //@ C13 | the name bookkeeping covers the modifiers scanned so far
    proof { done = iq + 1; }
  }
  
  proof { assert(modifiers@.len() as int == modifiers@.len()); }
  //@ C13 | the finished iterable
  let ghost afm_f = alias_found_mappings@; let ghost amap_f = alias_map@;
  proof { assert forall|i2: int| 0 <= i2 < modifiers@.len() implies occ_part_v(afm_f, amap_f, alias_mappings@, modifiers@, i2) by { assert(occ_part(&alias_found_mappings, smap(&alias_map), alias_mappings@, modifiers@, i2)); }
    assert forall|it: AliasCombinationIterable<'t>| it.modifiers@ == modifiers@ && it.alias_found_mappings@ == afm_f && it.alias_map@ == amap_f implies #[trigger] it.built(alias_mappings@, modifiers@) by {
      assert forall|i2: int| 0 <= i2 < modifiers@.len() implies occ_ok(it, alias_mappings@, modifiers@, i2) by { assert(occ_part_v(afm_f, amap_f, alias_mappings@, modifiers@, i2)); }
      assert forall|name: String| #[trigger] it.alias_map@.contains_key(name) implies exists|i2: int| #[trigger] last_occ(modifiers@, modifiers@.len() as int, name, i2) && it.alias_map@[name] == n_alias(modifiers@, i2) by {
        assert(smap(&alias_map).contains_key(name));
        let i2 = choose|i2: int| #[trigger] last_occ(modifiers@, modifiers@.len() as int, name, i2) && amap_f[name] == n_alias(modifiers@, i2);
      }
    } }
  Ok(AliasCombinationIterable {
    modifiers,
    alias_quantities: alias_quantities.clone(),
    alias_found_mappings,
    alias_map
  })
}
  
//@ C13 C14 | default: fn iterate_combinations
fn iterate_combinations<'s, 't>(iterable: &'s AliasCombinationIterable<'t>) -> (r: AliasCombinationIterator<'s, 't>)
  requires
    //@ C14 | data-structure invariants that keep every index in bounds (panic-freedom of the converter)
    iterable.wf(),
  ensures
    //@ C14 | data-structure invariants that keep every index in bounds (panic-freedom of the converter)
    r.wf(),
    //@ C13 | the iterator will produce every combination of definition numbers exactly once, in counting order, for this iterable
    r.itv() == *iterable, r.rem() == all_combos(iterable.q()),
  { //@ | body
  proof { assert(q_ok(iterable.alias_quantities@)); }
  AliasCombinationIterator { iterable, combinations: multiply(&iterable.alias_quantities) }
}

struct AliasCombination<'s, 't> {
  it: &'s AliasCombinationIterable<'t>,
  tuple: Vec<usize>
}

// ---- C13: what a combination of alias definitions stands for ----
/// the keys of definition d of the alias with ordinal j (ordinal = position among the alias modifiers of the trigger)
spec fn def_keys(it: AliasCombinationIterable, j: int, d: int) -> Seq<KeyCode> { it.alias_found_mappings@[j]@[d].from.keys@ }
/// the trigger-side modifier keys of the combination `tuple`, for the first n trigger modifiers: a plain key stands for itself,
/// the alias with ordinal j for the keys of its definition number tuple[j]
spec fn from_mods_spec(it: AliasCombinationIterable, tuple: Seq<usize>, n: int) -> Seq<KeyCode>
  decreases n
{
  if n <= 0 { Seq::empty() } else {
    let prev = from_mods_spec(it, tuple, n - 1);
    match it.modifiers@[n - 1] {
      f::Modifier::Key(k) => prev.push(k),
      f::Modifier::Alias(_) => prev + def_keys(it, n_alias(it.modifiers@, n - 1), tuple[n_alias(it.modifiers@, n - 1)] as int),
    }
  }
}
/// output-side modifiers `mods` (first n of them) under the combination `tuple`: a plain key stands for itself, an alias for the keys of the definition
/// chosen for that alias on the trigger side; None if an alias does not occur on the trigger side
spec fn reify_spec(it: AliasCombinationIterable, tuple: Seq<usize>, mods: Seq<f::Modifier>, n: int) -> Option<Seq<KeyCode>>
  decreases n
{
  if n <= 0 { Some(Seq::empty()) } else {
    match reify_spec(it, tuple, mods, n - 1) {
      None => None,
      Some(prev) => match mods[n - 1] {
        f::Modifier::Key(k) => Some(prev.push(k)),
        f::Modifier::Alias(a) => if it.alias_map@.contains_key(a) { Some(prev + def_keys(it, it.alias_map@[a] as int, tuple[it.alias_map@[a] as int] as int)) } else { None },
      },
    }
  }
}
proof fn lemma_reify_none(it: AliasCombinationIterable, tuple: Seq<usize>, mods: Seq<f::Modifier>, a: int, b: int)
  requires
    //@ C13 | once a prefix has no meaning no longer prefix has one
    reify_spec(it, tuple, mods, a) is None, a <= b
  ensures reify_spec(it, tuple, mods, b) is None
  decreases b - a
{ if a < b { lemma_reify_none(it, tuple, mods, a, b - 1); } }
spec fn translate_spec(it: AliasCombinationIterable, tuple: Seq<usize>, to: f::SingleToKeys) -> Option<Seq<KeyCode>> {
  match to.terminal {
    f::SingleTerminalToKey::Physical(t) => match reify_spec(it, tuple, to.initial@, to.initial@.len() as int) { Some(v) => Some(v.push(t)), None => None },
    f::SingleTerminalToKey::Null => Some(Seq::empty()),
  }
}

//@ C13 C14 | default: impl AliasCombination<'s, 't>
impl <'s, 't> AliasCombination<'s, 't> {
  pub closed spec fn wf(&self) -> bool { self.it.wf() && valid(self.it.alias_quantities@, self.tuple@) }
  pub closed spec fn itv(&self) -> AliasCombinationIterable<'t> { *self.it }
  pub closed spec fn tv(&self) -> Seq<usize> { self.tuple@ }

  fn from_modifiers(&self) -> (r: Vec<KeyCode>)
    requires
      //@ C14 | data-structure invariants that keep every index in bounds (panic-freedom of the converter)
      self.wf(),
    ensures
      //@ C13 | the trigger-side modifier keys of this combination: plain keys as written, each alias replaced by the keys of the definition this combination selects for it, in the order written
      r@ == from_mods_spec(self.itv(), self.tv(), self.itv().modifiers@.len() as int),
    { //@ | body
    let mut thing = Vec::new();
    let mut j = 0;
    for i in 0..self.it.modifiers.len()
      invariant
        //@ C14 | data-structure invariants that keep every index in bounds (panic-freedom of the converter)
        self.wf(),
        //@  | frame / auxiliary
        j == n_alias(self.it.modifiers@, i as int),
        //@ C13 | keys of the modifiers handled so far
        thing@ == from_mods_spec(*self.it, self.tuple@, i as int),
      { //@ | body
      proof { lemma_n_alias_mono(self.it.modifiers@, i as int + 1, self.it.modifiers@.len() as int); lemma_n_alias_mono(self.it.modifiers@, 0, i as int); }
      let m = &self.it.modifiers[i];
      match m {
        f::Modifier::Alias(_) => {
          let keys = &self.it.alias_found_mappings[j][self.tuple[j]].from.keys;
          //@ C13 | ASSUMED contract of Vec::extend: appends the elements of the key list
          proof { crate::prelude_specs::axiom_ext_items_vec(keys); }
          thing.extend(keys);
          j += 1;
        },
        f::Modifier::Key(k) => {
          thing.push(k.clone());
        }
      }
    }
    thing
  }
  
  fn translate_single_to_keys(&self, to: &f::SingleToKeys) -> (r: Result<Vec<KeyCode>, String>)
    requires
      //@ C14 | data-structure invariants that keep every index in bounds (panic-freedom of the converter)
      self.wf(),
    ensures
      //@ C13 | output of a single mapping: the output modifiers with aliases replaced by the keys chosen on the trigger side, then the output key; nothing for a null output
      match r { Ok(v) => translate_spec(self.itv(), self.tv(), *to) == Some(v@), Err(_) => translate_spec(self.itv(), self.tv(), *to) is None },
    { //@ | body
    Ok(match to.terminal {
      f::SingleTerminalToKey::Physical(terminal) => {
        let mut to = self.reify_modifiers(&to.initial)?;
        to.push(terminal);
        to
      },
      f::SingleTerminalToKey::Null => {
        vec![]
      }
    })
  }
  
  fn reify_modifiers(&self, modifiers: &Vec<f::Modifier>) -> (r: Result<Vec<KeyCode>, String>)
    requires
      //@ C14 | data-structure invariants that keep every index in bounds (panic-freedom of the converter)
      self.wf(),
    ensures
      //@ C13 | output-side modifiers: plain keys as written, each alias replaced by the keys of the definition chosen for that alias on the trigger side; an error iff an alias does not occur on the trigger side
      match r { Ok(v) => reify_spec(self.itv(), self.tv(), modifiers@, modifiers@.len() as int) == Some(v@), Err(_) => reify_spec(self.itv(), self.tv(), modifiers@, modifiers@.len() as int) is None },
    { //@ | body
    let mut res = Vec::new();
    proof { axiom_string_key_model(); assert(vstd::std_specs::hash::builds_valid_hashers::<std::collections::hash_map::RandomState>()); }
    broadcast use vstd::std_specs::hash::group_hash_axioms;
    
    for m in itm: modifiers
      invariant
        //@ C14 | data-structure invariants that keep every index in bounds (panic-freedom of the converter)
        self.wf(),
        vstd::std_specs::hash::obeys_key_model::<String>(),
        vstd::std_specs::hash::builds_valid_hashers::<std::collections::hash_map::RandomState>(),
        //@ C13 | keys of the output modifiers handled so far
        itm.seq().len() == modifiers@.len(), forall|j: int| 0 <= j < modifiers@.len() ==> *itm.seq()[j] == modifiers@[j],
        reify_spec(*self.it, self.tuple@, modifiers@, itm.index@ as int) == Some(res@),
      { //@ | body
      //@ C13 | the modifier of this iteration
      proof { assert(*m == modifiers@[itm.index@ as int]); }
      match m {
        f::Modifier::Key(k) => res.push(*k),
        f::Modifier::Alias(alias) => {
          match self.it.alias_map.get(alias) {
            None => {
              //@ C13 | an alias that does not occur on the trigger side: the whole list has no meaning
              proof { lemma_reify_none(*self.it, self.tuple@, modifiers@, itm.index@ as int + 1, modifiers@.len() as int); }
              return Err(format!("Alias used on RHS of mapping that does not appear on LHS: {}", alias)) },
            Some(i__r) => { let i = *i__r;
              let keys = &self.it.alias_found_mappings[i][self.tuple[i]].from.keys;
              //@ C13 | ASSUMED contract of Vec::extend: appends the elements of the key list
              proof { crate::prelude_specs::axiom_ext_items_vec(keys); }
              res.extend(keys);
            }
          }
        }
      }
    }
    
    Ok(res)
  }
}

//@ C13 C14 | default: impl AliasCombinationIterator<'s, 't>
impl <'s, 't> AliasCombinationIterator<'s, 't> {
  pub closed spec fn wf(&self) -> bool { self.iterable.wf() && self.combinations.q_view() == self.iterable.alias_quantities@ && self.combinations.fvalid() }
  /// the combinations (tuples of definition numbers, one per trigger-side alias) still to come, in order
  pub closed spec fn rem(&self) -> Seq<Seq<usize>> { self.combinations.rem_view() }
  pub closed spec fn itv(&self) -> AliasCombinationIterable<'t> { *self.iterable }
}
//@ C14 | default: impl vstd::std_specs::iter::IteratorSpecImpl for AliasCombinationIterator<'s, 't>
impl <'s, 't> vstd::std_specs::iter::IteratorSpecImpl for AliasCombinationIterator<'s, 't> {
  closed spec fn obeys_prophetic_iter_laws(&self) -> bool { false }
  closed spec fn remaining(&self) -> Seq<AliasCombination<'s, 't>> { Seq::empty() }
  closed spec fn will_return_none(&self) -> bool { true }
  closed spec fn peek(&self, i: int) -> Option<AliasCombination<'s, 't>> { None }
  closed spec fn decrease(&self) -> Option<nat> { None }
}
//@ C13 C14 | default: impl Iterator for AliasCombinationIterator<'s, 't>
impl <'s, 't> Iterator for AliasCombinationIterator<'s, 't> {
  type Item = AliasCombination<'s, 't>;
  
  fn next(&mut self) -> (r: Option<AliasCombination<'s, 't>>)
    ensures
      //@ C14 | data-structure invariants that keep every index in bounds (panic-freedom of the converter)
      old(self).wf() ==> final(self).wf() && (match r { Some(c) => c.wf(), None => true }),
      //@ C13 | the combinations come out one by one in enumeration order, each for the same iterable; None exactly when none is left
      final(self).itv() == old(self).itv(),
      old(self).wf() ==> (match r { Some(c) => old(self).rem() == seq![c.tv()] + final(self).rem() && c.itv() == old(self).itv(), None => old(self).rem().len() == 0 && final(self).rem().len() == 0 }),
    { //@ | body
    Some(AliasCombination {
      it: &self.iterable,
      tuple: self.combinations.next()?
    })
  }
}

//@ C14 | default: fn w
// ---------- spec: mixed-radix enumeration ----------
pub open spec fn w(q: Seq<usize>, j: int) -> int
  decreases j
{ if j <= 0 { 1 } else { w(q, j - 1) * (q[j - 1] as int) } }
//@ C14 | default: fn prank
pub open spec fn prank(q: Seq<usize>, p: Seq<usize>, n: int) -> int
  decreases n
{ if n <= 0 { 0 } else { prank(q, p, n - 1) + (p[n - 1] as int) * w(q, n - 1) } }
//@ C14 | default: fn q_ok
pub open spec fn q_ok(q: Seq<usize>) -> bool { forall|j: int| 0 <= j < q.len() ==> #[trigger] q[j] >= 1 }
//@ C14 | default: fn valid
pub open spec fn valid(q: Seq<usize>, p: Seq<usize>) -> bool { p.len() == q.len() && forall|j: int| 0 <= j < q.len() ==> #[trigger] p[j] < q[j] }
//@ C14 | default: fn succ_at
pub open spec fn succ_at(p: Seq<usize>, i: int) -> Seq<usize> {
  Seq::new(p.len(), |l: int| if l < i { 0usize } else if l == i { (p[l] + 1) as usize } else { p[l] })
}
//@ C14 | default: fn first_inc
pub open spec fn first_inc(q: Seq<usize>, p: Seq<usize>, i: int) -> bool {
  0 <= i < q.len() && p[i] < q[i] - 1 && forall|l: int| 0 <= l < i ==> #[trigger] p[l] == q[l] - 1
}
//@ C14 | default: fn is_max
pub open spec fn is_max(q: Seq<usize>, p: Seq<usize>) -> bool { forall|l: int| 0 <= l < q.len() ==> #[trigger] p[l] == q[l] - 1 }
//@ C14 | default: fn rem_f
/// what the iterator still has to produce: `fuel` successive tuples starting at p
pub open spec fn rem_f(q: Seq<usize>, p: Seq<usize>, fuel: nat) -> Seq<Seq<usize>>
  decreases fuel
{
  if fuel == 0 { Seq::empty() } else {
    let nxt = if exists|i: int| first_inc(q, p, i) { succ_at(p, choose|i: int| first_inc(q, p, i)) } else { p };
    seq![p] + rem_f(q, nxt, (fuel - 1) as nat)
  }
}

//@ C14 | default: fn lemma_w_pos
proof fn lemma_w_pos(q: Seq<usize>, j: int)
  requires q_ok(q), 0 <= j <= q.len()
  ensures w(q, j) >= 1
  decreases j
{
  if j > 0 { lemma_w_pos(q, j - 1); assert(q[j - 1] >= 1); assert(w(q, j - 1) * (q[j - 1] as int) >= 1) by (nonlinear_arith) requires w(q, j - 1) >= 1, q[j - 1] >= 1; }
}
//@ C14 | default: fn lemma_max_prefix
// L1: all-max prefix sums to w - 1
proof fn lemma_max_prefix(q: Seq<usize>, p: Seq<usize>, i: int)
  requires q_ok(q), p.len() == q.len(), 0 <= i <= q.len(), forall|l: int| 0 <= l < i ==> #[trigger] p[l] == q[l] - 1
  ensures prank(q, p, i) == w(q, i) - 1
  decreases i
{
  if i > 0 {
    lemma_max_prefix(q, p, i - 1);
    let a = w(q, i - 1); let b = q[i - 1] as int;
    assert(p[i - 1] == q[i - 1] - 1);
    assert((a - 1) + (b - 1) * a == a * b - 1) by (nonlinear_arith);
  }
}
//@ C14 | default: fn lemma_rank_bound
// L3: a valid tuple ranks below the product
proof fn lemma_rank_bound(q: Seq<usize>, p: Seq<usize>, n: int)
  requires q_ok(q), valid(q, p), 0 <= n <= q.len()
  ensures 0 <= prank(q, p, n) <= w(q, n) - 1
  decreases n
{
  if n > 0 {
    lemma_rank_bound(q, p, n - 1); lemma_w_pos(q, n - 1);
    let a = w(q, n - 1); let b = q[n - 1] as int; let d = p[n - 1] as int;
    assert(p[n - 1] < q[n - 1]);
    assert(0 <= d * a && d * a <= (b - 1) * a) by (nonlinear_arith) requires 0 <= d <= b - 1, a >= 1;
    assert((a - 1) + (b - 1) * a == a * b - 1) by (nonlinear_arith);
  } else { }
}
//@ C14 | default: fn lemma_zero_prefix
proof fn lemma_zero_prefix(q: Seq<usize>, p: Seq<usize>, i: int)
  requires p.len() == q.len(), 0 <= i <= q.len(), forall|l: int| 0 <= l < i ==> #[trigger] p[l] == 0
  ensures prank(q, p, i) == 0
  decreases i
{
  if i > 0 { lemma_zero_prefix(q, p, i - 1); assert(p[i - 1] == 0); assert((p[i - 1] as int) * w(q, i - 1) == 0) by (nonlinear_arith) requires p[i - 1] == 0; }
}
//@ C14 | default: fn lemma_succ_rank
// L2: the successor ranks exactly one higher
proof fn lemma_succ_rank(q: Seq<usize>, p: Seq<usize>, i: int, n: int)
  requires q_ok(q), valid(q, p), first_inc(q, p, i), i < n <= q.len()
  ensures prank(q, succ_at(p, i), n) == prank(q, p, n) + 1
  decreases n
{
  let p2 = succ_at(p, i);
  if n == i + 1 {
    lemma_zero_prefix(q, p2, i);
    lemma_max_prefix(q, p, i);
    let a = w(q, i); let d = p[i] as int;
    assert(p2[i] == p[i] + 1);
    assert((d + 1) * a == d * a + a) by (nonlinear_arith);
  } else {
    lemma_succ_rank(q, p, i, n - 1);
    assert(p2[n - 1] == p[n - 1]);
  }
}
//@ C14 | default: fn lemma_succ_valid
proof fn lemma_succ_valid(q: Seq<usize>, p: Seq<usize>, i: int)
  requires q_ok(q), valid(q, p), first_inc(q, p, i)
  ensures valid(q, succ_at(p, i))
{
  assert forall|j: int| 0 <= j < q.len() implies #[trigger] succ_at(p, i)[j] < q[j] by { assert(p[j] < q[j]); assert(q[j] >= 1); }
}

/// C13: all combinations of definition numbers below the quantities, in little-endian counting order starting from all zeros
pub open spec fn all_combos(q: Seq<usize>) -> Seq<Seq<usize>> { rem_f(q, Seq::new(q.len(), |l: int| 0usize), total(q) as nat) }
//@ C14 | default: fn total
// ---------- real code ----------
pub open spec fn total(q: Seq<usize>) -> int { w(q, q.len() as int) }
//@ C14 | default: fn rank
pub open spec fn rank(q: Seq<usize>, p: Seq<usize>) -> int { prank(q, p, q.len() as int) }

struct MultiplyIter<'s> {
  quantities: &'s Vec<usize>,
  position: Vec<usize>,
  done: bool
}

//@ C13 C14 | default: fn multiply
fn multiply<'s>(quantities: &'s Vec<usize>) -> (r: MultiplyIter<'s>)
  requires
    //@ C14 | data-structure invariants that keep every index in bounds (panic-freedom of the converter)
    q_ok(quantities@),
  ensures
    //@ C13 | MultiplyIter enumerates every tuple below the quantities exactly once, in little-endian counting order
    r.q_view() == quantities@,
    r.fvalid(),
    r.rem_view() == all_combos(quantities@),
  { //@ | body
  MultiplyIter::new(quantities)
}

//@ C13 C14 | default: impl MultiplyIter<'s>
impl <'s> MultiplyIter<'s> {
  #[verifier::type_invariant]
  pub closed spec fn wf(&self) -> bool { q_ok(self.quantities@) && self.position@.len() == self.quantities@.len() }
  /// functional validity (not needed for safety): every digit below its radix
  pub closed spec fn fvalid(&self) -> bool { !self.done ==> valid(self.quantities@, self.position@) }
  /// views of the tuples this iterator will still return, in order
  pub closed spec fn rem_view(&self) -> Seq<Seq<usize>> {
    if self.done { Seq::empty() } else { rem_f(self.quantities@, self.position@, (total(self.quantities@) - rank(self.quantities@, self.position@)) as nat) }
  }
  pub closed spec fn q_view(&self) -> Seq<usize> { self.quantities@ }
  fn new(quantities: &'s Vec<usize>) -> (r: MultiplyIter<'s>)
    requires
      //@ C14 | data-structure invariants that keep every index in bounds (panic-freedom of the converter)
      q_ok(quantities@),
    ensures
      //@ C13 | MultiplyIter enumerates every tuple below the quantities exactly once, in little-endian counting order
      r.q_view() == quantities@,
      r.fvalid(),
      r.rem_view() == rem_f(quantities@, Seq::new(quantities@.len(), |l: int| 0usize), total(quantities@) as nat),
    { //@ | body
    let mut position = Vec::new();
    for _ in it: 0..quantities.len()
      invariant
        //@ C14 | data-structure invariants that keep every index in bounds (panic-freedom of the converter)
        position@.len() == it.index@,
        forall|l: int| 0 <= l < position@.len() ==> #[trigger] position@[l] == 0,
      { //@ | body
      position.push(0);
    }
    proof {
      assert(position@ =~= Seq::new(quantities@.len(), |l: int| 0usize));
      lemma_zero_prefix(quantities@, position@, quantities@.len() as int);
      assert forall|j: int| 0 <= j < quantities@.len() implies #[trigger] position@[j] < quantities@[j] by { assert(quantities@[j] >= 1); }
    }
    
    MultiplyIter {
      quantities,
      position,
      done: false
    }
  }
}
  
//@ C14 | default: impl vstd::std_specs::iter::IteratorSpecImpl for MultiplyIter<'s>
impl <'s> vstd::std_specs::iter::IteratorSpecImpl for MultiplyIter<'s> {
  closed spec fn obeys_prophetic_iter_laws(&self) -> bool { false }   // no claim through vstd's prophetic interface (Item is a heap value); see rem_view
  closed spec fn remaining(&self) -> Seq<Vec<usize>> { Seq::empty() }
  closed spec fn will_return_none(&self) -> bool { true }
  closed spec fn peek(&self, i: int) -> Option<Vec<usize>> { None }
  closed spec fn decrease(&self) -> Option<nat> { None }
}
//@ C14 | default: impl std::iter::Iterator for MultiplyIter<'s>
impl <'s> std::iter::Iterator for MultiplyIter<'s> {
  type Item = Vec<usize>;
  
  fn next(&mut self) -> (r: Option<Vec<usize>>)
    ensures
      //@ C13 | MultiplyIter::next returns the next tuple of the mixed-radix enumeration (each tuple below the quantities exactly once, little-endian counting order), None exactly when the enumeration is exhausted
      final(self).q_view() == old(self).q_view(),
      old(self).fvalid() ==> final(self).fvalid()
        && (match r { Some(v) => old(self).rem_view() == seq![v@] + final(self).rem_view() && valid(old(self).q_view(), v@),
                      None => old(self).rem_view().len() == 0 && final(self).rem_view().len() == 0 }),
  {
    if self.done {
      None
    }
    else {
      let mut found = false;
      let res = self.position.clone();
      proof { use_type_invariant(&*self); }
      let ghost q = self.quantities@; let ghost p0 = self.position@; let ghost fv0 = old(self).fvalid();
      let ghost mut inc_at: int = -1;
      for i in 0..self.quantities.len()
        invariant_except_break
          !found,
        invariant
          self.quantities@ == q, !self.done, res@ == p0,
          !found ==> self.position@ == p0,
          q_ok(q), self.position@.len() == q.len(), p0.len() == q.len(), fv0 ==> (valid(q, p0) && valid(q, self.position@)),
          (!found && fv0) ==> forall|l: int| 0 <= l < i ==> #[trigger] p0[l] == q[l] - 1,
          found ==> (fv0 ==> first_inc(q, p0, inc_at)) && self.position@ == succ_at(p0, inc_at) && self.position@.len() == q.len(),
        ensures
          (!found && fv0) ==> is_max(q, p0),
      { //@ | body
        proof { assert(q[i as int] >= 1); assert(self.position@[i as int] == p0[i as int]); if fv0 { assert(p0[i as int] < q[i as int]); } }
        if self.position[i] < self.quantities[i]-1 {
          self.position[i] += 1;
          let ghost p1 = self.position@;
          for j in 0..i
            invariant self.position@.len() == p0.len(), i < p0.len(), self.quantities@ == q, !self.done, q_ok(q), p1.len() == p0.len(), p0.len() == q.len(),
              forall|l: int| 0 <= l < j ==> #[trigger] self.position@[l] == 0,
              forall|l: int| j <= l < p0.len() ==> #[trigger] self.position@[l] == p1[l],
          { self.position[j] = 0 }
          proof { inc_at = i as int; assert(p1 =~= p0.update(i as int, (p0[i as int] + 1) as usize)); assert(self.position@ =~= succ_at(p0, i as int)); if fv0 { assert(first_inc(q, p0, i as int)); lemma_succ_valid(q, p0, i as int); } }
          found = true;
          break;
        }
      }
      if !found {
        self.done = true;
      }
      proof {
        if fv0 {
          let fuel = (total(q) - rank(q, p0)) as nat;
          lemma_rank_bound(q, p0, q.len() as int);
          assert(fuel >= 1);
          if found {
            let i = inc_at;
            // the spec's choice of "first incrementable digit" is unique
            assert forall|i2: int| first_inc(q, p0, i2) implies i2 == i by { if i2 < i { assert(p0[i2] == q[i2] - 1); } else if i2 > i { assert(p0[i] == q[i] - 1); } }
            let c = choose|i2: int| first_inc(q, p0, i2);
            assert(c == i);
            lemma_succ_rank(q, p0, i, q.len() as int);
            lemma_succ_valid(q, p0, i);
            assert(rem_f(q, p0, fuel) =~= seq![p0] + rem_f(q, succ_at(p0, i), (fuel - 1) as nat));
          } else {
            lemma_max_prefix(q, p0, q.len() as int);
            assert(fuel == 1);
            assert forall|i2: int| !first_inc(q, p0, i2) by { if 0 <= i2 < q.len() { assert(p0[i2] == q[i2] - 1); } }
            assert(rem_f(q, p0, 0) =~= Seq::<Seq<usize>>::empty());
            assert(rem_f(q, p0, fuel) =~= seq![p0] + Seq::<Seq<usize>>::empty());
          }
        }
      }
      Some(res)
    }
  }
}


/// C13: the definitions of alias `name` among the first n source mappings, in source order
pub open spec fn defs_of(ms: Seq<f::Mapping>, name: String, n: int) -> Seq<AliasMapping>
  decreases n
{
  if n <= 0 { Seq::empty() } else {
    let prev = defs_of(ms, name, n - 1);
    match ms[n - 1] { f::Mapping::Alias(a) => if a.to.terminal == name { prev.push(a) } else { prev }, _ => prev }
  }
}
pub open spec fn derefs<'a>(v: Seq<&'a AliasMapping>) -> Seq<AliasMapping> { v.map_values(|x: &AliasMapping| *x) }
/// C13: the alias table lists, for every alias name, exactly the definitions written for it in the layout, in source order
pub open spec fn table_for(t: Map<String, Vec<&AliasMapping>>, ms: Seq<f::Mapping>, n: int) -> bool {
  forall|name: String| #![trigger t.contains_key(name)] #![trigger defs_of(ms, name, n)] (t.contains_key(name) <==> defs_of(ms, name, n).len() > 0) && (t.contains_key(name) ==> derefs(t[name]@) == defs_of(ms, name, n))
}
//@ C13 C14 | default: fn find_alias_mappings
fn find_alias_mappings<'a>(f: &'a f::Layout) -> (r: HashMap<String, Vec<&'a AliasMapping>>)
  ensures
    //@ C14 | data-structure invariants that keep every index in bounds (panic-freedom of the converter)
    alias_table_ok(r@),
    //@ C13 | the alias table lists for every alias name exactly the definitions written for it, in source order
    table_for(r@, f.mappings@, f.mappings@.len() as int),
  { //@ | body
  proof { axiom_string_key_model(); assert(vstd::std_specs::hash::builds_valid_hashers::<std::collections::hash_map::RandomState>()); }
  broadcast use vstd::std_specs::hash::group_hash_axioms;
  use f::*;
  
  let mut res = HashMap::new();
  //@ C13 | number of source mappings scanned
  let ghost mut done: int = 0;
  
  for m in itm: &f.mappings
    invariant
      //@ C14 | data-structure invariants that keep every index in bounds (panic-freedom of the converter)
      alias_table_ok(atab(&res)),
      //@  | frame / auxiliary
      atab(&res) == res@,
      //@ C14 | data-structure invariants that keep every index in bounds (panic-freedom of the converter)
      vstd::std_specs::hash::obeys_key_model::<String>(),
      vstd::std_specs::hash::builds_valid_hashers::<std::collections::hash_map::RandomState>(),
      //@ C13 | the table built so far lists the definitions among the mappings scanned so far
      itm.seq().len() == f.mappings@.len(), forall|j: int| 0 <= j < f.mappings@.len() ==> *itm.seq()[j] == f.mappings@[j],
      done == itm.index@, table_for(atab(&res), f.mappings@, done),
    { //@ | body
    let ghost t0 = atab(&res); let ghost mut vfin: Option<Vec<&'a AliasMapping>> = None;
    //@ C13 | the source mapping of this iteration
    let ghost ms = f.mappings@; let ghost n0 = done;
    proof { assert(*m == ms[n0]); }
    match m {
      Mapping::Alias(alias) => {
        match res.get_mut(&alias.to.terminal) {
          None => {
            res.insert(alias.to.terminal.clone(), vec![alias]);
            proof { assert forall|name: String| #[trigger] res@.contains_key(name) implies res@[name]@.len() >= 1 by { if t0.contains_key(name) && res@[name] == t0[name] { assert(t0[name]@.len() >= 1); } } }
            //@ C13 | a first definition of this name
            proof { let term = alias.to.terminal; assert(!t0.contains_key(term)); assert(defs_of(ms, term, n0).len() == 0);
              assert(res@[term]@ =~= seq![alias]); assert(derefs(res@[term]@) =~= defs_of(ms, term, n0).push(*alias)); }
          },
          Some(list) => {
            //@ C13 | one more definition of this name
            let ghost l0 = list@;
            list.push(alias);
            proof { vfin = Some(*list); assert(derefs(list@) =~= derefs(l0).push(*alias)); }
          }
        }
        proof {
          if t0.contains_key(alias.to.terminal) && vfin is Some {
            crate::prelude_specs::axiom_borrowed_key_updated_deref::<String, Vec<&'a AliasMapping>>(t0, res@, &alias.to.terminal, vfin.unwrap());
            assert forall|name: String| #[trigger] res@.contains_key(name) implies res@[name]@.len() >= 1 by { if name != alias.to.terminal { assert(t0.contains_key(name)); assert(t0[name]@.len() >= 1); } }
          }
        }
        //@ C13 | the table after this definition
        proof { let term = alias.to.terminal;
          assert forall|name: String| #![trigger res@.contains_key(name)] #![trigger defs_of(ms, name, n0 + 1)] (res@.contains_key(name) <==> defs_of(ms, name, n0 + 1).len() > 0) && (res@.contains_key(name) ==> derefs(res@[name]@) == defs_of(ms, name, n0 + 1)) by {
            assert(t0.contains_key(name) <==> defs_of(ms, name, n0).len() > 0);
            if name == term { assert(defs_of(ms, name, n0 + 1) == defs_of(ms, name, n0).push(*alias)); if t0.contains_key(term) { assert(derefs(t0[term]@) == defs_of(ms, term, n0)); } }
            else { assert(defs_of(ms, name, n0 + 1) == defs_of(ms, name, n0)); assert(res@.contains_key(name) == t0.contains_key(name)); if t0.contains_key(name) { assert(res@[name] == t0[name]); assert(derefs(t0[name]@) == defs_of(ms, name, n0)); } }
          } }
      },
      _ => {
        //@ C13 | not an alias definition: nothing changes
        proof { assert forall|name: String| #![trigger res@.contains_key(name)] #![trigger defs_of(ms, name, n0 + 1)] (res@.contains_key(name) <==> defs_of(ms, name, n0 + 1).len() > 0) && (res@.contains_key(name) ==> derefs(res@[name]@) == defs_of(ms, name, n0 + 1)) by {
            assert(defs_of(ms, name, n0 + 1) == defs_of(ms, name, n0)); assert(t0.contains_key(name) <==> defs_of(ms, name, n0).len() > 0); if t0.contains_key(name) { assert(derefs(t0[name]@) == defs_of(ms, name, n0)); } } }
        ()
      }
    }
    //@ C13 | one more source mapping scanned
    proof { done = n0 + 1; }
  }
  
  res
}

//@ C14 | default: fn has_duplicate_key
fn has_duplicate_key(keys: &Vec<KeyCode>) -> (r: bool)
  ensures
    //@ C14 | the duplicate test is sound: a key list that passes has no key twice (else the mapper's constructor panics on an accepted layout)
    !r ==> keys@.no_duplicates(),
    //@ C13 | ... and exact: a key list is refused only if some key does occur twice (else meaningful layouts are rejected)
    r ==> !keys@.no_duplicates(),
{ //@ | body
  for i in 0..keys.len()
    invariant
      forall|a: int, b: int| 0 <= a < i && a < b < keys@.len() ==> keys@[a] != keys@[b],
  { //@ | body
    for j in i+1..keys.len()
      invariant
        i < keys@.len(),
        forall|a: int, b: int| 0 <= a < i && a < b < keys@.len() ==> keys@[a] != keys@[b],
        forall|b: int| i < b < j ==> keys@[i as int] != keys@[b],
    { //@ | body
      if keys[i] == keys[j] {
        return true;
      }
    }
  }
  proof {
    assert forall|a: int, b: int| 0 <= a < keys@.len() && 0 <= b < keys@.len() && a != b implies keys@[a] != keys@[b] by {
      if a < b { assert(keys@[a] != keys@[b]); } else { assert(keys@[b] != keys@[a]); }
    }
  }
  return false;
}

//@ C14 | default: fn check_mapping_is_usable
fn check_mapping_is_usable(sm: &s::Mapping) -> (r: Result<(), String>)
  ensures
    //@ C14 | a mapping that passes the check satisfies the precondition of Mapper::for_layout: a non-empty trigger, no key twice in the trigger or in the output
    r is Ok ==> sm.from@.len() >= 1 && sm.from@.no_duplicates() && sm.to@.no_duplicates(),
    //@ C11 | ... and its repeat values are what the event loop's timer arithmetic requires: non-negative milliseconds, no key twice in the chord
    r is Ok ==> crate::keys::repeat_ok(sm.repeat),
    //@ C13 | ... and the check is exact: a mapping is refused only if it is unusable (else meaningful layouts are rejected)
    r is Err ==> !crate::keys::mapping_ok(*sm),
{ //@ | body
  proof { axiom_fmt_user_types(); }
  broadcast use vstd::std_specs::fmt::group_fmt_axioms;
  if sm.from.is_empty() {
    return Err(format!("A mapping to {:?} has an empty `from`", sm.to));
  }
  if has_duplicate_key(&sm.from) {
    return Err(format!("The same key appears twice in `from`: {:?}", sm.from));
  }
  if has_duplicate_key(&sm.to) {
    return Err(format!("The same key appears twice in `to`: {:?} (mapping from {:?})", sm.to, sm.from));
  }
  match &sm.repeat {
    s::Repeat::Special { keys, delay_ms, interval_ms } => {
      if has_duplicate_key(keys) {
        return Err(format!("The same key appears twice in the `repeat` keys: {:?} (mapping from {:?})", keys, sm.from));
      }
      if *delay_ms < 0 || *interval_ms < 0 {
        return Err(format!("`delay_ms` and `interval_ms` must not be negative (mapping from {:?})", sm.from));
      }
    },
    _ => ()
  };
  Ok(())
}
