// E5: the lazy_static table CHAR_ACCESS_MAP is replaced by an accessor with an assumed contract; the initialiser
// _char_access_map() itself is kept verbatim.
pub struct CAM {}
impl CAM {
  #[verifier::external_body]
  pub fn get(&self, c: &char) -> (res: Option<&SinkKey>)
  { unimplemented!() }
}
pub exec static CHAR_ACCESS_MAP: CAM ensures true { CAM{} }
