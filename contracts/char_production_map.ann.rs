// E5: the lazy_static table CHAR_ACCESS_MAP is replaced by an accessor with an assumed contract; the initialiser
// _char_access_map() itself is kept verbatim.
/// the table as a function: what CHAR_ACCESS_MAP holds for a character (shift needed, key) - uninterpreted; the real table is compared with the
/// US-QWERTY layout for every Unicode scalar value by the enumeration `tables` on every run (C13 evidence, enumerative)
pub uninterp spec fn cam_entry(c: char) -> Option<(bool, KeyCode)>;
pub struct CAM {}
impl CAM {
  #[verifier::external_body]
  pub fn get(&self, c: &char) -> (res: Option<&SinkKey>)
    ensures
      //@ C13 | ASSUMED (E5): a lookup in the immutable table is a function of the character
      match res { Some(sk) => cam_entry(*c) == Some((sk.sh, sk.k)), None => cam_entry(*c) is None },
  { unimplemented!() }
}
pub exec static CHAR_ACCESS_MAP: CAM ensures true { CAM{} }
