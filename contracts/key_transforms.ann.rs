// Overlay for src/key_transforms.rs
use crate::keys::{mview, rview, MappingV, RepeatV, mapping_ok, layout_ok, repeat_ok, repeatv_ok};
use vstd::std_specs::hash::*;
use crate::prelude_specs::*;
// ---------- spec ----------
pub open spec fn ev1(h: Set<KeyCode>, e: Event) -> Option<Set<KeyCode>> {
  match e {
    Event::Pressed(k) => if h.contains(k) { None } else { Some(h.insert(k)) },
    Event::Released(k) => if h.contains(k) { Some(h.remove(k)) } else { None },
  }
}

pub open spec fn apply(h: Set<KeyCode>, evs: Seq<Event>) -> Option<Set<KeyCode>>
  decreases evs.len()
{
  if evs.len() == 0 { Some(h) } else {
    match apply(h, evs.drop_last()) { None => None, Some(h1) => ev1(h1, evs.last()) }
  }
}

spec fn held(st: State) -> Set<KeyCode> { st.pass_through_keys@.to_set() + st.mapped_output_keys@.to_set() }

spec fn wf(st: State) -> bool {
  &&& st.pass_through_keys@.no_duplicates()
  &&& st.mapped_output_keys@.no_duplicates()
  &&& st.pass_through_keys@.to_set().disjoint(st.mapped_output_keys@.to_set())
}

pub open spec fn is_mod(k: KeyCode) -> bool {
  k == KeyCode::LEFTSHIFT || k == KeyCode::RIGHTSHIFT || k == KeyCode::LEFTMETA || k == KeyCode::RIGHTMETA
  || k == KeyCode::LEFTCTRL || k == KeyCode::RIGHTCTRL || k == KeyCode::LEFTALT || k == KeyCode::RIGHTALT
}

//@ C07 C14 | default: fn is_action_key
fn is_action_key(k: &KeyCode) -> (r: bool)
  ensures
    //@ C07 | every key that is not one of the eight modifiers counts as repeatable (it is lifted when a no-repeat mapping fires)
    !is_mod(*k) ==> r,
    //@ C04 C05 | ... and the eight modifiers do not (they are never lifted or re-pressed like a repeatable key)
    is_mod(*k) ==> !r,
  { //@ | body
  use KeyCode::{LEFTSHIFT, RIGHTSHIFT, LEFTMETA, RIGHTMETA, LEFTCTRL, RIGHTCTRL, LEFTALT, RIGHTALT};
  
  match k {
    LEFTSHIFT => false,
    RIGHTSHIFT => false,
    LEFTMETA => false,
    RIGHTMETA => false,
    LEFTCTRL => false,
    RIGHTCTRL => false,
    LEFTALT => false,
    RIGHTALT => false,
    _ => true
  }
}

pub open spec fn rel_seq(ks: Seq<KeyCode>) -> Seq<Event> { ks.map_values(|k: KeyCode| Event::Released(k)) }

proof fn lemma_apply_releases(h: Set<KeyCode>, ks: Seq<KeyCode>)
  requires ks.no_duplicates(), forall|k: KeyCode| ks.contains(k) ==> h.contains(k)
  ensures apply(h, rel_seq(ks)) == Some(h.difference(ks.to_set()))
  decreases ks.len()
{
  if ks.len() == 0 {
    assert(h.difference(ks.to_set()) =~= h);
  } else {
    let ks1 = ks.drop_last();
    assert(rel_seq(ks).drop_last() =~= rel_seq(ks1));
    assert forall|k: KeyCode| ks1.contains(k) implies h.contains(k) by { assert(ks.contains(k)); }
    lemma_apply_releases(h, ks1);
    let h1 = h.difference(ks1.to_set());
    let kl = ks.last();
    assert(ks.contains(kl));
    assert(!ks1.contains(kl));
    assert(h1.contains(kl));
    assert(h1.remove(kl) =~= h.difference(ks.to_set())) by {
      assert forall|k: KeyCode| ks.to_set().contains(k) <==> (ks1.to_set().contains(k) || k == kl) by {
        if ks.contains(k) { let i = choose|i: int| 0 <= i < ks.len() && ks[i] == k; if i < ks.len() - 1 { assert(ks1[i] == k); } }
        if ks1.contains(k) { let i = choose|i: int| 0 <= i < ks1.len() && ks1[i] == k; assert(ks[i] == k); }
      }
    }
  }
}

// ---------- seq helper lemmas ----------
pub proof fn lemma_push_contains<T>(s: Seq<T>, x: T)
  ensures forall|k: T| #[trigger] s.push(x).contains(k) <==> (s.contains(k) || k == x)
{
  assert forall|k: T| #[trigger] s.push(x).contains(k) <==> (s.contains(k) || k == x) by {
    if s.push(x).contains(k) {
      let i = choose|i: int| 0 <= i < s.push(x).len() && s.push(x)[i] == k;
      if i < s.len() { assert(s[i] == k); }
    }
    if s.contains(k) { let i = choose|i: int| 0 <= i < s.len() && s[i] == k; assert(s.push(x)[i] == k); }
    if k == x { assert(s.push(x)[s.len() as int] == x); }
  }
}

pub proof fn lemma_push_nodup<T>(s: Seq<T>, x: T)
  requires s.no_duplicates(), !s.contains(x)
  ensures s.push(x).no_duplicates()
{
  assert forall|i: int, j: int| 0 <= i < s.push(x).len() && 0 <= j < s.push(x).len() && i != j implies s.push(x)[i] != s.push(x)[j] by {
    if i < s.len() && j < s.len() {} else if i < s.len() { assert(s.contains(s[i])); } else if j < s.len() { assert(s.contains(s[j])); }
  }
}

pub proof fn lemma_remove_nodup<T>(s: Seq<T>, i: int)
  requires s.no_duplicates(), 0 <= i < s.len()
  ensures s.remove(i).no_duplicates(),
    forall|k: T| #[trigger] s.remove(i).contains(k) <==> (s.contains(k) && k != s[i])
{
  let r = s.remove(i);
  assert forall|a: int, b: int| 0 <= a < r.len() && 0 <= b < r.len() && a != b implies r[a] != r[b] by {
    let a2 = if a < i { a } else { a + 1 };
    let b2 = if b < i { b } else { b + 1 };
    assert(r[a] == s[a2] && r[b] == s[b2]);
  }
  assert forall|k: T| #[trigger] r.contains(k) <==> (s.contains(k) && k != s[i]) by {
    if r.contains(k) {
      let a = choose|a: int| 0 <= a < r.len() && r[a] == k;
      let a2 = if a < i { a } else { a + 1 };
      assert(s[a2] == k);
    }
    if s.contains(k) && k != s[i] {
      let a2 = choose|a2: int| 0 <= a2 < s.len() && s[a2] == k;
      let a = if a2 < i { a2 } else { a2 - 1 };
      assert(r[a] == k);
    }
  }
}

pub proof fn lemma_push_set<T>(s: Seq<T>, x: T)
  ensures s.push(x).to_set() =~= s.to_set().insert(x)
{
  lemma_push_contains(s, x);
  assert forall|k: T| s.push(x).to_set().contains(k) <==> s.to_set().insert(x).contains(k) by {
    assert(s.push(x).to_set().contains(k) <==> s.push(x).contains(k));
    assert(s.to_set().contains(k) <==> s.contains(k));
  }
}

pub proof fn lemma_remove_set<T>(s: Seq<T>, i: int)
  requires s.no_duplicates(), 0 <= i < s.len()
  ensures s.remove(i).to_set() =~= s.to_set().remove(s[i]), s.remove(i).no_duplicates(), s.to_set().contains(s[i])
{
  lemma_remove_nodup(s, i);
  assert(s.contains(s[i]));
  assert forall|k: T| s.remove(i).to_set().contains(k) <==> s.to_set().remove(s[i]).contains(k) by {
    assert(s.remove(i).to_set().contains(k) <==> s.remove(i).contains(k));
    assert(s.to_set().contains(k) <==> s.contains(k));
  }
}

pub proof fn lemma_ts<T>(s: Seq<T>, k: T)
  ensures s.to_set().contains(k) <==> s.contains(k)
{}

pub open spec fn all_released(evs: Seq<Event>) -> bool { forall|e: Event| evs.contains(e) ==> e is Released }

spec fn out_of(am: Seq<Mapping>, k: KeyCode) -> bool { exists|j: int| 0 <= j < am.len() && #[trigger] am[j].to@.contains(k) }

spec fn j1(st: State) -> bool { forall|k: KeyCode| #[trigger] st.mapped_output_keys@.contains(k) ==> out_of(st.active_mappings@, k) }

proof fn lemma_used_other_out_of(am: Seq<Mapping>, i: int, k: KeyCode)
  requires 0 <= i < am.len(), used_by_other(am, i, k)
  ensures out_of(am.remove(i), k)
{
  let j = choose|j: int| 0 <= j < am.len() && j != i && #[trigger] am[j].to@.contains(k);
  let j2 = if j < i { j } else { j - 1 };
  assert(am.remove(i)[j2] == am[j]);
  assert(am.remove(i)[j2].to@.contains(k));
}

proof fn lemma_out_of_push(am: Seq<Mapping>, m: Mapping, k: KeyCode)
  ensures out_of(am, k) ==> out_of(am.push(m), k), m.to@.contains(k) ==> out_of(am.push(m), k)
{
  if out_of(am, k) { let j = choose|j: int| 0 <= j < am.len() && #[trigger] am[j].to@.contains(k); assert(am.push(m)[j].to@.contains(k)); }
  if m.to@.contains(k) { assert(am.push(m)[am.len() as int].to@.contains(k)); }
}

spec fn j2(st: State) -> bool { sub(st.pass_through_keys@, st.input_pressed_keys@) }

spec fn from_in(am: Seq<Mapping>, n: int, ip: Seq<KeyCode>) -> bool { forall|j: int| 0 <= j < n && j < am.len() ==> sub(#[trigger] am[j].from@, ip) }

spec fn j3(st: State) -> bool { from_in(st.active_mappings@, st.active_mappings@.len() as int, st.input_pressed_keys@) }

spec fn none_needs(am: Seq<Mapping>, lo: int, k: KeyCode) -> bool { forall|j: int| lo <= j < am.len() ==> !(#[trigger] am[j].from@).contains(k) }

proof fn lemma_from_in_remove(am: Seq<Mapping>, i: int, ip: Seq<KeyCode>)
  requires 0 <= i < am.len(), from_in(am, am.len() as int, ip)
  ensures from_in(am.remove(i), am.remove(i).len() as int, ip)
{
  assert forall|j: int| 0 <= j < am.remove(i).len() implies sub(#[trigger] am.remove(i)[j].from@, ip) by {
    let j2 = if j < i { j } else { j + 1 };
    assert(am.remove(i)[j] == am[j2]);
  }
}

spec fn am_sub(a: Seq<Mapping>, n: int, b: Seq<Mapping>) -> bool { forall|j: int| 0 <= j < n && j < a.len() ==> b.contains(#[trigger] a[j]) }

spec fn nonempty_from(am: Seq<Mapping>) -> bool { forall|j: int| 0 <= j < am.len() ==> (#[trigger] am[j]).from@.len() >= 1 }

proof fn lemma_am_sub_remove(am: Seq<Mapping>, i: int)
  requires 0 <= i < am.len()
  ensures am_sub(am.remove(i), am.remove(i).len() as int, am)
{
  assert forall|j: int| 0 <= j < am.remove(i).len() implies am.contains(#[trigger] am.remove(i)[j]) by {
    let j2 = if j < i { j } else { j + 1 };
    assert(am.remove(i)[j] == am[j2]);
  }
}

proof fn lemma_am_sub_trans(a: Seq<Mapping>, b: Seq<Mapping>, c: Seq<Mapping>)
  requires am_sub(a, a.len() as int, b), am_sub(b, b.len() as int, c)
  ensures am_sub(a, a.len() as int, c)
{
  assert forall|j: int| 0 <= j < a.len() implies c.contains(#[trigger] a[j]) by {
    assert(b.contains(a[j]));
    let i1 = choose|i1: int| 0 <= i1 < b.len() && b[i1] == a[j];
    assert(c.contains(b[i1]));
  }
}

proof fn lemma_am_sub_refl(a: Seq<Mapping>)
  ensures am_sub(a, a.len() as int, a)
{
}

proof fn lemma_nonempty_sub(a: Seq<Mapping>, b: Seq<Mapping>)
  requires am_sub(a, a.len() as int, b), nonempty_from(b)
  ensures nonempty_from(a)
{
  assert forall|j: int| 0 <= j < a.len() implies (#[trigger] a[j]).from@.len() >= 1 by {
    assert(b.contains(a[j]));
    let i = choose|i: int| 0 <= i < b.len() && b[i] == a[j];
    assert(b[i].from@.len() >= 1);
  }
}

/// C02(d), strengthened: no pass-through key is a trigger key of an active mapping
spec fn j4(st: State) -> bool { forall|x: KeyCode, j: int| #![trigger st.pass_through_keys@.contains(x), st.active_mappings@[j]] st.pass_through_keys@.contains(x) && 0 <= j < st.active_mappings@.len() ==> !st.active_mappings@[j].from@.contains(x) }

/// no pass-through key is an output key of an active mapping (with J4: pass-through keys are untouched by every mapping in effect)
spec fn j6(st: State) -> bool { forall|x: KeyCode| #[trigger] st.pass_through_keys@.contains(x) ==> !out_of(st.active_mappings@, x) }

pub open spec fn rel(evs: Seq<Event>, x: KeyCode) -> bool { evs.contains(Event::Released(x)) }

proof fn lemma_out_of_sub(a: Seq<Mapping>, b: Seq<Mapping>, x: KeyCode)
  requires am_sub(a, a.len() as int, b), out_of(a, x)
  ensures out_of(b, x)
{
  let j = choose|j: int| 0 <= j < a.len() && #[trigger] a[j].to@.contains(x);
  assert(b.contains(a[j]));
  let i = choose|i: int| 0 <= i < b.len() && b[i] == a[j];
  assert(b[i].to@.contains(x));
}

proof fn lemma_not_used_not_out(am: Seq<Mapping>, i: int, x: KeyCode)
  requires 0 <= i < am.len(), !used_by_other(am, i, x)
  ensures !out_of(am.remove(i), x)
{
  if out_of(am.remove(i), x) {
    let j = choose|j: int| 0 <= j < am.remove(i).len() && #[trigger] am.remove(i)[j].to@.contains(x);
    let j2 = if j < i { j } else { j + 1 };
    assert(am.remove(i)[j] == am[j2]);
    assert(am[j2].to@.contains(x));
    assert(used_by_other(am, i, x));
  }
}

/// C05 (release clause): x is an output key of a mapping of `am` that has k in its trigger
spec fn owned_by_trigger(am: Seq<Mapping>, k: KeyCode, x: KeyCode) -> bool { exists|j: int| 0 <= j < am.len() && (#[trigger] am[j]).from@.contains(k) && am[j].to@.contains(x) }

spec fn c05_rel(evs: Seq<Event>, am_old: Seq<Mapping>, am_now: Seq<Mapping>, k: KeyCode) -> bool {
  forall|x: KeyCode| #[trigger] rel(evs, x) ==> (x == k || owned_by_trigger(am_old, k, x)) && !out_of(am_now, x)
}

spec fn jx(st: State, x: Seq<KeyCode>) -> bool { forall|k: KeyCode| #[trigger] st.mapped_output_keys@.contains(k) ==> out_of(st.active_mappings@, k) || x.contains(k) }

spec fn sub(a: Seq<KeyCode>, b: Seq<KeyCode>) -> bool { forall|k: KeyCode| #[trigger] a.contains(k) ==> b.contains(k) }

spec fn all_mod_prefix(s: Seq<KeyCode>, n: int) -> bool { forall|j: int| 0 <= j < n ==> is_mod(#[trigger] s[j]) }

// where the active mappings and the absorbed keys of a state come from (C02(a), C05: nothing foreign to the layout ever gets in)
spec fn anm_extra(o: State, st: State, extra: Seq<KeyCode>) -> bool {
  am_sub(st.active_mappings@, st.active_mappings@.len() as int, o.active_mappings@)
  && (forall|x: KeyCode| #[trigger] st.mapped_absorbed_keys@.contains(x) ==> o.mapped_absorbed_keys@.contains(x) || extra.contains(x))
}

spec fn nr_frame(st: State, o: State) -> bool {
  am_sub(st.active_mappings@, st.active_mappings@.len() as int, o.active_mappings@) && st.mapped_absorbed_keys@ == o.mapped_absorbed_keys@ && st.absorbing_trigger == o.absorbing_trigger
}

spec fn used_by_other(am: Seq<Mapping>, i: int, k: KeyCode) -> bool {
  exists|j: int| 0 <= j < am.len() && j != i && #[trigger] am[j].to@.contains(k)
}

spec fn shadowed_by_other(am: Seq<Mapping>, i: int, k: KeyCode) -> bool {
  exists|j: int| 0 <= j < am.len() && j != i && #[trigger] am[j].from@.contains(k)
}

// ---- which keys a step may lift, and which it must have lifted (C05 in-effect clauses, C04) ----
pub open spec fn has_mod(keys: Seq<KeyCode>) -> bool { exists|j: int| 0 <= j < keys.len() && is_mod(#[trigger] keys[j]) }
/// a key-producing mapping: its output ends in a non-modifier key
pub open spec fn act_map_v(to: Seq<KeyCode>) -> bool { to.len() > 0 && !is_mod(to.last()) }
spec fn act_map(m: Mapping) -> bool { act_map_v(m.to@) }
/// the outputs that release_action_mappings lifts: x is an output key of a key-producing mapping in effect that carries modifiers
spec fn ram_target(am: Seq<Mapping>, x: KeyCode) -> bool { exists|j: int| 0 <= j < am.len() && act_map(#[trigger] am[j]) && am[j].to@.len() > 1 && has_mod(am[j].to@) && am[j].to@.contains(x) }
spec fn is_ram_src(m: Mapping) -> bool { act_map(m) && m.to@.len() > 1 && has_mod(m.to@) }
spec fn ktr_sound(ktr: Seq<KeyCode>, am: Seq<Mapping>) -> bool { forall|x: KeyCode| #[trigger] ktr.contains(x) ==> ram_target(am, x) }
spec fn ktr_complete(ktr: Seq<KeyCode>, am: Seq<Mapping>, n: int, mo: Seq<KeyCode>) -> bool {
  forall|j: int, x: KeyCode| #![trigger am[j].to@.contains(x)] 0 <= j < n && j < am.len() && is_ram_src(am[j]) && am[j].to@.contains(x) && mo.contains(x) ==> ktr.contains(x)
}
spec fn ktr_cur(ktr: Seq<KeyCode>, to: Seq<KeyCode>, n: int, mo: Seq<KeyCode>) -> bool {
  forall|p: int| to.len() - n <= p < to.len() && 0 <= p ==> (mo.contains(#[trigger] to[p]) ==> ktr.contains(to[p]))
}
proof fn lemma_ktr_push_sound(k0: Seq<KeyCode>, x: KeyCode, am: Seq<Mapping>, j: int)
  requires
    //@ C05 | scope: only output keys of key-producing mappings in effect that carry modifiers are collected for lifting
    ktr_sound(k0, am), 0 <= j < am.len(), is_ram_src(am[j]), am[j].to@.contains(x)
  ensures ktr_sound(k0.push(x), am)
{
  lemma_push_contains(k0, x);
  assert forall|y: KeyCode| #[trigger] k0.push(x).contains(y) implies ram_target(am, y) by { if y == x { assert(act_map(am[j]) && am[j].to@.contains(x)); } else { assert(k0.contains(y)); } }
}
proof fn lemma_ktr_push_complete(k0: Seq<KeyCode>, x: KeyCode, am: Seq<Mapping>, n: int, mo: Seq<KeyCode>, to: Seq<KeyCode>, n2: int)
  requires
    //@ C04 | completeness: every held output key of the key-producing mappings with modifiers scanned so far is collected for lifting
    ktr_complete(k0, am, n, mo), ktr_cur(k0, to, n2, mo)
  ensures ktr_complete(k0.push(x), am, n, mo), ktr_cur(k0.push(x), to, n2, mo), k0.push(x).contains(x)
{
  lemma_push_contains(k0, x);
}
proof fn lemma_ktr_next(ktr: Seq<KeyCode>, am: Seq<Mapping>, n: int, mo: Seq<KeyCode>, done: bool)
  requires
    //@ C04 | completeness: every held output key of the key-producing mappings with modifiers scanned so far is collected for lifting
    ktr_complete(ktr, am, n, mo), 0 <= n < am.len(), done ==> ktr_cur(ktr, am[n].to@, am[n].to@.len() as int, mo), !done ==> !is_ram_src(am[n])
  ensures ktr_complete(ktr, am, n + 1, mo)
{
  assert forall|j: int, x: KeyCode| #![trigger am[j].to@.contains(x)] 0 <= j < n + 1 && j < am.len() && is_ram_src(am[j]) && am[j].to@.contains(x) && mo.contains(x) implies ktr.contains(x) by {
    if j == n { let p = choose|p: int| 0 <= p < am[n].to@.len() && am[n].to@[p] == x; assert(mo.contains(am[n].to@[p])); }
  }
}
#[verifier::opaque]
spec fn ram_scope(o: State, st: State) -> bool { forall|x: KeyCode| #![trigger o.mapped_output_keys@.contains(x)] o.mapped_output_keys@.contains(x) && !st.mapped_output_keys@.contains(x) ==> ram_target(o.active_mappings@, x) }
#[verifier::opaque]
spec fn ram_done(st: State) -> bool { forall|x: KeyCode| #[trigger] st.mapped_output_keys@.contains(x) ==> !ram_target(st.active_mappings@, x) }

//@ C01 C02 C05 C07 C09 C14 C19 | default: fn remove_mapping
fn remove_mapping(state: &mut State, i: usize, removed_key: KeyCode) -> (res: Vec<Event>)
  requires
    //@ C19 | bookkeeping equals the fold of the emitted events; no redundant press or release
    wf(*old(state)),
    //@  | frame / auxiliary
    i < old(state).active_mappings@.len(),
  ensures
    //@ C19 | bookkeeping equals the fold of the emitted events; no redundant press or release
    wf(*final(state)),
    apply(held(*old(state)), res@) == Some(held(*final(state))),
    //@  | frame / auxiliary
    final(state).active_mappings@ == old(state).active_mappings@.remove(i as int),
    //@ C01 C02 | effect of the call on the list of keys considered pressed
    final(state).input_pressed_keys@ == old(state).input_pressed_keys@,
    //@  | frame / auxiliary
    final(state).mapped_absorbed_keys@ == old(state).mapped_absorbed_keys@,
    final(state).absorbing_trigger == old(state).absorbing_trigger,
    final(state).repeating_trigger == old(state).repeating_trigger,
    //@ C02 C07 | release paths emit only releases
    forall|e: Event| res@.contains(e) ==> e is Released,
    all_released(res@),
    //@  | frame / auxiliary
    forall|k: KeyCode| #[trigger] final(state).mapped_output_keys@.contains(k) ==> old(state).mapped_output_keys@.contains(k) && used_by_other(old(state).active_mappings@, i as int, k),
    //@ C01 C02 | effect of the call on the list of keys considered pressed
    forall|k: KeyCode| #[trigger] final(state).pass_through_keys@.contains(k) ==> old(state).pass_through_keys@.contains(k) || (old(state).input_pressed_keys@.contains(k) && old(state).mapped_output_keys@.contains(k)),
    //@ C01 C02 | inclusion invariant J (every held output key is justified by what is pressed)
    j1(*final(state)),
    j2(*old(state)) ==> j2(*final(state)),
    j3(*old(state)) ==> j3(*final(state)),
    //@ C02 | (d) trigger keys of mappings in effect are consumed (not passed through)
    j4(*old(state)) ==> j4(*final(state)),
    //@ C05 | a release lifts only the key itself or outputs owned by its mappings; pass-through keys are not outputs of mappings in effect
    j6(*old(state)) ==> j6(*final(state)),
    //@  | frame / auxiliary
    forall|x: KeyCode| rel(res@, x) ==> old(state).mapped_output_keys@.contains(x) && !used_by_other(old(state).active_mappings@, i as int, x),
    //@ C05 | removing a mapping never lifts a key that is passed through
    sub(old(state).pass_through_keys@, final(state).pass_through_keys@),
  { //@ | body
  let mut res: Vec<Event> = Vec::new();
  
  let active_mappings = &mut state.active_mappings;
  let input_pressed_keys = &state.input_pressed_keys;
  let pass_through_keys = &mut state.pass_through_keys;

  let ghost h0 = held(*old(state));
  let ghost n0 = old(state).mapped_output_keys@.len();
  for mapped_output_i in it: (0 .. state.mapped_output_keys.len()).rev()
    invariant
      //@  | frame / auxiliary
      it.seq().len() == n0,
      forall|j: int| 0 <= j < n0 ==> it.seq()[j] == n0 - 1 - j,
      i < active_mappings@.len(),
      active_mappings@ == old(state).active_mappings@,
      //@ C01 C02 | effect of the call on the list of keys considered pressed
      input_pressed_keys@ == old(state).input_pressed_keys@,
      //@  | frame / auxiliary
      state.mapped_output_keys@.len() >= n0 - it.index@,
      //@ C19 | bookkeeping equals the fold of the emitted events; no redundant press or release
      state.mapped_output_keys@.no_duplicates(),
      pass_through_keys@.no_duplicates(),
      pass_through_keys@.to_set().disjoint(state.mapped_output_keys@.to_set()),
      apply(h0, res@) == Some(pass_through_keys@.to_set().union(state.mapped_output_keys@.to_set())),
      //@ C02 C07 | release paths emit only releases
      forall|e: Event| res@.contains(e) ==> e is Released,
      //@  | frame / auxiliary
      forall|j: int| 0 <= j < n0 - it.index@ ==> #[trigger] state.mapped_output_keys@[j] == old(state).mapped_output_keys@[j],
      forall|j: int| n0 - it.index@ <= j < state.mapped_output_keys@.len() ==> used_by_other(active_mappings@, i as int, #[trigger] state.mapped_output_keys@[j]) && old(state).mapped_output_keys@.contains(state.mapped_output_keys@[j]),
      //@ C01 C02 | effect of the call on the list of keys considered pressed
      forall|x: KeyCode| #[trigger] pass_through_keys@.contains(x) ==> old(state).pass_through_keys@.contains(x) || (old(state).input_pressed_keys@.contains(x) && old(state).mapped_output_keys@.contains(x)),
      //@  | frame / auxiliary
      forall|x: KeyCode| #[trigger] pass_through_keys@.contains(x) ==> old(state).pass_through_keys@.contains(x) || !shadowed_by_other(active_mappings@, i as int, x),
      forall|x: KeyCode| #[trigger] pass_through_keys@.contains(x) ==> old(state).pass_through_keys@.contains(x) || !used_by_other(active_mappings@, i as int, x),
      forall|x: KeyCode| #[trigger] rel(res@, x) ==> old(state).mapped_output_keys@.contains(x) && !used_by_other(active_mappings@, i as int, x),
      //@ C05 | removing a mapping never lifts a key that is passed through
      sub(old(state).pass_through_keys@, pass_through_keys@),
    { //@ | body
    let ghost mo0 = state.mapped_output_keys@;
    let ghost pt0 = pass_through_keys@;
    let ghost res0 = res@;
    let k = state.mapped_output_keys[mapped_output_i];
    proof { assert(mo0.contains(k)); assert(mo0.to_set().contains(k)); assert(!pt0.to_set().contains(k)); assert(!pt0.contains(k)); }
    
    proof { assert(k == old(state).mapped_output_keys@[mapped_output_i as int]); assert(old(state).mapped_output_keys@.contains(k)); }
    let mut still_used: bool = false;
    for j in 0 .. active_mappings.len()
      invariant
        //@  | frame / auxiliary
        i < active_mappings@.len(),
        still_used ==> used_by_other(active_mappings@, i as int, k),
        !still_used ==> forall|j2: int| 0 <= j2 < j && j2 != i ==> !(#[trigger] active_mappings@[j2]).to@.contains(k),
      ensures
        //@  | frame / auxiliary
        !still_used ==> !used_by_other(active_mappings@, i as int, k),
      { //@ | body
      if j != i {
        if active_mappings[j].to.contains(&k) {
          still_used = true;
          break;
        }
      }
    }

    if !still_used {
      if input_pressed_keys.contains(&k) && k != removed_key {
        let mut still_shadowed = false;
        for j in 0 .. active_mappings.len()
          invariant
            //@  | frame / auxiliary
            i < active_mappings@.len(),
            !still_shadowed ==> forall|j2: int| 0 <= j2 < j && j2 != i ==> !(#[trigger] active_mappings@[j2]).from@.contains(k),
          ensures
            //@  | frame / auxiliary
            !still_shadowed ==> !shadowed_by_other(active_mappings@, i as int, k),
          { //@ | body
          if j != i {
            if active_mappings[j].from.contains(&k) {
              still_shadowed = true;
              break;
            }
          }
        }
        if !still_shadowed {
          pass_through_keys.push(k);
          proof { lemma_push_set(pt0, k); lemma_push_nodup(pt0, k); lemma_push_contains(pt0, k); }
        }
        else {
          res.push(Released(k));
        proof { lemma_push_contains(res0, Released(k)); assert(res@.drop_last() =~= res0); assert forall|x: KeyCode| #[trigger] rel(res@, x) implies old(state).mapped_output_keys@.contains(x) && !used_by_other(active_mappings@, i as int, x) by { if x != k { assert(res0.contains(Event::Released(x))); assert(rel(res0, x)); } } }
          proof { lemma_push_contains(res0, Released(k)); assert(res@.drop_last() =~= res0); assert forall|x: KeyCode| #[trigger] rel(res@, x) implies old(state).mapped_output_keys@.contains(x) && !used_by_other(active_mappings@, i as int, x) by { if x != k { assert(res0.contains(Event::Released(x))); assert(rel(res0, x)); } } }
        }
      }
      else {
        res.push(Released(k));
        proof { lemma_push_contains(res0, Released(k)); assert(res@.drop_last() =~= res0); assert forall|x: KeyCode| #[trigger] rel(res@, x) implies old(state).mapped_output_keys@.contains(x) && !used_by_other(active_mappings@, i as int, x) by { if x != k { assert(res0.contains(Event::Released(x))); assert(rel(res0, x)); } } }
      }
    }
    
    if !still_used {
      state.mapped_output_keys.remove(mapped_output_i);
      proof { lemma_remove_set(mo0, mapped_output_i as int); assert(state.mapped_output_keys@ =~= mo0.remove(mapped_output_i as int));
        assert forall|j: int| 0 <= j < mapped_output_i implies state.mapped_output_keys@[j] == mo0[j] by {}
        assert forall|j: int| mapped_output_i <= j < state.mapped_output_keys@.len() implies state.mapped_output_keys@[j] == mo0[j + 1] by {}
      }
    }
  }
    
  let ghost am_before = active_mappings@;
  active_mappings.remove(i);
  proof { assert(held(*state) =~= state.pass_through_keys@.to_set().union(state.mapped_output_keys@.to_set()));
    assert forall|k: KeyCode| #[trigger] state.mapped_output_keys@.contains(k) implies old(state).mapped_output_keys@.contains(k) && used_by_other(old(state).active_mappings@, i as int, k) by {
      let j = choose|j: int| 0 <= j < state.mapped_output_keys@.len() && state.mapped_output_keys@[j] == k;
      assert(used_by_other(am_before, i as int, state.mapped_output_keys@[j]));
    }
    assert forall|k: KeyCode| #[trigger] state.mapped_output_keys@.contains(k) implies out_of(state.active_mappings@, k) by { lemma_used_other_out_of(am_before, i as int, k); }
    if j3(*old(state)) { lemma_from_in_remove(am_before, i as int, state.input_pressed_keys@); }
    if j6(*old(state)) {
      lemma_am_sub_remove(am_before, i as int);
      assert forall|x: KeyCode| #[trigger] state.pass_through_keys@.contains(x) implies !out_of(state.active_mappings@, x) by {
        if old(state).pass_through_keys@.contains(x) { if out_of(state.active_mappings@, x) { lemma_out_of_sub(state.active_mappings@, am_before, x); } }
        else { lemma_not_used_not_out(am_before, i as int, x); }
      }
    }
    if j4(*old(state)) {
      assert forall|x: KeyCode, j: int| #![trigger state.pass_through_keys@.contains(x), state.active_mappings@[j]] state.pass_through_keys@.contains(x) && 0 <= j < state.active_mappings@.len() implies !state.active_mappings@[j].from@.contains(x) by {
        let j2 = if j < i { j } else { j + 1 };
        assert(state.active_mappings@[j] == am_before[j2]);
        if old(state).pass_through_keys@.contains(x) { assert(old(state).active_mappings@[j2] == am_before[j2]); }
        else { assert(!shadowed_by_other(am_before, i as int, x)); if am_before[j2].from@.contains(x) { assert(shadowed_by_other(am_before, i as int, x)); } }
      }
    }
  }
  
  return res;
}

//@ C04 C05 C14 | default: fn is_action_mapping
fn is_action_mapping(m: &Mapping) -> (r: bool)
  ensures
    //@  | helper, exact test: true iff the output ends in a non-modifier key
    r == act_map(*m),
  { //@ | body
  if m.to.len() == 0 {
    false
  }
  else {
    let last_key = &m.to[m.to.len() - 1];
    is_action_key(last_key)
  }
}

pub open spec fn has_action(keys: Seq<KeyCode>) -> bool { exists|j: int| 0 <= j < keys.len() && !is_mod(#[trigger] keys[j]) }

//@ C08 C14 | default: fn has_action_key
fn has_action_key(keys: &Vec<KeyCode>) -> (r: bool)
  ensures
    //@  | helper, exact test: true iff the list contains a non-modifier key
    r == has_action(keys@),
  { //@ | body
  for k in it: keys
    invariant
      forall|j: int| 0 <= j < it.index@ ==> is_mod(#[trigger] keys@[j]),
      it.seq().len() == keys@.len(), forall|j: int| 0 <= j < keys@.len() ==> *it.seq()[j] == keys@[j],
    { //@ | body
    proof { assert(*k == keys@[it.index@ as int]); }
    if is_action_key(k) {
      return true;
    }
  }
  return false;
}

//@ C04 C05 C14 | default: fn is_any_modifier
// The body is `keys.iter().any(closure)`; extraction rule N4 writes the adapter out as the short-circuiting index loop it stands for
// (validated by differential execution, thorough tier, and by the exhaustive bounded comparison `anymod_bounded` on every run).
fn is_any_modifier(keys: &Vec<KeyCode>) -> (r: bool)
  ensures
    //@ C04 C05 | true iff the list contains a modifier
    r == has_mod(keys@),
  { //@ | body
  { let mut __any = false; let mut __j: usize = 0; while __j < keys.len()
    invariant_except_break
      //@  | frame / auxiliary
      __j <= keys.len(),
      !__any,
      forall|i: int| 0 <= i < __j ==> !is_mod(#[trigger] keys@[i]),
    ensures
      __any ==> has_mod(keys@),
      !__any ==> !has_mod(keys@),
    decreases keys.len() - __j,
    { //@ | body
    let k = &keys[__j]; if !is_action_key(k) { __any = true;
      proof { assert(is_mod(keys@[__j as int])); }
      break; } __j += 1; } __any }
}

//@ C01 C02 C04 C05 C07 C09 C14 C19 | default: fn release_action_mappings
fn release_action_mappings(state: &mut State) -> (events: Vec<Event>)
  requires
    //@ C19 | bookkeeping equals the fold of the emitted events; no redundant press or release
    wf(*old(state)),
  ensures
    //@ C19 | bookkeeping equals the fold of the emitted events; no redundant press or release
    wf(*final(state)),
    apply(held(*old(state)), events@) == Some(held(*final(state))),
    //@  | frame / auxiliary
    final(state).active_mappings@ == old(state).active_mappings@,
    //@ C01 C02 | effect of the call on the list of keys considered pressed
    final(state).input_pressed_keys@ == old(state).input_pressed_keys@,
    //@  | frame / auxiliary
    final(state).pass_through_keys@ == old(state).pass_through_keys@,
    //@ C02 C07 | release paths emit only releases
    forall|e: Event| events@.contains(e) ==> e is Released,
    all_released(events@),
    //@  | frame / auxiliary
    sub(final(state).mapped_output_keys@, old(state).mapped_output_keys@),
    final(state).mapped_absorbed_keys@ == old(state).mapped_absorbed_keys@,
    final(state).absorbing_trigger == old(state).absorbing_trigger,
    //@ C05 | scope: the only keys lifted are output keys of key-producing mappings in effect that carry modifiers
    ram_scope(*old(state), *final(state)),
    //@ C04 | completeness: afterwards no output key of a key-producing mapping in effect that carries modifiers is still held for a mapping (no stale modifiers)
    ram_done(*final(state)),
  { //@ | body
  let mut events = Vec::new();
  let ghost am = old(state).active_mappings@; let ghost mo_seq = old(state).mapped_output_keys@;
  let ghost mo_old = old(state).mapped_output_keys@.to_set();
  let ghost pt_old = old(state).pass_through_keys@.to_set();
  
  let mut keys_to_release: Vec<KeyCode> = Vec::new();
  for exsting_mapping in it1: &state.active_mappings
    invariant
      //@  | frame / auxiliary
      state.mapped_output_keys@ == old(state).mapped_output_keys@,
      state.pass_through_keys@ == old(state).pass_through_keys@,
      state.active_mappings@ == old(state).active_mappings@,
      //@ C01 C02 | effect of the call on the list of keys considered pressed
      state.input_pressed_keys@ == old(state).input_pressed_keys@,
      //@  | frame / auxiliary
      state.mapped_absorbed_keys@ == old(state).mapped_absorbed_keys@,
      state.absorbing_trigger == old(state).absorbing_trigger,
      mo_old == old(state).mapped_output_keys@.to_set(),
      pt_old == old(state).pass_through_keys@.to_set(),
      //@ C19 | bookkeeping equals the fold of the emitted events; no redundant press or release
      keys_to_release@.no_duplicates(),
      //@  | frame / auxiliary
      keys_to_release@.to_set().subset_of(mo_old),
      //@  | frame / auxiliary
      am == old(state).active_mappings@, mo_seq == old(state).mapped_output_keys@,
      it1.seq().len() == am.len(), forall|j: int| 0 <= j < am.len() ==> *it1.seq()[j] == am[j],
      //@ C05 | scope: only output keys of key-producing mappings in effect that carry modifiers are collected for lifting
      ktr_sound(keys_to_release@, am),
      //@ C04 | completeness: every held output key of the key-producing mappings with modifiers scanned so far is collected for lifting
      ktr_complete(keys_to_release@, am, it1.index@ as int, mo_seq),
    { //@ | body
    //@  | frame / auxiliary
    let ghost n1 = it1.index@ as int;
    proof { assert(*exsting_mapping == am[n1]); }
    let ghost mut scanned = false;
    if is_action_mapping(exsting_mapping) {
      if exsting_mapping.to.len() > 1 && is_any_modifier(&exsting_mapping.to) {
        //@ C05 | scope: only output keys of key-producing mappings in effect that carry modifiers are collected for lifting
        proof { assert(is_ram_src(am[n1])); }
        //@  | frame / auxiliary
        proof { scanned = true; }
        for mod_key in it2: exsting_mapping.to.iter().rev()
          invariant
            //@  | frame / auxiliary
            state.mapped_output_keys@ == old(state).mapped_output_keys@,
            state.pass_through_keys@ == old(state).pass_through_keys@,
            state.active_mappings@ == old(state).active_mappings@,
            //@ C01 C02 | effect of the call on the list of keys considered pressed
            state.input_pressed_keys@ == old(state).input_pressed_keys@,
            //@  | frame / auxiliary
            state.mapped_absorbed_keys@ == old(state).mapped_absorbed_keys@,
            state.absorbing_trigger == old(state).absorbing_trigger,
            mo_old == old(state).mapped_output_keys@.to_set(),
            pt_old == old(state).pass_through_keys@.to_set(),
            //@ C19 | bookkeeping equals the fold of the emitted events; no redundant press or release
            keys_to_release@.no_duplicates(),
            //@  | frame / auxiliary
            keys_to_release@.to_set().subset_of(mo_old),
            //@  | frame / auxiliary
            am == old(state).active_mappings@, mo_seq == old(state).mapped_output_keys@, 0 <= n1 < am.len(), *exsting_mapping == am[n1], is_ram_src(am[n1]),
            it2.seq().len() == am[n1].to@.len(), forall|j: int| 0 <= j < am[n1].to@.len() ==> *it2.seq()[j] == am[n1].to@[am[n1].to@.len() - 1 - j],
            //@ C05 | scope: only output keys of key-producing mappings in effect that carry modifiers are collected for lifting
            ktr_sound(keys_to_release@, am),
            //@ C04 | completeness: every held output key of the key-producing mappings with modifiers scanned so far is collected for lifting
            ktr_complete(keys_to_release@, am, n1, mo_seq),
            ktr_cur(keys_to_release@, am[n1].to@, it2.index@ as int, mo_seq),
          { //@ | body
          //@  | frame / auxiliary
          let ghost p2 = am[n1].to@.len() - 1 - it2.index@; let ghost kk0 = keys_to_release@;
          proof { assert(*mod_key == am[n1].to@[p2]); assert(am[n1].to@.contains(*mod_key)); }
          if state.mapped_output_keys.contains(mod_key) && !keys_to_release.contains(mod_key) {
            let ghost k0 = keys_to_release@;
            keys_to_release.push(*mod_key);
            //@  | frame / auxiliary
            proof { lemma_push_set(k0, *mod_key); lemma_push_nodup(k0, *mod_key); lemma_ts(old(state).mapped_output_keys@, *mod_key); assert(mo_old.contains(*mod_key)); }
            //@ C05 | scope: only output keys of key-producing mappings in effect that carry modifiers are collected for lifting
            proof { lemma_ktr_push_sound(k0, *mod_key, am, n1); }
            //@ C04 | completeness: every held output key of the key-producing mappings with modifiers scanned so far is collected for lifting
            proof { lemma_ktr_push_complete(k0, *mod_key, am, n1, mo_seq, am[n1].to@, it2.index@ as int); }
          }
          //@ C04 | completeness: every held output key of the key-producing mappings with modifiers scanned so far is collected for lifting
          proof { assert(ktr_cur(keys_to_release@, am[n1].to@, it2.index@ as int + 1, mo_seq)) by {
            assert forall|p: int| am[n1].to@.len() - (it2.index@ as int + 1) <= p < am[n1].to@.len() && 0 <= p implies (mo_seq.contains(#[trigger] am[n1].to@[p]) ==> keys_to_release@.contains(am[n1].to@[p])) by {
              if p == p2 { } else { assert(mo_seq.contains(am[n1].to@[p]) ==> kk0.contains(am[n1].to@[p])); if kk0.contains(am[n1].to@[p]) && keys_to_release@ != kk0 { lemma_push_contains(kk0, *mod_key); } }
            } } }
        }
      }
    }
    //@ C04 | completeness: every held output key of the key-producing mappings with modifiers scanned so far is collected for lifting
    proof { lemma_ktr_next(keys_to_release@, am, n1, mo_seq, scanned); }
  }
  
  for k in it3: &keys_to_release
    invariant
      //@  | frame / auxiliary
      events@ =~= rel_seq(keys_to_release@.subrange(0, it3.index@ as int)),
      it3.seq().len() == keys_to_release@.len(),
      forall|j: int| 0 <= j < keys_to_release@.len() ==> *it3.seq()[j] == keys_to_release@[j],
    { //@ | body
    let ghost e0 = events@;
    events.push(Released(*k));
    proof {
      let n = it3.index@ as int;
      assert(keys_to_release@.subrange(0, n + 1) =~= keys_to_release@.subrange(0, n).push(*k));
    }
  }
  proof { assert(keys_to_release@.subrange(0, keys_to_release@.len() as int) =~= keys_to_release@); }
  let ghost ktr = keys_to_release@.to_set();
  let mut __i: usize = 0; while __i < state.mapped_output_keys.len()
      invariant
        //@  | frame / auxiliary
        __i <= state.mapped_output_keys.len(),
        state.active_mappings@ == old(state).active_mappings@,
        //@ C01 C02 | effect of the call on the list of keys considered pressed
        state.input_pressed_keys@ == old(state).input_pressed_keys@,
        //@  | frame / auxiliary
        state.mapped_absorbed_keys@ == old(state).mapped_absorbed_keys@,
        state.absorbing_trigger == old(state).absorbing_trigger,
        state.pass_through_keys@ == old(state).pass_through_keys@,
        mo_old == old(state).mapped_output_keys@.to_set(),
        pt_old == old(state).pass_through_keys@.to_set(),
        ktr == keys_to_release@.to_set(),
        //@ C19 | bookkeeping equals the fold of the emitted events; no redundant press or release
        state.mapped_output_keys@.no_duplicates(),
        //@  | frame / auxiliary
        state.mapped_output_keys@.to_set().subset_of(mo_old),
        mo_old.difference(ktr).subset_of(state.mapped_output_keys@.to_set()),
        forall|j: int| 0 <= j < __i ==> !ktr.contains(#[trigger] state.mapped_output_keys@[j]),
      decreases state.mapped_output_keys.len() - __i
    { let ghost mo0 = state.mapped_output_keys@;
      let __keep = { let k = state.mapped_output_keys[__i];
      proof { lemma_ts(keys_to_release@, k); }
    {
    !keys_to_release.contains(&k)
  } }; if __keep { __i += 1; } else { state.mapped_output_keys.remove(__i);
      proof { lemma_remove_set(mo0, __i as int); assert(state.mapped_output_keys@ =~= mo0.remove(__i as int));
        assert(ktr.contains(mo0[__i as int]));
        assert forall|j: int| 0 <= j < __i implies state.mapped_output_keys@[j] == mo0[j] by {}
      }
  } }
  let mut __i: usize = 0; while __i < state.pass_through_keys.len()
      invariant
        //@  | frame / auxiliary
        __i <= state.pass_through_keys.len(),
        state.active_mappings@ == old(state).active_mappings@,
        //@ C01 C02 | effect of the call on the list of keys considered pressed
        state.input_pressed_keys@ == old(state).input_pressed_keys@,
        //@  | frame / auxiliary
        state.mapped_absorbed_keys@ == old(state).mapped_absorbed_keys@,
        state.absorbing_trigger == old(state).absorbing_trigger,
        state.pass_through_keys@ == old(state).pass_through_keys@,
        mo_old == old(state).mapped_output_keys@.to_set(),
        pt_old == old(state).pass_through_keys@.to_set(),
        ktr == keys_to_release@.to_set(),
        ktr.subset_of(mo_old),
        //@ C19 | bookkeeping equals the fold of the emitted events; no redundant press or release
        pt_old.disjoint(mo_old),
      decreases state.pass_through_keys.len() - __i
    { let __keep = { let k = state.pass_through_keys[__i];
      proof { assert(state.pass_through_keys@.contains(k)); lemma_ts(old(state).pass_through_keys@, k); assert(pt_old.contains(k)); assert(!ktr.contains(k)); lemma_ts(keys_to_release@, k); }
    {
    !keys_to_release.contains(&k)
  } }; if __keep { __i += 1; } else { state.pass_through_keys.remove(__i); } }
  
  proof {
    let h0 = held(*old(state));
    assert forall|k: KeyCode| keys_to_release@.contains(k) implies h0.contains(k) by { assert(ktr.contains(k)); assert(mo_old.contains(k)); }
    lemma_apply_releases(h0, keys_to_release@);
    let mof = state.mapped_output_keys@.to_set();
    assert forall|k: KeyCode| mof.contains(k) implies !ktr.contains(k) by {
      let j = choose|j: int| 0 <= j < state.mapped_output_keys@.len() && state.mapped_output_keys@[j] == k;
      assert(!ktr.contains(state.mapped_output_keys@[j]));
    }
    assert(mof =~= mo_old.difference(ktr));
    assert(held(*state) =~= h0.difference(ktr));
    assert forall|k: KeyCode| #[trigger] state.mapped_output_keys@.contains(k) implies old(state).mapped_output_keys@.contains(k) by { lemma_ts(state.mapped_output_keys@, k); lemma_ts(old(state).mapped_output_keys@, k); }
    assert forall|e: Event| events@.contains(e) implies e is Released by {
      let j = choose|j: int| 0 <= j < events@.len() && events@[j] == e;
      assert(events@[j] == Event::Released(keys_to_release@[j]));
    }
    //@ C05 | scope: only output keys of key-producing mappings in effect that carry modifiers are collected for lifting
    assert(ram_scope(*old(state), *state)) by { reveal(ram_scope);
      assert forall|x: KeyCode| #![trigger old(state).mapped_output_keys@.contains(x)] old(state).mapped_output_keys@.contains(x) && !state.mapped_output_keys@.contains(x) implies ram_target(am, x) by {
        lemma_ts(old(state).mapped_output_keys@, x); lemma_ts(state.mapped_output_keys@, x); assert(ktr.contains(x)); lemma_ts(keys_to_release@, x); } }
    //@ C04 | completeness: every held output key of the key-producing mappings with modifiers scanned so far is collected for lifting
    assert(ram_done(*state)) by { reveal(ram_done);
      assert forall|x: KeyCode| #[trigger] state.mapped_output_keys@.contains(x) implies !ram_target(state.active_mappings@, x) by {
        lemma_ts(old(state).mapped_output_keys@, x); lemma_ts(state.mapped_output_keys@, x); lemma_ts(keys_to_release@, x);
        if ram_target(am, x) { let j = choose|j: int| 0 <= j < am.len() && act_map(#[trigger] am[j]) && am[j].to@.len() > 1 && has_mod(am[j].to@) && am[j].to@.contains(x); assert(is_ram_src(am[j])); assert(keys_to_release@.contains(x)); } } }
  }
  events
}

pub proof fn lemma_apply_append(h: Set<KeyCode>, a: Seq<Event>, b: Seq<Event>)
  ensures apply(h, a + b) == (match apply(h, a) { Some(h1) => apply(h1, b), None => None })
  decreases b.len()
{
  if b.len() == 0 {
    assert(a + b =~= a);
  } else {
    let b1 = b.drop_last();
    assert((a + b).drop_last() =~= a + b1);
    assert((a + b).last() == b.last());
    lemma_apply_append(h, a, b1);
  }
}

pub proof fn lemma_apply_only_releases(h: Set<KeyCode>, evs: Seq<Event>)
  requires all_released(evs), apply(h, evs) is Some
  ensures apply(h, evs).unwrap().subset_of(h)
  decreases evs.len()
{
  if evs.len() > 0 {
    assert(all_released(evs.drop_last())) by { assert forall|e: Event| evs.drop_last().contains(e) implies e is Released by { assert(evs.contains(e)); } }
    lemma_apply_only_releases(h, evs.drop_last());
    assert(evs.contains(evs.last()));
  }
}

pub proof fn lemma_append_contains<T>(a: Seq<T>, b: Seq<T>)
  ensures forall|x: T| #[trigger] (a + b).contains(x) <==> (a.contains(x) || b.contains(x))
{
  assert forall|x: T| #[trigger] (a + b).contains(x) <==> (a.contains(x) || b.contains(x)) by {
    if (a + b).contains(x) { let i = choose|i: int| 0 <= i < (a + b).len() && (a + b)[i] == x; if i < a.len() { assert(a[i] == x); } else { assert(b[i - a.len()] == x); } }
    if a.contains(x) { let i = choose|i: int| 0 <= i < a.len() && a[i] == x; assert((a + b)[i] == x); }
    if b.contains(x) { let i = choose|i: int| 0 <= i < b.len() && b[i] == x; assert((a + b)[a.len() + i] == x); }
  }
}

//@ C01 C02 C05 C14 | default: fn fails_when_released
fn fails_when_released(trigger: &Vec<KeyCode>, key: &KeyCode) -> (r: bool)
  ensures
    //@  | helper, exact test: a mapping is taken out of effect by the release of a key iff that key is one of its trigger keys
    r == trigger@.contains(*key),
  { //@ | body
  for k in it: trigger
    invariant
      //@  | frame / auxiliary
      it.seq().len() == trigger@.len(),
      forall|j: int| 0 <= j < trigger@.len() ==> *it.seq()[j] == trigger@[j],
      forall|j: int| 0 <= j < it.index@ ==> trigger@[j] != *key,
    { //@ | body
    if k == key {
      return true;
    }
  }
  return false;
}

spec fn rak_inv(st: State, o: State, h0: Set<KeyCode>, evs: Seq<Event>, done: Seq<KeyCode>) -> bool { rak_core(st, o, h0, evs, done) && rak_gone(st, done) }
spec fn rak_gone(st: State, done: Seq<KeyCode>) -> bool { forall|d: KeyCode| #[trigger] done.contains(d) ==> !st.input_pressed_keys@.contains(d) && !st.pass_through_keys@.contains(d) }
spec fn rak_core(st: State, o: State, h0: Set<KeyCode>, evs: Seq<Event>, done: Seq<KeyCode>) -> bool {
  &&& wf(st) && apply(h0, evs) == Some(held(st)) && all_released(evs)
  &&& st.mapped_absorbed_keys@.len() == 0 && st.absorbing_trigger is None
  &&& sub(st.mapped_output_keys@, o.mapped_output_keys@) && sub(st.input_pressed_keys@, o.input_pressed_keys@)
  &&& (st.active_mappings@ == o.active_mappings@ || j1(st))
  &&& (forall|x: KeyCode| #[trigger] st.pass_through_keys@.contains(x) ==> o.pass_through_keys@.contains(x) || o.input_pressed_keys@.contains(x))
  &&& (forall|x: KeyCode| #[trigger] o.input_pressed_keys@.contains(x) && !done.contains(x) ==> st.input_pressed_keys@.contains(x))
  &&& st.repeating_trigger == o.repeating_trigger
  &&& am_sub(st.active_mappings@, st.active_mappings@.len() as int, o.active_mappings@)
}

/// C05: lifting the absorbed keys leaves every other passed-through key down
spec fn rak_pt(st: State, o: State, done: Seq<KeyCode>) -> bool { forall|x: KeyCode| #![trigger o.pass_through_keys@.contains(x)] o.pass_through_keys@.contains(x) && !done.contains(x) ==> st.pass_through_keys@.contains(x) }
/// with nothing absorbed the call does nothing
spec fn rak_idle(st: State, o: State, evs: Seq<Event>) -> bool {
  evs.len() == 0 && st.pass_through_keys@ == o.pass_through_keys@ && st.mapped_output_keys@ == o.mapped_output_keys@ && st.active_mappings@ == o.active_mappings@ && st.input_pressed_keys@ == o.input_pressed_keys@
}
proof fn lemma_rak_pt_weaken(st: State, o: State, d0: Seq<KeyCode>, k: KeyCode)
  requires
    //@ C05 | scope of the keys a step lifts
    rak_pt(st, o, d0)
  ensures rak_pt(st, o, d0.push(k))
{ assert forall|x: KeyCode| #![trigger o.pass_through_keys@.contains(x)] o.pass_through_keys@.contains(x) && !d0.push(k).contains(x) implies st.pass_through_keys@.contains(x) by { lemma_push_contains(d0, k); if d0.contains(x) { } } }
proof fn lemma_rak_pt_sub(st0: State, st: State, o: State, done: Seq<KeyCode>)
  requires
    //@ C05 | scope of the keys a step lifts
    rak_pt(st0, o, done), sub(st0.pass_through_keys@, st.pass_through_keys@)
  ensures rak_pt(st, o, done)
{ }
proof fn lemma_rak_pt_remove(st0: State, st: State, o: State, done: Seq<KeyCode>, i: int)
  requires
    //@ C05 | scope of the keys a step lifts
    rak_pt(st0, o, done), 0 <= i < st0.pass_through_keys@.len(), st.pass_through_keys@ == st0.pass_through_keys@.remove(i), done.contains(st0.pass_through_keys@[i])
  ensures rak_pt(st, o, done)
{
  assert forall|x: KeyCode| #![trigger o.pass_through_keys@.contains(x)] o.pass_through_keys@.contains(x) && !done.contains(x) implies st.pass_through_keys@.contains(x) by {
    let pt0 = st0.pass_through_keys@; assert(pt0.contains(x)); let j = choose|j: int| 0 <= j < pt0.len() && pt0[j] == x; assert(j != i); let j2 = if j < i { j } else { j - 1 }; assert(pt0.remove(i)[j2] == x);
  }
}

//@ C01 C02 C05 C07 C09 C14 C19 | default: fn release_absorbed_keys
fn release_absorbed_keys(state: &mut State) -> (events: Vec<Event>)
  requires
    //@ C19 | bookkeeping equals the fold of the emitted events; no redundant press or release
    wf(*old(state)),
  ensures
    //@ C19 | bookkeeping equals the fold of the emitted events; no redundant press or release
    wf(*final(state)),
    apply(held(*old(state)), events@) == Some(held(*final(state))),
    //@ C02 C07 | release paths emit only releases
    all_released(events@),
    //@  | frame / auxiliary
    final(state).mapped_absorbed_keys@.len() == 0,
    final(state).absorbing_trigger is None,
    sub(final(state).mapped_output_keys@, old(state).mapped_output_keys@),
    //@ C01 C02 | effect of the call on the list of keys considered pressed
    forall|x: KeyCode| #[trigger] final(state).pass_through_keys@.contains(x) ==> old(state).pass_through_keys@.contains(x) || old(state).input_pressed_keys@.contains(x),
    sub(final(state).input_pressed_keys@, old(state).input_pressed_keys@),
    //@ C01 C02 | inclusion invariant J (every held output key is justified by what is pressed)
    final(state).active_mappings@ == old(state).active_mappings@ || j1(*final(state)),
    j2(*old(state)) ==> j2(*final(state)),
    j3(*old(state)) ==> j3(*final(state)),
    //@ C02 | (d) trigger keys of mappings in effect are consumed (not passed through)
    j4(*old(state)) ==> j4(*final(state)),
    //@ C05 | a release lifts only the key itself or outputs owned by its mappings; pass-through keys are not outputs of mappings in effect
    j6(*old(state)) ==> j6(*final(state)),
    //@ C01 C02 | effect of the call on the list of keys considered pressed
    forall|x: KeyCode| #[trigger] old(state).input_pressed_keys@.contains(x) && !old(state).mapped_absorbed_keys@.contains(x) ==> final(state).input_pressed_keys@.contains(x),
    //@ C01 C02 | inclusion invariant J (every held output key is justified by what is pressed)
    am_sub(final(state).active_mappings@, final(state).active_mappings@.len() as int, old(state).active_mappings@),
    //@ C08 | every key that was absorbed is neither considered pressed nor passed through afterwards
    forall|d: KeyCode| #[trigger] old(state).mapped_absorbed_keys@.contains(d) ==> !final(state).input_pressed_keys@.contains(d) && !final(state).pass_through_keys@.contains(d),
    //@ C05 | every other passed-through key stays down; with nothing absorbed the call does nothing
    rak_pt(*final(state), *old(state), old(state).mapped_absorbed_keys@),
    old(state).mapped_absorbed_keys@.len() == 0 ==> rak_idle(*final(state), *old(state), events@),
  { //@ | body
  let mut events: Vec<Event> = Vec::new();
  let ghost h0 = held(*old(state));
  proof { lemma_am_sub_refl(old(state).active_mappings@); }
  
  let mut to_remove: Vec<KeyCode> = Vec::new();
  to_remove.append(&mut state.mapped_absorbed_keys);
  state.absorbing_trigger = None;
  let ghost tr = to_remove@;
  proof { assert(tr =~= old(state).mapped_absorbed_keys@); }
  
  for k in it0: to_remove
    invariant
      //@  | frame / auxiliary
      it0.seq() == tr,
      //@ C05 | every other passed-through key stays down; with nothing absorbed the call does nothing
      rak_pt(*state, *old(state), tr.take(it0.index@ as int)),
      tr.len() == 0 ==> rak_idle(*state, *old(state), events@),
      //@ C01 C02 | inclusion invariant J (every held output key is justified by what is pressed)
      rak_core(*state, *old(state), h0, events@, tr.take(it0.index@ as int)),
      //@ C08 | the absorbed keys handled so far are no longer considered pressed and no longer passed through
      rak_gone(*state, tr.take(it0.index@ as int)),
      //@ C01 C02 | inclusion invariant J (every held output key is justified by what is pressed)
      j2(*old(state)) ==> j2(*state),
      j3(*old(state)) ==> j3(*state),
      //@ C02 | (d) trigger keys of mappings in effect are consumed (not passed through)
      j4(*old(state)) ==> j4(*state),
      //@ C05 | a release lifts only the key itself or outputs owned by its mappings; pass-through keys are not outputs of mappings in effect
      j6(*old(state)) ==> j6(*state),
    { //@ | body
    let ghost done0 = tr.take(it0.index@ as int);
    let ghost done1 = tr.take(it0.index@ as int + 1);
    proof { assert(done1 =~= done0.push(k)); lemma_push_contains(done0, k); }
    {
      proof { axiom_vec_len_isize(&state.active_mappings); }
      let mut i: isize = state.active_mappings.len() as isize - 1;
      while i >= 0
        invariant
          //@  | frame / auxiliary
          -1 <= i < state.active_mappings@.len(),
          //@ C05 | every other passed-through key stays down
          rak_pt(*state, *old(state), done0),
          //@ C01 C02 | inclusion invariant J (every held output key is justified by what is pressed)
          rak_core(*state, *old(state), h0, events@, done0),
          //@ C08 | the absorbed keys handled so far are no longer considered pressed and no longer passed through
          rak_gone(*state, done0),
          //@ C01 C02 | inclusion invariant J (every held output key is justified by what is pressed)
          j2(*old(state)) ==> j2(*state),
          j3(*old(state)) ==> j3(*state),
          //@ C02 | (d) trigger keys of mappings in effect are consumed (not passed through)
          j4(*old(state)) ==> j4(*state),
          //@ C05 | a release lifts only the key itself or outputs owned by its mappings; pass-through keys are not outputs of mappings in effect
          j6(*old(state)) ==> j6(*state),
          //@ C02 | (d) trigger keys of mappings in effect are consumed (not passed through)
          j4(*old(state)) ==> j4(*state),
          //@ C05 | a release lifts only the key itself or outputs owned by its mappings; pass-through keys are not outputs of mappings in effect
          j6(*old(state)) ==> j6(*state),
          //@ C02 | (d) trigger keys of mappings in effect are consumed (not passed through)
          j4(*old(state)) ==> j4(*state),
          //@ C05 | a release lifts only the key itself or outputs owned by its mappings; pass-through keys are not outputs of mappings in effect
          j6(*old(state)) ==> j6(*state),
          //@ C01 C02 | inclusion invariant J (every held output key is justified by what is pressed)
          none_needs(state.active_mappings@, i + 1, k),
        decreases i + 1
      { //@ | body
        if fails_when_released(&state.active_mappings[i as usize].from, &k) {
          let ghost e0 = events@; let ghost hm0 = held(*state);
          let ghost am0 = state.active_mappings@; let ghost st_rm = *state;
          events.append(&mut remove_mapping(state, i as usize, k));
          //@ C05 | every other passed-through key stays down
          proof { lemma_rak_pt_sub(st_rm, *state, *old(state), done0); }
          //@  | frame / auxiliary
          proof { let chunk = choose|c: Seq<Event>| events@ == e0 + c && apply(hm0, c) == Some(held(*state)) && all_released(c);
            lemma_apply_append(h0, e0, chunk); lemma_append_contains(e0, chunk); lemma_am_sub_remove(am0, i as int); lemma_am_sub_trans(state.active_mappings@, am0, old(state).active_mappings@);
            assert forall|j: int| i <= j < state.active_mappings@.len() implies !(#[trigger] state.active_mappings@[j].from@).contains(k) by { assert(state.active_mappings@[j] == am0[j + 1]); }
          }
        }
        i -= 1;
      }
    }
    
    //@ C05 | every other passed-through key stays down
    proof { lemma_rak_pt_weaken(*state, *old(state), done0, k); }
    for i in it2: (0 .. state.pass_through_keys.len()).rev()
      invariant_except_break
        //@  | frame / auxiliary
        it2.seq().len() == state.pass_through_keys@.len(),
        forall|j: int| 0 <= j < it2.seq().len() ==> it2.seq()[j] == it2.seq().len() - 1 - j,
        forall|j: int| state.pass_through_keys@.len() - it2.index@ <= j < state.pass_through_keys@.len() ==> #[trigger] state.pass_through_keys@[j] != k,
      invariant
        //@ C05 | every other passed-through key stays down
        rak_pt(*state, *old(state), done1), done1.contains(k),
        //@ C01 C02 | inclusion invariant J (every held output key is justified by what is pressed)
        rak_core(*state, *old(state), h0, events@, done0),
        //@ C08 | the absorbed keys handled so far are no longer considered pressed and no longer passed through
        rak_gone(*state, done0),
        //@ C01 C02 | inclusion invariant J (every held output key is justified by what is pressed)
        j2(*old(state)) ==> j2(*state),
        j3(*old(state)) ==> j3(*state),
        //@ C02 | (d) trigger keys of mappings in effect are consumed (not passed through)
        j4(*old(state)) ==> j4(*state),
        //@ C05 | a release lifts only the key itself or outputs owned by its mappings; pass-through keys are not outputs of mappings in effect
        j6(*old(state)) ==> j6(*state),
        //@ C02 | (d) trigger keys of mappings in effect are consumed (not passed through)
        j4(*old(state)) ==> j4(*state),
        //@ C05 | a release lifts only the key itself or outputs owned by its mappings; pass-through keys are not outputs of mappings in effect
        j6(*old(state)) ==> j6(*state),
        //@ C01 C02 | inclusion invariant J (every held output key is justified by what is pressed)
        none_needs(state.active_mappings@, 0, k),
      ensures
        //@  | frame / auxiliary
        !state.pass_through_keys@.contains(k),
      { //@ | body
      if state.pass_through_keys[i] == k {
        let ghost e0 = events@;
        let ghost pt0 = state.pass_through_keys@; let ghost st_pt = *state;
        events.push(Released(k));
        state.pass_through_keys.remove(i);
        //@ C05 | every other passed-through key stays down
        proof { lemma_rak_pt_remove(st_pt, *state, *old(state), done1, i as int); }
        //@  | frame / auxiliary
        proof {
          lemma_push_contains(e0, Released(k));
          assert(events@.drop_last() =~= e0);
          lemma_remove_set(pt0, i as int);
          assert(state.pass_through_keys@ =~= pt0.remove(i as int));
          lemma_remove_nodup(pt0, i as int);
          lemma_ts(state.mapped_output_keys@, k);
          assert(held(*state) =~= (pt0.to_set().union(state.mapped_output_keys@.to_set())).remove(k));
        }
        break;
      }
    }
    
    let ghost ipb = state.input_pressed_keys@;
    let mut __i: usize = 0; while __i < state.input_pressed_keys.len()
        invariant
          //@ C01 C02 | effect of the call on the list of keys considered pressed
          __i <= state.input_pressed_keys@.len(),
          //@ C05 | every other passed-through key stays down
          rak_pt(*state, *old(state), done1),
          //@ C01 C02 | inclusion invariant J (every held output key is justified by what is pressed)
          rak_core(*state, *old(state), h0, events@, done1), rak_gone(*state, done0), done1 =~= done0.push(k),
          //@  | frame / auxiliary
          done1.contains(k),
          !state.pass_through_keys@.contains(k),
          //@ C01 C02 | inclusion invariant J (every held output key is justified by what is pressed)
          none_needs(state.active_mappings@, 0, k),
          j2(*old(state)) ==> sub(state.pass_through_keys@, ipb),
          j3(*old(state)) ==> from_in(state.active_mappings@, state.active_mappings@.len() as int, ipb),
          //@ C02 | (d) trigger keys of mappings in effect are consumed (not passed through)
          j4(*old(state)) ==> j4(*state),
          //@ C05 | a release lifts only the key itself or outputs owned by its mappings; pass-through keys are not outputs of mappings in effect
          j6(*old(state)) ==> j6(*state),
          //@ C01 C02 | effect of the call on the list of keys considered pressed
          forall|x: KeyCode| #[trigger] ipb.contains(x) && x != k ==> state.input_pressed_keys@.contains(x),
          forall|j: int| 0 <= j < __i ==> #[trigger] state.input_pressed_keys@[j] != k,
        decreases state.input_pressed_keys.len() - __i
      { let __keep = { let k2 = &state.input_pressed_keys[__i]; *k2 != k };
        if __keep { __i += 1; } else { let ghost ip0 = state.input_pressed_keys@; state.input_pressed_keys.remove(__i);
          proof {
            assert forall|x: KeyCode| #[trigger] state.input_pressed_keys@.contains(x) implies ip0.contains(x) by { let j = choose|j: int| 0 <= j < state.input_pressed_keys@.len() && state.input_pressed_keys@[j] == x; let j2 = if j < __i { j } else { j + 1 }; assert(ip0[j2] == x); }
            assert forall|x: KeyCode| #[trigger] ip0.contains(x) && x != k implies state.input_pressed_keys@.contains(x) by { let j2 = choose|j2: int| 0 <= j2 < ip0.len() && ip0[j2] == x; let j = if j2 < __i { j2 } else { j2 - 1 }; assert(state.input_pressed_keys@[j] == x); }
            assert forall|j: int| 0 <= j < __i implies state.input_pressed_keys@[j] == ip0[j] by {}
          } } }
    //@ C08 | the absorbed key handled in this iteration is no longer considered pressed
    proof {
      assert(!state.input_pressed_keys@.contains(k)) by {
        if state.input_pressed_keys@.contains(k) { let j = choose|j: int| 0 <= j < state.input_pressed_keys@.len() && state.input_pressed_keys@[j] == k; assert(state.input_pressed_keys@[j] != k); }
      }
    }
    //@ C01 C02 | inclusion invariant J: re-established over the shrunken list of pressed keys
    proof {
      if j3(*old(state)) {
        assert forall|j: int| 0 <= j < state.active_mappings@.len() implies sub(#[trigger] state.active_mappings@[j].from@, state.input_pressed_keys@) by {
          assert(sub(state.active_mappings@[j].from@, ipb));
          assert(!state.active_mappings@[j].from@.contains(k));
        }
      }
    }
  }
  proof { assert(tr.take(tr.len() as int) =~= tr); }
  
  events
}

//@ C01 C02 C07 C09 C14 C19 | default: fn release_all_action_keys
fn release_all_action_keys(state: &mut State) -> (evs: Vec<Event>)
  requires
    //@ C19 | bookkeeping equals the fold of the emitted events; no redundant press or release
    wf(*old(state)),
  ensures
    //@ C19 | bookkeeping equals the fold of the emitted events; no redundant press or release
    wf(*final(state)),
    apply(held(*old(state)), evs@) == Some(held(*final(state))),
    //@ C07 | after a no-repeat mapping fires only modifiers are held
    forall|k: KeyCode| held(*final(state)).contains(k) ==> is_mod(k),
    forall|k: KeyCode| held(*old(state)).contains(k) && is_mod(k) ==> held(*final(state)).contains(k),
    //@ C01 C02 | effect of the call on the list of keys considered pressed
    final(state).input_pressed_keys@ == old(state).input_pressed_keys@,
    //@  | frame / auxiliary
    final(state).active_mappings@ == old(state).active_mappings@,
    sub(final(state).mapped_output_keys@, old(state).mapped_output_keys@),
    sub(final(state).pass_through_keys@, old(state).pass_through_keys@),
    final(state).mapped_absorbed_keys@ == old(state).mapped_absorbed_keys@, final(state).absorbing_trigger == old(state).absorbing_trigger,
    //@ C02 C07 | release paths emit only releases
    all_released(evs@),
  { //@ | body
  let mut to_release: Vec<KeyCode> = Vec::new();
  let ghost pt_old = old(state).pass_through_keys@.to_set();
  let ghost mo_old = old(state).mapped_output_keys@.to_set();
  
  let mut __i: usize = 0; while __i < state.pass_through_keys.len() 
      invariant
        //@  | frame / auxiliary
        __i <= state.pass_through_keys.len(),
        state.mapped_output_keys@ == old(state).mapped_output_keys@,
        //@ C01 C02 | effect of the call on the list of keys considered pressed
        state.input_pressed_keys@ == old(state).input_pressed_keys@,
        //@  | frame / auxiliary
        state.active_mappings@ == old(state).active_mappings@, state.mapped_absorbed_keys@ == old(state).mapped_absorbed_keys@, state.absorbing_trigger == old(state).absorbing_trigger,
        //@ C19 | bookkeeping equals the fold of the emitted events; no redundant press or release
        state.pass_through_keys@.no_duplicates(),
        to_release@.no_duplicates(),
        to_release@.to_set().disjoint(state.pass_through_keys@.to_set()),
        //@  | frame / auxiliary
        to_release@.to_set().union(state.pass_through_keys@.to_set()) =~= pt_old,
        all_mod_prefix(state.pass_through_keys@, __i as int),
        //@ C07 | after a no-repeat mapping fires only modifiers are held
        forall|k: KeyCode| #[trigger] to_release@.to_set().contains(k) ==> !is_mod(k),
      decreases state.pass_through_keys.len() - __i
    { let ghost tr0 = to_release@; let ghost pt0 = state.pass_through_keys@;
      let __keep = { let k = &state.pass_through_keys[__i];
    {
    if is_action_key(k) {
      to_release.push(*k);
      false
    }
    else {
      true
    }
  } }; if __keep { __i += 1; } else { 
      state.pass_through_keys.remove(__i); 
      //@ C19 | bookkeeping equals the fold of the emitted events; no redundant press or release
      proof {
        let x = pt0[__i as int];
        assert(to_release@ =~= tr0.push(x));
        assert(state.pass_through_keys@ =~= pt0.remove(__i as int));
        lemma_push_set(tr0, x);
        lemma_remove_set(pt0, __i as int);
        assert(!tr0.to_set().contains(x));
        assert(!tr0.contains(x));
        lemma_push_nodup(tr0, x);
      }
  } }
  let ghost tr1 = to_release@.to_set();
  let ghost pt1 = state.pass_through_keys@;
  proof {
    assert(tr1.subset_of(pt_old));
    assert(pt_old.disjoint(mo_old));
    assert(tr1.disjoint(mo_old));
  }
  
  let mut __i: usize = 0; while __i < state.mapped_output_keys.len() 
      invariant
        //@  | frame / auxiliary
        __i <= state.mapped_output_keys.len(),
        state.pass_through_keys@ == pt1,
        //@ C01 C02 | effect of the call on the list of keys considered pressed
        state.input_pressed_keys@ == old(state).input_pressed_keys@,
        //@  | frame / auxiliary
        state.active_mappings@ == old(state).active_mappings@, state.mapped_absorbed_keys@ == old(state).mapped_absorbed_keys@, state.absorbing_trigger == old(state).absorbing_trigger,
        mo_old == old(state).mapped_output_keys@.to_set(),
        state.mapped_output_keys@.to_set().subset_of(mo_old),
        //@ C19 | bookkeeping equals the fold of the emitted events; no redundant press or release
        state.mapped_output_keys@.no_duplicates(),
        to_release@.no_duplicates(),
        to_release@.to_set().disjoint(state.mapped_output_keys@.to_set()),
        //@  | frame / auxiliary
        to_release@.to_set().union(state.mapped_output_keys@.to_set()) =~= tr1.union(mo_old),
        //@ C19 | bookkeeping equals the fold of the emitted events; no redundant press or release
        tr1.disjoint(mo_old),
        //@  | frame / auxiliary
        tr1.subset_of(to_release@.to_set()),
        all_mod_prefix(state.mapped_output_keys@, __i as int),
        //@ C07 | after a no-repeat mapping fires only modifiers are held
        forall|k: KeyCode| #[trigger] to_release@.to_set().contains(k) ==> !is_mod(k),
      decreases state.mapped_output_keys.len() - __i
    { let ghost tr0 = to_release@; let ghost mo0 = state.mapped_output_keys@;
      let __keep = { let k = &state.mapped_output_keys[__i];
    {
    if is_action_key(k) {
      to_release.push(*k);
      false
    }
    else {
      true
    }
  } }; if __keep { __i += 1; } else { 
      state.mapped_output_keys.remove(__i); 
      //@ C19 | bookkeeping equals the fold of the emitted events; no redundant press or release
      proof {
        let x = mo0[__i as int];
        assert(to_release@ =~= tr0.push(x));
        assert(state.mapped_output_keys@ =~= mo0.remove(__i as int));
        lemma_push_set(tr0, x);
        lemma_remove_set(mo0, __i as int);
        assert(!tr0.to_set().contains(x));
        assert(!tr0.contains(x));
        lemma_push_nodup(tr0, x);
      }
  } }
  
  //@ C19 | bookkeeping equals the fold of the emitted events; no redundant press or release
  proof {
    let h0 = held(*old(state));
    assert(h0 =~= pt_old.union(mo_old));
    assert forall|k: KeyCode| to_release@.contains(k) implies h0.contains(k) by { assert(to_release@.to_set().contains(k)); assert(tr1.union(mo_old).contains(k)); }
    lemma_apply_releases(h0, to_release@);
    assert(pt1.to_set().union(tr1) =~= pt_old);
    assert(pt1.to_set().disjoint(tr1));
    let trf = to_release@.to_set();
    let mof = state.mapped_output_keys@.to_set();
    assert(trf.union(mof) =~= tr1.union(mo_old));
    assert(trf.disjoint(mof));
    assert(held(*state) =~= pt1.to_set().union(mof));
    assert forall|k: KeyCode| held(*state).contains(k) <==> h0.difference(trf).contains(k) by {
      assert(tr1.union(mo_old).contains(k) <==> trf.union(mof).contains(k));
      assert(pt_old.contains(k) <==> pt1.to_set().union(tr1).contains(k));
    }
    assert(held(*state) =~= h0.difference(trf));
    assert(pt1.to_set().disjoint(mof)) by {
      assert forall|k: KeyCode| !(pt1.to_set().contains(k) && mof.contains(k)) by {
        if pt1.to_set().contains(k) && mof.contains(k) { assert(pt_old.contains(k)); assert(trf.union(mof).contains(k)); assert(tr1.union(mo_old).contains(k)); }
      }
    }
    assert forall|k: KeyCode| #[trigger] state.mapped_output_keys@.contains(k) implies old(state).mapped_output_keys@.contains(k) by { lemma_ts(state.mapped_output_keys@, k); lemma_ts(old(state).mapped_output_keys@, k); }
    assert forall|k: KeyCode| #[trigger] state.pass_through_keys@.contains(k) implies old(state).pass_through_keys@.contains(k) by { lemma_ts(pt1, k); lemma_ts(old(state).pass_through_keys@, k); assert(pt_old.contains(k)); }
    assert forall|k: KeyCode| held(*state).contains(k) implies is_mod(k) by {
      if state.pass_through_keys@.contains(k) { let j = choose|j: int| 0 <= j < pt1.len() && pt1[j] == k; assert(is_mod(pt1[j])); }
      else { assert(state.mapped_output_keys@.to_set().contains(k)); let j = choose|j: int| 0 <= j < state.mapped_output_keys@.len() && state.mapped_output_keys@[j] == k; assert(is_mod(state.mapped_output_keys@[j])); }
    }
    // the value of the tail expression is only known pointwise: transport the fold equation to every such sequence
    assert forall|s: Seq<Event>| s.len() == to_release@.len() && (forall|i: int| 0 <= i < s.len() ==> s[i] == Event::Released(to_release@[i]))
      implies #[trigger] apply(h0, s) == Some(held(*state)) && all_released(s) by { assert(s =~= rel_seq(to_release@));
        assert forall|e: Event| s.contains(e) implies e is Released by { let j = choose|j: int| 0 <= j < s.len() && s[j] == e; assert(s[j] == Event::Released(to_release@[j])); } }
  }
  to_release.iter().map(|k: &KeyCode| -> (e: Event) ensures e == Event::Released(*k) { Released(*k) }).collect()
}


// ---- event-level facts about the output phase of add_new_mapping (C03, C07) ----
spec fn out_done(to: Seq<KeyCode>, n: int, evs: Seq<Event>, h: Set<KeyCode>) -> bool {
  forall|j: int| 0 <= j < n && j < to.len() ==> h.contains(#[trigger] to[j]) && (!is_mod(to[j]) ==> evs.contains(Event::Pressed(to[j])))
}
spec fn c03_fire(m: Mapping, evs: Seq<Event>, h: Set<KeyCode>) -> bool {
  &&& (forall|o: KeyCode| #[trigger] m.to@.contains(o) && !is_mod(o) ==> evs.contains(Event::Pressed(o)))
  &&& (forall|o: KeyCode| #[trigger] m.to@.contains(o) && is_mod(o) ==> h.contains(o))
  &&& (m.repeat is Normal ==> forall|o: KeyCode| #[trigger] m.to@.contains(o) ==> h.contains(o))
}
spec fn c07_fire(m: Mapping, h: Set<KeyCode>) -> bool { !(m.repeat is Normal) ==> forall|x: KeyCode| h.contains(x) ==> is_mod(x) }
proof fn lemma_prefix_contains<T>(a: Seq<T>, b: Seq<T>)
  requires a.len() <= b.len(), forall|j: int| 0 <= j < a.len() ==> b[j] == a[j]
  ensures forall|e: T| a.contains(e) ==> b.contains(e)
{
  assert forall|e: T| a.contains(e) implies b.contains(e) by { let j = choose|j: int| 0 <= j < a.len() && a[j] == e; assert(b[j] == e); }
}
proof fn lemma_out_done_step(to: Seq<KeyCode>, n: int, e0: Seq<Event>, e1: Seq<Event>, h0: Set<KeyCode>, h1: Set<KeyCode>)
  requires 0 <= n < to.len(), out_done(to, n, e0, h0), h0.subset_of(h1), forall|e: Event| e0.contains(e) ==> e1.contains(e),
    h1.contains(to[n]), !is_mod(to[n]) ==> e1.contains(Event::Pressed(to[n]))
  ensures out_done(to, n + 1, e1, h1)
{
  assert forall|j: int| 0 <= j < n + 1 && j < to.len() implies h1.contains(#[trigger] to[j]) && (!is_mod(to[j]) ==> e1.contains(Event::Pressed(to[j]))) by {
    if j < n { assert(h0.contains(to[j])); }
  }
}
proof fn lemma_out_done_all(m: Mapping, evs: Seq<Event>, h: Set<KeyCode>)
  requires out_done(m.to@, m.to@.len() as int, evs, h)
  ensures forall|o: KeyCode| #[trigger] m.to@.contains(o) ==> h.contains(o) && (!is_mod(o) ==> evs.contains(Event::Pressed(o)))
{
  assert forall|o: KeyCode| #[trigger] m.to@.contains(o) implies h.contains(o) && (!is_mod(o) ==> evs.contains(Event::Pressed(o))) by {
    let j = choose|j: int| 0 <= j < m.to@.len() && m.to@[j] == o; assert(h.contains(m.to@[j]));
  }
}


// after the output phase (Normal repeat: this is the final state)
proof fn lemma_c03_fire_normal(m: Mapping, evs: Seq<Event>, h: Set<KeyCode>)
  requires out_done(m.to@, m.to@.len() as int, evs, h)
  ensures fire_pre(m, evs, h), m.repeat is Normal ==> c03_fire(m, evs, h) && c07_fire(m, h)
{
  lemma_out_done_all(m, evs, h);
}
spec fn fire_pre(m: Mapping, evs: Seq<Event>, h: Set<KeyCode>) -> bool {
  forall|o: KeyCode| #[trigger] m.to@.contains(o) ==> h.contains(o) && (!is_mod(o) ==> evs.contains(Event::Pressed(o)))
}
// Disabled / Special repeat: release_all_action_keys appended c and kept exactly the modifiers
proof fn lemma_c03_fire_norepeat(m: Mapping, e0: Seq<Event>, c: Seq<Event>, h0: Set<KeyCode>, h1: Set<KeyCode>)
  requires fire_pre(m, e0, h0), !(m.repeat is Normal),
    forall|k: KeyCode| h1.contains(k) ==> is_mod(k), forall|k: KeyCode| h0.contains(k) && is_mod(k) ==> h1.contains(k),
  ensures c03_fire(m, e0 + c, h1), c07_fire(m, h1)
{
  assert forall|o: KeyCode| #[trigger] m.to@.contains(o) && !is_mod(o) implies (e0 + c).contains(Event::Pressed(o)) by {
    let j = choose|j: int| 0 <= j < e0.len() && e0[j] == Event::Pressed(o); assert((e0 + c)[j] == Event::Pressed(o));
  }
}


// ---- absorbed keys across add_new_mapping (C08) ----
spec fn gone_keep(st: State, g: Seq<KeyCode>) -> bool { forall|d: KeyCode| #[trigger] g.contains(d) ==> !st.input_pressed_keys@.contains(d) && !st.pass_through_keys@.contains(d) }
// the state after the two release phases of add_new_mapping
spec fn abs_phase(o: State, st: State, nk: KeyCode, to: Seq<KeyCode>) -> bool {
  if has_action(to) && o.absorbing_trigger != Some(nk) {
    st.mapped_absorbed_keys@.len() == 0 && st.absorbing_trigger is None && gone_keep(st, o.mapped_absorbed_keys@)
  } else { st.mapped_absorbed_keys@ == o.mapped_absorbed_keys@ && st.absorbing_trigger == o.absorbing_trigger }
}
spec fn c08_anm(o: State, st: State, nk: KeyCode, m: Mapping) -> bool {
  &&& (forall|a: KeyCode| #[trigger] m.absorbing@.contains(a) ==> st.mapped_absorbed_keys@.contains(a))
  &&& (m.absorbing@.len() > 0 ==> st.absorbing_trigger == Some(nk))
  &&& (if has_action(m.to@) && o.absorbing_trigger != Some(nk) {
         gone_keep(st, o.mapped_absorbed_keys@) && (forall|x: KeyCode| #[trigger] st.mapped_absorbed_keys@.contains(x) ==> m.absorbing@.contains(x)) && (m.absorbing@.len() == 0 ==> st.absorbing_trigger is None)
       } else {
         (forall|x: KeyCode| #[trigger] o.mapped_absorbed_keys@.contains(x) ==> st.mapped_absorbed_keys@.contains(x)) && (m.absorbing@.len() == 0 ==> st.absorbing_trigger == o.absorbing_trigger)
       })
}


spec fn only_presses(evs: Seq<Event>, to: Seq<KeyCode>) -> bool { forall|x: KeyCode| #[trigger] evs.contains(Event::Pressed(x)) ==> to.contains(x) }
proof fn lemma_only_presses_released(evs: Seq<Event>, to: Seq<KeyCode>) requires all_released(evs) ensures only_presses(evs, to)
{ assert forall|x: KeyCode| #[trigger] evs.contains(Event::Pressed(x)) implies to.contains(x) by { assert(Event::Pressed(x) is Released); } }
proof fn lemma_only_presses_push(e0: Seq<Event>, e: Event, to: Seq<KeyCode>)
  requires only_presses(e0, to), match e { Event::Pressed(x) => to.contains(x), _ => true }
  ensures only_presses(e0.push(e), to)
{
  assert forall|x: KeyCode| #[trigger] e0.push(e).contains(Event::Pressed(x)) implies to.contains(x) by {
    let j = choose|j: int| 0 <= j < e0.push(e).len() && e0.push(e)[j] == Event::Pressed(x);
    if j < e0.len() { assert(e0[j] == Event::Pressed(x)); assert(e0.contains(Event::Pressed(x))); }
  }
}
proof fn lemma_only_presses_append(e0: Seq<Event>, c: Seq<Event>, to: Seq<KeyCode>)
  requires only_presses(e0, to), all_released(c)
  ensures only_presses(e0 + c, to)
{
  assert forall|x: KeyCode| #[trigger] (e0 + c).contains(Event::Pressed(x)) implies to.contains(x) by {
    let j = choose|j: int| 0 <= j < (e0 + c).len() && (e0 + c)[j] == Event::Pressed(x);
    if j < e0.len() { assert(e0[j] == Event::Pressed(x)); assert(e0.contains(Event::Pressed(x))); }
    else { assert(c[j - e0.len()] == Event::Pressed(x)); assert(c.contains(Event::Pressed(x))); assert(Event::Pressed(x) is Released); }
  }
}


proof fn lemma_only_presses_ext(e0: Seq<Event>, e1: Seq<Event>, to: Seq<KeyCode>, nk: KeyCode)
  requires only_presses(e0, to), to.contains(nk), e0.len() <= e1.len(), forall|j: int| 0 <= j < e0.len() ==> e1[j] == e0[j],
    forall|j: int| e0.len() <= j < e1.len() ==> e1[j] == Event::Pressed(nk) || e1[j] == Event::Released(nk)
  ensures only_presses(e1, to)
{
  assert forall|x: KeyCode| #[trigger] e1.contains(Event::Pressed(x)) implies to.contains(x) by {
    let j = choose|j: int| 0 <= j < e1.len() && e1[j] == Event::Pressed(x);
    if j < e0.len() { assert(e0[j] == Event::Pressed(x)); assert(e0.contains(Event::Pressed(x))); }
  }
}

// ---- which keys the firing of a mapping may lift (C05, C04) ----
/// x may be lifted when mapping m fires in state o: (a) an output key of a key-producing mapping in effect that carries modifiers, when m is key-producing;
/// (b) while keys are absorbed: an output key held for a mapping, an absorbed key, or a trigger key of m; (c) a passed-through trigger key of m that m does not output;
/// (d) a non-modifier output key of m (lifted and pressed again); (e) any non-modifier key when m does not have Normal repeat
spec fn anm_scope(o: State, m: Mapping, x: KeyCode) -> bool {
     (act_map(m) && o.mapped_output_keys@.contains(x) && ram_target(o.active_mappings@, x))
  || (o.mapped_absorbed_keys@.len() > 0 && (o.mapped_output_keys@.contains(x) || o.mapped_absorbed_keys@.contains(x) || (m.from@.contains(x) && !m.to@.contains(x))))
  || (o.pass_through_keys@.contains(x) && m.from@.contains(x) && !m.to@.contains(x))
  || (m.to@.contains(x) && !is_mod(x))
  || (!is_mod(x) && !(m.repeat is Normal))
}
#[verifier::opaque]
spec fn anm_rel(o: State, m: Mapping, evs: Seq<Event>) -> bool { forall|x: KeyCode| #[trigger] rel(evs, x) ==> anm_scope(o, m, x) }
// a key released by a batch of releases was down before the batch and is up after it
proof fn lemma_released_gone(h: Set<KeyCode>, evs: Seq<Event>, x: KeyCode)
  requires
    //@ C05 | scope of the keys a step lifts
    all_released(evs), apply(h, evs) is Some, rel(evs, x)
  ensures h.contains(x), !apply(h, evs).unwrap().contains(x)
  decreases evs.len()
{
  let j = choose|j: int| 0 <= j < evs.len() && evs[j] == Event::Released(x);
  let init = evs.drop_last();
  assert(all_released(init)) by { assert forall|e: Event| init.contains(e) implies e is Released by { let q = choose|q: int| 0 <= q < init.len() && init[q] == e; assert(evs[q] == e); assert(evs.contains(e)); } }
  let h1 = apply(h, init).unwrap();
  lemma_apply_only_releases(h, init);
  assert(evs.contains(evs.last())) by { assert(evs[evs.len() - 1] == evs.last()); }
  if j == evs.len() - 1 { assert(evs.last() == Event::Released(x)); }
  else { assert(init[j] == Event::Released(x)); assert(rel(init, x)); lemma_released_gone(h, init, x); }
}
proof fn lemma_anm_rel_empty(o: State, m: Mapping, evs: Seq<Event>)
  requires
    //@ C05 | scope of the keys a step lifts
    evs.len() == 0 ensures anm_rel(o, m, evs) { reveal(anm_rel); }
proof fn lemma_anm_rel_ram(o: State, st: State, m: Mapping, c: Seq<Event>)
  requires
    //@ C05 | scope of the keys a step lifts
    all_released(c), apply(held(o), c) == Some(held(st)), st.pass_through_keys@ == o.pass_through_keys@, ram_scope(o, st), act_map(m)
  ensures anm_rel(o, m, c)
{
  reveal(anm_rel); reveal(ram_scope);
  assert forall|x: KeyCode| #[trigger] rel(c, x) implies anm_scope(o, m, x) by {
    lemma_released_gone(held(o), c, x); lemma_ts(o.pass_through_keys@, x); lemma_ts(o.mapped_output_keys@, x); lemma_ts(st.mapped_output_keys@, x);
    assert(o.mapped_output_keys@.contains(x)); assert(!st.mapped_output_keys@.contains(x));
  }
}
proof fn lemma_anm_rel_rak(o: State, sp: State, st: State, m: Mapping, e1: Seq<Event>, c: Seq<Event>)
  requires
    //@ C05 | scope of the keys a step lifts
    anm_rel(o, m, e1), all_released(c), apply(held(sp), c) == Some(held(st)), sp.pass_through_keys@ == o.pass_through_keys@, sub(sp.mapped_output_keys@, o.mapped_output_keys@),
    sp.mapped_absorbed_keys@ == o.mapped_absorbed_keys@, rak_pt(st, sp, sp.mapped_absorbed_keys@), sp.mapped_absorbed_keys@.len() == 0 ==> rak_idle(st, sp, c)
  ensures anm_rel(o, m, e1 + c)
{
  reveal(anm_rel); lemma_append_contains(e1, c);
  assert forall|x: KeyCode| #[trigger] rel(e1 + c, x) implies anm_scope(o, m, x) by {
    if rel(e1, x) { } else {
      assert(rel(c, x));
      lemma_released_gone(held(sp), c, x); lemma_ts(sp.pass_through_keys@, x); lemma_ts(sp.mapped_output_keys@, x); lemma_ts(st.pass_through_keys@, x);
      assert(o.mapped_absorbed_keys@.len() > 0);
      if sp.mapped_output_keys@.contains(x) { assert(o.mapped_output_keys@.contains(x)); } else { assert(o.pass_through_keys@.contains(x)); assert(!st.pass_through_keys@.contains(x)); assert(o.mapped_absorbed_keys@.contains(x)); }
    }
  }
}
proof fn lemma_anm_rel_push(o: State, m: Mapping, e0: Seq<Event>, e: Event)
  requires
    //@ C05 | scope of the keys a step lifts
    anm_rel(o, m, e0), match e { Event::Released(x) => anm_scope(o, m, x), _ => true }
  ensures anm_rel(o, m, e0.push(e))
{
  reveal(anm_rel);
  assert forall|x: KeyCode| #[trigger] rel(e0.push(e), x) implies anm_scope(o, m, x) by {
    let j = choose|j: int| 0 <= j < e0.push(e).len() && e0.push(e)[j] == Event::Released(x);
    if j < e0.len() { assert(e0[j] == Event::Released(x)); assert(rel(e0, x)); }
  }
}
proof fn lemma_anm_rel_raak(o: State, m: Mapping, e0: Seq<Event>, c: Seq<Event>, hm0: Set<KeyCode>, h1: Set<KeyCode>)
  requires
    //@ C05 | scope of the keys a step lifts
    anm_rel(o, m, e0), all_released(c), apply(hm0, c) == Some(h1), forall|k: KeyCode| hm0.contains(k) && is_mod(k) ==> h1.contains(k), !(m.repeat is Normal)
  ensures anm_rel(o, m, e0 + c)
{
  reveal(anm_rel); lemma_append_contains(e0, c);
  assert forall|x: KeyCode| #[trigger] rel(e0 + c, x) implies anm_scope(o, m, x) by {
    if rel(e0, x) { } else { assert(rel(c, x)); lemma_released_gone(hm0, c, x); }
  }
}

// ---- C04: what is down at the instant the final output key of a key-producing mapping is pressed ----
/// x is an output key of a modifier-remapping (a mapping whose output does not end in a non-modifier key) of `am`
spec fn mod_owner(am: Seq<Mapping>, x: KeyCode) -> bool { exists|j: int| 0 <= j < am.len() && !act_map(#[trigger] am[j]) && am[j].to@.contains(x) }
/// C04 for mapping m with h down: every modifier m lists is down; every other modifier that is down is considered pressed and not a trigger key of m, or is an output key of a modifier-remapping in effect
spec fn c04_ok(h: Set<KeyCode>, m: Mapping, ip: Seq<KeyCode>, am: Seq<Mapping>) -> bool {
  &&& (forall|q: KeyCode| #[trigger] m.to@.contains(q) && is_mod(q) ==> h.contains(q))
  &&& (forall|x: KeyCode| #![trigger h.contains(x)] h.contains(x) && is_mod(x) && !m.to@.contains(x) ==> (ip.contains(x) && !m.from@.contains(x)) || mod_owner(am, x))
}
#[verifier::opaque]
spec fn c04_anm(o: State, m: Mapping, evs: Seq<Event>) -> bool {
  forall|p: int| #![trigger evs[p]] 0 <= p < evs.len() && evs[p] == Event::Pressed(m.to@.last()) ==> (match apply(held(o), evs.take(p)) { Some(h) => c04_ok(h, m, o.input_pressed_keys@, o.active_mappings@), None => false })
}
/// the condition under which C04 is claimed for the firing of m in state o
spec fn c04_cond(o: State, m: Mapping) -> bool { m.to@.no_duplicates() && act_map(m) && o.mapped_absorbed_keys@.len() == 0 && j2(o) }
#[verifier::opaque]
spec fn c04_st(st: State, o: State, m: Mapping) -> bool {
  &&& (forall|x: KeyCode| #[trigger] st.pass_through_keys@.contains(x) ==> o.input_pressed_keys@.contains(x) && !m.from@.contains(x))
  &&& (forall|x: KeyCode| #[trigger] st.mapped_output_keys@.contains(x) ==> !is_mod(x) || m.to@.contains(x) || mod_owner(o.active_mappings@, x))
}
spec fn no_fin(evs: Seq<Event>, fin: KeyCode) -> bool { forall|p: int| 0 <= p < evs.len() ==> #[trigger] evs[p] != Event::Pressed(fin) }
proof fn lemma_no_fin_released(evs: Seq<Event>, fin: KeyCode)
  requires all_released(evs)
  ensures no_fin(evs, fin)
{ assert forall|p: int| 0 <= p < evs.len() implies #[trigger] evs[p] != Event::Pressed(fin) by { assert(evs.contains(evs[p])); } }
// state after the release phases and the hand-over of passed-through keys: passed-through keys are considered pressed and no trigger keys; modifiers held for mappings belong to modifier-remappings
proof fn lemma_c04_st_init(o: State, sr: State, st: State, m: Mapping)
  requires
    //@ C04 | no stale modifier is left after the release phases
    j1(o), j2(o), ram_done(sr), sr.active_mappings@ == o.active_mappings@, sub(sr.mapped_output_keys@, o.mapped_output_keys@),
    forall|x: KeyCode| #[trigger] st.mapped_output_keys@.contains(x) ==> sr.mapped_output_keys@.contains(x) || m.to@.contains(x),
    forall|x: KeyCode| #[trigger] st.pass_through_keys@.contains(x) ==> o.pass_through_keys@.contains(x) && !m.from@.contains(x),
  ensures c04_st(st, o, m)
{
  reveal(c04_st); reveal(ram_done);
  assert forall|x: KeyCode| #[trigger] st.mapped_output_keys@.contains(x) implies !is_mod(x) || m.to@.contains(x) || mod_owner(o.active_mappings@, x) by {
    if is_mod(x) && !m.to@.contains(x) {
      assert(sr.mapped_output_keys@.contains(x)); assert(o.mapped_output_keys@.contains(x)); assert(out_of(o.active_mappings@, x));
      let am = o.active_mappings@;
      let j = choose|j: int| 0 <= j < am.len() && #[trigger] am[j].to@.contains(x);
      if act_map(am[j]) {
        let t = choose|t: int| 0 <= t < am[j].to@.len() && am[j].to@[t] == x;
        assert(t != am[j].to@.len() - 1); assert(is_mod(am[j].to@[t])); assert(has_mod(am[j].to@));
        assert(ram_target(sr.active_mappings@, x));
      }
    }
  }
}
// one output key handled: the state predicate is kept; the final key has not been pressed before its turn, and when it is pressed C04 holds at that instant
proof fn lemma_c04_iter(o: State, m: Mapping, s0: State, s1: State, e0: Seq<Event>, e1: Seq<Event>, idx: int)
  requires
    //@ C04 | the instant the final output key goes down: listed modifiers down, no stale modifier
    0 <= idx < m.to@.len(), m.to@.no_duplicates(), act_map(m),
    c04_st(s0, o, m), apply(held(o), e0) == Some(held(s0)), apply(held(o), e1) == Some(held(s1)),
    no_fin(e0, m.to@.last()), out_done(m.to@, idx, e0, held(s0)),
    sub(s1.pass_through_keys@, s0.pass_through_keys@), forall|x: KeyCode| #[trigger] s1.mapped_output_keys@.contains(x) ==> s0.mapped_output_keys@.contains(x) || x == m.to@[idx],
    e1 == e0 || e1 == e0.push(Event::Pressed(m.to@[idx])) || e1 == e0.push(Event::Released(m.to@[idx])).push(Event::Pressed(m.to@[idx])),
    !is_mod(m.to@[idx]) ==> e1 != e0,
  ensures
    c04_st(s1, o, m),
    idx < m.to@.len() - 1 ==> no_fin(e1, m.to@.last()),
    idx == m.to@.len() - 1 ==> c04_anm(o, m, e1),
{
  reveal(c04_st);
  let nk = m.to@[idx]; let fin = m.to@.last(); let n = m.to@.len() as int;
  assert(m.to@.contains(nk));
  if idx < n - 1 {
    assert(nk != fin) by { assert(m.to@[n - 1] == fin); }
    assert forall|p: int| 0 <= p < e1.len() implies #[trigger] e1[p] != Event::Pressed(fin) by { if p < e0.len() { assert(e1[p] == e0[p]); } }
  } else {
    assert(nk == fin); assert(!is_mod(fin));
    reveal(c04_anm);
    let h0 = held(s0);
    assert forall|p: int| #![trigger e1[p]] 0 <= p < e1.len() && e1[p] == Event::Pressed(fin) implies (match apply(held(o), e1.take(p)) { Some(h) => c04_ok(h, m, o.input_pressed_keys@, o.active_mappings@), None => false }) by {
      if p < e0.len() { assert(e1[p] == e0[p]); }
      let h = if e1 == e0.push(Event::Pressed(fin)) { assert(p == e0.len()); assert(e1.take(p) =~= e0); h0 }
              else { assert(e1.len() == e0.len() + 2); assert(p == e0.len() + 1);
                     let em = e0.push(Event::Released(fin)); assert(e1.take(p) =~= em); assert(em.drop_last() =~= e0); assert(e1.drop_last() =~= em);
                     assert(apply(held(o), em) == ev1(h0, Event::Released(fin))); assert(apply(held(o), e1) == (match apply(held(o), em) { None => None, Some(hh) => ev1(hh, Event::Pressed(fin)) }));
                     h0.remove(fin) };
      assert(apply(held(o), e1.take(p)) == Some(h));
      assert forall|q: KeyCode| #[trigger] m.to@.contains(q) && is_mod(q) implies h.contains(q) by {
        let t = choose|t: int| 0 <= t < n && m.to@[t] == q; assert(t != n - 1); assert(h0.contains(m.to@[t]));
      }
      assert forall|x: KeyCode| #![trigger h.contains(x)] h.contains(x) && is_mod(x) && !m.to@.contains(x) implies (o.input_pressed_keys@.contains(x) && !m.from@.contains(x)) || mod_owner(o.active_mappings@, x) by {
        assert(h0.contains(x)); lemma_ts(s0.pass_through_keys@, x); lemma_ts(s0.mapped_output_keys@, x);
      }
    }
  }
}
proof fn lemma_c04_append(o: State, m: Mapping, e0: Seq<Event>, c: Seq<Event>)
  requires
    //@ C04 | the instant the final output key goes down: listed modifiers down, no stale modifier
    c04_anm(o, m, e0), all_released(c)
  ensures c04_anm(o, m, e0 + c)
{
  reveal(c04_anm);
  let e1 = e0 + c;
  assert forall|p: int| #![trigger e1[p]] 0 <= p < e1.len() && e1[p] == Event::Pressed(m.to@.last()) implies (match apply(held(o), e1.take(p)) { Some(h) => c04_ok(h, m, o.input_pressed_keys@, o.active_mappings@), None => false }) by {
    if p >= e0.len() { assert(c[p - e0.len()] == e1[p]); assert(c.contains(e1[p])); }
    assert(e1[p] == e0[p]); assert(e1.take(p) =~= e0.take(p));
  }
}
proof fn lemma_c04_mono(s1: State, o: State, m: Mapping, evs: Seq<Event>)
  requires
    //@ C04 | the instant the final output key goes down: listed modifiers down, no stale modifier
    c04_anm(s1, m, evs), s1.pass_through_keys@ == o.pass_through_keys@, s1.mapped_output_keys@ == o.mapped_output_keys@, s1.input_pressed_keys@ == o.input_pressed_keys@, s1.active_mappings@ == o.active_mappings@
  ensures c04_anm(o, m, evs)
{ reveal(c04_anm); assert(held(s1) == held(o)); }

//@ C01 C02 C03 C04 C05 C07 C08 C09 C14 C19 | default: fn add_new_mapping
fn add_new_mapping(state: &mut State, new_key: &KeyCode, m: &Mapping) -> (res: StepResult)
  requires
    //@ C19 | bookkeeping equals the fold of the emitted events; no redundant press or release
    wf(*old(state)),
    //@ C01 C02 | inclusion invariant J (every held output key is justified by what is pressed)
    j1(*old(state)),
    //@  | frame / auxiliary
    m.from@.len() >= 1,
    //@ C11 C09 | repeat parameters are non-negative (the event loop turns them into Durations)
    repeat_ok(m.repeat),
    //@ C01 C02 | inclusion invariant J (every held output key is justified by what is pressed)
    nonempty_from(old(state).active_mappings@),
  ensures
    //@ C11 C09 | repeat parameters are non-negative (the event loop turns them into Durations)
    rrepeat_ok(res.repeat),
    //@ C19 | bookkeeping equals the fold of the emitted events; no redundant press or release
    wf(*final(state)),
    //@ C01 C02 | inclusion invariant J (every held output key is justified by what is pressed)
    j1(*final(state)),
    nonempty_from(final(state).active_mappings@),
    j2(*old(state)) ==> j2(*final(state)),
    //@ C02 | (d) trigger keys of mappings in effect are consumed (not passed through)
    j4(*old(state)) ==> j4(*final(state)),
    //@ C05 | a release lifts only the key itself or outputs owned by its mappings; pass-through keys are not outputs of mappings in effect
    j6(*old(state)) ==> j6(*final(state)),
    //@ C01 C02 | inclusion invariant J (every held output key is justified by what is pressed)
    j3(*old(state)) ==> from_in(final(state).active_mappings@, final(state).active_mappings@.len() - 1, final(state).input_pressed_keys@),
    //@ C03 C08 | firing specification (support test, grouping of the layout by final trigger key)
    final(state).active_mappings@.len() >= 1 && final(state).active_mappings@.last().from@ == m.from@ && mview(final(state).active_mappings@.last()) == mview(*m),
    //@ C02 C05 C08 | origin of the mappings in effect and of the absorbed keys: all but the last mapping in effect were in effect before; absorbed keys were absorbed before or are listed by the fired mapping
    am_sub(final(state).active_mappings@, final(state).active_mappings@.len() - 1, old(state).active_mappings@),
    forall|x: KeyCode| #[trigger] final(state).mapped_absorbed_keys@.contains(x) ==> old(state).mapped_absorbed_keys@.contains(x) || m.absorbing@.contains(x),
    //@ C03 C07 | every non-modifier output key of the fired mapping is pressed by an event of this step; every modifier output key is held at the end; with Normal repeat the whole output is held at the end
    c03_fire(*m, res.events@, held(*final(state))),
    //@ C07 | after a mapping with Disabled or Special repeat fired, only modifiers are held
    c07_fire(*m, held(*final(state))),
    //@ C02 C05 C08 | the only keys this step presses are output keys of the fired mapping
    only_presses(res.events@, m.to@),
    //@ C05 | the only keys this step lifts: outputs of key-producing mappings in effect that carry modifiers (when the fired mapping is key-producing), passed-through trigger keys the mapping does not output, its own non-modifier outputs (lifted and pressed again), any non-modifier key when its repeat is not Normal; and, only while keys are absorbed, held mapping outputs, absorbed keys and trigger keys
    anm_rel(*old(state), *m, res.events@),
    //@ C04 | a key-producing mapping fires while nothing is absorbed: at the instant its final output key is pressed every modifier it lists is down, and every other modifier that is down is considered pressed and not one of its trigger keys, or is an output key of a modifier-remapping in effect
    c04_cond(*old(state), *m) ==> c04_anm(*old(state), *m, res.events@),
    //@ C08 | absorbed keys: every key of the fired mapping's absorbing list is absorbed afterwards with the pressed key as trigger; if the output contains a non-modifier key and the pressed key is not the current absorbing trigger, the keys absorbed before are lifted (no longer considered pressed, not passed through) and forgotten, otherwise they stay absorbed
    c08_anm(*old(state), *final(state), *new_key, *m),
    //@ C09 | repeat request
    repeat_matches(m.repeat, res.repeat),
    //@ C01 C02 | effect of the call on the list of keys considered pressed
    sub(final(state).input_pressed_keys@, old(state).input_pressed_keys@),
    forall|x: KeyCode| #[trigger] old(state).input_pressed_keys@.contains(x) && (!old(state).mapped_absorbed_keys@.contains(x) || old(state).absorbing_trigger == Some(*new_key)) ==> final(state).input_pressed_keys@.contains(x),
    //@ C19 | bookkeeping equals the fold of the emitted events; no redundant press or release
    apply(held(*old(state)), res.events@) == Some(held(*final(state))),
    //@ C07 | after a no-repeat mapping fires only modifiers are held
    !(m.repeat is Normal) ==> forall|k: KeyCode| held(*final(state)).contains(k) ==> is_mod(k),
    //@ C09 | repeat request
    (m.repeat is Special) ==> res.repeat is Repeating,
    !(m.repeat is Special) ==> res.repeat is Disabled,
    match (m.repeat, res.repeat) { (Repeat::Special { keys, delay_ms, interval_ms }, ResultingRepeat::Repeating { keys: k2, delay_ms: d2, interval_ms: i2 }) => keys@ == k2@ && delay_ms == d2 && interval_ms == i2, _ => true },
  { //@ | body
  hide(nonempty_from); hide(am_sub);
  let mut events: Vec<Event> = Vec::new();
  let ghost nk0 = *new_key;
  proof { assert(all_released(events@)); }
  let ghost h0 = held(*old(state));
  let ghost mut s_ram = *old(state); let ghost c04c = c04_cond(*old(state), *m);
  //@ C05 | scope of the keys lifted so far
  proof { lemma_anm_rel_empty(*old(state), *m, events@); }
  //@  | frame / auxiliary
  
  proof { assert(jx(*state, m.to@)); assert(nonempty_from(state.active_mappings@)); lemma_am_sub_refl(state.active_mappings@); assert(anm_extra(*old(state), *state, m.absorbing@)); }
  if is_action_mapping(m) {
    let ghost e0 = events@; let ghost hm0 = held(*state);
    events.append(&mut release_action_mappings(state));
    proof { s_ram = *state; }
    proof { let c1 = choose|c: Seq<Event>| events@ == e0 + c && apply(hm0, c) == Some(held(*state)) && all_released(c); lemma_apply_append(h0, e0, c1); assert(e0 =~= Seq::<Event>::empty()); assert(e0 + c1 =~= c1);
      lemma_anm_rel_ram(*old(state), *state, *m, c1); assert(jx(*state, m.to@)); assert(nonempty_from(state.active_mappings@)); assert((j2(*old(state)) ==> j2(*state)) && (j3(*old(state)) ==> j3(*state)) && (j4(*old(state)) ==> j4(*state)) && (j6(*old(state)) ==> j6(*state)) && sub(state.input_pressed_keys@, old(state).input_pressed_keys@) && (forall|x: KeyCode| #[trigger] old(state).input_pressed_keys@.contains(x) && (!old(state).mapped_absorbed_keys@.contains(x) || old(state).absorbing_trigger == Some(nk0)) ==> state.input_pressed_keys@.contains(x)) && anm_extra(*old(state), *state, m.absorbing@)); }
  }
  if has_action_key(&m.to) {
    let should_absorb = {
      match &state.absorbing_trigger {
        Some(absorbing_trigger) => *absorbing_trigger != *new_key,
        None => true
      }
    };
    if should_absorb {
      let ghost e1 = events@; let ghost hm1 = held(*state); let ghost am_pre = state.active_mappings@; let ghost s_pre = *state;
      events.append(&mut release_absorbed_keys(state));
      //@ C05 | scope of the keys lifted so far
      proof { let c2r = choose|c: Seq<Event>| events@ == e1 + c && apply(hm1, c) == Some(held(*state)) && all_released(c); lemma_anm_rel_rak(*old(state), s_pre, *state, *m, e1, c2r); }
      //@  | frame / auxiliary
      proof { lemma_nonempty_sub(state.active_mappings@, am_pre); lemma_am_sub_trans(state.active_mappings@, am_pre, old(state).active_mappings@); let c2 = choose|c: Seq<Event>| events@ == e1 + c && apply(hm1, c) == Some(held(*state)) && all_released(c); lemma_apply_append(h0, e1, c2); lemma_append_contains(e1, c2); assert(jx(*state, m.to@)); assert((j2(*old(state)) ==> j2(*state)) && (j3(*old(state)) ==> j3(*state)) && (j4(*old(state)) ==> j4(*state)) && (j6(*old(state)) ==> j6(*state)) && sub(state.input_pressed_keys@, old(state).input_pressed_keys@) && (forall|x: KeyCode| #[trigger] old(state).input_pressed_keys@.contains(x) && (!old(state).mapped_absorbed_keys@.contains(x) || old(state).absorbing_trigger == Some(nk0)) ==> state.input_pressed_keys@.contains(x)) && anm_extra(*old(state), *state, m.absorbing@)); }
    }
  }
  
  let ghost mo_s1 = state.mapped_output_keys@; let ghost pt_s1 = state.pass_through_keys@; let ghost am_s1 = state.active_mappings@; let ghost ip_s1 = state.input_pressed_keys@; let ghost ab_s1 = state.mapped_absorbed_keys@; let ghost at_s1 = state.absorbing_trigger;
  let ghost cleared = has_action(m.to@) && old(state).absorbing_trigger != Some(nk0);
  let ghost gone: Seq<KeyCode> = if cleared { old(state).mapped_absorbed_keys@ } else { Seq::empty() };
  proof { assert(abs_phase(*old(state), *state, nk0, m.to@)); assert(gone_keep(*state, gone)); assert(all_released(events@)); }
  //@ C05 | scope of the keys lifted so far
  proof { assert(old(state).mapped_absorbed_keys@.len() == 0 ==> pt_s1 == old(state).pass_through_keys@); }
  //@ C04 | the instant the final output key goes down: listed modifiers down, no stale modifier
  proof { assert(c04c ==> mo_s1 == s_ram.mapped_output_keys@ && ram_done(s_ram) && s_ram.active_mappings@ == old(state).active_mappings@ && sub(s_ram.mapped_output_keys@, old(state).mapped_output_keys@)); }
  //@  | frame / auxiliary
  proof { assert(held(*state) =~= state.pass_through_keys@.to_set().union(state.mapped_output_keys@.to_set())); }
  let pass_through_keys = &mut state.pass_through_keys;
  let mapped_output_keys = &mut state.mapped_output_keys;
  
  let mut __i: usize = 0; while __i < pass_through_keys.len()
    invariant
      //@  | frame / auxiliary
      __i <= pass_through_keys@.len(),
      //@ C19 | bookkeeping equals the fold of the emitted events; no redundant press or release
      pass_through_keys@.no_duplicates(),
      mapped_output_keys@.no_duplicates(),
      pass_through_keys@.to_set().disjoint(mapped_output_keys@.to_set()),
      apply(h0, events@) == Some(pass_through_keys@.to_set().union(mapped_output_keys@.to_set())),
      //@  | frame / auxiliary
      forall|x: KeyCode| #[trigger] mapped_output_keys@.contains(x) ==> mo_s1.contains(x) || m.to@.contains(x),
      sub(pass_through_keys@, pt_s1), all_released(events@),
      forall|j: int| 0 <= j < __i ==> !m.from@.contains(#[trigger] pass_through_keys@[j]) && !m.to@.contains(pass_through_keys@[j]),
      //@ C05 | scope of the keys lifted so far
      anm_rel(*old(state), *m, events@), old(state).mapped_absorbed_keys@.len() == 0 ==> pt_s1 == old(state).pass_through_keys@,
    decreases pass_through_keys@.len() - __i
  { let ghost pt0 = pass_through_keys@; let ghost mo0 = mapped_output_keys@; let ghost e0 = events@;
    let __keep = { let old_key = pass_through_keys[__i];
    proof { assert(pt0.contains(old_key)); lemma_ts(pt0, old_key); lemma_ts(mo0, old_key); }
    {
    if m.from.contains(&old_key) || m.to.contains(&old_key) {
      if !m.to.contains(&old_key) {
        events.push(Released(old_key));
        proof { assert(events@.drop_last() =~= e0); lemma_push_contains(e0, Event::Released(old_key)); assert(pt_s1.contains(old_key)); lemma_anm_rel_push(*old(state), *m, e0, Event::Released(old_key)); }
        false
      }
      else {
        mapped_output_keys.push(old_key);
        proof { lemma_push_set(mo0, old_key); lemma_push_nodup(mo0, old_key); lemma_push_contains(mo0, old_key); }
        false
      }
    }
    else {
      true
    }
  } }; if __keep { __i += 1; } else { pass_through_keys.remove(__i);
      proof { lemma_remove_set(pt0, __i as int); assert(pass_through_keys@ =~= pt0.remove(__i as int)); lemma_remove_nodup(pt0, __i as int); assert forall|j: int| 0 <= j < __i implies pass_through_keys@[j] == pt0[j] by {} }
  } }
  
  proof { assert(held(*state) =~= state.pass_through_keys@.to_set().union(state.mapped_output_keys@.to_set()));
    assert(state.active_mappings@ == am_s1); assert(state.mapped_absorbed_keys@ == ab_s1); assert(state.absorbing_trigger == at_s1);
    assert(gone_keep(*state, gone)) by { assert forall|d: KeyCode| #[trigger] gone.contains(d) implies !state.input_pressed_keys@.contains(d) && !state.pass_through_keys@.contains(d) by { if state.pass_through_keys@.contains(d) { assert(pt_s1.contains(d)); } } }
    lemma_only_presses_released(events@, m.to@);
    assert forall|x: KeyCode| #[trigger] state.pass_through_keys@.contains(x) implies !m.from@.contains(x) && !m.to@.contains(x) by { let j = choose|j: int| 0 <= j < state.pass_through_keys@.len() && state.pass_through_keys@[j] == x; assert(!m.from@.contains(state.pass_through_keys@[j])); }
    assert(state.input_pressed_keys@ == ip_s1);
    assert(jx(*state, m.to@));
    assert(nonempty_from(state.active_mappings@));
    assert((j2(*old(state)) ==> j2(*state)) && (j3(*old(state)) ==> j3(*state)) && (j4(*old(state)) ==> j4(*state)) && (j6(*old(state)) ==> j6(*state)) && sub(state.input_pressed_keys@, old(state).input_pressed_keys@) && (forall|x: KeyCode| #[trigger] old(state).input_pressed_keys@.contains(x) && (!old(state).mapped_absorbed_keys@.contains(x) || old(state).absorbing_trigger == Some(nk0)) ==> state.input_pressed_keys@.contains(x)) && anm_extra(*old(state), *state, m.absorbing@)); }
  //@ C04 | the instant the final output key goes down: listed modifiers down, no stale modifier
  proof { if c04c {
      assert forall|x: KeyCode| #[trigger] state.pass_through_keys@.contains(x) implies old(state).pass_through_keys@.contains(x) && !m.from@.contains(x) by { assert(pt_s1.contains(x)); }
      lemma_c04_st_init(*old(state), s_ram, *state, *m); lemma_no_fin_released(events@, m.to@.last()); } }
  for new_key in it: &m.to
    invariant
      //@ C19 | bookkeeping equals the fold of the emitted events; no redundant press or release
      wf(*state),
      apply(h0, events@) == Some(held(*state)),
      //@ C01 C02 | inclusion invariant J (every held output key is justified by what is pressed)
      jx(*state, m.to@),
      nonempty_from(state.active_mappings@),
      //@  | frame / auxiliary
      (forall|x: KeyCode| #[trigger] state.pass_through_keys@.contains(x) ==> !m.from@.contains(x) && !m.to@.contains(x)),
      //@ C05 | a release lifts only the key itself or outputs owned by its mappings; pass-through keys are not outputs of mappings in effect
      (j2(*old(state)) ==> j2(*state)) && (j3(*old(state)) ==> j3(*state)) && (j4(*old(state)) ==> j4(*state)) && (j6(*old(state)) ==> j6(*state)) && sub(state.input_pressed_keys@, old(state).input_pressed_keys@) && (forall|x: KeyCode| #[trigger] old(state).input_pressed_keys@.contains(x) && (!old(state).mapped_absorbed_keys@.contains(x) || old(state).absorbing_trigger == Some(nk0)) ==> state.input_pressed_keys@.contains(x)) && anm_extra(*old(state), *state, m.absorbing@),
      //@ C03 C07 | the output keys handled so far are held, the non-modifier ones were pressed by an event of this step
      out_done(m.to@, it.index@ as int, events@, held(*state)),
      //@ C02 C05 C08 | so far only output keys of the mapping have been pressed
      only_presses(events@, m.to@),
      //@ C05 | scope of the keys lifted so far
      anm_rel(*old(state), *m, events@),
      //@ C04 | the instant the final output key goes down: listed modifiers down, no stale modifier
      c04c == c04_cond(*old(state), *m), h0 == held(*old(state)), c04c ==> c04_st(*state, *old(state), *m),
      c04c && it.index@ < m.to@.len() ==> no_fin(events@, m.to@.last()),
      c04c && it.index@ == m.to@.len() ==> c04_anm(*old(state), *m, events@),
      //@ C08 | the absorbed list and its trigger are untouched while the outputs are pressed; lifted keys stay lifted
      state.mapped_absorbed_keys@ == ab_s1, state.absorbing_trigger == at_s1, state.input_pressed_keys@ == ip_s1, gone_keep(*state, gone),
      //@  | frame / auxiliary
      it.seq().len() == m.to@.len(),
      forall|j: int| 0 <= j < m.to@.len() ==> *it.seq()[j] == m.to@[j],
    { //@ | body
    proof { assert(*new_key == m.to@[it.index@ as int]); assert(m.to@.contains(*new_key)); }
    let ghost hpre = held(*state); let ghost s_it0 = *state;
    let ghost am0 = state.active_mappings@; let ghost ip_s = state.input_pressed_keys@; let ghost ab0 = state.mapped_absorbed_keys@;
    let ghost e0 = events@; let ghost pt0 = state.pass_through_keys@; let ghost mo0 = state.mapped_output_keys@;
    proof { lemma_ts(pt0, *new_key); lemma_ts(mo0, *new_key); }
    if is_action_key(new_key) {
      if state.mapped_output_keys.contains(new_key) {
        events.push(Released(*new_key));
        let ghost e1 = events@;
        events.push(Pressed(*new_key));
        //@ C05 | scope of the keys lifted so far
        proof { lemma_anm_rel_push(*old(state), *m, e0, Event::Released(*new_key)); lemma_anm_rel_push(*old(state), *m, e1, Event::Pressed(*new_key)); }
        //@  | frame / auxiliary
        proof { assert(e1.drop_last() =~= e0); assert(events@.drop_last() =~= e1); assert(held(*state).remove(*new_key).insert(*new_key) =~= held(*state)); assert(apply(h0, events@) == Some(held(*state))); }
      }
      else {
        if state.pass_through_keys.contains(new_key) {
          events.push(Released(*new_key));
          let ghost e1 = events@;
          events.push(Pressed(*new_key));
          //@ C05 | scope of the keys lifted so far
        proof { lemma_anm_rel_push(*old(state), *m, e0, Event::Released(*new_key)); lemma_anm_rel_push(*old(state), *m, e1, Event::Pressed(*new_key)); }
        //@  | frame / auxiliary
          proof { assert(e1.drop_last() =~= e0); assert(events@.drop_last() =~= e1); }
          let mut __i: usize = 0; while __i < state.pass_through_keys.len()
            invariant
              //@  | frame / auxiliary
              __i <= state.pass_through_keys@.len(),
              state.mapped_output_keys@ == mo0,
              state.active_mappings@ == am0, state.mapped_absorbed_keys@ == ab0, state.absorbing_trigger == at_s1,
              //@ C19 | bookkeeping equals the fold of the emitted events; no redundant press or release
              state.pass_through_keys@.no_duplicates(),
              //@ C01 C02 | effect of the call on the list of keys considered pressed
              state.input_pressed_keys@ == ip_s,
              //@  | frame / auxiliary
              state.pass_through_keys@.to_set().subset_of(pt0.to_set()),
              pt0.to_set().remove(*new_key).subset_of(state.pass_through_keys@.to_set()),
              forall|j: int| 0 <= j < __i ==> #[trigger] state.pass_through_keys@[j] != *new_key,
            decreases state.pass_through_keys@.len() - __i
          { let ghost p0 = state.pass_through_keys@;
            let __keep = { let k2 = &state.pass_through_keys[__i]; k2 != new_key };
            if __keep { __i += 1; } else { state.pass_through_keys.remove(__i);
              proof { lemma_remove_set(p0, __i as int); assert(state.pass_through_keys@ =~= p0.remove(__i as int)); assert forall|j: int| 0 <= j < __i implies state.pass_through_keys@[j] == p0[j] by {} }
            } }
          let ghost p1 = state.pass_through_keys@;
          proof {
            assert forall|k: KeyCode| p1.to_set().contains(k) implies k != *new_key by { lemma_ts(p1, k); let j = choose|j: int| 0 <= j < p1.len() && p1[j] == k; assert(p1[j] != *new_key); }
            assert(p1.to_set() =~= pt0.to_set().remove(*new_key));
            assert forall|x: KeyCode| #[trigger] p1.contains(x) implies pt0.contains(x) by { lemma_ts(p1, x); lemma_ts(pt0, x); }
          }
          state.mapped_output_keys.push(*new_key);
          proof { lemma_push_set(mo0, *new_key); lemma_push_nodup(mo0, *new_key); lemma_push_contains(mo0, *new_key);
            assert(held(*state) =~= pt0.to_set().union(mo0.to_set())); assert(apply(h0, events@) == Some(held(*state))); }
        }
        else {
          events.push(Pressed(*new_key));
          state.mapped_output_keys.push(*new_key);
          //@ C05 | scope of the keys lifted so far
          //@ C05 | scope of the keys lifted so far
        proof { lemma_anm_rel_push(*old(state), *m, e0, Event::Pressed(*new_key)); }
        //@  | frame / auxiliary
          //@  | frame / auxiliary
          proof { assert(events@.drop_last() =~= e0); lemma_push_set(mo0, *new_key); lemma_push_nodup(mo0, *new_key); lemma_push_contains(mo0, *new_key);
            assert(held(*state) =~= (pt0.to_set().union(mo0.to_set())).insert(*new_key)); assert(apply(h0, events@) == Some(held(*state))); }
        }
      }
    }
    else {
      if !state.mapped_output_keys.contains(new_key) && !state.pass_through_keys.contains(new_key) {
        events.push(Pressed(*new_key));
        state.mapped_output_keys.push(*new_key);
        //@ C05 | scope of the keys lifted so far
        proof { lemma_anm_rel_push(*old(state), *m, e0, Event::Pressed(*new_key)); }
        //@  | frame / auxiliary
        proof { assert(events@.drop_last() =~= e0); lemma_push_set(mo0, *new_key); lemma_push_nodup(mo0, *new_key); lemma_push_contains(mo0, *new_key);
          assert(held(*state) =~= (pt0.to_set().union(mo0.to_set())).insert(*new_key)); assert(apply(h0, events@) == Some(held(*state))); }
      }
    }
    proof {
      assert(hpre =~= pt0.to_set().union(mo0.to_set()));
      assert(held(*state).contains(*new_key));
      lemma_prefix_contains(e0, events@);
      if !is_mod(*new_key) { assert(events@.last() == Event::Pressed(*new_key)); assert(events@.contains(events@[events@.len() - 1])); }
      lemma_out_done_step(m.to@, it.index@ as int, e0, events@, hpre, held(*state));
      lemma_only_presses_ext(e0, events@, m.to@, *new_key);
      assert(gone_keep(*state, gone)) by { assert forall|d: KeyCode| #[trigger] gone.contains(d) implies !state.input_pressed_keys@.contains(d) && !state.pass_through_keys@.contains(d) by { if state.pass_through_keys@.contains(d) { assert(pt0.contains(d)); } } }
    }
    //@ C04 | the instant the final output key goes down: listed modifiers down, no stale modifier
    proof { if c04c {
        assert(sub(state.pass_through_keys@, pt0));
        assert forall|x: KeyCode| #[trigger] state.mapped_output_keys@.contains(x) implies mo0.contains(x) || x == *new_key by {}
        lemma_c04_iter(*old(state), *m, s_it0, *state, e0, events@, it.index@ as int); } }
  }
  
  for absorbed_key in it: &m.absorbing
    invariant
      //@ C19 | bookkeeping equals the fold of the emitted events; no redundant press or release
      wf(*state),
      apply(h0, events@) == Some(held(*state)),
      //@ C01 C02 | inclusion invariant J (every held output key is justified by what is pressed)
      jx(*state, m.to@),
      nonempty_from(state.active_mappings@),
      //@  | frame / auxiliary
      (forall|x: KeyCode| #[trigger] state.pass_through_keys@.contains(x) ==> !m.from@.contains(x) && !m.to@.contains(x)),
      //@ C05 | a release lifts only the key itself or outputs owned by its mappings; pass-through keys are not outputs of mappings in effect
      (j2(*old(state)) ==> j2(*state)) && (j3(*old(state)) ==> j3(*state)) && (j4(*old(state)) ==> j4(*state)) && (j6(*old(state)) ==> j6(*state)) && sub(state.input_pressed_keys@, old(state).input_pressed_keys@) && (forall|x: KeyCode| #[trigger] old(state).input_pressed_keys@.contains(x) && (!old(state).mapped_absorbed_keys@.contains(x) || old(state).absorbing_trigger == Some(nk0)) ==> state.input_pressed_keys@.contains(x)) && anm_extra(*old(state), *state, m.absorbing@),
      it.seq().len() == m.absorbing@.len(), forall|j: int| 0 <= j < m.absorbing@.len() ==> *it.seq()[j] == m.absorbing@[j],
      //@ C03 C07 | all output keys are held, the non-modifier ones were pressed by an event of this step
      out_done(m.to@, m.to@.len() as int, events@, held(*state)), only_presses(events@, m.to@),
      //@ C05 | scope of the keys lifted so far
      anm_rel(*old(state), *m, events@),
      //@ C04 | the instant the final output key goes down: listed modifiers down, no stale modifier
      c04c ==> c04_anm(*old(state), *m, events@),
      //@ C08 | the keys of the absorbing list handled so far are absorbed; nothing else is added; the trigger is untouched so far
      state.absorbing_trigger == at_s1, gone_keep(*state, gone), sub(ab_s1, state.mapped_absorbed_keys@),
      forall|j: int| 0 <= j < it.index@ ==> state.mapped_absorbed_keys@.contains(#[trigger] m.absorbing@[j]),
      forall|x: KeyCode| #[trigger] state.mapped_absorbed_keys@.contains(x) ==> ab_s1.contains(x) || m.absorbing@.contains(x),
    { //@ | body
    proof { assert(*absorbed_key == m.absorbing@[it.index@ as int]); assert(m.absorbing@.contains(*absorbed_key)); }
    let ghost ab_b = state.mapped_absorbed_keys@;
    if !state.mapped_absorbed_keys.contains(absorbed_key) {
      state.mapped_absorbed_keys.push(*absorbed_key);
      proof { lemma_push_contains(ab_b, *absorbed_key); }
    }
  }
  let ghost ab_f = state.mapped_absorbed_keys@;
  if m.absorbing.len() > 0 {
    state.absorbing_trigger = Some(*new_key);
  }
  
  let ghost am1 = state.active_mappings@;
  state.active_mappings.push(m.clone());
  proof {
    reveal(nonempty_from); reveal(am_sub);
    let mc = state.active_mappings@.last();
    assert(mview(mc) == mview(*m));
    assert(mc.to@ == m.to@); assert(mc.from@ == m.from@);
    if j6(*old(state)) { assert forall|x: KeyCode| #[trigger] state.pass_through_keys@.contains(x) implies !out_of(state.active_mappings@, x) by { if out_of(state.active_mappings@, x) { let j = choose|j: int| 0 <= j < state.active_mappings@.len() && #[trigger] state.active_mappings@[j].to@.contains(x); if j < am1.len() { assert(state.active_mappings@[j] == am1[j]); assert(out_of(am1, x)); } } } }
    if j4(*old(state)) { assert forall|x: KeyCode, j: int| #![trigger state.pass_through_keys@.contains(x), state.active_mappings@[j]] state.pass_through_keys@.contains(x) && 0 <= j < state.active_mappings@.len() implies !state.active_mappings@[j].from@.contains(x) by { if j < am1.len() { assert(state.active_mappings@[j] == am1[j]); } } }
    assert forall|j: int| 0 <= j < state.active_mappings@.len() implies (#[trigger] state.active_mappings@[j]).from@.len() >= 1 by { if j < am1.len() { assert(state.active_mappings@[j] == am1[j]); } }
    if j3(*old(state)) { assert forall|j: int| 0 <= j < state.active_mappings@.len() - 1 implies sub(#[trigger] state.active_mappings@[j].from@, state.input_pressed_keys@) by { assert(state.active_mappings@[j] == am1[j]); } }
    assert forall|k: KeyCode| #[trigger] state.mapped_output_keys@.contains(k) implies out_of(state.active_mappings@, k) by { lemma_out_of_push(am1, mc, k); }
  }
  
  let mut res = StepResult {
    events,
    repeat: ResultingRepeat::Disabled
  };
  proof { lemma_c03_fire_normal(*m, res.events@, held(*state)); }
  
  match &m.repeat {
    Repeat::Normal => {
      // OK, nothing to do
    },
    Repeat::Disabled => {
      // Release all action keys to prevent repeating
      let ghost e0 = res.events@; let ghost hm0 = held(*state);
      res.events.append(&mut release_all_action_keys(state));
      proof { let c = choose|c: Seq<Event>| res.events@ == e0 + c && apply(hm0, c) == Some(held(*state)) && all_released(c); lemma_apply_append(h0, e0, c);
        lemma_c03_fire_norepeat(*m, e0, c, hm0, held(*state)); lemma_only_presses_append(e0, c, m.to@); lemma_anm_rel_raak(*old(state), *m, e0, c, hm0, held(*state)); if c04c { lemma_c04_append(*old(state), *m, e0, c); } }
    },
    Repeat::Special { keys, delay_ms, interval_ms } => {
      // First release action keys
      let ghost e0 = res.events@; let ghost hm0 = held(*state);
      res.events.append(&mut release_all_action_keys(state));
      proof { let c = choose|c: Seq<Event>| res.events@ == e0 + c && apply(hm0, c) == Some(held(*state)) && all_released(c); lemma_apply_append(h0, e0, c);
        lemma_c03_fire_norepeat(*m, e0, c, hm0, held(*state)); lemma_only_presses_append(e0, c, m.to@); lemma_anm_rel_raak(*old(state), *m, e0, c, hm0, held(*state)); if c04c { lemma_c04_append(*old(state), *m, e0, c); } }

      // Now tell it what key to repeat
      res.repeat = ResultingRepeat::Repeating {
        keys: keys.clone(),
        delay_ms: *delay_ms,
        interval_ms: *interval_ms
      };
      
      // Save the key that triggered it so we can stop
      // the mapping when the key is released
      state.repeating_trigger = Some(*new_key);
    }
  };
        
  //@ C08 | what is absorbed after the firing: the absorbing list of the fired mapping is absorbed, its final key is the absorbing trigger, earlier absorbed keys were lifted first
  proof {
    assert forall|a: KeyCode| #[trigger] m.absorbing@.contains(a) implies ab_f.contains(a) by { let jj = choose|jj: int| 0 <= jj < m.absorbing@.len() && m.absorbing@[jj] == a; assert(ab_f.contains(m.absorbing@[jj])); }
    assert(c08_anm(*old(state), *state, nk0, *m));
  }
  res
}

spec fn abs_now(st: State, k: KeyCode, x: KeyCode) -> bool { st.absorbing_trigger != Some(k) && st.mapped_absorbed_keys@.contains(x) && x != k }

spec fn sup(m: Mapping, st: State, k: KeyCode) -> bool {
  forall|j: int| 0 <= j < m.from@.len() ==> ((st.input_pressed_keys@.contains(#[trigger] m.from@[j]) && !abs_now(st, k, m.from@[j])) || m.from@[j] == k)
}

spec fn group(h: HashedLayout, k: KeyCode) -> Seq<Mapping> { if h.mappings@.contains_key(k) { h.mappings@[k]@ } else { Seq::empty() } }

/// C03: index (in layout order within the group of mappings ending in k) of the mapping that must fire
spec fn is_fired(g: Seq<Mapping>, st: State, k: KeyCode, i: int) -> bool {
  0 <= i < g.len() && sup(g[i], st, k) && forall|j: int| i < j < g.len() ==> !sup(#[trigger] g[j], st, k)
}

spec fn none_fired(g: Seq<Mapping>, st: State, k: KeyCode) -> bool { forall|j: int| 0 <= j < g.len() ==> !sup(#[trigger] g[j], st, k) }

/// C09: the repeat instruction a fired mapping must produce
spec fn repeat_matches(r: Repeat, rr: ResultingRepeat) -> bool {
  match r {
    Repeat::Special { keys, delay_ms, interval_ms } => (match rr { ResultingRepeat::Repeating { keys: k2, delay_ms: d2, interval_ms: i2 } => keys@ == k2@ && delay_ms == d2 && interval_ms == i2, _ => false }),
    _ => rr is Disabled,
  }
}

pub open spec fn rrepeat_ok(r: ResultingRepeat) -> bool {
  match r { ResultingRepeat::Repeating { keys, delay_ms, interval_ms } => delay_ms >= 0 && interval_ms >= 0 && keys@.no_duplicates(), _ => true }
}
// what the mapper needs of a grouped mapping
spec fn gm_ok(m: Mapping) -> bool { m.from@.len() >= 1 && repeat_ok(m.repeat) && m.to@.no_duplicates() }

// ---- grouping of the layout by final trigger key (C03: "the last-listed mapping whose final trigger key is that key") ----
// the views of the mappings of ms whose trigger ends in k, in listed order
pub open spec fn group_of(ms: Seq<Mapping>, k: KeyCode) -> Seq<MappingV>
  decreases ms.len()
{
  if ms.len() == 0 { Seq::empty() } else {
    let g = group_of(ms.drop_last(), k);
    if ms.last().from@.len() >= 1 && ms.last().from@.last() == k { g.push(mview(ms.last())) } else { g }
  }
}
pub open spec fn views(v: Seq<Mapping>) -> Seq<MappingV> { v.map_values(|m: Mapping| mview(m)) }
spec fn grouped_prefix(hm: Map<KeyCode, Vec<Mapping>>, ms: Seq<Mapping>) -> bool {
  forall|k: KeyCode| #![trigger hm.contains_key(k)] #![trigger group_of(ms, k)]
    (hm.contains_key(k) <==> group_of(ms, k).len() > 0) && (hm.contains_key(k) ==> views(hm[k]@) == group_of(ms, k))
}

// every element of a group is the view of a mapping of the layout (whose trigger ends in k)
pub proof fn lemma_group_of_member(ms: Seq<Mapping>, k: KeyCode, i2: int)
  requires 0 <= i2 < group_of(ms, k).len()
  ensures exists|i: int| 0 <= i < ms.len() && mview(#[trigger] ms[i]) == group_of(ms, k)[i2] && ms[i].from@.len() >= 1 && ms[i].from@.last() == k
  decreases ms.len()
{
  if ms.len() > 0 {
    let g = group_of(ms.drop_last(), k);
    if i2 < g.len() {
      lemma_group_of_member(ms.drop_last(), k, i2);
      let i = choose|i: int| 0 <= i < ms.drop_last().len() && mview(#[trigger] ms.drop_last()[i]) == g[i2] && ms.drop_last()[i].from@.len() >= 1 && ms.drop_last()[i].from@.last() == k;
      assert(ms[i] == ms.drop_last()[i]);
    } else {
      assert(mview(ms[ms.len() - 1]) == group_of(ms, k)[i2]);
    }
  }
}
// every mapping of the layout is in the group of its final trigger key
pub proof fn lemma_group_of_complete(ms: Seq<Mapping>, i: int)
  requires 0 <= i < ms.len(), ms[i].from@.len() >= 1
  ensures exists|i2: int| 0 <= i2 < group_of(ms, ms[i].from@.last()).len() && #[trigger] group_of(ms, ms[i].from@.last())[i2] == mview(ms[i])
  decreases ms.len()
{
  let k = ms[i].from@.last();
  let g = group_of(ms.drop_last(), k);
  if i == ms.len() - 1 {
    assert(group_of(ms, k)[g.len() as int] == mview(ms[i]));
  } else {
    lemma_group_of_complete(ms.drop_last(), i);
    assert(ms.drop_last()[i] == ms[i]);
    let i2 = choose|i2: int| 0 <= i2 < g.len() && #[trigger] g[i2] == mview(ms[i]);
    assert(group_of(ms, k)[i2] == g[i2]);
  }
}

spec fn hl_ok(h: HashedLayout) -> bool {
  forall|k: KeyCode, j: int| h.mappings@.contains_key(k) && 0 <= j < h.mappings@[k]@.len() ==> gm_ok(#[trigger] h.mappings@[k]@[j])
}

spec fn hm_ok(hm: Map<KeyCode, Vec<Mapping>>) -> bool {
  forall|k: KeyCode, j: int| hm.contains_key(k) && 0 <= j < hm[k]@.len() ==> gm_ok(#[trigger] hm[k]@[j])
}

//@ C14 | default: fn final_key
fn final_key(trigger: &Vec<KeyCode>) -> (r: KeyCode)
  requires
    //@  | frame / auxiliary
    trigger@.len() >= 1,
  ensures
    //@  | frame / auxiliary
    r == trigger@[trigger@.len() - 1],
  { //@ | body
  return trigger[trigger.len() - 1];
}

// ---- C03 / C08 in the vocabulary of the layout: "the last-listed mapping whose final trigger key is k and whose other trigger keys are all held (and not absorbed)" ----
pub open spec fn supported_set(from: Seq<KeyCode>, pressed: Seq<KeyCode>, absorbed: Set<KeyCode>, k: KeyCode) -> bool {
  forall|j: int| 0 <= j < from.len() ==> ((pressed.contains(#[trigger] from[j]) && !absorbed.contains(from[j])) || from[j] == k)
}
pub open spec fn layout_fired(ms: Seq<Mapping>, pressed: Seq<KeyCode>, absorbed: Set<KeyCode>, k: KeyCode) -> Option<MappingV>
  decreases ms.len()
{
  if ms.len() == 0 { None } else {
    let m = ms.last();
    if m.from@.len() >= 1 && m.from@.last() == k && supported_set(m.from@, pressed, absorbed, k) { Some(mview(m)) }
    else { layout_fired(ms.drop_last(), pressed, absorbed, k) }
  }
}
pub open spec fn fired_in_views(gv: Seq<MappingV>, pressed: Seq<KeyCode>, absorbed: Set<KeyCode>, k: KeyCode) -> Option<MappingV>
  decreases gv.len()
{
  if gv.len() == 0 { None } else if supported_set(gv.last().from, pressed, absorbed, k) { Some(gv.last()) } else { fired_in_views(gv.drop_last(), pressed, absorbed, k) }
}
pub proof fn lemma_layout_fired_sound(ms: Seq<Mapping>, pressed: Seq<KeyCode>, absorbed: Set<KeyCode>, k: KeyCode)
  ensures match layout_fired(ms, pressed, absorbed, k) { Some(mv) => supported_set(mv.from, pressed, absorbed, k) && mv.from.len() >= 1 && mv.from.last() == k, None => true }
  decreases ms.len()
{
  if ms.len() > 0 { lemma_layout_fired_sound(ms.drop_last(), pressed, absorbed, k); }
}
// the mapping that fires is (the view of) a mapping of the layout
pub proof fn lemma_fired_in_layout(ms: Seq<Mapping>, pressed: Seq<KeyCode>, absorbed: Set<KeyCode>, k: KeyCode)
  ensures match layout_fired(ms, pressed, absorbed, k) { Some(mv) => exists|i: int| 0 <= i < ms.len() && mview(#[trigger] ms[i]) == mv, None => true }
  decreases ms.len()
{
  if ms.len() > 0 {
    lemma_fired_in_layout(ms.drop_last(), pressed, absorbed, k);
    match layout_fired(ms, pressed, absorbed, k) {
      Some(mv) => {
        let m = ms.last();
        if m.from@.len() >= 1 && m.from@.last() == k && supported_set(m.from@, pressed, absorbed, k) { assert(mview(ms[ms.len() - 1]) == mv); }
        else { let i = choose|i: int| 0 <= i < ms.drop_last().len() && mview(#[trigger] ms.drop_last()[i]) == mv; assert(ms[i] == ms.drop_last()[i]); }
      },
      None => {},
    }
  }
}
pub proof fn lemma_layout_fired_group(ms: Seq<Mapping>, pressed: Seq<KeyCode>, absorbed: Set<KeyCode>, k: KeyCode)
  ensures layout_fired(ms, pressed, absorbed, k) == fired_in_views(group_of(ms, k), pressed, absorbed, k)
  decreases ms.len()
{
  if ms.len() > 0 {
    lemma_layout_fired_group(ms.drop_last(), pressed, absorbed, k);
    let g = group_of(ms.drop_last(), k); let m = ms.last();
    if m.from@.len() >= 1 && m.from@.last() == k { assert(group_of(ms, k).drop_last() =~= g); assert(group_of(ms, k).last() == mview(m)); }
  }
}
// what a firing step must have done with the outputs of the fired mapping (views)
pub open spec fn fire_post(mv: MappingV, evs: Seq<Event>, h: Set<KeyCode>) -> bool {
  &&& (forall|o: KeyCode| #[trigger] mv.to.contains(o) && !is_mod(o) ==> evs.contains(Event::Pressed(o)))
  &&& (forall|o: KeyCode| #[trigger] mv.to.contains(o) && is_mod(o) ==> h.contains(o))
  &&& (mv.repeat is Normal ==> forall|o: KeyCode| #[trigger] mv.to.contains(o) ==> h.contains(o))
  &&& (!(mv.repeat is Normal) ==> forall|x: KeyCode| h.contains(x) ==> is_mod(x))
}
spec fn eff_abs(st: State, k: KeyCode) -> Set<KeyCode> { if st.absorbing_trigger == Some(k) { Set::empty() } else { st.mapped_absorbed_keys@.to_set().remove(k) } }
proof fn lemma_sup_set(m: Mapping, st: State, k: KeyCode)
  ensures sup(m, st, k) == supported_set(m.from@, st.input_pressed_keys@, eff_abs(st, k), k)
{
  assert forall|x: KeyCode| abs_now(st, k, x) == eff_abs(st, k).contains(x) by { lemma_ts(st.mapped_absorbed_keys@, x); }
  if sup(m, st, k) { assert forall|j: int| 0 <= j < m.from@.len() implies ((st.input_pressed_keys@.contains(#[trigger] m.from@[j]) && !eff_abs(st, k).contains(m.from@[j])) || m.from@[j] == k) by {} }
  if supported_set(m.from@, st.input_pressed_keys@, eff_abs(st, k), k) { assert forall|j: int| 0 <= j < m.from@.len() implies ((st.input_pressed_keys@.contains(#[trigger] m.from@[j]) && !abs_now(st, k, m.from@[j])) || m.from@[j] == k) by {} }
}
// either no mapping of the group is supported or exactly the last supported one is "fired"
proof fn lemma_scan(g: Seq<Mapping>, st: State, k: KeyCode, lo: int)
  requires 0 <= lo <= g.len(), forall|j: int| lo <= j < g.len() ==> !sup(#[trigger] g[j], st, k)
  ensures none_fired(g, st, k) || exists|i: int| is_fired(g, st, k, i)
  decreases lo
{
  if lo > 0 {
    if sup(g[lo - 1], st, k) { assert(is_fired(g, st, k, lo - 1)); }
    else { lemma_scan(g, st, k, lo - 1); }
  }
}
proof fn lemma_fired_unique(g: Seq<Mapping>, st: State, k: KeyCode, a: int, b: int)
  requires is_fired(g, st, k, a), is_fired(g, st, k, b)
  ensures a == b
{}
// the group scan, as a function of the views
proof fn lemma_fired_views(g: Seq<Mapping>, st: State, k: KeyCode, n: int)
  requires 0 <= n <= g.len()
  ensures fired_in_views(views(g.take(n)), st.input_pressed_keys@, eff_abs(st, k), k) ==
    (if exists|i: int| 0 <= i < n && sup(#[trigger] g[i], st, k) && (forall|j: int| i < j < n ==> !sup(#[trigger] g[j], st, k)) {
       Some(mview(g[choose|i: int| 0 <= i < n && sup(#[trigger] g[i], st, k) && (forall|j: int| i < j < n ==> !sup(#[trigger] g[j], st, k))])) } else { None })
  decreases n
{
  let gv = views(g.take(n));
  if n > 0 {
    lemma_fired_views(g, st, k, n - 1);
    assert(gv.drop_last() =~= views(g.take(n - 1)));
    assert(gv.last() == mview(g[n - 1]));
    lemma_sup_set(g[n - 1], st, k);
    if sup(g[n - 1], st, k) {
      let w = n - 1;
      assert(0 <= w < n && sup(g[w], st, k) && (forall|j: int| w < j < n ==> !sup(#[trigger] g[j], st, k)));
      let c = choose|i: int| 0 <= i < n && sup(#[trigger] g[i], st, k) && (forall|j: int| i < j < n ==> !sup(#[trigger] g[j], st, k));
      assert(c == w) by { if c < w { assert(!sup(g[w], st, k)); } }
    } else {
      // the witnesses below n and below n-1 coincide
      if exists|i: int| 0 <= i < n - 1 && sup(#[trigger] g[i], st, k) && (forall|j: int| i < j < n - 1 ==> !sup(#[trigger] g[j], st, k)) {
        let c1 = choose|i: int| 0 <= i < n - 1 && sup(#[trigger] g[i], st, k) && (forall|j: int| i < j < n - 1 ==> !sup(#[trigger] g[j], st, k));
        assert(0 <= c1 < n && sup(g[c1], st, k) && (forall|j: int| c1 < j < n ==> !sup(#[trigger] g[j], st, k)));
        let c = choose|i: int| 0 <= i < n && sup(#[trigger] g[i], st, k) && (forall|j: int| i < j < n ==> !sup(#[trigger] g[j], st, k));
        assert(c == c1) by { if c < c1 { assert(!sup(g[c1], st, k)); } if c1 < c { assert(c < n - 1); assert(!sup(g[c], st, k)); } }
      } else {
        if exists|i: int| 0 <= i < n && sup(#[trigger] g[i], st, k) && (forall|j: int| i < j < n ==> !sup(#[trigger] g[j], st, k)) {
          let c = choose|i: int| 0 <= i < n && sup(#[trigger] g[i], st, k) && (forall|j: int| i < j < n ==> !sup(#[trigger] g[j], st, k));
          assert(c < n - 1);
          assert(0 <= c < n - 1 && sup(g[c], st, k) && (forall|j: int| c < j < n - 1 ==> !sup(#[trigger] g[j], st, k)));
          assert(false);
        }
      }
    }
  } else {
    assert(gv =~= Seq::<MappingV>::empty());
  }
}

pub open spec fn supported_spec(trigger: Seq<KeyCode>, pressed: Seq<KeyCode>, absorbed: Seq<KeyCode>, nk: KeyCode) -> bool {
  forall|j: int| 0 <= j < trigger.len() ==> ((pressed.contains(#[trigger] trigger[j]) && !absorbed.contains(trigger[j])) || trigger[j] == nk)
}

//@ C03 C08 C14 | default: fn is_supported
fn is_supported(trigger: &Vec<KeyCode>, pressed_keys: &Vec<KeyCode>, absorbed_keys: &Vec<KeyCode>, new_key: &KeyCode) -> (r: bool)
  ensures
    //@ C03 C08 | firing specification (support test, grouping of the layout by final trigger key)
    r == supported_spec(trigger@, pressed_keys@, absorbed_keys@, *new_key),
  { //@ | body
  for k in it: trigger
    invariant
      //@  | frame / auxiliary
      it.seq().len() == trigger@.len(),
      forall|j: int| 0 <= j < trigger@.len() ==> *it.seq()[j] == trigger@[j],
      forall|j: int| 0 <= j < it.index@ ==> ((pressed_keys@.contains(#[trigger] trigger@[j]) && !absorbed_keys@.contains(trigger@[j])) || trigger@[j] == *new_key),
    { //@ | body
    if !((pressed_keys.contains(&k) && !absorbed_keys.contains(&k)) || k == new_key) {
      return false;
    }
  }
  return true;
}

//@ C03 C08 C14 C19 | default: fn make_hashed_layout
fn make_hashed_layout(layout: &Layout) -> (h: HashedLayout)
  requires
    //@  | frame / auxiliary
    layout_ok(*layout),
  ensures
    //@ C03 C08 | firing specification (support test, grouping of the layout by final trigger key)
    hl_ok(h),
    //@ C03 C02 C05 | the hashed layout groups exactly the mappings of the layout by their final trigger key, in listed order (nothing lost, nothing added, order kept)
    grouped_prefix(h.mappings@, layout.mappings@),
  { //@ | body
  broadcast use vstd::std_specs::hash::group_hash_axioms;
  let mut mappings: HashMap<KeyCode, Vec<Mapping>> = HashMap::new();

  for mapping in it: &layout.mappings
    invariant
      //@  | frame / auxiliary
      layout_ok(*layout), mappings@ == Map::<KeyCode, Vec<Mapping>>::empty(),
      it.seq().len() == layout.mappings@.len(),
      forall|j: int| 0 <= j < layout.mappings@.len() ==> *it.seq()[j] == layout.mappings@[j],
    { //@ | body
    assert(mapping_ok(layout.mappings@[it.index@ as int]));
    for i in 0 .. mapping.from.len()
      invariant
        //@ C19 | bookkeeping equals the fold of the emitted events; no redundant press or release
        mapping.from@.no_duplicates(),
      { //@ | body
      for j in i+1 .. mapping.from.len()
        invariant
          //@ C19 | bookkeeping equals the fold of the emitted events; no redundant press or release
          mapping.from@.no_duplicates(),
          //@  | frame / auxiliary
          i < mapping.from@.len(),
        { //@ | body
        if mapping.from[i] == mapping.from[j] {
          panic!("Duplicate key in from");
        }
      }
    }
    
    for i in 0 .. mapping.to.len()
      invariant
        //@ C19 | bookkeeping equals the fold of the emitted events; no redundant press or release
        mapping.to@.no_duplicates(),
      { //@ | body
      for j in i+1 .. mapping.to.len()
        invariant
          //@ C19 | bookkeeping equals the fold of the emitted events; no redundant press or release
          mapping.to@.no_duplicates(),
          //@  | frame / auxiliary
          i < mapping.to@.len(),
        { //@ | body
        if mapping.to[i] == mapping.to[j] {
          panic!("Duplicate key in to");
        }
      }
    }
  }
  
  for mapping in it: &layout.mappings
    invariant
      //@  | frame / auxiliary
      layout_ok(*layout),
      //@ C03 C08 | firing specification (support test, grouping of the layout by final trigger key)
      hm_ok(mappings@),
      //@ C03 C02 C05 | grouping of the prefix of the layout handled so far
      grouped_prefix(mappings@, layout.mappings@.take(it.index@ as int)),
      //@  | frame / auxiliary
      it.seq().len() == layout.mappings@.len(),
      forall|j: int| 0 <= j < layout.mappings@.len() ==> *it.seq()[j] == layout.mappings@[j],
    { //@ | body
    assert(mapping_ok(layout.mappings@[it.index@ as int]));
    proof { axiom_keycode_key_model(); assert(builds_valid_hashers::<std::collections::hash_map::RandomState>()); }
    let ghost n = it.index@ as int; let ghost ms0 = layout.mappings@.take(n); let ghost ms1 = layout.mappings@.take(n + 1);
    proof { assert(ms1.drop_last() =~= ms0); assert(ms1.last() == *mapping); }
    let ghost hm0 = mappings@;
    let ghost mut vfin: Option<Vec<Mapping>> = None;
    let last = final_key(&mapping.from);
    
    match mappings.get_mut(&last) {
      None => {
        mappings.insert(last, vec![mapping.clone()]);
        proof { assert(mappings@[last]@.len() == 1); assert(mview(mappings@[last]@[0]) == mview(*mapping));
          assert(views(mappings@[last]@) =~= Seq::<MappingV>::empty().push(mview(*mapping))); assert(group_of(ms0, last).len() == 0); }
      },
      Some(existing) => {
        let ghost ex0 = existing@;
        existing.push(mapping.clone());
        proof { assert(mview(existing@.last()) == mview(*mapping)); assert forall|j: int| 0 <= j < ex0.len() implies existing@[j] == ex0[j] by {} vfin = Some(*existing);
          assert(views(existing@) =~= views(ex0).push(mview(*mapping))); }
      }
    }
    proof {
      if hm0.contains_key(last) { axiom_borrowed_key_updated_deref::<KeyCode, Vec<Mapping>>(hm0, mappings@, &last, vfin.unwrap()); }
      assert forall|k: KeyCode, j: int| mappings@.contains_key(k) && 0 <= j < mappings@[k]@.len() implies gm_ok(#[trigger] mappings@[k]@[j]) by {
        if k == last {
          if hm0.contains_key(last) { if j < hm0[last]@.len() { assert(mappings@[k]@[j] == hm0[k]@[j]); } }
        } else { assert(mappings@[k] == hm0[k]); }
      }
      assert forall|k: KeyCode| (mappings@.contains_key(k) <==> group_of(ms1, k).len() > 0) && (mappings@.contains_key(k) ==> views(mappings@[k]@) == group_of(ms1, k)) by {
        assert(hm0.contains_key(k) <==> group_of(ms0, k).len() > 0);
        if k == last {
        } else {
          assert(group_of(ms1, k) == group_of(ms0, k));
          if hm0.contains_key(k) { assert(mappings@[k] == hm0[k]); }
        }
      }
    }
  }
  
  proof { assert(layout.mappings@.take(layout.mappings@.len() as int) =~= layout.mappings@); }
  HashedLayout { mappings }
}

//@ C09 C14 | default: impl StepResult
impl StepResult {
  fn empty() -> (r: StepResult)
    ensures
      //@  | frame / auxiliary
      r.events@.len() == 0,
      //@ C09 | repeat request
      r.repeat is Disabled,
    { //@ | body
    StepResult {
      events: vec![],
      repeat: ResultingRepeat::Disabled
    }
  }
  
  fn append(&mut self, mut other: StepResult)
    ensures
      //@  | frame / auxiliary
      final(self).events@ == old(self).events@ + other.events@,
      final(self).repeat == other.repeat,
    { //@ | body
    self.repeat = other.repeat;
    self.events.append(&mut other.events);
  }
}

//@ C01 C02 C05 C07 C09 C14 C19 | default: fn newly_release
fn newly_release(mapper: &mut Mapper, k: KeyCode) -> (res: StepResult)
  requires
    //@ C19 | bookkeeping equals the fold of the emitted events; no redundant press or release
    wf(old(mapper).state),
    //@ C01 C02 | inclusion invariant J (every held output key is justified by what is pressed)
    j1(old(mapper).state),
    j2(old(mapper).state),
    j3(old(mapper).state),
    //@ C02 | (d) trigger keys of mappings in effect are consumed (not passed through)
    j4(old(mapper).state),
    //@ C05 | a release lifts only the key itself or outputs owned by its mappings; pass-through keys are not outputs of mappings in effect
    j6(old(mapper).state),
    //@ C01 C02 | inclusion invariant J (every held output key is justified by what is pressed)
    nonempty_from(old(mapper).state.active_mappings@),
  ensures
    //@ C19 | bookkeeping equals the fold of the emitted events; no redundant press or release
    wf(final(mapper).state),
    //@ C01 C02 | inclusion invariant J (every held output key is justified by what is pressed)
    j1(final(mapper).state),
    j2(final(mapper).state),
    j3(final(mapper).state),
    //@ C02 | (d) trigger keys of mappings in effect are consumed (not passed through)
    j4(final(mapper).state),
    //@ C05 | a release lifts only the key itself or outputs owned by its mappings; pass-through keys are not outputs of mappings in effect
    j6(final(mapper).state),
    //@ C01 C02 | inclusion invariant J (every held output key is justified by what is pressed)
    nonempty_from(final(mapper).state.active_mappings@),
    //@  | frame / auxiliary
    final(mapper).layout == old(mapper).layout,
    //@ C05 | a release lifts only the key itself or outputs owned by its mappings; pass-through keys are not outputs of mappings in effect
    c05_rel(res.events@, old(mapper).state.active_mappings@, final(mapper).state.active_mappings@, k),
    //@ C01 C02 | effect of the call on the list of keys considered pressed
    sub(final(mapper).state.input_pressed_keys@, old(mapper).state.input_pressed_keys@),
    //@ C19 | bookkeeping equals the fold of the emitted events; no redundant press or release
    apply(held(old(mapper).state), res.events@) == Some(held(final(mapper).state)),
    //@ C02 C07 | release paths emit only releases
    all_released(res.events@),
    //@ C02 C05 C08 | origin: every mapping still in effect was in effect before; the absorbed keys and their trigger are untouched
    nr_frame(final(mapper).state, old(mapper).state),
    j3b(old(mapper).layout, old(mapper).state) && j5(old(mapper).layout, old(mapper).state) ==> j3b(final(mapper).layout, final(mapper).state) && j5(final(mapper).layout, final(mapper).state),
    //@ C09 | repeat request
    res.repeat is Disabled,
    //@ C01 C02 | effect of the call on the list of keys considered pressed
    !final(mapper).state.input_pressed_keys@.contains(k),
    forall|x: KeyCode| #[trigger] old(mapper).state.input_pressed_keys@.contains(x) && x != k ==> final(mapper).state.input_pressed_keys@.contains(x),
  { //@ | body
  let state = &mut mapper.state;
  
  let mut events: Vec<Event> = Vec::new();
  let ghost h0 = held(old(mapper).state); let ghost amo = old(mapper).state.active_mappings@;
  proof { lemma_am_sub_refl(amo); assert forall|x: KeyCode| !rel(events@, x) by {} }
  
  proof { axiom_vec_len_isize(&state.active_mappings); }
  let mut i: isize = state.active_mappings.len() as isize - 1;
  while i >= 0
    invariant
      //@  | frame / auxiliary
      -1 <= i < state.active_mappings@.len(),
      //@ C19 | bookkeeping equals the fold of the emitted events; no redundant press or release
      wf(*state),
      apply(h0, events@) == Some(held(*state)),
      //@ C02 C07 | release paths emit only releases
      all_released(events@),
      //@ C02 C05 C08 | origin of mappings in effect / absorbed keys untouched
      nr_frame(*state, old(mapper).state),
      //@ C01 C02 | inclusion invariant J (every held output key is justified by what is pressed)
      j1(*state),
      j2(*state),
      j3(*state),
      //@ C02 | (d) trigger keys of mappings in effect are consumed (not passed through)
      j4(*state),
      //@ C01 C02 | effect of the call on the list of keys considered pressed
      state.input_pressed_keys@ == old(mapper).state.input_pressed_keys@,
      //@ C01 C02 | inclusion invariant J (every held output key is justified by what is pressed)
      none_needs(state.active_mappings@, i + 1, k),
      nonempty_from(state.active_mappings@),
      //@ C05 | a release lifts only the key itself or outputs owned by its mappings; pass-through keys are not outputs of mappings in effect
      j6(*state),
      //@  | frame / auxiliary
      amo == old(mapper).state.active_mappings@,
      //@ C01 C02 | inclusion invariant J (every held output key is justified by what is pressed)
      am_sub(state.active_mappings@, state.active_mappings@.len() as int, amo),
      //@ C05 | a release lifts only the key itself or outputs owned by its mappings; pass-through keys are not outputs of mappings in effect
      c05_rel(events@, amo, state.active_mappings@, k),
    decreases i + 1
  { //@ | body
    if fails_when_released(&state.active_mappings[i as usize].from, &k) {
      let ghost e0 = events@; let ghost hm0 = held(*state); let ghost am0 = state.active_mappings@; let ghost mo_pre = state.mapped_output_keys@;
      events.append(&mut remove_mapping(state, i as usize, k));
      proof { assert forall|j: int| i <= j < state.active_mappings@.len() implies !(#[trigger] state.active_mappings@[j].from@).contains(k) by { assert(state.active_mappings@[j] == am0[j + 1]); }
        lemma_am_sub_remove(am0, i as int); lemma_nonempty_sub(state.active_mappings@, am0); }
      proof { let c = choose|c: Seq<Event>| events@ == e0 + c && apply(hm0, c) == Some(held(*state)) && all_released(c)
                    && (forall|x: KeyCode| rel(c, x) ==> mo_pre.contains(x) && !used_by_other(am0, i as int, x));
        lemma_apply_append(h0, e0, c); lemma_append_contains(e0, c);
        lemma_am_sub_trans(state.active_mappings@, am0, amo);
        assert forall|x: KeyCode| #[trigger] rel(events@, x) implies (x == k || owned_by_trigger(amo, k, x)) && !out_of(state.active_mappings@, x) by {
          if rel(e0, x) {
            if out_of(state.active_mappings@, x) { lemma_out_of_sub(state.active_mappings@, am0, x); }
          } else {
            assert(c.contains(Event::Released(x))); assert(rel(c, x));
            lemma_not_used_not_out(am0, i as int, x);
            // x was in mapped_output and no other mapping outputs it: by J1 the removed mapping does
            assert(out_of(am0, x));
            let j = choose|j: int| 0 <= j < am0.len() && #[trigger] am0[j].to@.contains(x);
            if j != i { assert(used_by_other(am0, i as int, x)); }
            assert(am0[i as int].to@.contains(x) && am0[i as int].from@.contains(k));
            assert(amo.contains(am0[i as int]));
            let j0 = choose|j0: int| 0 <= j0 < amo.len() && amo[j0] == am0[i as int];
            assert(amo[j0].from@.contains(k) && amo[j0].to@.contains(x));
          }
        }
      }
    }
    i -= 1;
  }
  
  for i in it2: (0 .. state.pass_through_keys.len()).rev()
    invariant_except_break
      //@  | frame / auxiliary
      it2.seq().len() == state.pass_through_keys@.len(),
      forall|j: int| 0 <= j < it2.seq().len() ==> it2.seq()[j] == it2.seq().len() - 1 - j,
      forall|j: int| state.pass_through_keys@.len() - it2.index@ <= j < state.pass_through_keys@.len() ==> #[trigger] state.pass_through_keys@[j] != k,
    invariant
      //@ C19 | bookkeeping equals the fold of the emitted events; no redundant press or release
      wf(*state),
      apply(h0, events@) == Some(held(*state)),
      //@ C02 C07 | release paths emit only releases
      all_released(events@),
      //@ C02 C05 C08 | origin of mappings in effect / absorbed keys untouched
      nr_frame(*state, old(mapper).state),
      //@ C01 C02 | inclusion invariant J (every held output key is justified by what is pressed)
      j1(*state),
      j2(*state),
      j3(*state),
      //@ C02 | (d) trigger keys of mappings in effect are consumed (not passed through)
      j4(*state),
      //@ C01 C02 | effect of the call on the list of keys considered pressed
      state.input_pressed_keys@ == old(mapper).state.input_pressed_keys@,
      //@ C01 C02 | inclusion invariant J (every held output key is justified by what is pressed)
      none_needs(state.active_mappings@, 0, k),
      nonempty_from(state.active_mappings@),
      //@ C05 | a release lifts only the key itself or outputs owned by its mappings; pass-through keys are not outputs of mappings in effect
      j6(*state),
      c05_rel(events@, amo, state.active_mappings@, k),
    ensures
      //@  | frame / auxiliary
      !state.pass_through_keys@.contains(k),
    { //@ | body
    if state.pass_through_keys[i] == k {
      let ghost e0 = events@;
      let ghost pt0 = state.pass_through_keys@; let ghost mo_s = state.mapped_output_keys@; let ghost am_s = state.active_mappings@;
      events.push(Released(k));
      state.pass_through_keys.remove(i);
      proof { assert(state.mapped_output_keys@ == mo_s && state.active_mappings@ == am_s); }
      proof {
        lemma_push_contains(e0, Released(k));
        assert(events@.drop_last() =~= e0);
        assert(pt0.contains(k)); assert(!out_of(state.active_mappings@, k));
        assert forall|x: KeyCode| #[trigger] rel(events@, x) implies (x == k || owned_by_trigger(amo, k, x)) && !out_of(state.active_mappings@, x) by { if x != k { assert(e0.contains(Event::Released(x))); assert(rel(e0, x)); } }
        lemma_remove_set(pt0, i as int);
        assert(state.pass_through_keys@ =~= pt0.remove(i as int));
        lemma_remove_nodup(pt0, i as int);
        lemma_ts(state.mapped_output_keys@, k);
        assert(held(*state) =~= (pt0.to_set().union(state.mapped_output_keys@.to_set())).remove(k));
      }
      break;
    }
  }
  
  let ghost ipb = state.input_pressed_keys@;
  let mut __i: usize = 0; while __i < state.input_pressed_keys.len()
    invariant
      //@ C01 C02 | effect of the call on the list of keys considered pressed
      __i <= state.input_pressed_keys@.len(),
      //@ C19 | bookkeeping equals the fold of the emitted events; no redundant press or release
      wf(*state),
      apply(h0, events@) == Some(held(*state)),
      //@ C02 C07 | release paths emit only releases
      all_released(events@),
      //@ C02 C05 C08 | origin of mappings in effect / absorbed keys untouched
      nr_frame(*state, old(mapper).state),
      //@ C01 C02 | inclusion invariant J (every held output key is justified by what is pressed)
      j1(*state),
      //@ C02 | (d) trigger keys of mappings in effect are consumed (not passed through)
      j4(*state),
      //@ C01 C02 | effect of the call on the list of keys considered pressed
      ipb == old(mapper).state.input_pressed_keys@,
      sub(state.input_pressed_keys@, ipb),
      //@  | frame / auxiliary
      !state.pass_through_keys@.contains(k),
      //@ C01 C02 | inclusion invariant J (every held output key is justified by what is pressed)
      none_needs(state.active_mappings@, 0, k),
      nonempty_from(state.active_mappings@),
      //@ C05 | a release lifts only the key itself or outputs owned by its mappings; pass-through keys are not outputs of mappings in effect
      j6(*state),
      c05_rel(events@, amo, state.active_mappings@, k),
      //@  | frame / auxiliary
      sub(state.pass_through_keys@, ipb),
      //@ C01 C02 | inclusion invariant J (every held output key is justified by what is pressed)
      from_in(state.active_mappings@, state.active_mappings@.len() as int, ipb),
      //@ C01 C02 | effect of the call on the list of keys considered pressed
      forall|x: KeyCode| #[trigger] ipb.contains(x) && x != k ==> state.input_pressed_keys@.contains(x),
      forall|j: int| 0 <= j < __i ==> #[trigger] state.input_pressed_keys@[j] != k,
    decreases state.input_pressed_keys@.len() - __i
  { let ghost ip0 = state.input_pressed_keys@;
    let __keep = { let old_key = state.input_pressed_keys[__i];
    {
    old_key != k
  } }; if __keep { __i += 1; } else { let ghost mo_s = state.mapped_output_keys@; let ghost am_s = state.active_mappings@; state.input_pressed_keys.remove(__i);
    proof { assert(state.mapped_output_keys@ == mo_s && state.active_mappings@ == am_s); assert forall|j: int| 0 <= j < __i implies state.input_pressed_keys@[j] == ip0[j] by {}
      assert forall|x: KeyCode| #[trigger] state.input_pressed_keys@.contains(x) implies ip0.contains(x) by { let j = choose|j: int| 0 <= j < state.input_pressed_keys@.len() && state.input_pressed_keys@[j] == x; let j2 = if j < __i { j } else { j + 1 }; assert(ip0[j2] == x); }
      assert forall|x: KeyCode| #[trigger] ip0.contains(x) && x != k implies state.input_pressed_keys@.contains(x) by { let j2 = choose|j2: int| 0 <= j2 < ip0.len() && ip0[j2] == x; let j = if j2 < __i { j2 } else { j2 - 1 }; assert(state.input_pressed_keys@[j] == x); }
    } } }
  proof {
    assert forall|j: int| 0 <= j < state.active_mappings@.len() implies sub(#[trigger] state.active_mappings@[j].from@, state.input_pressed_keys@) by {
      assert(sub(state.active_mappings@[j].from@, ipb));
      assert(!state.active_mappings@[j].from@.contains(k));
    }
  }
  
  proof { if j3b(old(mapper).layout, old(mapper).state) && j5(old(mapper).layout, old(mapper).state) { lemma_origin_release(old(mapper).layout, old(mapper).state, *state); } }
  let repeat = ResultingRepeat::Disabled;
  
  StepResult { events, repeat }
}

//@ C01 C02 C05 C09 C14 C19 | default: impl State
impl State {
  fn init() -> (r: State)
    ensures
      //@ C19 | bookkeeping equals the fold of the emitted events; no redundant press or release
      wf(r),
      //@ C01 C02 | inclusion invariant J (every held output key is justified by what is pressed)
      j1(r),
      j2(r),
      j3(r),
      //@ C02 | (d) trigger keys of mappings in effect are consumed (not passed through)
      j4(r),
      //@ C05 | a release lifts only the key itself or outputs owned by its mappings; pass-through keys are not outputs of mappings in effect
      j6(r),
      //@  | frame / auxiliary
      held(r) == Set::<KeyCode>::empty(),
      //@ C01 C02 | effect of the call on the list of keys considered pressed
      r.input_pressed_keys@.len() == 0,
      //@  | frame / auxiliary
      r.active_mappings@.len() == 0,
      r.mapped_absorbed_keys@.len() == 0, r.absorbing_trigger is None, r.pass_through_keys@.len() == 0, r.mapped_output_keys@.len() == 0,
    { //@ | body
    proof { assert(Seq::<KeyCode>::empty().to_set() =~= Set::<KeyCode>::empty()); }
    return State {
      input_pressed_keys: Vec::new(),
      active_mappings: Vec::new(),
      pass_through_keys: Vec::new(),
      mapped_output_keys: Vec::new(),
      mapped_absorbed_keys: Vec::new(),
      absorbing_trigger: None,
      repeating_trigger: None,
    };
  }
}

// ---- facts about "no active mapping mentions k" and the frame lemmas used by newly_press ----
spec fn no_mention_upto(am: Seq<Mapping>, n: int, k: KeyCode) -> bool { forall|j: int| 0 <= j < n && j < am.len() ==> !(#[trigger] am[j]).to@.contains(k) && !am[j].from@.contains(k) }
spec fn no_mention(am: Seq<Mapping>, k: KeyCode) -> bool { no_mention_upto(am, am.len() as int, k) }

proof fn lemma_nm_sub(a: Seq<Mapping>, b: Seq<Mapping>, k: KeyCode)
  requires am_sub(a, a.len() as int, b), no_mention(b, k)
  ensures no_mention(a, k)
{
  assert forall|j: int| 0 <= j < a.len() implies !(#[trigger] a[j]).to@.contains(k) && !a[j].from@.contains(k) by {
    assert(b.contains(a[j])); let j0 = choose|j0: int| 0 <= j0 < b.len() && b[j0] == a[j]; assert(!(b[j0]).to@.contains(k));
  }
}

proof fn lemma_nm_not_mo(st: State, k: KeyCode)
  requires j1(st), no_mention(st.active_mappings@, k)
  ensures !st.mapped_output_keys@.contains(k), !out_of(st.active_mappings@, k)
{
  if out_of(st.active_mappings@, k) { let j = choose|j: int| 0 <= j < st.active_mappings@.len() && #[trigger] st.active_mappings@[j].to@.contains(k); assert(false); }
}

// release_action_mappings only shrinks mapped_output_keys
proof fn lemma_frame_ram(a: State, b: State)
  requires b.active_mappings@ == a.active_mappings@, b.input_pressed_keys@ == a.input_pressed_keys@, b.pass_through_keys@ == a.pass_through_keys@,
    sub(b.mapped_output_keys@, a.mapped_output_keys@),
  ensures j1(a) ==> j1(b), j2(a) ==> j2(b), j3(a) ==> j3(b), j4(a) ==> j4(b), j6(a) ==> j6(b)
{}

// k goes to pass-through while no active mapping mentions it
proof fn lemma_pass_key(a: State, b: State, k: KeyCode)
  requires b.active_mappings@ == a.active_mappings@, b.input_pressed_keys@ == a.input_pressed_keys@, b.mapped_output_keys@ == a.mapped_output_keys@,
    b.pass_through_keys@ == a.pass_through_keys@.push(k), no_mention(a.active_mappings@, k),
  ensures j1(a) ==> j1(b), j3(a) ==> j3(b), j4(a) ==> j4(b), j6(a) ==> j6(b),
    forall|x: KeyCode| #[trigger] b.pass_through_keys@.contains(x) ==> x == k || a.pass_through_keys@.contains(x),
{
  lemma_push_contains(a.pass_through_keys@, k);
  if j6(a) { assert forall|x: KeyCode| #[trigger] b.pass_through_keys@.contains(x) implies !out_of(b.active_mappings@, x) by {
      if x == k { if out_of(a.active_mappings@, k) { let j = choose|j: int| 0 <= j < a.active_mappings@.len() && #[trigger] a.active_mappings@[j].to@.contains(k); assert(false); } } else { assert(a.pass_through_keys@.contains(x)); } } }
  if j4(a) { assert forall|x: KeyCode, j: int| #![trigger b.pass_through_keys@.contains(x), b.active_mappings@[j]] b.pass_through_keys@.contains(x) && 0 <= j < b.active_mappings@.len() implies !b.active_mappings@[j].from@.contains(x) by {
      if x != k { assert(a.pass_through_keys@.contains(x)); } } }
}

// k is appended to input_pressed_keys; every pass-through key other than k was pressed before
proof fn lemma_press_ip(a: State, b: State, k: KeyCode)
  requires b.active_mappings@ == a.active_mappings@, b.pass_through_keys@ == a.pass_through_keys@, b.mapped_output_keys@ == a.mapped_output_keys@,
    b.input_pressed_keys@ == a.input_pressed_keys@.push(k),
    forall|x: KeyCode| #[trigger] a.pass_through_keys@.contains(x) ==> x == k || a.input_pressed_keys@.contains(x),
  ensures j1(a) ==> j1(b), j2(b), j4(a) ==> j4(b), j6(a) ==> j6(b)
{
  lemma_push_contains(a.input_pressed_keys@, k);
}


// J3b / J5: every mapping in effect is (a clone of) a mapping of the hashed layout; every absorbed key is listed in the absorbing list of one
spec fn in_hl(h: HashedLayout, mv: MappingV) -> bool { exists|k: KeyCode, i: int| h.mappings@.contains_key(k) && 0 <= i < h.mappings@[k]@.len() && mview(#[trigger] h.mappings@[k]@[i]) == mv }
spec fn abs_in_hl(h: HashedLayout, x: KeyCode) -> bool { exists|k: KeyCode, i: int| h.mappings@.contains_key(k) && 0 <= i < h.mappings@[k]@.len() && (#[trigger] h.mappings@[k]@[i]).absorbing@.contains(x) }
spec fn j3b(h: HashedLayout, st: State) -> bool { forall|j: int| 0 <= j < st.active_mappings@.len() ==> in_hl(h, mview(#[trigger] st.active_mappings@[j])) }
spec fn j5(h: HashedLayout, st: State) -> bool { forall|x: KeyCode| #[trigger] st.mapped_absorbed_keys@.contains(x) ==> abs_in_hl(h, x) }
proof fn lemma_origin_press(h: HashedLayout, o: State, st: State, k: KeyCode)
  requires j3b(h, o), j5(h, o), np_origin(st, o, group(h, k))
  ensures j3b(h, st), j5(h, st)
{
  let g = group(h, k);
  assert forall|j: int| 0 <= j < st.active_mappings@.len() implies in_hl(h, mview(#[trigger] st.active_mappings@[j])) by {
    let m = st.active_mappings@[j];
    if o.active_mappings@.contains(m) { let j0 = choose|j0: int| 0 <= j0 < o.active_mappings@.len() && o.active_mappings@[j0] == m; assert(in_hl(h, mview(o.active_mappings@[j0]))); }
    else { assert(in_group(g, mview(m))); let i = choose|i: int| 0 <= i < g.len() && mview(#[trigger] g[i]) == mview(m); assert(h.mappings@.contains_key(k)); assert(mview(h.mappings@[k]@[i]) == mview(m)); }
  }
  assert forall|x: KeyCode| #[trigger] st.mapped_absorbed_keys@.contains(x) implies abs_in_hl(h, x) by {
    if !o.mapped_absorbed_keys@.contains(x) { assert(abs_in_group(g, x)); let i = choose|i: int| 0 <= i < g.len() && (#[trigger] g[i]).absorbing@.contains(x); assert(h.mappings@.contains_key(k)); assert(h.mappings@[k]@[i].absorbing@.contains(x)); }
  }
}
proof fn lemma_origin_release(h: HashedLayout, o: State, st: State)
  requires j3b(h, o), j5(h, o), nr_frame(st, o)
  ensures j3b(h, st), j5(h, st)
{
  assert forall|j: int| 0 <= j < st.active_mappings@.len() implies in_hl(h, mview(#[trigger] st.active_mappings@[j])) by {
    let m = st.active_mappings@[j];
    assert(o.active_mappings@.contains(m)); let j0 = choose|j0: int| 0 <= j0 < o.active_mappings@.len() && o.active_mappings@[j0] == m; assert(in_hl(h, mview(o.active_mappings@[j0])));
  }
}

// ---- origin of the mappings in effect and of the absorbed keys (C02(a), C05, C08) ----
spec fn in_group(g: Seq<Mapping>, mv: MappingV) -> bool { exists|i: int| 0 <= i < g.len() && mview(#[trigger] g[i]) == mv }
spec fn abs_in_group(g: Seq<Mapping>, x: KeyCode) -> bool { exists|i: int| 0 <= i < g.len() && (#[trigger] g[i]).absorbing@.contains(x) }
spec fn np_origin(st: State, o: State, g: Seq<Mapping>) -> bool {
  (forall|j: int| 0 <= j < st.active_mappings@.len() ==> o.active_mappings@.contains(#[trigger] st.active_mappings@[j]) || in_group(g, mview(st.active_mappings@[j])))
  && (forall|x: KeyCode| #[trigger] st.mapped_absorbed_keys@.contains(x) ==> o.mapped_absorbed_keys@.contains(x) || abs_in_group(g, x))
}
proof fn lemma_np_origin_same(st: State, o: State, g: Seq<Mapping>)
  requires am_sub(st.active_mappings@, st.active_mappings@.len() as int, o.active_mappings@), sub(st.mapped_absorbed_keys@, o.mapped_absorbed_keys@)
  ensures np_origin(st, o, g)
{}
proof fn lemma_np_origin_shrink(a: State, b: State, o: State, g: Seq<Mapping>)
  requires am_sub(b.active_mappings@, b.active_mappings@.len() as int, a.active_mappings@), sub(b.mapped_absorbed_keys@, a.mapped_absorbed_keys@), np_origin(a, o, g)
  ensures np_origin(b, o, g)
{
  assert forall|j: int| 0 <= j < b.active_mappings@.len() implies o.active_mappings@.contains(#[trigger] b.active_mappings@[j]) || in_group(g, mview(b.active_mappings@[j])) by {
    assert(a.active_mappings@.contains(b.active_mappings@[j]));
    let j0 = choose|j0: int| 0 <= j0 < a.active_mappings@.len() && a.active_mappings@[j0] == b.active_mappings@[j];
    assert(o.active_mappings@.contains(a.active_mappings@[j0]) || in_group(g, mview(a.active_mappings@[j0])));
  }
}
// the state right after add_new_mapping fired g[i]
proof fn lemma_np_origin_hit(st: State, o: State, ab1: Seq<KeyCode>, g: Seq<Mapping>, i: int)
  requires 0 <= i < g.len(), st.active_mappings@.len() >= 1, mview(st.active_mappings@.last()) == mview(g[i]),
    am_sub(st.active_mappings@, st.active_mappings@.len() - 1, o.active_mappings@),
    sub(ab1, o.mapped_absorbed_keys@),
    forall|x: KeyCode| #[trigger] st.mapped_absorbed_keys@.contains(x) ==> ab1.contains(x) || g[i].absorbing@.contains(x),
  ensures np_origin(st, o, g)
{
  assert forall|j: int| 0 <= j < st.active_mappings@.len() implies o.active_mappings@.contains(#[trigger] st.active_mappings@[j]) || in_group(g, mview(st.active_mappings@[j])) by {
    if j == st.active_mappings@.len() - 1 { assert(st.active_mappings@[j] == st.active_mappings@.last()); }
  }
  assert forall|x: KeyCode| #[trigger] st.mapped_absorbed_keys@.contains(x) implies o.mapped_absorbed_keys@.contains(x) || abs_in_group(g, x) by {
    if !ab1.contains(x) { assert(g[i].absorbing@.contains(x)); }
  }
}



spec fn mentioned(am: Seq<Mapping>, k: KeyCode) -> bool { exists|j: int| 0 <= j < am.len() && ((#[trigger] am[j]).to@.contains(k) || am[j].from@.contains(k)) }
proof fn lemma_mentioned_at(am: Seq<Mapping>, j: int, k: KeyCode)
  requires 0 <= j < am.len(), am[j].to@.contains(k) || am[j].from@.contains(k)
  ensures mentioned(am, k)
{}
proof fn lemma_no_mention_not_mentioned(am: Seq<Mapping>, k: KeyCode)
  requires no_mention(am, k)
  ensures !mentioned(am, k)
{
  if mentioned(am, k) { let j = choose|j: int| 0 <= j < am.len() && ((#[trigger] am[j]).to@.contains(k) || am[j].from@.contains(k)); assert(false); }
}


// a key that is considered pressed and is not absorbed stays considered pressed across a press
spec fn ip_kept(st: State, o: State) -> bool { forall|x: KeyCode| #[trigger] o.input_pressed_keys@.contains(x) && !o.mapped_absorbed_keys@.contains(x) ==> st.input_pressed_keys@.contains(x) }
proof fn lemma_ip_kept_same(st: State, o: State) requires st.input_pressed_keys@ == o.input_pressed_keys@ ensures ip_kept(st, o) {}
proof fn lemma_ip_kept_eq(a: State, b: State, o: State) requires b.input_pressed_keys@ == a.input_pressed_keys@, ip_kept(a, o) ensures ip_kept(b, o) {}
proof fn lemma_ip_kept_push(a: State, b: State, o: State, k: KeyCode) requires b.input_pressed_keys@ == a.input_pressed_keys@.push(k), ip_kept(a, o) ensures ip_kept(b, o)
{ lemma_push_contains(a.input_pressed_keys@, k); }
proof fn lemma_ip_kept_hit(st: State, o: State, ab1: Seq<KeyCode>, k: KeyCode)
  requires sub(ab1, o.mapped_absorbed_keys@), forall|x: KeyCode| #[trigger] o.input_pressed_keys@.contains(x) && (!ab1.contains(x) || o.absorbing_trigger == Some(k)) ==> st.input_pressed_keys@.contains(x)
  ensures ip_kept(st, o)
{}
// across release_absorbed_keys: only absorbed keys stop being considered pressed, and a was reached from o without touching the absorbed list except shrinking it
proof fn lemma_ip_kept_rak(a: State, b: State, o: State)
  requires ip_kept(a, o), sub(a.mapped_absorbed_keys@, o.mapped_absorbed_keys@),
    forall|x: KeyCode| #[trigger] a.input_pressed_keys@.contains(x) && !a.mapped_absorbed_keys@.contains(x) ==> b.input_pressed_keys@.contains(x)
  ensures ip_kept(b, o)
{}


// ---- absorbed keys across a key press (C08) ----
// o: state at entry of newly_press; st: state before the final `input_pressed_keys.push(k)`
spec fn c08_pre(o: State, st: State, k: KeyCode, m: Mapping) -> bool {
  &&& (forall|a: KeyCode| #[trigger] m.absorbing@.contains(a) ==> st.mapped_absorbed_keys@.contains(a))
  &&& (m.absorbing@.len() > 0 ==> st.absorbing_trigger == Some(k))
  &&& (forall|x: KeyCode| #[trigger] st.mapped_absorbed_keys@.contains(x) ==> (o.mapped_absorbed_keys@.contains(x) && x != k) || m.absorbing@.contains(x))
  &&& (if has_action(m.to@) && o.absorbing_trigger != Some(k) {
         (forall|d: KeyCode| #[trigger] o.mapped_absorbed_keys@.contains(d) && d != k ==> !st.input_pressed_keys@.contains(d) && !st.pass_through_keys@.contains(d))
         && (forall|x: KeyCode| #[trigger] st.mapped_absorbed_keys@.contains(x) ==> m.absorbing@.contains(x)) && (m.absorbing@.len() == 0 ==> st.absorbing_trigger is None)
       } else {
         (forall|x: KeyCode| #[trigger] o.mapped_absorbed_keys@.contains(x) && x != k ==> st.mapped_absorbed_keys@.contains(x)) && (m.absorbing@.len() == 0 ==> st.absorbing_trigger == o.absorbing_trigger)
       })
}
// the same for the final state (k has been appended to the pressed list), plus the no-firing cases
spec fn c08_np(o: State, st: State, k: KeyCode, fired: Option<Mapping>, ment: bool) -> bool {
  match fired {
    Some(m) => c08_pre(o, st, k, m),
    None => if ment || is_mod(k) {
        // nothing is lifted: the absorbed list only loses the pressed key, the trigger is untouched
        (forall|x: KeyCode| #[trigger] o.mapped_absorbed_keys@.contains(x) && x != k ==> st.mapped_absorbed_keys@.contains(x)) && st.absorbing_trigger == o.absorbing_trigger
        && (forall|x: KeyCode| #[trigger] st.mapped_absorbed_keys@.contains(x) ==> o.mapped_absorbed_keys@.contains(x) && x != k)
      } else {
        // a non-modifier key is passed through: everything absorbed is lifted and forgotten
        st.mapped_absorbed_keys@.len() == 0 && st.absorbing_trigger is None
        && (forall|d: KeyCode| #[trigger] o.mapped_absorbed_keys@.contains(d) && d != k ==> !st.input_pressed_keys@.contains(d) && !st.pass_through_keys@.contains(d))
      },
  }
}
spec fn c08_gone(o: State, st: State, k: KeyCode) -> bool { forall|d: KeyCode| #[trigger] o.mapped_absorbed_keys@.contains(d) && d != k ==> !st.input_pressed_keys@.contains(d) && !st.pass_through_keys@.contains(d) }
proof fn lemma_c08_gone_rak(o: State, a: State, b: State, k: KeyCode)
  requires forall|x: KeyCode| a.mapped_absorbed_keys@.contains(x) <==> (o.mapped_absorbed_keys@.contains(x) && x != k),
    forall|d: KeyCode| #[trigger] a.mapped_absorbed_keys@.contains(d) ==> !b.input_pressed_keys@.contains(d) && !b.pass_through_keys@.contains(d)
  ensures c08_gone(o, b, k)
{
  assert forall|d: KeyCode| #[trigger] o.mapped_absorbed_keys@.contains(d) && d != k implies !b.input_pressed_keys@.contains(d) && !b.pass_through_keys@.contains(d) by { assert(a.mapped_absorbed_keys@.contains(d)); }
}
proof fn lemma_c08_gone_push(o: State, a: State, b: State, k: KeyCode)
  requires c08_gone(o, a, k), b.input_pressed_keys@ == a.input_pressed_keys@, b.pass_through_keys@ == a.pass_through_keys@.push(k)
  ensures c08_gone(o, b, k)
{ lemma_push_contains(a.pass_through_keys@, k); }
proof fn lemma_c08_final_hit(o: State, pre: State, st: State, k: KeyCode, g: Seq<Mapping>)
  requires exists|i: int| #![trigger is_fired(g, o, k, i)] is_fired(g, o, k, i) && c08_pre(o, pre, k, g[i]),
    st.input_pressed_keys@ == pre.input_pressed_keys@.push(k), st.pass_through_keys@ == pre.pass_through_keys@, st.mapped_absorbed_keys@ == pre.mapped_absorbed_keys@, st.absorbing_trigger == pre.absorbing_trigger,
  ensures forall|i: int| #![trigger is_fired(g, o, k, i)] is_fired(g, o, k, i) ==> c08_np(o, st, k, Some(g[i]), false)
{
  let a = choose|i: int| #![trigger is_fired(g, o, k, i)] is_fired(g, o, k, i) && c08_pre(o, pre, k, g[i]);
  lemma_push_contains(pre.input_pressed_keys@, k);
  assert forall|i: int| #![trigger is_fired(g, o, k, i)] is_fired(g, o, k, i) implies c08_np(o, st, k, Some(g[i]), false) by { lemma_fired_unique(g, o, k, a, i); }
}
proof fn lemma_c08_final_keep(o: State, pre: State, st: State, k: KeyCode, ment: bool)
  requires ment || is_mod(k), forall|x: KeyCode| pre.mapped_absorbed_keys@.contains(x) <==> (o.mapped_absorbed_keys@.contains(x) && x != k), pre.absorbing_trigger == o.absorbing_trigger,
    st.mapped_absorbed_keys@ == pre.mapped_absorbed_keys@, st.absorbing_trigger == pre.absorbing_trigger,
  ensures c08_np(o, st, k, None, ment)
{}
proof fn lemma_c08_final_clear(o: State, pre: State, st: State, k: KeyCode)
  requires !is_mod(k), pre.mapped_absorbed_keys@.len() == 0, pre.absorbing_trigger is None, c08_gone(o, pre, k),
    st.input_pressed_keys@ == pre.input_pressed_keys@.push(k), st.pass_through_keys@ == pre.pass_through_keys@, st.mapped_absorbed_keys@ == pre.mapped_absorbed_keys@, st.absorbing_trigger == pre.absorbing_trigger,
  ensures c08_np(o, st, k, None, false)
{ lemma_push_contains(pre.input_pressed_keys@, k); }
proof fn lemma_c08_pre(o: State, pre: State, st: State, k: KeyCode, m: Mapping)
  requires c08_anm(pre, st, k, m), pre.absorbing_trigger == o.absorbing_trigger,
    forall|x: KeyCode| #[trigger] st.mapped_absorbed_keys@.contains(x) ==> pre.mapped_absorbed_keys@.contains(x) || m.absorbing@.contains(x),
    forall|x: KeyCode| pre.mapped_absorbed_keys@.contains(x) <==> (o.mapped_absorbed_keys@.contains(x) && x != k),
  ensures c08_pre(o, st, k, m)
{
  assert forall|x: KeyCode| #[trigger] st.mapped_absorbed_keys@.contains(x) implies (o.mapped_absorbed_keys@.contains(x) && x != k) || m.absorbing@.contains(x) by { if !m.absorbing@.contains(x) { assert(pre.mapped_absorbed_keys@.contains(x)); } }
  if has_action(m.to@) && o.absorbing_trigger != Some(k) {
    assert forall|d: KeyCode| #[trigger] o.mapped_absorbed_keys@.contains(d) && d != k implies !st.input_pressed_keys@.contains(d) && !st.pass_through_keys@.contains(d) by { assert(pre.mapped_absorbed_keys@.contains(d)); }
  } else {
    assert forall|x: KeyCode| #[trigger] o.mapped_absorbed_keys@.contains(x) && x != k implies st.mapped_absorbed_keys@.contains(x) by { assert(pre.mapped_absorbed_keys@.contains(x)); }
  }
}


proof fn lemma_ar_empty() ensures all_released(Seq::<Event>::empty()) {}
proof fn lemma_ar_append(a: Seq<Event>, b: Seq<Event>) requires all_released(a), all_released(b) ensures all_released(a + b) { lemma_append_contains(a, b); }

// ---- which keys a press step may lift (C05, C04) ----
spec fn st_le(s1: State, o: State) -> bool {
  s1.pass_through_keys@ == o.pass_through_keys@ && s1.mapped_output_keys@ == o.mapped_output_keys@ && s1.active_mappings@ == o.active_mappings@ && sub(s1.mapped_absorbed_keys@, o.mapped_absorbed_keys@)
}
proof fn lemma_anm_rel_mono(s1: State, o: State, m: Mapping, evs: Seq<Event>)
  requires
    //@ C05 | scope of the keys a step lifts
    anm_rel(s1, m, evs), st_le(s1, o)
  ensures anm_rel(o, m, evs)
{
  reveal(anm_rel);
  assert forall|x: KeyCode| #[trigger] rel(evs, x) implies anm_scope(o, m, x) by {
    assert(anm_scope(s1, m, x));
    if s1.mapped_absorbed_keys@.len() > 0 { assert(s1.mapped_absorbed_keys@.contains(s1.mapped_absorbed_keys@[0])); assert(o.mapped_absorbed_keys@.len() > 0); }
  }
}
/// x may be lifted when a key that fires no mapping and that no mapping in effect mentions goes down (only a non-modifier key lifts anything):
/// an output key of a key-producing mapping in effect that carries modifiers; while keys are absorbed, a held mapping output or an absorbed key
spec fn pt_scope(o: State, x: KeyCode) -> bool {
     (o.mapped_output_keys@.contains(x) && ram_target(o.active_mappings@, x))
  || (o.mapped_absorbed_keys@.len() > 0 && (o.mapped_output_keys@.contains(x) || o.mapped_absorbed_keys@.contains(x)))
}
#[verifier::opaque]
spec fn np_rel(o: State, evs: Seq<Event>) -> bool { forall|x: KeyCode| #[trigger] rel(evs, x) ==> pt_scope(o, x) }
proof fn lemma_np_rel_empty(o: State, evs: Seq<Event>)
  requires
    //@ C05 | scope of the keys a step lifts
    evs.len() == 0 ensures np_rel(o, evs) { reveal(np_rel); }
proof fn lemma_np_rel_ram(o: State, sa: State, st: State, c: Seq<Event>)
  requires
    //@ C05 | scope of the keys a step lifts
    all_released(c), apply(held(sa), c) == Some(held(st)), st_le(sa, o), st.pass_through_keys@ == sa.pass_through_keys@, ram_scope(sa, st)
  ensures np_rel(o, c)
{
  reveal(np_rel); reveal(ram_scope);
  assert forall|x: KeyCode| #[trigger] rel(c, x) implies pt_scope(o, x) by {
    lemma_released_gone(held(sa), c, x); lemma_ts(sa.pass_through_keys@, x); lemma_ts(sa.mapped_output_keys@, x); lemma_ts(st.mapped_output_keys@, x);
    assert(sa.mapped_output_keys@.contains(x)); assert(!st.mapped_output_keys@.contains(x));
  }
}
proof fn lemma_np_rel_rak(o: State, sc: State, st: State, e1: Seq<Event>, c: Seq<Event>)
  requires
    //@ C05 | scope of the keys a step lifts
    np_rel(o, e1), all_released(c), apply(held(sc), c) == Some(held(st)), sc.pass_through_keys@ == o.pass_through_keys@, sub(sc.mapped_output_keys@, o.mapped_output_keys@),
    sub(sc.mapped_absorbed_keys@, o.mapped_absorbed_keys@), rak_pt(st, sc, sc.mapped_absorbed_keys@), sc.mapped_absorbed_keys@.len() == 0 ==> rak_idle(st, sc, c)
  ensures np_rel(o, e1 + c)
{
  reveal(np_rel); lemma_append_contains(e1, c);
  assert forall|x: KeyCode| #[trigger] rel(e1 + c, x) implies pt_scope(o, x) by {
    if rel(e1, x) { } else {
      assert(rel(c, x));
      lemma_released_gone(held(sc), c, x); lemma_ts(sc.pass_through_keys@, x); lemma_ts(sc.mapped_output_keys@, x); lemma_ts(st.pass_through_keys@, x);
      assert(sc.mapped_absorbed_keys@.len() > 0); assert(sc.mapped_absorbed_keys@.contains(sc.mapped_absorbed_keys@[0])); assert(o.mapped_absorbed_keys@.len() > 0);
      if sc.mapped_output_keys@.contains(x) { assert(o.mapped_output_keys@.contains(x)); } else { assert(o.pass_through_keys@.contains(x)); assert(!st.pass_through_keys@.contains(x)); assert(sc.mapped_absorbed_keys@.contains(x)); }
    }
  }
}
proof fn lemma_np_rel_press(o: State, e0: Seq<Event>, k: KeyCode)
  requires
    //@ C05 | scope of the keys a step lifts
    np_rel(o, e0)
  ensures np_rel(o, e0.push(Event::Pressed(k)))
{
  reveal(np_rel);
  assert forall|x: KeyCode| #[trigger] rel(e0.push(Event::Pressed(k)), x) implies pt_scope(o, x) by {
    let e1 = e0.push(Event::Pressed(k));
    let j = choose|j: int| 0 <= j < e1.len() && e1[j] == Event::Released(x);
    if j < e0.len() { assert(e0[j] == Event::Released(x)); assert(rel(e0, x)); }
  }
}

//@ C01 C02 C03 C04 C05 C08 C09 C14 C19 | default: fn newly_press
fn newly_press(mapper: &mut Mapper, k: KeyCode) -> (res: StepResult)
  requires
    //@ C19 | bookkeeping equals the fold of the emitted events; no redundant press or release
    wf(old(mapper).state),
    //@ C01 C02 | inclusion invariant J (every held output key is justified by what is pressed)
    j1(old(mapper).state),
    j2(old(mapper).state),
    j3(old(mapper).state),
    //@ C02 | (d) trigger keys of mappings in effect are consumed (not passed through)
    j4(old(mapper).state),
    //@ C05 | a release lifts only the key itself or outputs owned by its mappings; pass-through keys are not outputs of mappings in effect
    j6(old(mapper).state),
    //@ C01 C02 | effect of the call on the list of keys considered pressed
    !old(mapper).state.input_pressed_keys@.contains(k),
    //@ C01 C02 | inclusion invariant J (every held output key is justified by what is pressed)
    nonempty_from(old(mapper).state.active_mappings@),
    //@ C03 C08 | firing specification (support test, grouping of the layout by final trigger key)
    hl_ok(old(mapper).layout),
  ensures
    //@ C19 | bookkeeping equals the fold of the emitted events; no redundant press or release
    wf(final(mapper).state),
    //@ C01 C02 | inclusion invariant J (every held output key is justified by what is pressed)
    j1(final(mapper).state),
    j2(final(mapper).state),
    j3(final(mapper).state),
    //@ C02 | (d) trigger keys of mappings in effect are consumed (not passed through)
    j4(final(mapper).state),
    //@ C05 | a release lifts only the key itself or outputs owned by its mappings; pass-through keys are not outputs of mappings in effect
    j6(final(mapper).state),
    //@ C01 C02 | inclusion invariant J (every held output key is justified by what is pressed)
    nonempty_from(final(mapper).state.active_mappings@),
    //@  | frame / auxiliary
    final(mapper).layout == old(mapper).layout,
    //@ C01 C02 | effect of the call on the list of keys considered pressed
    forall|x: KeyCode| #[trigger] final(mapper).state.input_pressed_keys@.contains(x) ==> old(mapper).state.input_pressed_keys@.contains(x) || x == k,
    //@ C03 C05 C08 | a key that is considered pressed and is not absorbed stays considered pressed
    ip_kept(final(mapper).state, old(mapper).state),
    //@ C08 | absorbed keys across a press: the pressed key itself stops being absorbed; the fired mapping's absorbing list is absorbed with the pressed key as trigger; when a non-modifier key goes onto the virtual keyboard and the pressed key is not the absorbing trigger, every key absorbed before is lifted and forgotten; otherwise the absorbed keys stay absorbed
    forall|i: int| #![trigger is_fired(group(old(mapper).layout, k), old(mapper).state, k, i)] is_fired(group(old(mapper).layout, k), old(mapper).state, k, i) ==> c08_np(old(mapper).state, final(mapper).state, k, Some(group(old(mapper).layout, k)[i]), false),
    none_fired(group(old(mapper).layout, k), old(mapper).state, k) ==> c08_np(old(mapper).state, final(mapper).state, k, None, mentioned(old(mapper).state.active_mappings@, k)),
    //@ C02 C05 C08 | the only keys a press step presses are the output keys of the fired mapping, or the pressed key itself when it is passed through
    forall|i: int| #![trigger is_fired(group(old(mapper).layout, k), old(mapper).state, k, i)] is_fired(group(old(mapper).layout, k), old(mapper).state, k, i) ==> only_presses(res.events@, group(old(mapper).layout, k)[i].to@),
    none_fired(group(old(mapper).layout, k), old(mapper).state, k) ==> only_presses(res.events@, seq![k]),
    //@ C05 | the only keys a press step lifts: see anm_scope (a mapping fires) and pt_scope (the key is passed through)
    forall|i: int| #![trigger is_fired(group(old(mapper).layout, k), old(mapper).state, k, i)] is_fired(group(old(mapper).layout, k), old(mapper).state, k, i) ==> anm_rel(old(mapper).state, group(old(mapper).layout, k)[i], res.events@),
    none_fired(group(old(mapper).layout, k), old(mapper).state, k) ==> np_rel(old(mapper).state, res.events@),
    //@ C04 | a key-producing mapping fires while nothing is absorbed: at the instant its final output key is pressed every modifier it lists is down and no stale modifier is
    forall|i: int| #![trigger is_fired(group(old(mapper).layout, k), old(mapper).state, k, i)] is_fired(group(old(mapper).layout, k), old(mapper).state, k, i) ==> (c04_cond(old(mapper).state, group(old(mapper).layout, k)[i]) ==> c04_anm(old(mapper).state, group(old(mapper).layout, k)[i], res.events@)),
    //@ C19 | bookkeeping equals the fold of the emitted events; no redundant press or release
    apply(held(old(mapper).state), res.events@) == Some(held(final(mapper).state)),
    //@ C01 C02 | effect of the call on the list of keys considered pressed
    final(mapper).state.input_pressed_keys@.contains(k),
    //@ C09 | repeat request
    !(res.repeat is NoChange),
    //@ C03 C08 C09 | firing specification: the last-listed supported mapping of the group fires, with its repeat request
    forall|i: int| #![trigger is_fired(group(old(mapper).layout, k), old(mapper).state, k, i)] is_fired(group(old(mapper).layout, k), old(mapper).state, k, i) ==>
        final(mapper).state.active_mappings@.len() >= 1 && mview(final(mapper).state.active_mappings@.last()) == mview(group(old(mapper).layout, k)[i])
        && repeat_matches(group(old(mapper).layout, k)[i].repeat, res.repeat)
        && c03_fire(group(old(mapper).layout, k)[i], res.events@, held(final(mapper).state))
        && c07_fire(group(old(mapper).layout, k)[i], held(final(mapper).state)),
    none_fired(group(old(mapper).layout, k), old(mapper).state, k) ==> res.repeat is Disabled,
    //@ C03 C05 | no mapping qualifies: nothing is emitted if a mapping in effect mentions the key, otherwise the key itself is passed through as the last event of the step
    none_fired(group(old(mapper).layout, k), old(mapper).state, k) ==>
      (if mentioned(old(mapper).state.active_mappings@, k) { res.events@.len() == 0 }
       else { res.events@.len() >= 1 && res.events@.last() == Event::Pressed(k) && held(final(mapper).state).contains(k) }),
    //@ C11 C09 | repeat parameters are non-negative (the event loop turns them into Durations)
    rrepeat_ok(res.repeat),
    //@ C02 C05 C08 | origin: every mapping in effect afterwards was in effect before or is a mapping of the pressed key's group; every absorbed key was absorbed before or is listed by a mapping of that group
    np_origin(final(mapper).state, old(mapper).state, group(old(mapper).layout, k)),
    j3b(old(mapper).layout, old(mapper).state) && j5(old(mapper).layout, old(mapper).state) ==> j3b(final(mapper).layout, final(mapper).state) && j5(final(mapper).layout, final(mapper).state),
  { //@ | body
  hide(j4); hide(j6); hide(nonempty_from); hide(from_in); hide(am_sub); hide(sup); hide(np_origin); hide(c03_fire); hide(c07_fire); hide(mentioned); hide(ip_kept); hide(c08_np); hide(c08_anm); hide(only_presses); hide(all_released);
  let mappings = &mapper.layout.mappings;
  let mut state = &mut mapper.state;
  
  let mut res: StepResult = StepResult::empty();
  let ghost h0 = held(old(mapper).state);
  
  let mut any_hit: bool = false;
  
  let mut __i: usize = 0; while __i < state.mapped_absorbed_keys.len()
    invariant
      //@  | frame / auxiliary
      __i <= state.mapped_absorbed_keys@.len(),
      state.pass_through_keys@ == old(mapper).state.pass_through_keys@,
      state.mapped_output_keys@ == old(mapper).state.mapped_output_keys@,
      state.active_mappings@ == old(mapper).state.active_mappings@,
      //@ C01 C02 | effect of the call on the list of keys considered pressed
      state.input_pressed_keys@ == old(mapper).state.input_pressed_keys@,
      //@  | frame / auxiliary
      state.absorbing_trigger == old(mapper).state.absorbing_trigger,
      forall|x: KeyCode| #[trigger] state.mapped_absorbed_keys@.contains(x) ==> old(mapper).state.mapped_absorbed_keys@.contains(x),
      forall|x: KeyCode| #[trigger] old(mapper).state.mapped_absorbed_keys@.contains(x) && x != k ==> state.mapped_absorbed_keys@.contains(x),
      forall|j: int| 0 <= j < __i ==> #[trigger] state.mapped_absorbed_keys@[j] != k,
    decreases state.mapped_absorbed_keys@.len() - __i
  { let __keep = { let k2 = &state.mapped_absorbed_keys[__i]; *k2 != k };
    if __keep { __i += 1; } else { let ghost ab0 = state.mapped_absorbed_keys@; state.mapped_absorbed_keys.remove(__i);
      proof {
        assert forall|x: KeyCode| #[trigger] state.mapped_absorbed_keys@.contains(x) implies ab0.contains(x) by { let j = choose|j: int| 0 <= j < state.mapped_absorbed_keys@.len() && state.mapped_absorbed_keys@[j] == x; let j2 = if j < __i { j } else { j + 1 }; assert(ab0[j2] == x); }
        assert forall|x: KeyCode| #[trigger] ab0.contains(x) && x != k implies state.mapped_absorbed_keys@.contains(x) by { let j2 = choose|j2: int| 0 <= j2 < ab0.len() && ab0[j2] == x; let j = if j2 < __i { j2 } else { j2 - 1 }; assert(state.mapped_absorbed_keys@[j] == x); }
        assert forall|j: int| 0 <= j < __i implies state.mapped_absorbed_keys@[j] == ab0[j] by {}
      } } }
  state.repeating_trigger = None;
  
  proof { assert(held(*state) =~= h0); assert(j1(*state)); assert(j2(*state)); assert(j3(*state)); assert(j4(*state)) by { reveal(j4); } assert(j6(*state)) by { reveal(j6); } }
  let ghost ab1 = state.mapped_absorbed_keys@; let ghost at1 = state.absorbing_trigger;
  let ghost st0 = old(mapper).state; let ghost g = group(old(mapper).layout, k);
  proof {
    assert forall|x: KeyCode| ab1.contains(x) <==> (st0.mapped_absorbed_keys@.contains(x) && x != k) by {
      if ab1.contains(x) { let j = choose|j: int| 0 <= j < ab1.len() && ab1[j] == x; assert(ab1[j] != k); }
    }
  }
  proof { axiom_keycode_key_model(); assert(builds_valid_hashers::<std::collections::hash_map::RandomState>()); }
  broadcast use vstd::std_specs::hash::group_hash_axioms;
  let ghost hmap = mappings@;
  if let Some(mappings) = mappings.get(&k) {
    proof { assert(g == mappings@); assert(hmap.contains_key(k) && hmap[k] == *mappings); assert forall|j: int| 0 <= j < mappings@.len() implies gm_ok(#[trigger] mappings@[j]) by {} }
    let should_absorb = {
      match &state.absorbing_trigger {
        Some(absorbing_trigger) => *absorbing_trigger != k,
        None => true
      }
    };
    
    let absorbed_keys = {
      if should_absorb {
        state.mapped_absorbed_keys.clone()
      }
      else {
        vec![]
      }
    };
    
    for mapping in it: mappings.iter().rev()
      invariant_except_break
        //@  | frame / auxiliary
        !any_hit,
      invariant
        //@ C02 C05 C08 | origin of mappings in effect / absorbed keys
        any_hit ==> np_origin(*state, st0, g),
        any_hit ==> ip_kept(*state, st0),
        //@ C08 | absorbed keys after the firing
        any_hit ==> exists|i: int| #![trigger is_fired(g, st0, k, i)] is_fired(g, st0, k, i) && c08_pre(st0, *state, k, g[i]) && only_presses(res.events@, g[i].to@) && anm_rel(st0, g[i], res.events@) && (c04_cond(st0, g[i]) ==> c04_anm(st0, g[i], res.events@)),
        //@  | frame / auxiliary
        should_absorb ==> absorbed_keys@ == ab1,
        !should_absorb ==> (absorbed_keys@.len() == 0 && at1 == Some(k)),
        should_absorb ==> at1 != Some(k),
        g == mappings@,
        st0 == old(mapper).state,
        at1 == st0.absorbing_trigger,
        forall|x: KeyCode| ab1.contains(x) <==> (st0.mapped_absorbed_keys@.contains(x) && x != k),
        //@ C03 C08 | firing specification (support test, grouping of the layout by final trigger key)
        !any_hit ==> forall|j: int| mappings@.len() - it.index@ <= j < mappings@.len() ==> !sup(#[trigger] mappings@[j], st0, k),
        //@ C03 C08 C09 | firing specification: the last-listed supported mapping of the group fires, with its repeat request
        any_hit ==> exists|i: int| #![trigger is_fired(g, st0, k, i)] is_fired(g, st0, k, i) && state.active_mappings@.len() >= 1 && mview(state.active_mappings@.last()) == mview(g[i]) && repeat_matches(g[i].repeat, res.repeat) && c03_fire(g[i], res.events@, held(*state)) && c07_fire(g[i], held(*state)),
        //@  | frame / auxiliary
        it.seq().len() == mappings@.len(),
        forall|j: int| 0 <= j < mappings@.len() ==> *it.seq()[j] == mappings@[mappings@.len() - 1 - j],
        forall|j: int| 0 <= j < mappings@.len() ==> gm_ok(#[trigger] mappings@[j]),
        //@ C01 C02 | inclusion invariant J (every held output key is justified by what is pressed)
        nonempty_from(state.active_mappings@),
        j2(*state),
        //@ C02 | (d) trigger keys of mappings in effect are consumed (not passed through)
        j4(*state),
        //@ C05 | a release lifts only the key itself or outputs owned by its mappings; pass-through keys are not outputs of mappings in effect
        j6(*state),
        //@ C01 C02 | inclusion invariant J (every held output key is justified by what is pressed)
        !any_hit ==> j3(*state),
        any_hit ==> from_in(state.active_mappings@, state.active_mappings@.len() - 1, state.input_pressed_keys@) && state.active_mappings@.len() >= 1
                    && (forall|f: KeyCode| #[trigger] state.active_mappings@.last().from@.contains(f) ==> f == k || state.input_pressed_keys@.contains(f)),
        //@ C01 C02 | effect of the call on the list of keys considered pressed
        forall|x: KeyCode| #[trigger] state.input_pressed_keys@.contains(x) ==> old(mapper).state.input_pressed_keys@.contains(x),
        //@ C09 | repeat request
        !any_hit ==> (state.pass_through_keys@ == old(mapper).state.pass_through_keys@ && state.mapped_output_keys@ == old(mapper).state.mapped_output_keys@ && state.active_mappings@ == old(mapper).state.active_mappings@ && state.input_pressed_keys@ == old(mapper).state.input_pressed_keys@ && state.mapped_absorbed_keys@ == ab1 && state.absorbing_trigger == at1 && res.events@.len() == 0 && res.repeat is Disabled),
        //@ C19 | bookkeeping equals the fold of the emitted events; no redundant press or release
        wf(*state),
        apply(h0, res.events@) == Some(held(*state)),
        //@ C09 | repeat request
        !(res.repeat is NoChange),
        rrepeat_ok(res.repeat),
        //@ C01 C02 | inclusion invariant J (every held output key is justified by what is pressed)
        j1(*state),
      ensures
        //@ C03 C08 | firing specification (support test, grouping of the layout by final trigger key)
        !any_hit ==> forall|j: int| 0 <= j < mappings@.len() ==> !sup(#[trigger] mappings@[j], st0, k),
      { //@ | body
      proof { assert(*mapping == mappings@[mappings@.len() - 1 - it.index@]);
        assert(supported_spec(mapping.from@, st0.input_pressed_keys@, absorbed_keys@, k) <==> sup(*mapping, st0, k)) by {
          reveal(sup);
          assert forall|f: KeyCode| absorbed_keys@.contains(f) <==> abs_now(st0, k, f) by {}
          if supported_spec(mapping.from@, st0.input_pressed_keys@, absorbed_keys@, k) {
            assert forall|j: int| 0 <= j < mapping.from@.len() implies ((st0.input_pressed_keys@.contains(#[trigger] mapping.from@[j]) && !abs_now(st0, k, mapping.from@[j])) || mapping.from@[j] == k) by {}
          }
          if sup(*mapping, st0, k) {
            assert forall|j: int| 0 <= j < mapping.from@.len() implies ((st0.input_pressed_keys@.contains(#[trigger] mapping.from@[j]) && !absorbed_keys@.contains(mapping.from@[j])) || mapping.from@[j] == k) by {}
          }
        }
      }
      if is_supported(&mapping.from, &state.input_pressed_keys, &absorbed_keys, &k) {
        let ghost hm0 = held(*state); let ghost e0 = res.events@; let ghost s_pre_anm = *state;
        res.append(add_new_mapping(&mut state, &k, &mapping));
        proof { let c = choose|c: Seq<Event>| res.events@ == e0 + c && apply(hm0, c) == Some(held(*state)) && c03_fire(*mapping, c, held(*state)) && c07_fire(*mapping, held(*state)) && c08_anm(s_pre_anm, *state, k, *mapping) && only_presses(c, mapping.to@) && anm_rel(s_pre_anm, *mapping, c) && (c04_cond(s_pre_anm, *mapping) ==> c04_anm(s_pre_anm, *mapping, c)); assert(e0.len() == 0); assert(e0 =~= Seq::<Event>::empty()); assert(e0 + c =~= c);
          assert(st_le(s_pre_anm, st0)); lemma_anm_rel_mono(s_pre_anm, st0, *mapping, c);
          if c04_cond(st0, *mapping) { assert(ab1.len() == 0) by { if ab1.len() > 0 { assert(ab1.contains(ab1[0])); assert(st0.mapped_absorbed_keys@.contains(ab1[0])); } } assert(c04_cond(s_pre_anm, *mapping)); lemma_c04_mono(s_pre_anm, st0, *mapping, c); }
          assert forall|f: KeyCode| #[trigger] state.active_mappings@.last().from@.contains(f) implies f == k || state.input_pressed_keys@.contains(f) by {
            let j = choose|j: int| 0 <= j < mapping.from@.len() && mapping.from@[j] == f;
            assert((old(mapper).state.input_pressed_keys@.contains(mapping.from@[j]) && !absorbed_keys@.contains(mapping.from@[j])) || mapping.from@[j] == k);
          }
        }
        proof { let i = mappings@.len() - 1 - it.index@; assert(is_fired(g, st0, k, i));
          lemma_np_origin_hit(*state, st0, ab1, g, i); lemma_ip_kept_hit(*state, st0, ab1, k);
          reveal(c08_anm); lemma_c08_pre(st0, s_pre_anm, *state, k, g[i]); }
        any_hit = true;
        break;
      }
    }
  }
  let ghost hit1 = any_hit; let ghost rr1 = res.repeat; 
  proof { if !hit1 { lemma_am_sub_refl(st0.active_mappings@); lemma_np_origin_same(*state, st0, g); lemma_ip_kept_same(*state, st0); } assert(np_origin(*state, st0, g)); assert(ip_kept(*state, st0)); }
  proof {
    if !hit1 { assert(none_fired(g, st0, k)) by { if hmap.contains_key(k) { assert(g == hmap[k]@); } else { assert(g.len() == 0); } } }
  }
  
  if !any_hit {
    for m in it: &state.active_mappings
      invariant_except_break
        !any_hit,
      invariant
        //@ C09 | repeat request
        !any_hit ==> (state.pass_through_keys@ == old(mapper).state.pass_through_keys@ && state.mapped_output_keys@ == old(mapper).state.mapped_output_keys@ && state.active_mappings@ == old(mapper).state.active_mappings@ && state.input_pressed_keys@ == old(mapper).state.input_pressed_keys@ && state.mapped_absorbed_keys@ == ab1 && state.absorbing_trigger == at1 && res.events@.len() == 0 && res.repeat is Disabled),
        //@ C01 C02 | inclusion invariant J (every held output key is justified by what is pressed)
        !any_hit ==> no_mention_upto(state.active_mappings@, it.index@ as int, k),
        np_origin(*state, st0, g), ip_kept(*state, st0),
        //@ C03 C05 | nothing has been emitted and no mapping was touched while looking for a mapping in effect that mentions the key
        res.events@.len() == 0, state.active_mappings@ == st0.active_mappings@, state.mapped_absorbed_keys@ == ab1, state.absorbing_trigger == at1,
        //@ C19 | bookkeeping equals the fold of the emitted events; no redundant press or release
        wf(*state),
        apply(h0, res.events@) == Some(held(*state)),
        //@ C09 | repeat request
        !(res.repeat is NoChange),
        rrepeat_ok(res.repeat),
        //@ C01 C02 | inclusion invariant J (every held output key is justified by what is pressed)
        j1(*state),
        j2(*state),
        //@ C02 | (d) trigger keys of mappings in effect are consumed (not passed through)
        j4(*state),
        //@ C05 | a release lifts only the key itself or outputs owned by its mappings; pass-through keys are not outputs of mappings in effect
        j6(*state),
        //@ C01 C02 | inclusion invariant J (every held output key is justified by what is pressed)
        nonempty_from(state.active_mappings@),
        //@  | frame / auxiliary
        it.seq().len() == state.active_mappings@.len(),
        forall|j: int| 0 <= j < state.active_mappings@.len() ==> *it.seq()[j] == state.active_mappings@[j],
        //@ C01 C02 | the key that goes down is not considered pressed yet, and every trigger key of a mapping in effect is
        j3(*state), !state.input_pressed_keys@.contains(k),
      ensures
        //@ C01 C02 | inclusion invariant J (every held output key is justified by what is pressed)
        !any_hit ==> no_mention(state.active_mappings@, k),
        any_hit ==> mentioned(state.active_mappings@, k),
      { //@ | body
      proof { reveal(no_mention_upto); assert(*m == state.active_mappings@[it.index@ as int]); }
      if m.from.contains(&k) {
        //@ C01 C02 | this branch is dead: a trigger key of a mapping in effect is considered pressed, the key that goes down is not
        proof { reveal(from_in); assert(sub(state.active_mappings@[it.index@ as int].from@, state.input_pressed_keys@)); assert(false); }
        //@  | frame / auxiliary
        proof { lemma_mentioned_at(state.active_mappings@, it.index@ as int, k); }
        any_hit = true;
        break;
      }
      else if m.to.contains(&k) {
        proof { lemma_mentioned_at(state.active_mappings@, it.index@ as int, k); }
        any_hit = true;
        break;
      }
    }
    proof { reveal(no_mention_upto); }
  }
  proof {
    if !hit1 {
      if any_hit { assert(mentioned(st0.active_mappings@, k)); assert(res.events@.len() == 0); }
      else { lemma_no_mention_not_mentioned(st0.active_mappings@, k); }
    }
  }
  
  if !any_hit {
    if !state.pass_through_keys.contains(&k) {
      proof { assert(no_mention(state.active_mappings@, k)); assert(j3(*state)); }
      if is_action_key(&k) {
        let ghost e0 = res.events@; let ghost hm0 = held(*state); let ghost s_a = *state;
        res.events.append(&mut release_action_mappings(&mut state));
        proof { let c = choose|c: Seq<Event>| res.events@ == e0 + c && apply(hm0, c) == Some(held(*state)) && all_released(c); lemma_apply_append(h0, e0, c);
          assert(e0 =~= Seq::<Event>::empty()); lemma_ar_empty(); lemma_ar_append(e0, c);
          assert(e0 + c =~= c); assert(st_le(s_a, st0)); lemma_np_rel_ram(st0, s_a, *state, c);
          lemma_frame_ram(s_a, *state); lemma_am_sub_refl(s_a.active_mappings@); lemma_np_origin_shrink(s_a, *state, st0, g); lemma_ip_kept_eq(s_a, *state, st0); }
        let ghost e1 = res.events@; let ghost am_pre = state.active_mappings@; let ghost hm1 = held(*state); let ghost s_c = *state;
        res.events.append(&mut release_absorbed_keys(&mut state));
        proof { let c = choose|c: Seq<Event>| res.events@ == e1 + c && apply(hm1, c) == Some(held(*state)) && all_released(c); lemma_apply_append(h0, e1, c); lemma_ar_append(e1, c);
          lemma_np_rel_rak(st0, s_c, *state, e1, c);
          lemma_nonempty_sub(state.active_mappings@, am_pre);
          lemma_nm_sub(state.active_mappings@, am_pre, k); lemma_np_origin_shrink(s_c, *state, st0, g); lemma_ip_kept_rak(s_c, *state, st0); lemma_c08_gone_rak(st0, s_c, *state, k); }
      }
      
      let ghost e2 = res.events@; let ghost pt2 = state.pass_through_keys@; let ghost s_b = *state;
      proof { lemma_ts(pt2, k); lemma_ts(state.mapped_output_keys@, k);
        lemma_nm_not_mo(*state, k);
        assert(!pt2.contains(k));
      }
      res.events.push(Pressed(k));
      state.pass_through_keys.push(k);
      proof { assert(res.events@.drop_last() =~= e2);
        if is_mod(k) { assert(e2 =~= Seq::<Event>::empty()); lemma_ar_empty(); lemma_np_rel_empty(st0, e2); }
        lemma_np_rel_press(st0, e2, k);
        lemma_only_presses_released(e2, seq![k]); assert(seq![k].contains(k)) by { assert(seq![k][0] == k); } lemma_only_presses_push(e2, Event::Pressed(k), seq![k]); lemma_push_set(pt2, k); lemma_push_nodup(pt2, k); lemma_push_contains(pt2, k);
        assert(held(*state) =~= (pt2.to_set().union(state.mapped_output_keys@.to_set())).insert(k));
        lemma_pass_key(s_b, *state, k); lemma_am_sub_refl(s_b.active_mappings@); lemma_np_origin_shrink(s_b, *state, st0, g); lemma_ip_kept_eq(s_b, *state, st0);
        if !is_mod(k) { lemma_c08_gone_push(st0, s_b, *state, k); } }
    }
  }
  
  let ghost ip0 = state.input_pressed_keys@;
  let ghost st_pre = *state;
  state.input_pressed_keys.push(k);
  proof { lemma_push_contains(ip0, k);
    if hit1 { lemma_c08_final_hit(st0, st_pre, *state, k, g);
      let a = choose|i: int| #![trigger is_fired(g, st0, k, i)] is_fired(g, st0, k, i) && c08_pre(st0, st_pre, k, g[i]) && only_presses(res.events@, g[i].to@) && anm_rel(st0, g[i], res.events@) && (c04_cond(st0, g[i]) ==> c04_anm(st0, g[i], res.events@));
      assert forall|i: int| #![trigger is_fired(g, st0, k, i)] is_fired(g, st0, k, i) implies only_presses(res.events@, g[i].to@) && anm_rel(st0, g[i], res.events@) && (c04_cond(st0, g[i]) ==> c04_anm(st0, g[i], res.events@)) by { lemma_fired_unique(g, st0, k, a, i); } }
    else if any_hit { assert(res.events@ =~= Seq::<Event>::empty()); lemma_ar_empty(); lemma_only_presses_released(res.events@, seq![k]); lemma_c08_final_keep(st0, st_pre, *state, k, true); lemma_np_rel_empty(st0, res.events@); }
    else if is_mod(k) { lemma_c08_final_keep(st0, st_pre, *state, k, false); }
    else { lemma_c08_final_clear(st0, st_pre, *state, k); }
    lemma_press_ip(st_pre, *state, k); lemma_am_sub_refl(st_pre.active_mappings@); lemma_np_origin_shrink(st_pre, *state, st0, g); lemma_ip_kept_push(st_pre, *state, st0, k);
    if j3b(old(mapper).layout, st0) && j5(old(mapper).layout, st0) { lemma_origin_press(old(mapper).layout, st0, *state, k); }
    assert(j3(*state)) by {
      reveal(from_in);
      assert forall|j: int| 0 <= j < state.active_mappings@.len() implies sub(#[trigger] state.active_mappings@[j].from@, state.input_pressed_keys@) by {
        if any_hit && j == state.active_mappings@.len() - 1 {
          assert forall|f: KeyCode| #[trigger] state.active_mappings@[j].from@.contains(f) implies state.input_pressed_keys@.contains(f) by { assert(state.active_mappings@.last().from@.contains(f)); }
        } else {
          assert(sub(state.active_mappings@[j].from@, ip0));
        }
      }
    }
  }
  
  res
}

/// x is an output key of a key-producing mapping in effect (given as views) that carries modifiers
pub open spec fn ram_target_v(av: Seq<MappingV>, x: KeyCode) -> bool { exists|j: int| 0 <= j < av.len() && act_map_v((#[trigger] av[j]).to) && av[j].to.len() > 1 && has_mod(av[j].to) && av[j].to.contains(x) }
/// x is an output key of a modifier-remapping (output not ending in a non-modifier key) among the views av
pub open spec fn mod_owner_v(av: Seq<MappingV>, x: KeyCode) -> bool { exists|j: int| 0 <= j < av.len() && !act_map_v((#[trigger] av[j]).to) && av[j].to.contains(x) }
proof fn lemma_ram_target_v(am: Seq<Mapping>, x: KeyCode)
  requires ram_target(am, x)
  ensures ram_target_v(views(am), x)
{
  let j = choose|j: int| 0 <= j < am.len() && act_map(#[trigger] am[j]) && am[j].to@.len() > 1 && has_mod(am[j].to@) && am[j].to@.contains(x);
  assert(views(am)[j] == mview(am[j]));
  assert(act_map_v(views(am)[j].to));
}

// the release-scope facts of the private layer in the vocabulary of views
proof fn lemma_views_bridge()
  ensures
    forall|am: Seq<Mapping>, k: KeyCode, x: KeyCode| #[trigger] owned_by_trigger(am, k, x) ==> exists|j: int| 0 <= j < views(am).len() && (#[trigger] views(am)[j]).from.contains(k) && views(am)[j].to.contains(x),
    forall|am: Seq<Mapping>, x: KeyCode, j: int| 0 <= j < views(am).len() && #[trigger] views(am)[j].to.contains(x) ==> out_of(am, x),
    forall|am: Seq<Mapping>, x: KeyCode| #[trigger] ram_target(am, x) ==> ram_target_v(views(am), x),
    forall|am: Seq<Mapping>, x: KeyCode| #[trigger] mod_owner(am, x) ==> mod_owner_v(views(am), x),
{
  assert forall|am: Seq<Mapping>, x: KeyCode| #[trigger] mod_owner(am, x) implies mod_owner_v(views(am), x) by {
    let j = choose|j: int| 0 <= j < am.len() && !act_map(#[trigger] am[j]) && am[j].to@.contains(x);
    assert(views(am)[j] == mview(am[j])); assert(!act_map_v(views(am)[j].to));
  }
  assert forall|am: Seq<Mapping>, k: KeyCode, x: KeyCode| #[trigger] owned_by_trigger(am, k, x) implies exists|j: int| 0 <= j < views(am).len() && (#[trigger] views(am)[j]).from.contains(k) && views(am)[j].to.contains(x) by {
    let j = choose|j: int| 0 <= j < am.len() && (#[trigger] am[j]).from@.contains(k) && am[j].to@.contains(x);
    assert(views(am)[j] == mview(am[j]));
  }
  assert forall|am: Seq<Mapping>, x: KeyCode, j: int| 0 <= j < views(am).len() && #[trigger] views(am)[j].to.contains(x) implies out_of(am, x) by { assert(views(am)[j] == mview(am[j])); assert(am[j].to@.contains(x)); }
  assert forall|am: Seq<Mapping>, x: KeyCode| #[trigger] ram_target(am, x) implies ram_target_v(views(am), x) by { lemma_ram_target_v(am, x); }
}

//@ C01 C02 C04 C05 C06 C07 C09 C14 C19 | default: impl Mapper
impl Mapper {
  pub closed spec fn inv(&self) -> bool { wf(self.state) && j1(self.state) && j2(self.state) && j3(self.state) && j4(self.state) && j6(self.state) && nonempty_from(self.state.active_mappings@) && hl_ok(self.layout)
    && j3b(self.layout, self.state) && j5(self.layout, self.state) }

  /// C01 at a single state: nothing considered pressed ==> nothing held on the output
  pub broadcast proof fn lemma_rest(&self)
    requires
      //@ C01 C02 | inclusion invariant J (every held output key is justified by what is pressed)
      self.inv(),
      //@ C01 C06 | at rest nothing is held
      self.pressed_view().len() == 0,
    ensures
      //@ C01 C06 | at rest nothing is held
      #[trigger] self.held_view() == Set::<KeyCode>::empty(),
    { //@ | body
    let st = self.state;
    assert(st.active_mappings@.len() == 0) by {
      if st.active_mappings@.len() > 0 { let m = st.active_mappings@[0]; assert(m.from@.len() >= 1); assert(m.from@.contains(m.from@[0])); assert(sub(m.from@, st.input_pressed_keys@)); assert(st.input_pressed_keys@.contains(m.from@[0])); }
    }
    assert forall|k: KeyCode| !st.mapped_output_keys@.contains(k) by { if st.mapped_output_keys@.contains(k) { assert(out_of(st.active_mappings@, k)); } }
    assert forall|k: KeyCode| !st.pass_through_keys@.contains(k) by { if st.pass_through_keys@.contains(k) { assert(st.input_pressed_keys@.contains(k)); } }
    assert(held(st) =~= Set::<KeyCode>::empty()) by { assert forall|k: KeyCode| !held(st).contains(k) by { lemma_ts(st.pass_through_keys@, k); lemma_ts(st.mapped_output_keys@, k); } }
  }
  pub closed spec fn held_view(&self) -> Set<KeyCode> { held(self.state) }
  /// the hashed layout groups exactly the mappings of l
  pub closed spec fn grouped_from(&self, l: Layout) -> bool { grouped_prefix(self.layout.mappings@, l.mappings@) }
  /// views of the mappings in effect, oldest first
  pub closed spec fn active_view(&self) -> Seq<MappingV> { views(self.state.active_mappings@) }

  /// the view of the mapping that the scan of the pressed key's group selects in this state (None: no mapping of the group is supported)
  pub closed spec fn gfired(&self, k: KeyCode) -> Option<MappingV> {
    let g = group(self.layout, k);
    if exists|i: int| is_fired(g, self.state, k, i) { Some(mview(g[choose|i: int| is_fired(g, self.state, k, i)])) } else { None }
  }
  /// some mapping in effect has k in its trigger or in its output
  pub closed spec fn mentions(&self, k: KeyCode) -> bool { mentioned(self.state.active_mappings@, k) }
  /// the absorbed keys that do not count as held when k is pressed (none when k is the key whose repeated press keeps them)
  pub closed spec fn eff_absorbed(&self, k: KeyCode) -> Set<KeyCode> { eff_abs(self.state, k) }
  pub closed spec fn absorbed_view(&self) -> Seq<KeyCode> { self.state.mapped_absorbed_keys@ }
  pub closed spec fn absorbing_trigger_view(&self) -> Option<KeyCode> { self.state.absorbing_trigger }

  /// C08 in public vocabulary: what a (new) press of k does to the absorbed keys
  pub open spec fn c08_press(o: Mapper, n: Mapper, k: KeyCode) -> bool {
    match o.gfired(k) {
      Some(mv) => {
        &&& (forall|a: KeyCode| #[trigger] mv.absorbing.contains(a) ==> n.absorbed_view().contains(a))
        &&& (mv.absorbing.len() > 0 ==> n.absorbing_trigger_view() == Some(k))
        &&& (forall|x: KeyCode| #[trigger] n.absorbed_view().contains(x) ==> (o.absorbed_view().contains(x) && x != k) || mv.absorbing.contains(x))
        &&& (if has_action(mv.to) && o.absorbing_trigger_view() != Some(k) {
               (forall|d: KeyCode| #[trigger] o.absorbed_view().contains(d) && d != k ==> !n.pressed_view().contains(d))
               && (forall|x: KeyCode| #[trigger] n.absorbed_view().contains(x) ==> mv.absorbing.contains(x)) && (mv.absorbing.len() == 0 ==> n.absorbing_trigger_view() is None)
             } else {
               (forall|x: KeyCode| #[trigger] o.absorbed_view().contains(x) && x != k ==> n.absorbed_view().contains(x)) && (mv.absorbing.len() == 0 ==> n.absorbing_trigger_view() == o.absorbing_trigger_view())
             })
      },
      None => if o.mentions(k) || is_mod(k) {
          (forall|x: KeyCode| #[trigger] o.absorbed_view().contains(x) && x != k ==> n.absorbed_view().contains(x)) && n.absorbing_trigger_view() == o.absorbing_trigger_view()
          && (forall|x: KeyCode| #[trigger] n.absorbed_view().contains(x) ==> o.absorbed_view().contains(x) && x != k)
        } else {
          n.absorbed_view().len() == 0 && n.absorbing_trigger_view() is None && (forall|d: KeyCode| #[trigger] o.absorbed_view().contains(d) && d != k ==> !n.pressed_view().contains(d))
        },
    }
  }
  /// the only keys a press step presses: the outputs of the fired mapping, or the key itself when passed through
  pub open spec fn press_scope(o: Mapper, k: KeyCode, evs: Seq<Event>) -> bool {
    match o.gfired(k) {
      Some(mv) => forall|x: KeyCode| #[trigger] evs.contains(Event::Pressed(x)) ==> mv.to.contains(x),
      None => forall|x: KeyCode| #[trigger] evs.contains(Event::Pressed(x)) ==> x == k,
    }
  }
  /// the keys that are down on the virtual keyboard because the same physical key is down / because a mapping in effect outputs them
  pub closed spec fn passed_view(&self) -> Seq<KeyCode> { self.state.pass_through_keys@ }
  pub closed spec fn mapped_view(&self) -> Seq<KeyCode> { self.state.mapped_output_keys@ }
  /// C05 / C04: the only keys a (new) press of k may lift
  pub open spec fn lift_scope(o: Mapper, k: KeyCode, x: KeyCode) -> bool {
    let absorbing = o.absorbed_view().len() > 0;
    match o.gfired(k) {
      Some(mv) =>
           (act_map_v(mv.to) && o.mapped_view().contains(x) && ram_target_v(o.active_view(), x))
        || (absorbing && (o.mapped_view().contains(x) || o.absorbed_view().contains(x) || (mv.from.contains(x) && !mv.to.contains(x))))
        || (o.passed_view().contains(x) && mv.from.contains(x) && !mv.to.contains(x))
        || (mv.to.contains(x) && !is_mod(x))
        || (!is_mod(x) && !(mv.repeat is Normal)),
      None => (o.mapped_view().contains(x) && ram_target_v(o.active_view(), x)) || (absorbing && (o.mapped_view().contains(x) || o.absorbed_view().contains(x))),
    }
  }
  /// C04: at every instant at which the final output key of the fired mapping mv goes down, every modifier mv lists is down, and every other modifier that is down
  /// is considered pressed and not a trigger key of mv, or is an output key of a modifier-remapping in effect
  pub open spec fn c04_instant(o: Mapper, mv: MappingV, evs: Seq<Event>) -> bool {
    forall|p: int| #![trigger evs[p]] 0 <= p < evs.len() && evs[p] == Event::Pressed(mv.to.last()) ==> (match apply(o.held_view(), evs.take(p)) {
      Some(h) => (forall|q: KeyCode| #[trigger] mv.to.contains(q) && is_mod(q) ==> h.contains(q))
        && (forall|x: KeyCode| #![trigger h.contains(x)] h.contains(x) && is_mod(x) && !mv.to.contains(x) ==> (o.pressed_view().contains(x) && !mv.from.contains(x)) || mod_owner_v(o.active_view(), x)),
      None => false })
  }
  /// C05: the only keys the release of k may lift
  pub open spec fn drop_scope(o: Mapper, n: Mapper, k: KeyCode, x: KeyCode) -> bool {
    (x == k || exists|j: int| 0 <= j < o.active_view().len() && (#[trigger] o.active_view()[j]).from.contains(k) && o.active_view()[j].to.contains(x))
    && !(exists|j: int| 0 <= j < n.active_view().len() && (#[trigger] n.active_view()[j]).to.contains(x))
  }
  /// what is down on the virtual keyboard is exactly the passed-through keys and the keys held for mappings
  pub proof fn lemma_views_held(&self, x: KeyCode)
    ensures self.held_view().contains(x) <==> (self.passed_view().contains(x) || self.mapped_view().contains(x))
  { lemma_ts(self.state.pass_through_keys@, x); lemma_ts(self.state.mapped_output_keys@, x); }
  /// a passed-through key is considered pressed and no mapping in effect mentions it
  pub proof fn lemma_passed(&self, x: KeyCode)
    requires self.inv(), self.passed_view().contains(x)
    ensures self.pressed_view().contains(x), !self.mentions(x)
  {
    let st = self.state;
    if mentioned(st.active_mappings@, x) {
      let j = choose|j: int| 0 <= j < st.active_mappings@.len() && ((#[trigger] st.active_mappings@[j]).to@.contains(x) || st.active_mappings@[j].from@.contains(x));
      if st.active_mappings@[j].to@.contains(x) { assert(out_of(st.active_mappings@, x)); }
    }
  }
  /// a key held for a mapping is an output key of a mapping in effect
  pub proof fn lemma_mapped(&self, x: KeyCode)
    requires self.inv(), self.mapped_view().contains(x)
    ensures exists|j: int| 0 <= j < self.active_view().len() && (#[trigger] self.active_view()[j]).to.contains(x)
  {
    let st = self.state;
    assert(out_of(st.active_mappings@, x));
    let j = choose|j: int| 0 <= j < st.active_mappings@.len() && #[trigger] st.active_mappings@[j].to@.contains(x);
    assert(self.active_view()[j] == mview(st.active_mappings@[j]));
  }
  /// every mapping in effect is (the view of) a mapping of the layout
  pub proof fn lemma_active_in_layout(&self, l: Layout, j: int)
    requires self.inv(), self.grouped_from(l), 0 <= j < self.active_view().len()
    ensures exists|i: int| 0 <= i < l.mappings@.len() && mview(#[trigger] l.mappings@[i]) == self.active_view()[j]
  {
    let st = self.state; let h = self.layout; let am = st.active_mappings@[j];
    assert(self.active_view()[j] == mview(am));
    assert(in_hl(h, mview(am)));
    let (k, i2) = choose|k: KeyCode, i2: int| h.mappings@.contains_key(k) && 0 <= i2 < h.mappings@[k]@.len() && mview(#[trigger] h.mappings@[k]@[i2]) == mview(am);
    assert(views(h.mappings@[k]@) == group_of(l.mappings@, k));
    assert(views(h.mappings@[k]@)[i2] == mview(h.mappings@[k]@[i2]));
    lemma_group_of_member(l.mappings@, k, i2);
  }
  /// every absorbed key is listed in the absorbing list of a mapping of the layout
  pub proof fn lemma_absorbed_in_layout(&self, l: Layout, x: KeyCode)
    requires self.inv(), self.grouped_from(l), self.absorbed_view().contains(x)
    ensures exists|i: int| 0 <= i < l.mappings@.len() && (#[trigger] l.mappings@[i]).absorbing@.contains(x)
  {
    let st = self.state; let h = self.layout;
    assert(abs_in_hl(h, x));
    let (kk, i2) = choose|kk: KeyCode, i2: int| h.mappings@.contains_key(kk) && 0 <= i2 < h.mappings@[kk]@.len() && (#[trigger] h.mappings@[kk]@[i2]).absorbing@.contains(x);
    assert(views(h.mappings@[kk]@) == group_of(l.mappings@, kk));
    assert(views(h.mappings@[kk]@)[i2] == mview(h.mappings@[kk]@[i2]));
    lemma_group_of_member(l.mappings@, kk, i2);
    let i = choose|i: int| 0 <= i < l.mappings@.len() && mview(#[trigger] l.mappings@[i]) == group_of(l.mappings@, kk)[i2] && l.mappings@[i].from@.len() >= 1 && l.mappings@[i].from@.last() == kk;
    assert(l.mappings@[i].absorbing@ == h.mappings@[kk]@[i2].absorbing@);
  }
  /// the trigger keys of a mapping in effect are considered pressed; its trigger and output keys are mentioned
  pub proof fn lemma_active_facts(&self, j: int, f: KeyCode)
    requires self.inv(), 0 <= j < self.active_view().len()
    ensures self.active_view()[j].from.contains(f) ==> self.pressed_view().contains(f) && self.mentions(f), self.active_view()[j].to.contains(f) ==> self.mentions(f)
  {
    let st = self.state;
    assert(self.active_view()[j] == mview(st.active_mappings@[j]));
    assert(sub(st.active_mappings@[j].from@, st.input_pressed_keys@));
  }
  pub proof fn lemma_mentions_witness(&self, x: KeyCode)
    requires self.mentions(x)
    ensures exists|j: int| 0 <= j < self.active_view().len() && ((#[trigger] self.active_view()[j]).to.contains(x) || self.active_view()[j].from.contains(x))
  {
    let st = self.state;
    let j = choose|j: int| 0 <= j < st.active_mappings@.len() && ((#[trigger] st.active_mappings@[j]).to@.contains(x) || st.active_mappings@[j].from@.contains(x));
    assert(self.active_view()[j] == mview(st.active_mappings@[j]));
  }
  pub proof fn lemma_eff(&self, k: KeyCode, x: KeyCode)
    ensures self.eff_absorbed(k).contains(x) <==> (self.absorbing_trigger_view() != Some(k) && self.absorbed_view().contains(x) && x != k)
  { lemma_ts(self.state.mapped_absorbed_keys@, x); }
  /// a key that is not considered pressed is held on the virtual keyboard only as an output key of a mapping in effect
  pub proof fn lemma_not_pressed_held(&self, d: KeyCode)
    requires self.inv(), !self.pressed_view().contains(d), self.held_view().contains(d)
    ensures exists|j: int| 0 <= j < self.active_view().len() && (#[trigger] self.active_view()[j]).to.contains(d)
  {
    let st = self.state;
    lemma_ts(st.pass_through_keys@, d); lemma_ts(st.mapped_output_keys@, d);
    assert(!st.pass_through_keys@.contains(d));
    assert(out_of(st.active_mappings@, d));
    let j = choose|j: int| 0 <= j < st.active_mappings@.len() && #[trigger] st.active_mappings@[j].to@.contains(d);
    assert(self.active_view()[j] == mview(st.active_mappings@[j]));
  }

  /// C03 / C08: the group scan selects exactly the last-listed mapping of the layout whose final trigger key is k and whose trigger keys are all pressed and not absorbed
  pub proof fn lemma_gfired(&self, l: Layout, k: KeyCode)
    requires self.inv(), self.grouped_from(l)
    ensures self.gfired(k) == layout_fired(l.mappings@, self.pressed_view(), self.eff_absorbed(k), k)
  {
    let g = group(self.layout, k); let st = self.state;
    lemma_layout_fired_group(l.mappings@, st.input_pressed_keys@, eff_abs(st, k), k);
    lemma_fired_views(g, st, k, g.len() as int);
    assert(g.take(g.len() as int) =~= g);
    // views(g) == group_of(l, k)
    if self.layout.mappings@.contains_key(k) { assert(views(g) == group_of(l.mappings@, k)); }
    else { assert(group_of(l.mappings@, k).len() == 0); assert(views(g) =~= group_of(l.mappings@, k)); }
    let n = g.len() as int;
    if exists|i: int| is_fired(g, st, k, i) {
      let a = choose|i: int| is_fired(g, st, k, i);
      assert(0 <= a < n && sup(g[a], st, k) && (forall|j: int| a < j < n ==> !sup(#[trigger] g[j], st, k)));
      let b = choose|i: int| 0 <= i < n && sup(#[trigger] g[i], st, k) && (forall|j: int| i < j < n ==> !sup(#[trigger] g[j], st, k));
      assert(is_fired(g, st, k, b));
      lemma_fired_unique(g, st, k, a, b);
    } else {
      if exists|i: int| 0 <= i < n && sup(#[trigger] g[i], st, k) && (forall|j: int| i < j < n ==> !sup(#[trigger] g[j], st, k)) {
        let b = choose|i: int| 0 <= i < n && sup(#[trigger] g[i], st, k) && (forall|j: int| i < j < n ==> !sup(#[trigger] g[j], st, k));
        assert(is_fired(g, st, k, b));
        assert(false);
      }
    }
  }

  /// in a layout without absorbing lists no key is ever absorbed
  pub proof fn lemma_no_absorbing(&self, l: Layout, k: KeyCode)
    requires self.inv(), self.grouped_from(l), forall|i: int| 0 <= i < l.mappings@.len() ==> (#[trigger] l.mappings@[i]).absorbing@.len() == 0
    ensures self.eff_absorbed(k) == Set::<KeyCode>::empty(), self.absorbed_view().len() == 0
  {
    let st = self.state; let h = self.layout;
    if st.mapped_absorbed_keys@.len() > 0 {
      let x = st.mapped_absorbed_keys@[0];
      assert(st.mapped_absorbed_keys@.contains(x));
      assert(abs_in_hl(h, x));
      let (kk, i2) = choose|kk: KeyCode, i2: int| h.mappings@.contains_key(kk) && 0 <= i2 < h.mappings@[kk]@.len() && (#[trigger] h.mappings@[kk]@[i2]).absorbing@.contains(x);
      assert(views(h.mappings@[kk]@) == group_of(l.mappings@, kk));
      assert(views(h.mappings@[kk]@)[i2] == mview(h.mappings@[kk]@[i2]));
      lemma_group_of_member(l.mappings@, kk, i2);
      let i = choose|i: int| 0 <= i < l.mappings@.len() && mview(#[trigger] l.mappings@[i]) == group_of(l.mappings@, kk)[i2] && l.mappings@[i].from@.len() >= 1 && l.mappings@[i].from@.last() == kk;
      assert(l.mappings@[i].absorbing@ == h.mappings@[kk]@[i2].absorbing@);
      assert(false);
    }
    assert(st.mapped_absorbed_keys@ =~= Seq::<KeyCode>::empty());
    assert(eff_abs(st, k) =~= Set::<KeyCode>::empty());
  }

  /// C02(a) at a single state: a key held on the virtual keyboard is considered pressed, or is an output key of a mapping of the layout whose trigger keys are all considered pressed
  pub proof fn lemma_justified(&self, l: Layout, x: KeyCode)
    requires self.inv(), self.grouped_from(l), self.held_view().contains(x)
    ensures self.pressed_view().contains(x)
      || exists|i: int| 0 <= i < l.mappings@.len() && (#[trigger] l.mappings@[i]).to@.contains(x) && (forall|f: KeyCode| l.mappings@[i].from@.contains(f) ==> self.pressed_view().contains(f))
  {
    let st = self.state; let h = self.layout;
    lemma_ts(st.pass_through_keys@, x); lemma_ts(st.mapped_output_keys@, x);
    if st.pass_through_keys@.contains(x) { assert(st.input_pressed_keys@.contains(x)); }
    else {
      assert(st.mapped_output_keys@.contains(x));
      assert(out_of(st.active_mappings@, x));
      let j = choose|j: int| 0 <= j < st.active_mappings@.len() && #[trigger] st.active_mappings@[j].to@.contains(x);
      let am = st.active_mappings@[j];
      assert(sub(am.from@, st.input_pressed_keys@));
      assert(in_hl(h, mview(am)));
      let (k, i2) = choose|k: KeyCode, i2: int| h.mappings@.contains_key(k) && 0 <= i2 < h.mappings@[k]@.len() && mview(#[trigger] h.mappings@[k]@[i2]) == mview(am);
      assert(views(h.mappings@[k]@) == group_of(l.mappings@, k));
      assert(views(h.mappings@[k]@)[i2] == mview(h.mappings@[k]@[i2]));
      lemma_group_of_member(l.mappings@, k, i2);
      let i = choose|i: int| 0 <= i < l.mappings@.len() && mview(#[trigger] l.mappings@[i]) == group_of(l.mappings@, k)[i2] && l.mappings@[i].from@.len() >= 1 && l.mappings@[i].from@.last() == k;
      assert(l.mappings@[i].to@ == am.to@ && l.mappings@[i].from@ == am.from@);
      assert(l.mappings@[i].to@.contains(x));
      assert forall|f: KeyCode| l.mappings@[i].from@.contains(f) implies self.pressed_view().contains(f) by { assert(am.from@.contains(f)); }
    }
  }

  /// C02(d) at a single state: a held key that is a trigger key of a mapping in effect is an output key of a mapping in effect
  pub proof fn lemma_consumed(&self, x: KeyCode, j: int)
    requires self.inv(), self.held_view().contains(x), 0 <= j < self.active_view().len(), self.active_view()[j].from.contains(x)
    ensures exists|j2: int| 0 <= j2 < self.active_view().len() && (#[trigger] self.active_view()[j2]).to.contains(x)
  {
    let st = self.state;
    lemma_ts(st.pass_through_keys@, x); lemma_ts(st.mapped_output_keys@, x);
    assert(self.active_view()[j] == mview(st.active_mappings@[j]));
    assert(st.active_mappings@[j].from@.contains(x));
    assert(!st.pass_through_keys@.contains(x));
    assert(out_of(st.active_mappings@, x));
    let j2 = choose|j2: int| 0 <= j2 < st.active_mappings@.len() && #[trigger] st.active_mappings@[j2].to@.contains(x);
    assert(self.active_view()[j2] == mview(st.active_mappings@[j2]));
  }
  pub closed spec fn pressed_view(&self) -> Seq<KeyCode> { self.state.input_pressed_keys@ }
  pub fn for_layout(layout: &Layout) -> (r: Mapper)
    requires
      //@  | frame / auxiliary
      layout_ok(*layout),
    ensures
      //@ C01 C02 | inclusion invariant J (every held output key is justified by what is pressed)
      r.inv(),
      //@ C01 C06 | at rest nothing is held
      r.held_view() == Set::<KeyCode>::empty(),
      r.pressed_view().len() == 0,
      //@ C02 C03 C05 | the mapper's grouped copy of the layout corresponds to the layout it was created for
      r.grouped_from(*layout),
    { //@ | body
    Mapper {
      layout: make_hashed_layout(layout),
      state: State::init()
    }
  }
  
  pub fn step(self: &mut Mapper, input: Event) -> (res: StepResult)
    requires
      //@ C01 C02 | inclusion invariant J (every held output key is justified by what is pressed)
      old(self).inv(),
    ensures
      //@ C01 C02 | inclusion invariant J (every held output key is justified by what is pressed)
      final(self).inv(),
      //@ C19 | bookkeeping equals the fold of the emitted events; no redundant press or release
      apply(old(self).held_view(), res.events@) == Some(final(self).held_view()),
      //@ C09 | repeat request
      (res.repeat is NoChange) <==> (match input { Event::Pressed(k) => old(self).pressed_view().contains(k), Event::Released(k) => !old(self).pressed_view().contains(k) }),
      (res.repeat is NoChange) ==> res.events@.len() == 0 && *final(self) == *old(self),
      //@ C11 C09 | repeat parameters are non-negative (the event loop turns them into Durations)
      rrepeat_ok(res.repeat),
      //@ C01 C02 | effect of the call on the list of keys considered pressed
      match input { Event::Pressed(k) => forall|x: KeyCode| #[trigger] final(self).pressed_view().contains(x) ==> old(self).pressed_view().contains(x) || x == k,
                    Event::Released(k) => !final(self).pressed_view().contains(k) && forall|x: KeyCode| #[trigger] final(self).pressed_view().contains(x) ==> old(self).pressed_view().contains(x) },
      //@ C02 C07 | release paths emit only releases
      match input { Event::Released(_) => all_released(res.events@), _ => true },
      //@ C03 C05 C08 | a key that is considered pressed and is not absorbed stays considered pressed until its own release; a newly pressed key is considered pressed afterwards
      forall|x: KeyCode| #[trigger] old(self).pressed_view().contains(x) && !old(self).absorbed_view().contains(x) && input != Event::Released(x) ==> final(self).pressed_view().contains(x),
      match input { Event::Pressed(k) => final(self).pressed_view().contains(k), _ => true },
      //@ C01 C06 | at rest nothing is held
      final(self).pressed_view().len() == 0 ==> final(self).held_view() == Set::<KeyCode>::empty(),
      //@ C02 C03 C05 | the grouped copy of the layout is never modified
      forall|l: Layout| #[trigger] old(self).grouped_from(l) ==> final(self).grouped_from(l),
      //@ C03 C07 C08 | a newly pressed key: the mapping selected by the group scan takes effect (it is the newest mapping in effect), its non-modifier output keys are pressed by events of this step, its modifier outputs are held, with Normal repeat the whole output is held, otherwise only modifiers stay held; if no mapping qualifies the key is passed through as the last event, unless a mapping in effect mentions it (then nothing is emitted)
      match input { Event::Pressed(k) => !old(self).pressed_view().contains(k) ==> (match old(self).gfired(k) {
          Some(mv) => final(self).active_view().len() >= 1 && final(self).active_view().last() == mv && fire_post(mv, res.events@, final(self).held_view()),
          None => if old(self).mentions(k) { res.events@.len() == 0 } else { res.events@.len() >= 1 && res.events@.last() == Event::Pressed(k) && final(self).held_view().contains(k) } }),
        _ => true },
      //@ C08 | absorbed keys across a step: a release leaves the absorbed list and its trigger alone; a new press changes them as C08 prescribes (the pressed key stops being absorbed, the fired mapping's absorbing list is absorbed with the pressed key as trigger, and when a non-modifier key goes onto the virtual keyboard and the pressed key is not the absorbing trigger every key absorbed before is lifted and forgotten)
      match input { Event::Pressed(k) => !old(self).pressed_view().contains(k) ==> Mapper::c08_press(*old(self), *final(self), k),
                    Event::Released(k) => final(self).absorbed_view() == old(self).absorbed_view() && final(self).absorbing_trigger_view() == old(self).absorbing_trigger_view() },
      //@ C02 C05 C08 | the only keys a press step presses are output keys of the fired mapping, or the pressed key itself when it is passed through
      match input { Event::Pressed(k) => !old(self).pressed_view().contains(k) ==> Mapper::press_scope(*old(self), k, res.events@), _ => true },
      //@ C05 | the only keys a step lifts: on a press, see lift_scope; on the release of k, k itself and output keys of mappings in effect that have k in their trigger, and never a key that a mapping remaining in effect outputs
      match input { Event::Pressed(k) => !old(self).pressed_view().contains(k) ==> forall|x: KeyCode| #[trigger] rel(res.events@, x) ==> Mapper::lift_scope(*old(self), k, x),
                    Event::Released(k) => forall|x: KeyCode| #[trigger] rel(res.events@, x) ==> Mapper::drop_scope(*old(self), *final(self), k, x) },
      //@ C04 | a key-producing mapping fires while nothing is absorbed: at the instant its final output key is pressed every modifier it lists is already down, and every other modifier that is down is considered pressed and not part of its trigger, or is an output key of a modifier-remapping in effect
      match input { Event::Pressed(k) => !old(self).pressed_view().contains(k) ==> (match old(self).gfired(k) { Some(mv) => (act_map_v(mv.to) && old(self).absorbed_view().len() == 0) ==> Mapper::c04_instant(*old(self), mv, res.events@), None => true }), _ => true },
    { //@ | body
    broadcast use Mapper::lemma_rest;
    let state = &mut self.state;

    match input {
      Pressed(k) => {
        if !state.input_pressed_keys.contains(&k) {
          proof { let g = group(self.layout, k); lemma_scan(g, self.state, k, g.len() as int); reveal(c03_fire); reveal(c07_fire); reveal(ip_kept); reveal(c08_np); reveal(c08_pre); reveal(only_presses); reveal(anm_rel); reveal(np_rel); reveal(c04_anm); lemma_views_bridge(); }
          newly_press(self, k)
        }
        else {
          StepResult {
            events: vec![],
            repeat: ResultingRepeat::NoChange
          }
        }
      },
      Released(k) => {
        if state.input_pressed_keys.contains(&k) {
          proof { lemma_views_bridge(); }
          newly_release(self, k)
        }
        else {
          StepResult {
            events: vec![],
            repeat: ResultingRepeat::NoChange
          }
        }
      }
    }
  }
  
  pub fn is_held_on_output(self: &Mapper, k: &KeyCode) -> (r: bool)
    ensures
      //@ C11 C19 | the accessor answers exactly the mapper's record of what is down on the virtual keyboard
      r == self.held_view().contains(*k),
    { //@ | body
    proof { lemma_ts(self.state.pass_through_keys@, *k); lemma_ts(self.state.mapped_output_keys@, *k); }
    self.state.pass_through_keys.contains(k) || self.state.mapped_output_keys.contains(k)
  }
  
  pub fn release_all(self: &mut Mapper) -> (events: Vec<Event>)
    requires
      //@ C01 C02 | inclusion invariant J (every held output key is justified by what is pressed)
      old(self).inv(),
    ensures
      //@ C01 C02 | inclusion invariant J (every held output key is justified by what is pressed)
      final(self).inv(),
      //@ C19 | bookkeeping equals the fold of the emitted events; no redundant press or release
      apply(old(self).held_view(), events@) == Some(final(self).held_view()),
      //@ C01 C06 | at rest nothing is held
      final(self).pressed_view().len() == 0,
      final(self).held_view() == Set::<KeyCode>::empty(),
      //@ C02 C07 | release paths emit only releases
      all_released(events@),
      //@ C02 C03 C05 | the grouped copy of the layout is never modified
      forall|l: Layout| #[trigger] old(self).grouped_from(l) ==> final(self).grouped_from(l),
      //@ C08 C06 | release-all leaves the absorbed list and its trigger alone (they are inert once nothing is pressed)
      final(self).absorbed_view() == old(self).absorbed_view() && final(self).absorbing_trigger_view() == old(self).absorbing_trigger_view(),
    { //@ | body
    broadcast use Mapper::lemma_rest;
    let to_release = self.state.input_pressed_keys.clone();
    let ghost tr = to_release@;
    
    let mut events: Vec<Event> = Vec::new();
    let ghost h0 = held(old(self).state);
    
    for k in it: to_release
      invariant
        forall|l: Layout| #[trigger] old(self).grouped_from(l) ==> self.grouped_from(l),
        self.absorbed_view() == old(self).absorbed_view() && self.absorbing_trigger_view() == old(self).absorbing_trigger_view(),
        //@ C01 C02 | inclusion invariant J (every held output key is justified by what is pressed)
        self.inv(),
        //@ C19 | bookkeeping equals the fold of the emitted events; no redundant press or release
        apply(h0, events@) == Some(held(self.state)),
        //@  | frame / auxiliary
        it.seq() == tr,
        //@ C02 C07 | release paths emit only releases
        all_released(events@),
        //@ C01 C02 | effect of the call on the list of keys considered pressed
        forall|x: KeyCode| #[trigger] self.state.input_pressed_keys@.contains(x) ==> tr.contains(x) && !tr.take(it.index@ as int).contains(x),
      { //@ | body
      proof { assert(tr.take(it.index@ as int + 1) =~= tr.take(it.index@ as int).push(k)); lemma_push_contains(tr.take(it.index@ as int), k); }
      let ghost e0 = events@;
      let mut chunk = self.step(Released(k));
      proof { lemma_apply_append(h0, e0, chunk.events@); lemma_append_contains(e0, chunk.events@); }
      events.append(&mut chunk.events);
    }
    proof { assert(tr.take(tr.len() as int) =~= tr);
      assert(self.state.input_pressed_keys@.len() == 0) by { if self.state.input_pressed_keys@.len() > 0 { let x = self.state.input_pressed_keys@[0]; assert(self.state.input_pressed_keys@.contains(x)); } }
    }
    
    events
  }
}

