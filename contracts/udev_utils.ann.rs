// Overlay for src/udev_utils.rs: the link between the real escaper and the theorem of spec/sd.rs.
// theorem_pattern speaks about esc_str(esc, t), the concatenation of per-character escapes. That the real systemd_arg_escape IS such a concatenation
// (no look-ahead, no context) is proved here; that the real escape_one_char is correct on every single character is decided by complete enumeration.

/// what the real escape_one_char returns for a character - uninterpreted; evaluated for every scalar value by the enumeration driver
pub uninterp spec fn esc1(c: char) -> Seq<char>;
pub open spec fn esc1_fn() -> spec_fn(char) -> Seq<char> { |c: char| esc1(c) }

//@ C17 | default: fn escape_one_char
// ASSUMED contract (external_body: match arms with format!): the function is a function of its argument (deterministic, no state); its values are
// not assumed - they are computed by the real body for all 1,112,063 scalar values on every run (extra udev_enum)
#[verifier::external_body]
fn escape_one_char(c: char) -> (r: String)
  ensures
    //@ C17 | ASSUMED: the result depends on the character only
    r@ == esc1(c),
  { //@ | body
  match c {
    '\\' => "\\\\".to_owned(),
    ' ' => "\\s".to_owned(),
    '\x07' => "\\a".to_owned(),
    '\x08' => "\\b".to_owned(),
    '\n' => "\\n".to_owned(),
    '\r' => "\\r".to_owned(),
    '\t' => "\\t".to_owned(),
    '"' => "\\\"".to_owned(),
    '\'' => "\\'".to_owned(),
    '%' => "%%".to_owned(),
    '$' => "$$".to_owned(),
    ';' => "\\x3b".to_owned(),
    '*' => "\\x2a".to_owned(),
    '?' => "\\x3f".to_owned(),
    _ => {
      if c.is_control() {
        let i = c as u64;
        if i < 128 {
          format!("\\x{:02x}", i)
        }
        else if i < 0x10000 {
          format!("\\u{:04x}", i)
        }
        else {
          format!("\\U{:08x}", i)
        }
      }
      else {
        format!("{}", c)
      }
    }
  }
}

//@ C17 | default: fn systemd_arg_escape
fn systemd_arg_escape(text: &str) -> (r: String)
  ensures
    //@ C17 | the escaped text is the concatenation of the per-character escapes, in order - the shape theorem_pattern is stated for (no look-ahead, no dependence on neighbours)
    r@ == crate::sd::esc_str(esc1_fn(), text@),
  { //@ | body
  let mut res = Vec::new();
  //@ C17 | the characters handled so far
  proof { assert(crate::sd::esc_str(esc1_fn(), text@.take(0)) =~= Seq::empty()); }
  for c in it: text.chars()
    invariant
      //@ C17 | what has been collected is the concatenation of the escapes of the characters handled so far
      it.seq() == text@, res@ == crate::sd::esc_str(esc1_fn(), text@.take(it.index@ as int)),
    { //@ | body
    //@ C17 | the character of this iteration
    let ghost k = it.index@ as int;
    proof { assert(c == text@[k]);
      assert forall|ch: std::str::Chars<'_>| #[trigger] crate::prelude_specs::ext_own::<char, std::str::Chars<'_>>(ch) == vstd::std_specs::iter::IteratorSpec::remaining(&ch) by { crate::prelude_specs::axiom_ext_own_chars(ch); } }
    res.extend(escape_one_char(c).chars());
    //@ C17 | one more character
    proof { assert(text@.take(k + 1).drop_last() =~= text@.take(k)); assert(text@.take(k + 1).last() == c); }
  }
  //@ C17 | all characters handled; the collected characters become the string
  proof { assert(text@.take(text@.len() as int) =~= text@);
    assert forall|items: Seq<&char>, r: String| #[trigger] <String as vstd::std_specs::iter::FromIteratorSpec<&char>>::from_iter_ensures(items, r) implies r@ == items.map_values(|x: &char| *x) by { crate::prelude_specs::axiom_string_from_chars(items, r); } }
  res.iter().collect()
}
