
use crate::fancy_keys::AliasMapping;
use crate::keys as s;
use crate::fancy_keys as f;
use crate::key_codes::KeyCode;
use std::collections::HashMap;

pub fn convert(f: &f::Layout) -> Result<s::Layout, String> {
  let mut res = Vec::new();
  let mut from_table: HashMap<FromSet, Vec<usize>> = HashMap::new();
  
  let alias_mappings = find_alias_mappings(f);
  
  for fm in &f.mappings {
    let sms = convert_mapping(&alias_mappings, fm)?;
    for sm in sms {
      let from_set = FromSet::new(&sm.from);
      match from_table.get_mut(&from_set) {
        Some(v) => v.push(res.len()),
        None => {
          let v = vec![res.len()];
          from_table.insert(from_set.clone(), v);
        }
      };
      res.push(sm);
    }
  }
  
  for fm in &f.mappings {
    adjust_repeats(&mut res, &from_table, &alias_mappings, fm)?;
  }
  
  for sm in &res {
    check_mapping_is_usable(sm)?;
  }
  
  Ok(s::Layout {
    mappings: res
  })
}

fn has_duplicate_key(keys: &Vec<KeyCode>) -> bool {
  for i in 0..keys.len() {
    for j in i+1..keys.len() {
      if keys[i] == keys[j] {
        return true;
      }
    }
  }
  return false;
}

// The mapper cannot run (it panics on) a mapping with an empty trigger or with the same key
// twice in its trigger or output, and the event loop cannot schedule negative repeat times.
fn check_mapping_is_usable(sm: &s::Mapping) -> Result<(), String> {
  if sm.from.is_empty() {
    return Err(format!("A mapping to {:?} has an empty `from`", sm.to));
  }
  if has_duplicate_key(&sm.from) {
    return Err(format!("The same key appears twice in `from`: {:?}", sm.from));
  }
  if has_duplicate_key(&sm.to) {
    return Err(format!("The same key appears twice in `to`: {:?} (mapping from {:?})", sm.to, sm.from));
  }
  match &sm.repeat {
    s::Repeat::Special { keys, delay_ms, interval_ms } => {
      if has_duplicate_key(keys) {
        return Err(format!("The same key appears twice in the `repeat` keys: {:?} (mapping from {:?})", keys, sm.from));
      }
      if *delay_ms < 0 || *interval_ms < 0 {
        return Err(format!("`delay_ms` and `interval_ms` must not be negative (mapping from {:?})", sm.from));
      }
    },
    _ => ()
  };
  Ok(())
}

fn adjust_repeats<'a>(res: &mut Vec<s::Mapping>, from_table: &HashMap<FromSet, Vec<usize>>, alias_mappings: &'a HashMap<String, Vec<&'a f::AliasMapping>>, fm: &f::Mapping) -> Result<(), String> {
  match fm {
    f::Mapping::RepeatOnlySingle(single) => {
      let modifier_combinations = build_combinations(alias_mappings, &single.from.modifiers)?;
      for modifier_combination in iterate_combinations(&modifier_combinations) {
        let mut from = modifier_combination.from_modifiers().clone();
        from.push(single.from.key.clone());

        let repeat = match &single.repeat {
          f::SingleRepeat::Normal => s::Repeat::Normal,
          f::SingleRepeat::Disabled => s::Repeat::Disabled,
          f::SingleRepeat::Special { keys, delay_ms, interval_ms } => s::Repeat::Special {
            keys: modifier_combination.translate_single_to_keys(&keys)?,
            delay_ms: *delay_ms,
            interval_ms: *interval_ms
          }
        };

        let from_set = FromSet::new(&from);
        if let Some(is) = from_table.get(&from_set) {
          for i in is {
            let sm = &mut res[*i];
            sm.repeat = repeat.clone();
          }
        }
        else {
          res.push(s::Mapping { from: from.clone(), to: from, repeat, absorbing: vec![] });
        }
      }
    },
    _ => ()
  };
  Ok(())
}

#[derive(PartialEq, Eq, Hash, Clone)]
struct FromSet {
  keys: Vec<KeyCode>
}
impl FromSet {
  fn new(keys: &[KeyCode]) -> FromSet {
    if !keys.is_empty() {
      let mut res: Vec<KeyCode> = keys[..keys.len()-1].iter().map(|k| *k).collect();
      res.sort();
      res.push(*keys.last().unwrap());
      FromSet { keys: res }
    }
    else {
      FromSet { keys: vec![] }
    }
  }
}

fn convert_mapping<'a>(alias_mappings: &HashMap<String, Vec<&'a f::AliasMapping>>, m: &f::Mapping) -> Result<Vec<s::Mapping>, String> {
  match m {
    f::Mapping::Alias(alias) => Ok(convert_alias(alias)),
    f::Mapping::Single(single) => convert_single(alias_mappings, single),
    f::Mapping::Row(row) => convert_row(alias_mappings, row),
    f::Mapping::RepeatOnlySingle(_) => Ok(vec![]),
  }
}

fn convert_alias(alias: &f::AliasMapping) -> Vec<s::Mapping> {
  // This test tries to be clever about whethere the user
  // expects modifiers to pass-through.
  if !is_just_one_modifier(&alias.from.keys) {
    vec![s::Mapping {
      from: alias.from.keys.clone(),
      to: alias.to.initial.clone(),
      repeat: s::Repeat::Normal,
      absorbing: vec![]
    }]
  }
  else {
    vec![]
  }
}

fn convert_single<'a>(alias_mappings: &'a HashMap<String, Vec<&'a f::AliasMapping>>, single: &f::SingleMapping) -> Result<Vec<s::Mapping>, String> {
  let mut res = Vec::new();
  let modifier_combinations = build_combinations(alias_mappings, &single.from.modifiers)?;
  for modifier_combination in iterate_combinations(&modifier_combinations) {
    let mut from = modifier_combination.from_modifiers().clone();
    from.push(single.from.key.clone());

    let to = modifier_combination.translate_single_to_keys(&single.to)?;

    let repeat = match &single.repeat {
      f::SingleRepeat::Normal => s::Repeat::Normal,
      f::SingleRepeat::Disabled => s::Repeat::Disabled,
      f::SingleRepeat::Special { keys, delay_ms, interval_ms } => s::Repeat::Special {
        keys: modifier_combination.translate_single_to_keys(&keys)?,
        delay_ms: *delay_ms,
        interval_ms: *interval_ms
      }
    };

    let absorbing = modifier_combination.reify_modifiers(&single.absorbing)?;

    res.push(s::Mapping {
      from,
      to,
      repeat,
      absorbing
    });
  }
  Ok(res)
}

enum RowRepeatTemplate {
  Normal,
  Disabled,
  Special {
    modifiers: Vec<KeyCode>,
    terminal: Vec<char>,
    delay_ms: i32,
    interval_ms: i32
  }
}

fn convert_row<'t>(alias_mappings: &'t HashMap<String, Vec<&'t f::AliasMapping>>, row_mapping: &f::RowMapping) -> Result<Vec<s::Mapping>, String> {
  let mut res = Vec::new();
  let modifier_combinations = build_combinations(alias_mappings, &row_mapping.from.modifiers)?;
  for modifier_combination in iterate_combinations(&modifier_combinations) {
    let from_modifiers = modifier_combination.from_modifiers().clone();
    let to_modifiers = modifier_combination.reify_modifiers(&row_mapping.to.initial)?;
    
    let repeat_template = match &row_mapping.repeat {
      f::RowRepeat::Normal => RowRepeatTemplate::Normal,
      f::RowRepeat::Disabled => RowRepeatTemplate::Disabled,
      f::RowRepeat::Special { keys, delay_ms, interval_ms } => {
        let num_repeat_chars = keys.terminal.chars().count();
        let num_to_chars = row_mapping.to.terminal.chars().count();
        if num_repeat_chars > num_to_chars {
          return Err(format!("Row mapping has more letters in its `repeat` ({} = {}) than its `to` ({} = {}). This is not allowed because it is not clear how such keys should be mapped. Use individual mappings instead.",
            keys.terminal,
            num_repeat_chars,
            row_mapping.to.terminal,
            num_to_chars
          ));
        }
        
        RowRepeatTemplate::Special {
          modifiers: modifier_combination.reify_modifiers(&keys.initial)?,
          terminal: keys.terminal.chars().collect(),
          delay_ms: *delay_ms,
          interval_ms: *interval_ms
        }
      }
    };
    
    use crate::physical_keyboard_layouts::US_KEYBOARD_LAYOUT;
    let from_physical_row = US_KEYBOARD_LAYOUT.get(&row_mapping.from.row)
      .ok_or(format!("Don't have data for row {}", row_mapping.from.row))?;
      
    let has_right_shift = find_right_shift(&from_modifiers);
    let to_terminals: Vec<char> = row_mapping.to.terminal.chars().collect();
    
    for char_i in 0..to_terminals.len() {
      if char_i >= from_physical_row.len() {
        return Err(format!("Don't know which keycode is at index {} in row {:?}", char_i, row_mapping.from.row));
      }
      
      let to = convert_row_to(has_right_shift, &to_modifiers, &to_terminals, char_i)?;
      if let Some(to) = to {
        let mut from = from_modifiers.clone();
        from.push(from_physical_row[char_i]);
        
        let repeat = match &repeat_template {
          RowRepeatTemplate::Normal => s::Repeat::Normal,
          RowRepeatTemplate::Disabled => s::Repeat::Disabled,
          RowRepeatTemplate::Special { modifiers, terminal, delay_ms, interval_ms } => {
            match convert_row_to(has_right_shift, &modifiers, &terminal, char_i)? {
              None => s::Repeat::Normal,
              Some(keys) => s::Repeat::Special { keys, delay_ms: *delay_ms, interval_ms: *interval_ms }
            }
          }
        };

        let absorbing = modifier_combination.reify_modifiers(&row_mapping.absorbing)?;

        res.push(s::Mapping {
          from,
          to,
          repeat,
          absorbing
        });
      }
    }
  }
  Ok(res)
}

fn find_right_shift(from: &Vec<KeyCode>) -> bool {
  for k in from {
    if *k == KeyCode::RIGHTSHIFT {
      return true;
    }
  }
  return false;
}

fn convert_row_to(has_right_shift: bool, modifiers: &Vec<KeyCode>, terminals: &Vec<char>, char_i: usize) -> Result<Option<Vec<KeyCode>>, String> {
  use crate::char_production_map::CHAR_ACCESS_MAP;
  if char_i >= terminals.len() {
    Ok(None)
  }
  else {
    let ch = terminals[char_i];
    // Space is considered unmapped
    if ch == ' ' {
      Ok(None)
    }
    else {
      match CHAR_ACCESS_MAP.get(&ch) {
        None => {
          Err(format!("Don't know how to produce char '{}' on a US keyboard", ch))
        }
        Some(sk) => {
          let mut to = modifiers.clone();
          if sk.sh {
            to.push(if has_right_shift {KeyCode::RIGHTSHIFT} else {KeyCode::LEFTSHIFT});
          }
          to.push(sk.k);
          Ok(Some(to))
        }
      }
    }
  }
}

fn is_just_one_modifier(ks: &Vec<KeyCode>) -> bool {
  if ks.len() == 1 {
    is_modifier(&ks[0])
  }
  else {
    false
  }
}

fn is_modifier(k: &KeyCode) -> bool {
  use crate::key_codes::KeyCode::*;
  match k {
    LEFTSHIFT => true,
    RIGHTSHIFT => true,
    LEFTALT => true,
    RIGHTALT => true,
    LEFTCTRL => true,
    RIGHTCTRL => true,
    LEFTMETA => true,
    RIGHTMETA => true,
    _ => false
  }
}

struct AliasCombinationIterable<'t> {
  modifiers: &'t Vec<f::Modifier>,
  alias_quantities: Vec<usize>,
  alias_found_mappings: Vec<&'t Vec<&'t AliasMapping>>,
  alias_map: HashMap<String, usize>
}

struct AliasCombinationIterator<'s, 't> {
  iterable: &'s AliasCombinationIterable<'t>,
  combinations: MultiplyIter<'s>
}

fn build_combinations<'t>(alias_mappings: &'t HashMap<String, Vec<&'t AliasMapping>>, modifiers: &'t Vec<f::Modifier>) -> Result<AliasCombinationIterable<'t>, String> {
  let mut alias_quantities = Vec::new();
  let mut alias_found_mappings = Vec::new();
  let mut alias_map = HashMap::new();
  
  for i in 0..modifiers.len() {
    let m = &modifiers[i];
    match m {
      f::Modifier::Alias(alias) => {
        let mappings = alias_mappings.get(alias).ok_or(format!("Alias {} is undefined", alias))?;
        let i = alias_quantities.len();
        alias_quantities.push(mappings.len());
        alias_found_mappings.push(mappings);
        alias_map.insert(alias.clone(), i);
      },
      _ => ()
    }
  }
  
  Ok(AliasCombinationIterable {
    modifiers,
    alias_quantities: alias_quantities.clone(),
    alias_found_mappings,
    alias_map
  })
}
  
fn iterate_combinations<'s, 't>(iterable: &'s AliasCombinationIterable<'t>) -> AliasCombinationIterator<'s, 't> {
  AliasCombinationIterator { iterable, combinations: multiply(&iterable.alias_quantities) }
}

struct AliasCombination<'s, 't> {
  it: &'s AliasCombinationIterable<'t>,
  tuple: Vec<usize>
}

impl <'s, 't> AliasCombination<'s, 't> {
  fn from_modifiers(&self) -> Vec<KeyCode> {
    let mut thing = Vec::new();
    let mut j = 0;
    for i in 0..self.it.modifiers.len() {
      let m = &self.it.modifiers[i];
      match m {
        f::Modifier::Alias(_) => {
          let keys = &self.it.alias_found_mappings[j][self.tuple[j]].from.keys;
          thing.extend(keys);
          j += 1;
        },
        f::Modifier::Key(k) => {
          thing.push(k.clone());
        }
      }
    }
    thing
  }
  
  fn translate_single_to_keys(&self, to: &f::SingleToKeys) -> Result<Vec<KeyCode>, String> {
    Ok(match to.terminal {
      f::SingleTerminalToKey::Physical(terminal) => {
        let mut to = self.reify_modifiers(&to.initial)?;
        to.push(terminal);
        to
      },
      f::SingleTerminalToKey::Null => {
        vec![]
      }
    })
  }
  
  fn reify_modifiers(&self, modifiers: &Vec<f::Modifier>) -> Result<Vec<KeyCode>, String> {
    let mut res = Vec::new();
    
    for m in modifiers {
      match m {
        f::Modifier::Key(k) => res.push(*k),
        f::Modifier::Alias(alias) => {
          match self.it.alias_map.get(alias) {
            None => return Err(format!("Alias used on RHS of mapping that does not appear on LHS: {}", alias)),
            Some(&i) => {
              let keys = &self.it.alias_found_mappings[i][self.tuple[i]].from.keys;
              res.extend(keys);
            }
          }
        }
      }
    }
    
    Ok(res)
  }
}

impl <'s, 't> Iterator for AliasCombinationIterator<'s, 't> {
  type Item = AliasCombination<'s, 't>;
  
  fn next(&mut self) -> Option<AliasCombination<'s, 't>> {
    Some(AliasCombination {
      it: &self.iterable,
      tuple: self.combinations.next()?
    })
  }
}

struct MultiplyIter<'s> {
  quantities: &'s Vec<usize>,
  position: Vec<usize>,
  done: bool
}

fn multiply<'s>(quantities: &'s Vec<usize>) -> MultiplyIter<'s> {
  MultiplyIter::new(quantities)
}

impl <'s> MultiplyIter<'s> {
  fn new(quantities: &'s Vec<usize>) -> MultiplyIter<'s> {
    let mut position = Vec::new();
    for _ in 0..quantities.len() {
      position.push(0);
    }
    
    MultiplyIter {
      quantities,
      position,
      done: false
    }
  }
}
  
impl <'s> std::iter::Iterator for MultiplyIter<'s> {
  type Item = Vec<usize>;
  
  fn next(&mut self) -> Option<Vec<usize>> {
    if self.done {
      None
    }
    else {
      let mut found = false;
      let res = self.position.clone();
      for i in 0..self.quantities.len() {
        if self.position[i] < self.quantities[i]-1 {
          self.position[i] += 1;
          for j in 0..i { self.position[j] = 0 }
          found = true;
          break;
        }
      }
      if !found {
        self.done = true;
      }
      Some(res)
    }
  }
}

fn find_alias_mappings<'a>(f: &'a f::Layout) -> HashMap<String, Vec<&'a AliasMapping>> {
  use f::*;
  
  let mut res = HashMap::new();
  
  for m in &f.mappings {
    match m {
      Mapping::Alias(alias) => {
        match res.get_mut(&alias.to.terminal) {
          None => {
            res.insert(alias.to.terminal.clone(), vec![alias]);
          },
          Some(list) => {
            list.push(alias)
          }
        }
      },
      _ => ()
    }
  }
  
  res
}

#[cfg(test)]
mod tests {
  use std::collections::HashMap;
  use f::KeyCode;
  use KeyCode::*;
  use crate::fancy_layout_interpreting::convert_row;

use super::{multiply, convert_row_to, convert};
  use super::{convert_single, f, s};
  use f::AliasMapping as AM;
  use f::AliasFromKeys as AFK;
  use f::AliasToKeys as ATK;
  use f::SingleMapping as SM;
  use f::SingleFromKeys as SFK;
  use f::SingleToKeys as STK;
  use f::RowMapping as RM;
  use f::RowFromKeys as RFK;
  use f::RowToKeys as RTK;
  use f::SingleTerminalToKey::Physical;
  use f::Modifier::Alias;
  use f::Modifier::Key;

  // https://stackoverflow.com/a/74854187/371739
  pub trait ToOwnedExt where Self : ToOwned {
    /// Simply an alias for `.to_owned()`.
    fn o(&self) -> <Self as ToOwned>::Owned {
      self.to_owned()
    }
  }
  impl<T: ?Sized> ToOwnedExt for T where T: ToOwned {}
  
  #[test]
  fn test_combinations_1() {
    let quantities = vec![2, 2];
    let res: Vec<Vec<usize>> = multiply(&quantities).collect();
    assert_eq!(res, vec![
      vec![0, 0],
      vec![1, 0],
      vec![0, 1],
      vec![1, 1],
    ]);
  }
  
  #[test]
  fn test_single_convert_1() {
    let mut alias_mappings = HashMap::new();
    let leftshift_shift = AM { from: AFK { keys: vec![LEFTSHIFT] }, to: ATK { initial: vec![], terminal: "@shift".o() } };
    let rightshift_shift = AM { from: AFK { keys: vec![RIGHTSHIFT] }, to: ATK { initial: vec![], terminal: "@shift".o() } };
    alias_mappings.insert("@shift".o(), vec![
      &leftshift_shift,
      &rightshift_shift
    ]);
    
    let single = SM {
      from: SFK { modifiers: vec![Alias("@shift".o())], key: E },
      to: STK { initial: vec![Alias("@shift".o())], terminal: Physical(DOT) },
      repeat: f::SingleRepeat::Special { keys: STK { initial: vec![Key(LEFTCTRL)], terminal: Physical(K3) }, delay_ms: 50, interval_ms: 30 },
      absorbing: vec![Alias("@shift".o())]
    };
    
    let res = convert_single(&alias_mappings, &single).unwrap();
    assert_eq!(res.len(), 2);
    assert_eq!(res[0], 
      s::Mapping { from: vec![LEFTSHIFT, E], to: vec![LEFTSHIFT, DOT], repeat: s::Repeat::Special { keys: vec![LEFTCTRL, K3], delay_ms: 50, interval_ms: 30 }, absorbing: vec![LEFTSHIFT]  }
    );
    assert_eq!(res[1],
      s::Mapping { from: vec![RIGHTSHIFT, E], to: vec![RIGHTSHIFT, DOT], repeat: s::Repeat::Special { keys: vec![LEFTCTRL, K3], delay_ms: 50, interval_ms: 30 }, absorbing: vec![RIGHTSHIFT]  }
    );
  }
  
  #[test]
  fn test_row_convert_1() {
    let mut alias_mappings = HashMap::new();
    let leftshift_shift = AM { from: AFK { keys: vec![LEFTSHIFT] }, to: ATK { initial: vec![], terminal: "@shift".o() } };
    let rightshift_shift = AM { from: AFK { keys: vec![RIGHTSHIFT] }, to: ATK { initial: vec![], terminal: "@shift".o() } };
    alias_mappings.insert("@shift".o(), vec![
      &leftshift_shift,
      &rightshift_shift
    ]);
    
    let row = RM {
      from: RFK { modifiers: vec![Alias("@shift".o())], row: f::Row::USQuertyA },
      to: RTK { initial: vec![], terminal: "AOEU".o() },
      repeat: f::RowRepeat::Special { keys: RTK { initial: vec![], terminal: "aoeu".o() }, delay_ms: 50, interval_ms: 30 },
      absorbing: vec![Alias("@shift".o())]
    };
    
    use s::Repeat::Special as SRS;
    use s::Mapping as SM;
    
    use KeyCode::LEFTSHIFT as LS;
    use KeyCode::RIGHTSHIFT as RS;
    
    let res = convert_row(&alias_mappings, &row).unwrap();
    assert_eq!(res.len(), 8);
    
    assert_eq!(res[0], SM { from: vec![LS, A], to: vec![LS, A], repeat: SRS { keys: vec![A], delay_ms: 50, interval_ms: 30 }, absorbing: vec![LS]  });
    assert_eq!(res[1], SM { from: vec![LS, S], to: vec![LS, O], repeat: SRS { keys: vec![O], delay_ms: 50, interval_ms: 30 }, absorbing: vec![LS]  });
    assert_eq!(res[2], SM { from: vec![LS, D], to: vec![LS, E], repeat: SRS { keys: vec![E], delay_ms: 50, interval_ms: 30 }, absorbing: vec![LS]  });
    assert_eq!(res[3], SM { from: vec![LS, F], to: vec![LS, U], repeat: SRS { keys: vec![U], delay_ms: 50, interval_ms: 30 }, absorbing: vec![LS]  });
    
    assert_eq!(res[4], SM { from: vec![RS, A], to: vec![RS, A], repeat: SRS { keys: vec![A], delay_ms: 50, interval_ms: 30 }, absorbing: vec![RS]  });
    assert_eq!(res[5], SM { from: vec![RS, S], to: vec![RS, O], repeat: SRS { keys: vec![O], delay_ms: 50, interval_ms: 30 }, absorbing: vec![RS]  });
    assert_eq!(res[6], SM { from: vec![RS, D], to: vec![RS, E], repeat: SRS { keys: vec![E], delay_ms: 50, interval_ms: 30 }, absorbing: vec![RS]  });
    assert_eq!(res[7], SM { from: vec![RS, F], to: vec![RS, U], repeat: SRS { keys: vec![U], delay_ms: 50, interval_ms: 30 }, absorbing: vec![RS]  });
  }
  
  #[test]
  fn test_row_convert_2() {
    let mut alias_mappings = HashMap::new();
    let leftshift_shift = AM { from: AFK { keys: vec![LEFTSHIFT] }, to: ATK { initial: vec![], terminal: "@shift".o() } };
    alias_mappings.insert("@shift".o(), vec![
      &leftshift_shift,
    ]);
    
    let row = RM {
      from: RFK { modifiers: vec![Alias("@shift".o())], row: f::Row::USQuertyA },
      to: RTK { initial: vec![], terminal: "A".o() },
      repeat: f::RowRepeat::Normal,
      absorbing: vec![]
    };
    
    use s::Mapping as SM;
    
    use KeyCode::LEFTSHIFT as LS;
    
    let res = convert_row(&alias_mappings, &row).unwrap();
    assert_eq!(res.len(), 1);
    assert_eq!(res[0], SM { from: vec![LS, A], to: vec![LS, A], repeat: s::Repeat::Normal, absorbing: vec![]  });
  }
  
  #[test]
  fn test_convert_row_to_1() {
    // fn convert_row_to(has_right_shift: bool, modifiers: &Vec<KeyCode>, terminals: &Vec<char>, char_i: usize) -> Result<Option<Vec<KeyCode>>, String>
    let modifiers = vec![];
    let terminals = vec!['A'];
    let res = convert_row_to(false, &modifiers, &terminals, 0).unwrap().unwrap();
    assert_eq!(res, vec![LEFTSHIFT, A]);
  }
  
  #[test]
  fn test_repeat_only_1() {
    let layout_json = r#"{
  "mappings": [
    {"from": "LEFTSHIFT", "to": "@shift"},
    {"from": ["@shift", {"row": "A"}], "to": {"letters": "S"}},
    {"from": ["@shift", "A"], "repeat": {"Special": {"keys": "F24", "delay_ms": 180, "interval_ms": 30}}}
  ]
}"#;
    let layout_v = serde_json::from_str(layout_json).unwrap();
    let fancy_layout = crate::layout_parsing_formatting::parse_layout_from_json(&layout_v).unwrap();
    let simple_layout = convert(&fancy_layout).unwrap();
    assert_eq!(simple_layout.mappings.len(), 1);
    use s::Mapping as SM;
    use KeyCode::LEFTSHIFT as LS;
    assert_eq!(simple_layout.mappings[0], SM { from: vec![LS, A], to: vec![LS, S], repeat: s::Repeat::Special {
      keys: vec![F24], delay_ms: 180, interval_ms: 30 }, absorbing: vec![] });
  }

  #[test]
  fn test_caps_q_escape() {
    let layout_json = r#"{
  "mappings": [
    { "from": "CAPSLOCK", "to": [] },
    { "from": ["CAPSLOCK", "Q"], "to": "ESC" }
  ]
}"#;
    let layout_v = serde_json::from_str(layout_json).unwrap();
    let fancy_layout = crate::layout_parsing_formatting::parse_layout_from_json(&layout_v).unwrap();
    let simple_layout = convert(&fancy_layout).unwrap();
    assert_eq!(simple_layout.mappings.len(), 2);
    use s::Mapping as SM;
    assert_eq!(simple_layout.mappings[0], SM { from: vec![CAPSLOCK], to: vec![], repeat: s::Repeat::Normal, absorbing: vec![] });
    assert_eq!(simple_layout.mappings[1], SM { from: vec![CAPSLOCK, Q], to: vec![ESC], repeat: s::Repeat::Normal, absorbing: vec![] });
  }
}

