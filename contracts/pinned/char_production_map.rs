
use lazy_static::lazy_static;
use std::collections::HashMap;
use crate::keys::KeyCode;
use KeyCode::*;

lazy_static! {
  pub static ref CHAR_ACCESS_MAP: HashMap<char, SinkKey> = _char_access_map();
}

pub struct SinkKey {
  pub sh: bool,
  pub k: KeyCode
}

fn _char_access_map() -> HashMap<char, SinkKey> {
  let mut res = HashMap::new();
  
  res.insert('0', SinkKey { sh: false, k: K0 });
  res.insert('1', SinkKey { sh: false, k: K1 });
  res.insert('2', SinkKey { sh: false, k: K2 });
  res.insert('3', SinkKey { sh: false, k: K3 });
  res.insert('4', SinkKey { sh: false, k: K4 });
  res.insert('5', SinkKey { sh: false, k: K5 });
  res.insert('6', SinkKey { sh: false, k: K6 });
  res.insert('7', SinkKey { sh: false, k: K7 });
  res.insert('8', SinkKey { sh: false, k: K8 });
  res.insert('9', SinkKey { sh: false, k: K9 });
  
  res.insert('a', SinkKey { sh: false, k: A });
  res.insert('b', SinkKey { sh: false, k: B });
  res.insert('c', SinkKey { sh: false, k: C });
  res.insert('d', SinkKey { sh: false, k: D });
  res.insert('e', SinkKey { sh: false, k: E });
  res.insert('f', SinkKey { sh: false, k: F });
  res.insert('g', SinkKey { sh: false, k: G });
  res.insert('h', SinkKey { sh: false, k: H });
  res.insert('i', SinkKey { sh: false, k: I });
  res.insert('j', SinkKey { sh: false, k: J });
  res.insert('k', SinkKey { sh: false, k: K });
  res.insert('l', SinkKey { sh: false, k: L });
  res.insert('m', SinkKey { sh: false, k: M });
  res.insert('n', SinkKey { sh: false, k: N });
  res.insert('o', SinkKey { sh: false, k: O });
  res.insert('p', SinkKey { sh: false, k: P });
  res.insert('q', SinkKey { sh: false, k: Q });
  res.insert('r', SinkKey { sh: false, k: R });
  res.insert('s', SinkKey { sh: false, k: S });
  res.insert('t', SinkKey { sh: false, k: T });
  res.insert('u', SinkKey { sh: false, k: U });
  res.insert('v', SinkKey { sh: false, k: V });
  res.insert('w', SinkKey { sh: false, k: W });
  res.insert('x', SinkKey { sh: false, k: X });
  res.insert('y', SinkKey { sh: false, k: Y });
  res.insert('z', SinkKey { sh: false, k: Z });
  
  res.insert('A', SinkKey { sh: true, k: A });
  res.insert('B', SinkKey { sh: true, k: B });
  res.insert('C', SinkKey { sh: true, k: C });
  res.insert('D', SinkKey { sh: true, k: D });
  res.insert('E', SinkKey { sh: true, k: E });
  res.insert('F', SinkKey { sh: true, k: F });
  res.insert('G', SinkKey { sh: true, k: G });
  res.insert('H', SinkKey { sh: true, k: H });
  res.insert('I', SinkKey { sh: true, k: I });
  res.insert('J', SinkKey { sh: true, k: J });
  res.insert('K', SinkKey { sh: true, k: K });
  res.insert('L', SinkKey { sh: true, k: L });
  res.insert('M', SinkKey { sh: true, k: M });
  res.insert('N', SinkKey { sh: true, k: N });
  res.insert('O', SinkKey { sh: true, k: O });
  res.insert('P', SinkKey { sh: true, k: P });
  res.insert('Q', SinkKey { sh: true, k: Q });
  res.insert('R', SinkKey { sh: true, k: R });
  res.insert('S', SinkKey { sh: true, k: S });
  res.insert('T', SinkKey { sh: true, k: T });
  res.insert('U', SinkKey { sh: true, k: U });
  res.insert('V', SinkKey { sh: true, k: V });
  res.insert('W', SinkKey { sh: true, k: W });
  res.insert('X', SinkKey { sh: true, k: X });
  res.insert('Y', SinkKey { sh: true, k: Y });
  res.insert('Z', SinkKey { sh: true, k: Z });
  
  res.insert('!', SinkKey { sh: true, k: K1 });
  res.insert('@', SinkKey { sh: true, k: K2 });
  res.insert('#', SinkKey { sh: true, k: K3 });
  res.insert('$', SinkKey { sh: true, k: K4 });
  res.insert('%', SinkKey { sh: true, k: K5 });
  res.insert('^', SinkKey { sh: true, k: K6 });
  res.insert('&', SinkKey { sh: true, k: K7 });
  res.insert('*', SinkKey { sh: true, k: K8 });
  res.insert('(', SinkKey { sh: true, k: K9 });
  res.insert(')', SinkKey { sh: true, k: K0 });
  
  res.insert(',',  SinkKey { sh: false, k: COMMA });
  res.insert('.',  SinkKey { sh: false, k: DOT });
  res.insert('`',  SinkKey { sh: false, k: GRAVE });
  res.insert('-',  SinkKey { sh: false, k: MINUS });
  res.insert('=',  SinkKey { sh: false, k: EQUAL });
  res.insert('[',  SinkKey { sh: false, k: LEFTBRACE });
  res.insert(']',  SinkKey { sh: false, k: RIGHTBRACE });
  res.insert(';',  SinkKey { sh: false, k: SEMICOLON });
  res.insert('\'', SinkKey { sh: false, k: APOSTROPHE });
  res.insert('/',  SinkKey { sh: false, k: SLASH });
  res.insert('\\', SinkKey { sh: false, k: BACKSLASH });
  
  res.insert('~',  SinkKey { sh: true, k: GRAVE });
  res.insert('_',  SinkKey { sh: true, k: MINUS });
  res.insert('+',  SinkKey { sh: true, k: EQUAL });
  res.insert('{',  SinkKey { sh: true, k: LEFTBRACE });
  res.insert('}',  SinkKey { sh: true, k: RIGHTBRACE });
  res.insert(':',  SinkKey { sh: true, k: SEMICOLON });
  res.insert('"',  SinkKey { sh: true, k: APOSTROPHE });
  res.insert('<',  SinkKey { sh: true, k: COMMA });
  res.insert('>',  SinkKey { sh: true, k: DOT });
  res.insert('?',  SinkKey { sh: true, k: SLASH });
  res.insert('|',  SinkKey { sh: true, k: BACKSLASH });
  
  res
}


