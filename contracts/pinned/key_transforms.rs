
// vim: shiftwidth=2

use crate::keys::{Layout, Mapping, KeyCode, Pressed, Released, Event, Repeat};

use std::collections::HashMap;

fn final_key(trigger: &Vec<KeyCode>) -> KeyCode {
  return trigger[trigger.len() - 1];
}

fn is_supported(trigger: &Vec<KeyCode>, pressed_keys: &Vec<KeyCode>, absorbed_keys: &Vec<KeyCode>, new_key: &KeyCode) -> bool {
  for k in trigger {
    if !((pressed_keys.contains(&k) && !absorbed_keys.contains(&k)) || k == new_key) {
      return false;
    }
  }
  return true;
}

fn fails_when_released(trigger: &Vec<KeyCode>, key: &KeyCode) -> bool {
  for k in trigger {
    if k == key {
      return true;
    }
  }
  return false;
}

#[derive(Debug)]
struct State {
  input_pressed_keys: Vec<KeyCode>,
  active_mappings: Vec<Mapping>,
  pass_through_keys: Vec<KeyCode>,
  mapped_output_keys: Vec<KeyCode>,
  mapped_absorbed_keys: Vec<KeyCode>,
  absorbing_trigger: Option<KeyCode>,
  repeating_trigger: Option<KeyCode>
}

impl State {
  fn init() -> State {
    return State {
      input_pressed_keys: Vec::new(),
      active_mappings: Vec::new(),
      pass_through_keys: Vec::new(),
      mapped_output_keys: Vec::new(),
      mapped_absorbed_keys: Vec::new(),
      absorbing_trigger: None,
      repeating_trigger: None,
    };
  }
}

struct HashedLayout {
  mappings: HashMap<KeyCode, Vec<Mapping>>
}

fn make_hashed_layout(layout: &Layout) -> HashedLayout {
  let mut mappings: HashMap<KeyCode, Vec<Mapping>> = HashMap::new();

  for mapping in &layout.mappings {
    for i in 0 .. mapping.from.len() {
      for j in i+1 .. mapping.from.len() {
        if mapping.from[i] == mapping.from[j] {
          panic!("Duplicate key in from");
        }
      }
    }
    
    for i in 0 .. mapping.to.len() {
      for j in i+1 .. mapping.to.len() {
        if mapping.to[i] == mapping.to[j] {
          panic!("Duplicate key in to");
        }
      }
    }
  }
  
  for mapping in &layout.mappings {
    let last = final_key(&mapping.from);
    
    match mappings.get_mut(&last) {
      None => {
        mappings.insert(last, vec![mapping.clone()]);
      },
      Some(existing) => {
        existing.push(mapping.clone());
      }
    }
  }
  
  HashedLayout { mappings }
}

pub struct Mapper {
  layout: HashedLayout,
  state: State
}

#[derive(Debug, Eq, PartialEq)]
pub enum ResultingRepeat {
  Disabled,
  NoChange,
  Repeating {
    keys: Vec<KeyCode>,
    delay_ms: i32,
    interval_ms: i32
  },
}

#[derive(Debug, Eq, PartialEq)]
pub struct StepResult {
  pub events: Vec<Event>,
  pub repeat: ResultingRepeat
}

impl StepResult {
  fn empty() -> StepResult {
    StepResult {
      events: vec![],
      repeat: ResultingRepeat::Disabled
    }
  }
  
  fn append(&mut self, mut other: StepResult) {
    self.repeat = other.repeat;
    self.events.append(&mut other.events);
  }
}

impl Mapper {
  pub fn for_layout(layout: &Layout) -> Mapper {
    Mapper {
      layout: make_hashed_layout(layout),
      state: State::init()
    }
  }
  
  pub fn step(self: &mut Mapper, input: Event) -> StepResult {
    let state = &mut self.state;

    match input {
      Pressed(k) => {
        if !state.input_pressed_keys.contains(&k) {
          newly_press(self, k)
        }
        else {
          StepResult {
            events: vec![],
            repeat: ResultingRepeat::NoChange
          }
        }
      },
      Released(k) => {
        if state.input_pressed_keys.contains(&k) {
          newly_release(self, k)
        }
        else {
          StepResult {
            events: vec![],
            repeat: ResultingRepeat::NoChange
          }
        }
      }
    }
  }
  
  pub fn is_held_on_output(self: &Mapper, k: &KeyCode) -> bool {
    self.state.pass_through_keys.contains(k) || self.state.mapped_output_keys.contains(k)
  }
  
  pub fn release_all(self: &mut Mapper) -> Vec<Event> {
    let to_release = self.state.input_pressed_keys.clone();
    
    let mut events: Vec<Event> = Vec::new();
    
    for k in to_release {
      let mut chunk = self.step(Released(k));
      events.append(&mut chunk.events);
    }
    
    events
  }
}

fn is_action_key(k: &KeyCode) -> bool {
  use KeyCode::{LEFTSHIFT, RIGHTSHIFT, LEFTMETA, RIGHTMETA, LEFTCTRL, RIGHTCTRL, LEFTALT, RIGHTALT};
  
  match k {
    LEFTSHIFT => false,
    RIGHTSHIFT => false,
    LEFTMETA => false,
    RIGHTMETA => false,
    LEFTCTRL => false,
    RIGHTCTRL => false,
    LEFTALT => false,
    RIGHTALT => false,
    _ => true
  }
}

fn is_action_mapping(m: &Mapping) -> bool {
  if m.to.len() == 0 {
    false
  }
  else {
    let last_key = &m.to[m.to.len() - 1];
    is_action_key(last_key)
  }
}

fn has_action_key(keys: &Vec<KeyCode>) -> bool {
  for k in keys {
    if is_action_key(k) {
      return true;
    }
  }
  return false;
}

fn is_any_modifier(keys: &Vec<KeyCode>) -> bool {
  keys.iter().any(|k| !is_action_key(k))
}

fn release_action_mappings(state: &mut State) -> Vec<Event> {
  let mut events = Vec::new();
  
  let mut keys_to_release: Vec<KeyCode> = Vec::new();
  for exsting_mapping in &state.active_mappings {
    if is_action_mapping(exsting_mapping) {
      if exsting_mapping.to.len() > 1 && is_any_modifier(&exsting_mapping.to) {
        for mod_key in exsting_mapping.to.iter().rev() {
          if state.mapped_output_keys.contains(mod_key) && !keys_to_release.contains(mod_key) {
            keys_to_release.push(*mod_key);
          }
        }
      }
    }
  }
  
  for k in &keys_to_release {
    events.push(Released(*k));
  }
  state.mapped_output_keys.retain(|&k| {
    !keys_to_release.contains(&k)
  });
  state.pass_through_keys.retain(|&k| {
    !keys_to_release.contains(&k)
  });
  
  events
}

fn add_new_mapping(state: &mut State, new_key: &KeyCode, m: &Mapping) -> StepResult {
  let mut events: Vec<Event> = Vec::new();
  
  if is_action_mapping(m) {
    events.append(&mut release_action_mappings(state));
  }
  if has_action_key(&m.to) {
    let should_absorb = {
      match &state.absorbing_trigger {
        Some(absorbing_trigger) => *absorbing_trigger != *new_key,
        None => true
      }
    };
    if should_absorb {
      events.append(&mut release_absorbed_keys(state));
    }
  }
  
  let pass_through_keys = &mut state.pass_through_keys;
  let mapped_output_keys = &mut state.mapped_output_keys;
  
  pass_through_keys.retain(|&old_key| {
    if m.from.contains(&old_key) || m.to.contains(&old_key) {
      if !m.to.contains(&old_key) {
        events.push(Released(old_key));
        false
      }
      else {
        mapped_output_keys.push(old_key);
        false
      }
    }
    else {
      true
    }
  });
  
  for new_key in &m.to {
    if is_action_key(new_key) {
      if state.mapped_output_keys.contains(new_key) {
        events.push(Released(*new_key));
        events.push(Pressed(*new_key));
      }
      else {
        if state.pass_through_keys.contains(new_key) {
          events.push(Released(*new_key));
          events.push(Pressed(*new_key));
          state.pass_through_keys.retain(|k2| k2 != new_key);
          state.mapped_output_keys.push(*new_key);
        }
        else {
          events.push(Pressed(*new_key));
          state.mapped_output_keys.push(*new_key);
        }
      }
    }
    else {
      if !state.mapped_output_keys.contains(new_key) && !state.pass_through_keys.contains(new_key) {
        events.push(Pressed(*new_key));
        state.mapped_output_keys.push(*new_key);
      }
    }
  }
  
  for absorbed_key in &m.absorbing {
    if !state.mapped_absorbed_keys.contains(absorbed_key) {
      state.mapped_absorbed_keys.push(*absorbed_key);
    }
  }
  if m.absorbing.len() > 0 {
    state.absorbing_trigger = Some(*new_key);
  }
  
  state.active_mappings.push(m.clone());
  
  let mut res = StepResult {
    events,
    repeat: ResultingRepeat::Disabled
  };
  
  match &m.repeat {
    Repeat::Normal => {
      // OK, nothing to do
    },
    Repeat::Disabled => {
      // Release all action keys to prevent repeating
      res.events.append(&mut release_all_action_keys(state));
    },
    Repeat::Special { keys, delay_ms, interval_ms } => {
      // First release action keys
      res.events.append(&mut release_all_action_keys(state));

      // Now tell it what key to repeat
      res.repeat = ResultingRepeat::Repeating {
        keys: keys.clone(),
        delay_ms: *delay_ms,
        interval_ms: *interval_ms
      };
      
      // Save the key that triggered it so we can stop
      // the mapping when the key is released
      state.repeating_trigger = Some(*new_key);
    }
  };
        
  res
}

fn release_all_action_keys(state: &mut State) -> Vec<Event> {
  let mut to_release: Vec<KeyCode> = Vec::new();
  
  state.pass_through_keys.retain(|k| {
    if is_action_key(k) {
      to_release.push(*k);
      false
    }
    else {
      true
    }
  });
  
  state.mapped_output_keys.retain(|k| {
    if is_action_key(k) {
      to_release.push(*k);
      false
    }
    else {
      true
    }
  });
  
  to_release.iter().map(|k| Released(*k)).collect()
}

fn release_absorbed_keys(state: &mut State) -> Vec<Event> {
  let mut events: Vec<Event> = Vec::new();
  
  let mut to_remove: Vec<KeyCode> = Vec::new();
  to_remove.append(&mut state.mapped_absorbed_keys);
  state.absorbing_trigger = None;
  
  for k in to_remove {
    {
      let mut i: isize = state.active_mappings.len() as isize - 1;
      while i >= 0 {
        if fails_when_released(&state.active_mappings[i as usize].from, &k) {
          events.append(&mut remove_mapping(state, i as usize, k));
        }
        i -= 1;
      }
    }
    
    for i in (0 .. state.pass_through_keys.len()).rev() {
      if state.pass_through_keys[i] == k {
        events.push(Released(k));
        state.pass_through_keys.remove(i);
        break;
      }
    }
    
    state.input_pressed_keys.retain(|k2| *k2 != k);
  }
  
  events
}

fn newly_press(mapper: &mut Mapper, k: KeyCode) -> StepResult {
  let mappings = &mapper.layout.mappings;
  let mut state = &mut mapper.state;
  
  let mut res: StepResult = StepResult::empty();
  
  let mut any_hit: bool = false;
  
  state.mapped_absorbed_keys.retain(|k2| *k2 != k);
  state.repeating_trigger = None;
  
  if let Some(mappings) = mappings.get(&k) {
    let should_absorb = {
      match &state.absorbing_trigger {
        Some(absorbing_trigger) => *absorbing_trigger != k,
        None => true
      }
    };
    
    let absorbed_keys = {
      if should_absorb {
        state.mapped_absorbed_keys.clone()
      }
      else {
        vec![]
      }
    };
    
    for mapping in mappings.iter().rev() {
      if is_supported(&mapping.from, &state.input_pressed_keys, &absorbed_keys, &k) {
        res.append(add_new_mapping(&mut state, &k, &mapping));
        any_hit = true;
        break;
      }
    }
  }
  
  if !any_hit {
    for m in &state.active_mappings {
      if m.from.contains(&k) {
        any_hit = true;
        break;
      }
      else if m.to.contains(&k) {
        any_hit = true;
        break;
      }
    }
  }
  
  if !any_hit {
    if !state.pass_through_keys.contains(&k) {
      if is_action_key(&k) {
        res.events.append(&mut release_action_mappings(&mut state));
        res.events.append(&mut release_absorbed_keys(&mut state));
      }
      
      res.events.push(Pressed(k));
      state.pass_through_keys.push(k);
    }
  }
  
  state.input_pressed_keys.push(k);
  
  res
}

fn remove_mapping(state: &mut State, i: usize, removed_key: KeyCode) -> Vec<Event> {
  let mut res: Vec<Event> = Vec::new();
  
  let active_mappings = &mut state.active_mappings;
  let input_pressed_keys = &state.input_pressed_keys;
  let pass_through_keys = &mut state.pass_through_keys;

  for mapped_output_i in (0 .. state.mapped_output_keys.len()).rev() {
    let k = state.mapped_output_keys[mapped_output_i];
    
    let mut still_used: bool = false;
    for j in 0 .. active_mappings.len() {
      if j != i {
        if active_mappings[j].to.contains(&k) {
          still_used = true;
          break;
        }
      }
    }

    if !still_used {
      if input_pressed_keys.contains(&k) && k != removed_key {
        let mut still_shadowed = false;
        for j in 0 .. active_mappings.len() {
          if j != i {
            if active_mappings[j].from.contains(&k) {
              still_shadowed = true;
              break;
            }
          }
        }
        if !still_shadowed {
          pass_through_keys.push(k);
        }
        else {
          res.push(Released(k));
        }
      }
      else {
        res.push(Released(k));
      }
    }
    
    if !still_used {
      state.mapped_output_keys.remove(mapped_output_i);
    }
  }
    
  active_mappings.remove(i);
  
  return res;
}

fn newly_release(mapper: &mut Mapper, k: KeyCode) -> StepResult {
  let state = &mut mapper.state;
  
  let mut events: Vec<Event> = Vec::new();
  
  let mut i: isize = state.active_mappings.len() as isize - 1;
  while i >= 0 {
    if fails_when_released(&state.active_mappings[i as usize].from, &k) {
      events.append(&mut remove_mapping(state, i as usize, k));
    }
    i -= 1;
  }
  
  for i in (0 .. state.pass_through_keys.len()).rev() {
    if state.pass_through_keys[i] == k {
      events.push(Released(k));
      state.pass_through_keys.remove(i);
      break;
    }
  }
  
  state.input_pressed_keys.retain(|&old_key| {
    old_key != k
  });
  
  let repeat = ResultingRepeat::Disabled;
  
  StepResult { events, repeat }
}

#[cfg(test)]
mod tests {
  use super::*;
  use KeyCode::*;
  use std::default::Default;
  
  #[test]
  fn test_most_basic() {
    let layout = Layout {
      mappings: vec![
        Mapping { from: vec![A], to: vec![B], ..Default::default() },
      ]
    };
    let mut mapper = Mapper::for_layout(&layout);
    assert_eq!(vec![Pressed(B)], mapper.step(Pressed(A)).events);
  }
  
  #[test]
  fn test_single_key_remap() {
    let layout = Layout {
      mappings: vec![
        Mapping { from: vec![A], to: vec![B], ..Default::default() },
      ]
    };
    let mut mapper = Mapper::for_layout(&layout);
    assert_eq!(vec![Pressed(B)], mapper.step(Pressed(A)).events);
    assert_eq!(vec![Released(B)], mapper.step(Released(A)).events);
    assert_eq!(vec![Pressed(C)], mapper.step(Pressed(C)).events);
    assert_eq!(vec![Released(C)], mapper.step(Released(C)).events);
    assert_eq!(vec![Pressed(LEFTSHIFT)], mapper.step(Pressed(LEFTSHIFT)).events);
    assert_eq!(vec![Pressed(B)], mapper.step(Pressed(A)).events);
  }
  
  #[test]
  fn test_multi_key_overlap() {
    let layout = Layout {
      mappings: vec![
        Mapping { from: vec![CAPSLOCK], to: vec![], ..Default::default() },
        Mapping { from: vec![CAPSLOCK, M], to: vec![LEFTSHIFT, EQUAL], ..Default::default() },
        Mapping { from: vec![CAPSLOCK, U], to: vec![EQUAL], ..Default::default() },
      ]
    };
    let mut mapper = Mapper::for_layout(&layout);
    let empty: Vec<Event> = Vec::new();
    
    assert_eq!(empty, mapper.step(Pressed(CAPSLOCK)).events);
    assert_eq!(vec![Pressed(LEFTSHIFT), Pressed(EQUAL)], mapper.step(Pressed(M)).events);
    assert_eq!(vec![Released(EQUAL), Released(LEFTSHIFT), Pressed(EQUAL)], mapper.step(Pressed(U)).events);
  }
  
  #[test]
  fn test_super_multi() {
    let layout = Layout {
      mappings: vec![
        Mapping { from: vec![CAPSLOCK], to: vec![], ..Default::default() },
        Mapping { from: vec![TAB], to: vec![], ..Default::default() },
        Mapping { from: vec![F], to: vec![U], ..Default::default() },
        Mapping { from: vec![N], to: vec![B], ..Default::default() },
        Mapping { from: vec![CAPSLOCK, M], to: vec![LEFTSHIFT, EQUAL], ..Default::default() },
        Mapping { from: vec![CAPSLOCK, F], to: vec![EQUAL], ..Default::default() },
        Mapping { from: vec![CAPSLOCK, N], to: vec![LEFTSHIFT, K1], ..Default::default() },
        Mapping { from: vec![TAB, M], to: vec![PAGEDOWN], ..Default::default() },
        Mapping { from: vec![TAB, N], to: vec![LEFTCTRL, LEFT], ..Default::default() },
      ]
    };
    let mut mapper = Mapper::for_layout(&layout);
    
    let empty: Vec<Event> = Vec::new();
    
    assert_eq!(vec![Pressed(LEFTSHIFT)], mapper.step(Pressed(LEFTSHIFT)).events);
    assert_eq!(empty, mapper.step(Pressed(TAB)).events);
    assert_eq!(vec![Pressed(LEFTCTRL), Pressed(LEFT)], mapper.step(Pressed(N)).events);
    assert_eq!(vec![Released(LEFT), Released(LEFTCTRL)], mapper.step(Released(N)).events);
    assert_eq!(empty, mapper.step(Released(TAB)).events);
    assert_eq!(vec![Pressed(M)], mapper.step(Pressed(M)).events);
    assert_eq!(vec![Released(M)], mapper.step(Released(M)).events);
    assert_eq!(vec![Released(LEFTSHIFT)], mapper.step(Released(LEFTSHIFT)).events);
    assert_eq!(empty, mapper.step(Pressed(CAPSLOCK)).events);
    assert_eq!(vec![Pressed(LEFTSHIFT), Pressed(EQUAL)], mapper.step(Pressed(M)).events);
  }
  
  #[test]
  fn no_repeat_test_1() {
    let layout = Layout {
      mappings: vec![
        Mapping { from: vec![A], to: vec![A], repeat: Repeat::Disabled, ..Default::default() },
        Mapping { from: vec![B], to: vec![B], repeat: Repeat::Normal, ..Default::default() },
      ]
    };
    
    let mut mapper = Mapper::for_layout(&layout);
    
    assert_eq!(StepResult { events: vec![Pressed(A), Released(A)], repeat: ResultingRepeat::Disabled }, mapper.step(Pressed(A)));
    assert_eq!(StepResult { events: vec![], repeat: ResultingRepeat::Disabled }, mapper.step(Released(A)));
    assert_eq!(StepResult { events: vec![Pressed(B)], repeat: ResultingRepeat::Disabled }, mapper.step(Pressed(B)));
    assert_eq!(StepResult { events: vec![Released(B)], repeat: ResultingRepeat::Disabled }, mapper.step(Released(B)));
  }
  
  #[test]
  fn no_repeat_test_2() {
    let layout = Layout {
      mappings: vec![
        Mapping { from: vec![A], to: vec![A], repeat: Repeat::Disabled, ..Default::default() },
        Mapping { from: vec![B], to: vec![B], repeat: Repeat::Normal, ..Default::default() },
      ]
    };
    
    let mut mapper = Mapper::for_layout(&layout);
    
    assert_eq!(StepResult { events: vec![Pressed(LEFTSHIFT)], repeat: ResultingRepeat::Disabled }, mapper.step(Pressed(LEFTSHIFT)));
    assert_eq!(StepResult { events: vec![Pressed(A), Released(A)], repeat: ResultingRepeat::Disabled }, mapper.step(Pressed(A)));
    assert_eq!(StepResult { events: vec![], repeat: ResultingRepeat::Disabled }, mapper.step(Released(A)));
    assert_eq!(StepResult { events: vec![Pressed(B)], repeat: ResultingRepeat::Disabled }, mapper.step(Pressed(B)));
    assert_eq!(StepResult { events: vec![Released(B)], repeat: ResultingRepeat::Disabled }, mapper.step(Released(B)));
  }
  
  #[test]
  fn custom_repeat_test_1() {
    let layout = Layout {
      mappings: vec![
        Mapping { from: vec![A], to: vec![A], repeat: Repeat::Disabled, ..Default::default() },
        Mapping { from: vec![B], to: vec![B], repeat: Repeat::Special { keys: vec![C], delay_ms: 130, interval_ms: 30 }, ..Default::default() },
      ]
    };
    
    let mut mapper = Mapper::for_layout(&layout);
    
    assert_eq!(StepResult { events: vec![Pressed(LEFTSHIFT)], repeat: ResultingRepeat::Disabled }, mapper.step(Pressed(LEFTSHIFT)));
    assert_eq!(StepResult { events: vec![Pressed(A), Released(A)], repeat: ResultingRepeat::Disabled }, mapper.step(Pressed(A)));
    assert_eq!(StepResult { events: vec![], repeat: ResultingRepeat::Disabled }, mapper.step(Released(A)));
    assert_eq!(StepResult { events: vec![Pressed(B), Released(B)], repeat: ResultingRepeat::Repeating { keys: vec![C], delay_ms: 130, interval_ms: 30 } }, mapper.step(Pressed(B)));
    assert_eq!(StepResult { events: vec![], repeat: ResultingRepeat::Disabled }, mapper.step(Released(B)));
  }

  #[test]
  fn custom_repeat_test_2() {
    let layout = Layout {
      mappings: vec![
        Mapping { from: vec![A], to: vec![A], repeat: Repeat::Disabled, ..Default::default() },
        Mapping { from: vec![B], to: vec![B], repeat: Repeat::Special { keys: vec![LEFTCTRL, C], delay_ms: 130, interval_ms: 30 }, ..Default::default() },
      ]
    };
    
    let mut mapper = Mapper::for_layout(&layout);
    
    assert_eq!(StepResult { events: vec![Pressed(LEFTSHIFT)], repeat: ResultingRepeat::Disabled }, mapper.step(Pressed(LEFTSHIFT)));
    assert_eq!(StepResult { events: vec![Pressed(A), Released(A)], repeat: ResultingRepeat::Disabled }, mapper.step(Pressed(A)));
    assert_eq!(StepResult { events: vec![], repeat: ResultingRepeat::Disabled }, mapper.step(Released(A)));
    assert_eq!(StepResult { events: vec![Pressed(B), Released(B)], repeat: ResultingRepeat::Repeating { keys: vec![LEFTCTRL, C], delay_ms: 130, interval_ms: 30 } }, mapper.step(Pressed(B)));
    assert_eq!(StepResult { events: vec![], repeat: ResultingRepeat::Disabled }, mapper.step(Released(B)));
  }

  #[test]
  fn overlapping_repeat_test_1() {
    let layout = Layout {
      mappings: vec![
        Mapping { from: vec![A], to: vec![C], repeat: Repeat::Normal, ..Default::default() },
        Mapping { from: vec![B], to: vec![D], repeat: Repeat::Special { keys: vec![E], delay_ms: 130, interval_ms: 30 }, ..Default::default() },
      ]
    };
    
    let mut mapper = Mapper::for_layout(&layout);
    
    assert_eq!(
      StepResult { events: vec![Pressed(C)], repeat: ResultingRepeat::Disabled },
      mapper.step(Pressed(A))
    );
    assert_eq!(
      StepResult {
        events: vec![Pressed(D), Released(C), Released(D)],
        repeat: ResultingRepeat::Repeating { keys: vec![E], delay_ms: 130, interval_ms: 30 }
      },
      mapper.step(Pressed(B))
    );
    assert_eq!(
      StepResult { events: vec![], repeat: ResultingRepeat::Disabled },
      mapper.step(Released(A))
    );
  }

  #[test]
  fn absorbing_test_1() {
    let layout = Layout {
      mappings: vec![
        Mapping { from: vec![LEFTSHIFT, A], to: vec![LEFTSHIFT, A], absorbing: vec![LEFTSHIFT], ..Default::default() },
      ]
    };
    
    let mut mapper = Mapper::for_layout(&layout);
    
    assert_eq!(StepResult { events: vec![Pressed(LEFTSHIFT)], repeat: ResultingRepeat::Disabled }, mapper.step(Pressed(LEFTSHIFT)));
    assert_eq!(StepResult { events: vec![Pressed(A)], repeat: ResultingRepeat::Disabled }, mapper.step(Pressed(A)));
    assert_eq!(StepResult { events: vec![Released(A), Released(LEFTSHIFT), Pressed(B)], repeat: ResultingRepeat::Disabled }, mapper.step(Pressed(B)));
  }
  
  #[test]
  fn absorbing_double_press_test_1() {
    let layout = Layout {
      mappings: vec![
        Mapping { from: vec![LEFTSHIFT, A], to: vec![LEFTSHIFT, A], absorbing: vec![LEFTSHIFT], ..Default::default() },
        Mapping { from: vec![LEFTSHIFT, B], to: vec![LEFTSHIFT, B], absorbing: vec![LEFTSHIFT], ..Default::default() },
      ]
    };
    
    let mut mapper = Mapper::for_layout(&layout);
    
    assert_eq!(vec![Pressed(LEFTSHIFT)], mapper.step(Pressed(LEFTSHIFT)).events);
    assert_eq!(vec![Pressed(A)], mapper.step(Pressed(A)).events);
    assert_eq!(vec![Released(A)], mapper.step(Released(A)).events);
    assert_eq!(vec![Released(LEFTSHIFT), Pressed(B)], mapper.step(Pressed(B)).events);
  }
  
  #[test]
  fn absorbing_double_press_test_2() {
    let layout = Layout {
      mappings: vec![
        Mapping { from: vec![Z], to: vec![APOSTROPHE], ..Default::default() },
        Mapping { from: vec![RIGHTSHIFT, Z], to: vec![LEFTSHIFT, APOSTROPHE], absorbing: vec![RIGHTSHIFT], ..Default::default() },
      ]
    };
    
    let mut mapper = Mapper::for_layout(&layout);
    
    assert_eq!(vec![Pressed(RIGHTSHIFT)], mapper.step(Pressed(RIGHTSHIFT)).events);
    assert_eq!(vec![Released(RIGHTSHIFT), Pressed(LEFTSHIFT), Pressed(APOSTROPHE)], mapper.step(Pressed(Z)).events);
    assert_eq!(vec![Released(APOSTROPHE), Released(LEFTSHIFT)], mapper.step(Released(Z)).events);
    assert_eq!(vec![Pressed(LEFTSHIFT), Pressed(APOSTROPHE)], mapper.step(Pressed(Z)).events);
  }
  
  #[test]
  fn allowed_overlapping_test_1() {
    // This tests, where possible, overlapping keys are allowed.
    let layout = Layout {
      mappings: vec![
        Mapping { from: vec![A], to: vec![B], ..Default::default() },
        Mapping { from: vec![C], to: vec![D], ..Default::default() },
      ]
    };
    
    let mut mapper = Mapper::for_layout(&layout);
    
    assert_eq!(vec![Pressed(B)], mapper.step(Pressed(A)).events);
    assert_eq!(vec![Pressed(D)], mapper.step(Pressed(C)).events);
  }
  
  #[test]
  fn disallowed_overlapping_test_1() {
    // This tests that certain problematic overlaps are rejected
    let layout = Layout {
      mappings: vec![
        Mapping { from: vec![A], to: vec![LEFTSHIFT, B], ..Default::default() },
        Mapping { from: vec![C], to: vec![D], ..Default::default() },
      ]
    };
    
    let mut mapper = Mapper::for_layout(&layout);
    
    assert_eq!(vec![Pressed(LEFTSHIFT), Pressed(B)], mapper.step(Pressed(A)).events);
    assert_eq!(vec![Released(B), Released(LEFTSHIFT), Pressed(D)], mapper.step(Pressed(C)).events);
  }
}

