
use crate::key_codes::KeyCode;

#[derive(Debug, PartialEq, Eq, Clone)]
pub enum Event {
  Pressed(KeyCode),
  Released(KeyCode)
}

