
// vim: shiftwidth=2
 
use serde::{Deserialize, Serialize};
pub use crate::key_codes::KeyCode; 
use std::default::Default;
pub use crate::events::Event;
pub use Event::Pressed;
pub use Event::Released;

#[derive(Debug, Clone, Serialize, Deserialize, PartialEq, Eq)]
pub struct Mapping {
  pub from: Vec<KeyCode>,
  pub to: Vec<KeyCode>,
  #[serde(default = "normal_repeat")]
  pub repeat: Repeat,
  #[serde(default = "Vec::new")]
  pub absorbing: Vec<KeyCode>
}

impl Default for Mapping {
  fn default() -> Self {
    Mapping {
      from: vec![],
      to: vec![],
      repeat: Repeat::Normal,
      absorbing: vec![]
    }
  }
}

#[derive(Debug, Clone, Serialize, Deserialize, PartialEq, Eq)]
pub enum Repeat {
  Normal,
  Disabled,
  Special {
    keys: Vec<KeyCode>,
    delay_ms: i32,
    interval_ms: i32
  }
}

pub fn normal_repeat() -> Repeat {
  Repeat::Normal
}

#[derive(Debug, Serialize, Deserialize, Clone)]
pub struct Layout {
  pub mappings: Vec<Mapping>
}

