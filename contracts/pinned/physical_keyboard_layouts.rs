
use crate::{fancy_keys::Row, key_codes::KeyCode};
use lazy_static::lazy_static;
use std::collections::HashMap;
use KeyCode::*;

lazy_static! {
  pub static ref US_KEYBOARD_LAYOUT: HashMap<Row, &'static [KeyCode]> = _us_keyboard_layout();
}

lazy_static! {
  static ref US_ROW_GRAVE: Vec<KeyCode> = vec![GRAVE, K1, K2, K3, K4, K5, K6, K7, K8, K9, K0, MINUS, EQUAL];
  static ref US_ROW_Q: Vec<KeyCode> = vec![Q, W, E, R, T, Y, U, I, O, P, LEFTBRACE, RIGHTBRACE];
  static ref US_ROW_A: Vec<KeyCode> = vec![A, S, D, F, G, H, J, K, L, SEMICOLON, APOSTROPHE];
  static ref US_ROW_Z: Vec<KeyCode> = vec![Z, X, C, V, B, N, M, COMMA, DOT, SLASH];
}

fn _us_keyboard_layout() -> HashMap<Row, &'static [KeyCode]> {
  let mut res = HashMap::new();
  
  res.insert(Row::USQuertyGrave.clone(), &US_ROW_GRAVE[..]);
  res.insert(Row::USQuerty1.clone(), &US_ROW_GRAVE[1..]);
  res.insert(Row::USQuertyQ.clone(), &US_ROW_Q[..]);
  res.insert(Row::USQuertyA.clone(), &US_ROW_A[..]);
  res.insert(Row::USQuertyZ.clone(), &US_ROW_Z[..]);
  
  res
}

