
// vim: shiftwidth=2

use crate::keys::Layout;
use nix::Error;
use nix::errno::Errno::ENODEV;
use wildmatch::WildMatch;
use crate::key_transforms;
use crate::keyboard_listing::{list_keyboards, ExtractedKeyboard, list_input_devices, ExtractedInputDevice};
use crate::dev_input_rw::{DevInputReader, DevInputWriter, Exclusion};
use std::collections::HashMap;
use std::thread::{spawn, JoinHandle};
use std::sync::Mutex;
use std::sync::Arc;
use std::path::{Path, PathBuf};
use nix::errno::Errno::EAGAIN;
use mio::{Interest, Poll, Token, Events};
use mio::unix::SourceFd;
use crate::tablet_mode_switch_reader::TabletModeSwitchReader;
use crate::tablet_mode_switch_reader::TableModeEvent::{On, Off};
use std::thread;
use std::time;
use crate::keys::KeyCode;
use time::{Duration, Instant};
use crate::keys::Event;
use crate::keys::Event::{Pressed, Released};
use crate::key_transforms::ResultingRepeat;
use crate::tablet_mode_switch_reader::TableModeEvent;
use inotify::{
  Inotify,
  WatchMask
};

pub fn do_remapping_loop_all_devices(layout: &Layout, excludes: &[&str], verbose: bool) -> Result<(), String> {
  match list_keyboards(false) {
    Err(e) => Err(format!("Failed to get the list of keyboards: {}", e)),
    Ok(devs) => {
      let devs_with_exclusions = flag_excluded(devs, excludes);
      
      if verbose {
        eprintln!("Got the list of keyboards:");
        for dev in &devs_with_exclusions {
          let excluded_flag_text = if dev.excluded { " (excluded)" } else { "" };
          eprintln!(" * {:?}{}", dev.extracted_keyboard.dev_path, excluded_flag_text);
        }
      }
      
      let devs: Vec<ExtractedKeyboard> = devs_with_exclusions.into_iter()
        .filter(|e| !e.excluded)
        .map(|e| e.extracted_keyboard).collect();
      
      do_remapping_loop_these_devices(&devs.iter().map(|d| d.dev_path.clone()).collect(), layout, &None, verbose)
    }
  }
}

struct WorkingChild {
  dev_path: PathBuf,
  thread: JoinHandle<Result<(), String>>,
  done: Arc<Mutex<bool>>
}

pub fn do_remapping_loop_auto_all_devices(layout: &Layout, excludes: &[&str], verbose: bool) -> Result<(), String> {
  let mut inotify = Inotify::init().expect("Error initializing");
  inotify.add_watch("/dev/input", WatchMask::CREATE | WatchMask::ATTRIB)
    .expect("Failed to add watch");

  let mut children: Vec<WorkingChild> = Vec::new();
  
  loop {
    if verbose {
      eprintln!("Reaping finished devices");
    }
    for i in (0..children.len()).rev() {
      let done = *children[i].done.lock().unwrap();
      if verbose {
        eprintln!(" * {:?}: done={}", children[i].dev_path, done);
      }
      if done {
        match children.remove(i).thread.join().expect("Failed to join child") {
          Ok(_) => {
            if verbose {
              eprintln!("    Joined.");
            }
          },
          Err(msg) => {
            eprintln!("Error from child: {}", msg);
          }
        };
      }
    }
    
    if verbose {
      eprintln!("Getting the current list of keyboards");
    }
    
    match list_keyboards(false) {
      Err(e) => break Err(format!("Failed to get the list of keyboards: {}", e)),
      Ok(devs) => {
        let devs_with_exclusions = flag_excluded(devs, excludes);
        
        if verbose {
          eprintln!("Got the current list of keyboards:");
          for dev in &devs_with_exclusions {
            let excluded_flag_text = if dev.excluded { " (excluded)" } else { "" };
            eprintln!(" * {:?}{}", dev.extracted_keyboard.dev_path, excluded_flag_text);
          }
        }
        
        let devs: Vec<ExtractedKeyboard> = devs_with_exclusions.into_iter()
          .filter(|e| !e.excluded)
          .map(|e| e.extracted_keyboard).collect();
        
        if verbose {
          eprintln!("Checking which devices are already running:")
        }
        for dev in devs {
          let already_have_it = children.iter().any(|c| c.dev_path == dev.dev_path);
          if verbose { eprintln!(" * {:?}: {}", dev.dev_path, already_have_it); }
          if !already_have_it {
            match open_device(dev.dev_path.as_path(), &None) {
              Err(msg) => {
                eprintln!("Failed to open keyboard device: {}", msg)
              },
              Ok(mut driver) => {
                let done = Arc::new(Mutex::new(false));

                children.push(WorkingChild {
                  dev_path: dev.dev_path,
                  thread: {
                    let done = Arc::clone(&done);
                    let layout = layout.clone();
                    spawn(move || {
                      let res = do_remapping_loop_one_device(&mut driver, layout, verbose);
                      *done.lock().unwrap() = true;
                      res
                    })
                  },
                  done
                })
              }
            }
          }
        }
      }
    }
    
    let mut buffer = [0; 1024];
    inotify.read_events_blocking(&mut buffer).expect("Error reading events");
  }
}

pub fn do_remapping_loop_multiple_devices(devices: &Vec<&str>, skip_non_keyboard: bool, excludes: &[&str], layout: &Layout, tablet_mode_switch_device: &Option<&str>, verbose: bool) -> Result<(), String> {
  let devices = filter_devices_verbose(devices, skip_non_keyboard, excludes, verbose)?;

  do_remapping_loop_these_devices(
    &devices.into_iter().map(|p| Path::new(p).to_path_buf()).collect(),
    layout,
    &tablet_mode_switch_device.map(|p| Path::new(p).to_path_buf()),
    verbose
  )
}

fn filter_devices_verbose<'s>(devices: &Vec<&'s str>, skip_non_keyboard: bool, excludes: &[&str], verbose: bool) -> Result<Vec<&'s str>, String> {
  use std::fs::canonicalize;
  let mut res = Vec::new();
  
  let all_input_devices = list_input_devices(verbose)
    .map_err(|e| format!("Failed to get the list of keyboards: {}", e))?;
  
  if verbose {
    println!("Found input devices:");
    for dev in &all_input_devices {
      println!(" * {} {:?} (is_keyboard={})", dev.name, dev.dev_path, dev.is_keyboard);
    }
    println!("");
  }
    
  let devs_with_exclusions = flag_excluded_input_devices(all_input_devices, excludes);
  
  let mut canonical_set: HashMap<String, PossiblyExcludedInputDevice> = HashMap::new();
  for p in devs_with_exclusions {
    if let Ok(q) = canonicalize(p.extracted_keyboard.dev_path.clone()) {
      if let Some(s) = q.to_str() {
        canonical_set.insert(s.to_string(), p);
      }
    }
    else {
      if verbose {
        eprint!("Skipping {:?} because could not canonicalize path", p.extracted_keyboard.dev_path);
      }
    }
  }
  
  if verbose {
    println!("Canonical set:");
    for p in canonical_set.keys() {
      println!("* {}", p);
    }
    println!("");
  }
  
  for s in devices {
    match canonicalize(Path::new(s)) {
      Err(_) => {
        eprintln!("Skipping {} because could not canonicalize path", s);
      },
      Ok(c) => {
        match c.to_str() {
          None => {
            eprintln!("Skipping {} because could not c-strify path", s);
          },
          Some(l) => {
            // For some reason canonicalize on some platforms doesn't do this
            let l = l.replace("//", "/");

            if let Some(dev) = canonical_set.get(&l.to_string()) {
              if skip_non_keyboard && !dev.extracted_keyboard.is_keyboard {
                if verbose { eprintln!("Skipping {} ({}) ({}) because it does not appear to be a keyboard", s, l, dev.extracted_keyboard.name); }
              }
              else {
                if dev.excluded {
                  if verbose { eprintln!("Skipping {} ({}) ({}) because it was excluded by a pattern", s, l, dev.extracted_keyboard.name); }
                }
                else {
                  res.push(*s)
                }
              }
            }
            else {
              if verbose { eprintln!("Skipping {} ({}) because it was not found in /proc/bus/input/devices", s, l); }
            }
          }
        }
      }
    }
  }
  
  Ok(res)
}

struct PossiblyExcludedDevice {
  extracted_keyboard: ExtractedKeyboard,
  excluded: bool
}

struct PossiblyExcludedInputDevice {
  extracted_keyboard: ExtractedInputDevice,
  excluded: bool
}

fn flag_excluded(devices: Vec<ExtractedKeyboard>, excludes: &[&str]) -> Vec<PossiblyExcludedDevice> {
  let wilds: Vec<WildMatch> = excludes.iter().map(|e| WildMatch::new(e)).collect();
  devices.into_iter().map(|d| {
    let excluded = wilds.iter().any(|w| w.matches(&d.name));
    PossiblyExcludedDevice {
      extracted_keyboard: d,
      excluded
    }
  }).collect()
}

fn flag_excluded_input_devices(devices: Vec<ExtractedInputDevice>, excludes: &[&str]) -> Vec<PossiblyExcludedInputDevice> {
  let wilds: Vec<WildMatch> = excludes.iter().map(|e| WildMatch::new(e)).collect();
  devices.into_iter().map(|d| {
    let excluded = wilds.iter().any(|w| w.matches(&d.name));
    PossiblyExcludedInputDevice {
      extracted_keyboard: d,
      excluded
    }
  }).collect()
}

fn open_device(path: &Path, tablet_mode_switch_device: &Option<PathBuf>) -> Result<RealDriver, String> {
  let r = match DevInputReader::open(path, Exclusion::WaitReleaseAndExclude, true) {
    Err(e) => Err(format!("Failed to open {:?} for reading: {}", path, e)),
    Ok(r) => Ok(r)
  }?;
  
  let w = match DevInputWriter::open() {
    Err(e) => Err(format!("Failed to open /dev/uinput for writing: {}", e)),
    Ok(w) => Ok(w)
  }?;
  
  let t = match tablet_mode_switch_device {
    None => Ok(None),
    Some(path) => match TabletModeSwitchReader::open(path, true) {
      Err(e) => Err(format!("Failed to open tablet mode device {:?} for reading: {}", path, e)),
      Ok(t) => Ok(Some(t))
    }
  }?;
  
  let rw = RW { r, w, t };
  
  Ok(RealDriver { rw })
}

pub fn do_remapping_loop_these_devices(devices: &Vec<PathBuf>, layout: &Layout, tablet_mode_switch_device: &Option<PathBuf>, verbose: bool) -> Result<(), String> {
  if verbose { eprintln!("Remapping {} devices.", devices.len()); }
  
  let mut drivers: Vec<RealDriver> = Vec::new();
  
  for p in devices {
    if verbose { eprintln!(" * {}", p.to_string_lossy()); }
    drivers.push(open_device(p.as_path(), tablet_mode_switch_device)?);
  }
  
  let mut threads: Vec<JoinHandle<Result<(), String>>> = Vec::new();
  for mut driver in drivers.drain(..) {
    let local_layout = layout.clone();
    threads.push(spawn(move || {
      do_remapping_loop_one_device(&mut driver, local_layout, verbose)
    }));
  }
  
  for th in threads {
    match th.join() {
      Err(_) => Err(format!("Joining the thread failed.")),
      Ok(r) => match r {
        Err(e) => Err(format!("Mapping failed: {}", e)),
        Ok(u) => Ok(u)
      }
    }?;
  }
  
  Ok(())
}

struct RW {
  r: DevInputReader,
  w: DevInputWriter,
  t: Option<TabletModeSwitchReader>
}
  
#[derive(Debug)]
enum WorkingRepeat {
  Idle,
  Repeating {
    keys: Vec<KeyCode>,
    next_wakeup: Instant,
    interval_ms: i32
  },
}

#[derive(Debug)]
enum Device {
  Keyboard,
  Tablet
}

#[derive(Debug)]
enum PollResult {
  DeviceEvent(Vec<Device>),
  TimedOut,
  Interrupted
}

trait Driver {
  type PollRegistry;
  fn register_poll(&mut self) -> Result<Self::PollRegistry, String>;
  fn poll(&mut self, registry: &mut Self::PollRegistry, timeout: Option<Duration>) -> Result<PollResult, String>;
  fn next_keyboard(&mut self) -> Result<Next<Event>, String>;
  fn next_tablet(&mut self) -> Result<Next<TableModeEvent>, String>;
  fn send(&mut self, evs: &Vec<Event>) -> Result<(), String>;
}

struct RealDriver {
  rw: RW
}

struct RealPollRegistry {
  poll: Poll,
  events: Events
}

const KEYBOARD: Token = Token(0);
const TABLET_SWITCH: Token = Token(1);

#[derive(Debug)]
enum Next<T> {
  End,
  Busy,
  One(T)
}
  
impl Driver for RealDriver {
  type PollRegistry = RealPollRegistry;
  
  fn register_poll(&mut self) -> Result<RealPollRegistry, String> {
    let poll = Poll::new().unwrap();
    poll.registry().register(&mut SourceFd(&self.rw.r.fd), KEYBOARD, Interest::READABLE).unwrap();
    
    match &self.rw.t {
      None => (),
      Some(t) => {
        poll.registry().register(&mut SourceFd(&t.fd), TABLET_SWITCH, Interest::READABLE).unwrap();
      }
    }
    
    let events = Events::with_capacity(24);
    
    Ok(RealPollRegistry { poll, events })
  }
  
  fn poll(&mut self, registry: &mut RealPollRegistry, timeout: Option<Duration>) -> Result<PollResult, String>  {
    match registry.poll.poll(&mut registry.events, timeout) {
      Ok(_) => {
        let mut res: Vec<Device> = Vec::new();
        
        for event in registry.events.iter() {
          match event.token() {
            KEYBOARD => {
              res.push(Device::Keyboard)
            },
            TABLET_SWITCH => {
              res.push(Device::Tablet)
            },
            Token(_) => {
            }
          }
        }
        
        if res.is_empty() {
          Ok(PollResult::TimedOut)
        }
        else {
          Ok(PollResult::DeviceEvent(res))
        }
      },
      Err(e) => {
        match e.kind() {
          std::io::ErrorKind::TimedOut => {
            Ok(PollResult::TimedOut)
          },
          std::io::ErrorKind::Interrupted => {
            Ok(PollResult::Interrupted)
          },
          _ => {
            Err(format!("poll failed: {}", e))
          }
        }
      }
    }
  }
  
  fn next_keyboard(&mut self) -> Result<Next<Event>, String> {
    match self.rw.r.next() {
      Err(Error::Sys(EAGAIN)) => Ok(Next::Busy),
      Err(Error::Sys(ENODEV)) => Ok(Next::End),
      Err(e) => Err(format!("read() from keyboard failed with {}", e)),
      Ok(ev) => Ok(Next::One(ev))
    }
  }
  
  fn next_tablet(&mut self) -> Result<Next<TableModeEvent>, String> {
    match &mut self.rw.t {
      Some(t) => {
        match t.next() {
          Err(Error::Sys(EAGAIN)) => Ok(Next::Busy),
          Err(Error::Sys(ENODEV)) => Ok(Next::End),
          Err(e) => Err(format!("read() from tablet mode switch failed with {}", e)),
          Ok(ev) => Ok(Next::One(ev))
        }
      },
      None => Ok(Next::End)
    }
  }
  
  fn send(&mut self, evs: &Vec<Event>) -> Result<(), String> {
    match self.rw.w.send(evs) {
      Err(e) => {
        Err(format!("write() to synthetic keyboard failed with {}", e))
      },
      Ok(_) => Ok(())
    }
  }
}

fn do_remapping_loop_one_device(driver: &mut impl Driver, layout: Layout, verbose: bool) -> Result<(), String> {
  let mut mapper = key_transforms::Mapper::for_layout(&layout);
  let mut working_repeat: WorkingRepeat = WorkingRepeat::Idle;
  
  let mut poll = driver.register_poll()?;
  
  let mut in_tablet_mode: bool = false;
  let mut restart_count: i32 = 0;
  
  if verbose { eprintln!("Starting remapping loop."); }
  
  loop {
    loop {
      let timeout = match working_repeat {
        WorkingRepeat::Idle => None,
        WorkingRepeat::Repeating { keys: _, next_wakeup, interval_ms: _ } => {
          let now = Instant::now();
          if now >= next_wakeup {
            Some(Duration::from_millis(1))
          }
          else {
            Some(next_wakeup - now)
          }
        }
      };
      
      match driver.poll(&mut poll, timeout)? {
        PollResult::TimedOut => {
          match working_repeat {
            WorkingRepeat::Idle => {
              // Well that's weird. I guess just keep going?
            },
            WorkingRepeat::Repeating { keys, next_wakeup, interval_ms } => {
              if !in_tablet_mode {
                let mut repeat_send = Vec::new();
                for key in &keys {
                  if !mapper.is_held_on_output(key) {
                    repeat_send.push(Pressed(*key));
                  }
                }
                for key in (&keys).iter().rev() {
                  if !mapper.is_held_on_output(key) {
                    repeat_send.push(Released(*key));
                  }
                }
                driver.send(&repeat_send)?;
                working_repeat = WorkingRepeat::Repeating {
                  keys,
                  next_wakeup: next_wakeup + Duration::from_millis(interval_ms as u64),
                  interval_ms
                };
              }
              else {
                working_repeat = WorkingRepeat::Idle;
              }
            }
          };
        },
        PollResult::Interrupted => {
          if verbose { eprintln!("poll() interrupted"); }
          restart_count += 1;
          if restart_count > 1 {
            // Avoid burning the CPU if we keep getting interrupted for some reason
            thread::sleep(Duration::from_millis(1000 * (1 << restart_count)));
          }
        },
        PollResult::DeviceEvent(dev_evs) => {
          restart_count = 0;
          for dev_ev in dev_evs {
            match dev_ev {
              Device::Keyboard => {
                loop {
                  match driver.next_keyboard()? {
                    Next::Busy => {
                      break;
                    }
                    Next::End => {
                      if verbose { eprintln!("Ending remapping loop because no more keyboard events."); }
                      return Ok(());
                    }
                    Next::One(ev_in) => {
                      if !in_tablet_mode {
                        let step_out = mapper.step(ev_in);
                        let evs_out = step_out.events;
                        
                        if !evs_out.is_empty() {
                          driver.send(&evs_out)?;
                        }
                        
                        working_repeat = match step_out.repeat {
                          ResultingRepeat::Repeating { keys, delay_ms, interval_ms } => WorkingRepeat::Repeating {
                            keys,
                            next_wakeup: Instant::now() + Duration::from_millis(delay_ms as u64),
                            interval_ms
                          },
                          ResultingRepeat::Disabled => WorkingRepeat::Idle,
                          ResultingRepeat::NoChange => working_repeat
                        };
                      }
                    }
                  }
                }
              },
              Device::Tablet => {
                loop {
                  match driver.next_tablet()? {
                    Next::Busy => {
                      break;
                    },
                    Next::End => {
                      return Ok(());
                    },
                    Next::One(ev_in) => {
                      match ev_in {
                        On => {
                          in_tablet_mode = true;
                          working_repeat = WorkingRepeat::Idle;
                          let release_events = mapper.release_all();
                          if !release_events.is_empty() {
                            driver.send(&release_events)?;
                          }
                        },
                        Off => {
                          in_tablet_mode = false;
                          working_repeat = WorkingRepeat::Idle;
                          let release_events = mapper.release_all();
                          if !release_events.is_empty() {
                            driver.send(&release_events)?;
                          }
                        }
                      }
                    }
                  }
                }
              }
            }
          }
        }
      }
    }
  }
}

#[cfg(test)]
mod tests {
  use super::*;
  use std::collections::VecDeque;
  use KeyCode::*;
  use std::default::Default;
  use crate::keys::{Layout, Mapping, KeyCode, Pressed, Released, Event, Repeat};
  
  #[derive(Debug)]
  enum TestOp {
    RegisterPoll,
    Poll {
      timeout: Option<Duration>,
      result: PollResult
    },
    NextKeyboard {
      result: Next<Event>
    },
    NextTablet {
      result: Next<TableModeEvent>
    },
    Send {
      evs: Vec<Event>
    }
  }
  
  struct TestPollRegistry {
  }
  
  struct TestDriver {
    ops: VecDeque<TestOp>
  }
  
  impl TestDriver {
    fn finish(&self) {
      assert!(self.ops.is_empty());
    }
  }
  
  impl Driver for TestDriver {
    type PollRegistry = TestPollRegistry;
    
    fn register_poll(&mut self) -> Result<TestPollRegistry, String> {
      match self.ops.pop_front() {
        None => {
          panic!("register_poll() on empty op list")
        },
        Some(TestOp::RegisterPoll) => {
          Ok(TestPollRegistry { })
        },
        Some(other) => {
          panic!("register_poll() called but should have called {:?}", other)
        }
      }
    }
    
    fn poll(&mut self, _registry: &mut Self::PollRegistry, timeout: Option<Duration>) -> Result<PollResult, String> {
      match self.ops.pop_front() {
        None => {
          panic!("poll() on empty op list")
        },
        Some(TestOp::Poll { timeout: timeout_should, result }) => {
          match (timeout, timeout_should) {
            (None, None) => (),
            (None, Some(_)) => {
            },
            (Some(_), None) => {
            },
            (Some(d1), Some(d2)) => {
              let error = (d1.as_millis() as i32) - (d2.as_millis() as i32);
              if error > 10 || error < -10 {
                panic!("Timeout was {:?}, should be {:?}", timeout, timeout_should);
              }
            }
          }
          Ok(result)
        },
        Some(other) =>  {
          panic!("poll() called but should have called {:?}", other)
        }
      }
    }
    
    fn next_keyboard(&mut self) -> Result<Next<Event>, String> {
      match self.ops.pop_front() {
        None => {
          panic!("next_keyboard() on empty op list")
        },
        Some(TestOp::NextKeyboard { result }) => {
          Ok(result)
        },
        Some(other) => {
          panic!("next_keyboard() called but should have called {:?}", other)
        }
      }
    }
    
    fn next_tablet(&mut self) -> Result<Next<TableModeEvent>, String> {
      match self.ops.pop_front() {
        None => {
          panic!("next_tablet() on empty op list")
        },
        Some(TestOp::NextTablet { result }) => {
          Ok(result)
        },
        Some(other) => {
          panic!("next_tablet() called but should have called {:?}", other)
        }
      }
    }
    
    fn send(&mut self, evs: &Vec<Event>) -> Result<(), String> {
      match self.ops.pop_front() {
        None => {
          panic!("send() on empty op list")
        },
        Some(TestOp::Send { evs: evs_should }) => {
          assert_eq!(*evs, evs_should);
          Ok(())
        },
        Some(other) => {
          panic!("send({:?}) called but should have called {:?}", evs, other)
        }
      }
    }
  }
  
  #[test]
  fn test_remapping_loop_basic() {
    let layout = Layout {
      mappings: vec![
        Mapping { from: vec![A], to: vec![B], ..Default::default() },
      ]
    };
    
    let mut ops: VecDeque<TestOp> = VecDeque::new();
    ops.push_back(TestOp::RegisterPoll);
    ops.push_back(TestOp::Poll { timeout: None, result: PollResult::DeviceEvent(vec![Device::Keyboard]) });
    ops.push_back(TestOp::NextKeyboard { result: Next::One(Pressed(A)) });
    ops.push_back(TestOp::Send { evs: vec![Pressed(B)] });
    ops.push_back(TestOp::NextKeyboard { result: Next::Busy });
    ops.push_back(TestOp::Poll { timeout: None, result: PollResult::DeviceEvent(vec![Device::Keyboard]) });
    ops.push_back(TestOp::NextKeyboard { result: Next::One(Released(A)) });
    ops.push_back(TestOp::Send { evs: vec![Released(B)] });
    ops.push_back(TestOp::NextKeyboard { result: Next::End });
    
    let mut driver = TestDriver { ops };
    do_remapping_loop_one_device(&mut driver, layout, true).unwrap();
    driver.finish();
  }
  
  #[test]
  fn test_remapping_loop_tablet() {
    let layout = Layout {
      mappings: vec![
        Mapping { from: vec![A], to: vec![B], ..Default::default() },
      ]
    };
    
    let mut ops: VecDeque<TestOp> = VecDeque::new();
    ops.push_back(TestOp::RegisterPoll);
    ops.push_back(TestOp::Poll { timeout: None, result: PollResult::DeviceEvent(vec![Device::Tablet]) });
    ops.push_back(TestOp::NextTablet { result: Next::One(TableModeEvent::On) });
    ops.push_back(TestOp::NextTablet { result: Next::Busy });
    ops.push_back(TestOp::Poll { timeout: None, result: PollResult::DeviceEvent(vec![Device::Keyboard]) });
    ops.push_back(TestOp::NextKeyboard { result: Next::One(Pressed(A)) });
    ops.push_back(TestOp::NextKeyboard { result: Next::Busy });
    ops.push_back(TestOp::Poll { timeout: None, result: PollResult::DeviceEvent(vec![Device::Keyboard]) });
    ops.push_back(TestOp::NextKeyboard { result: Next::One(Released(A)) });
    ops.push_back(TestOp::NextKeyboard { result: Next::End });
    
    let mut driver = TestDriver { ops };
    do_remapping_loop_one_device(&mut driver, layout, true).unwrap();
    driver.finish();
  }
  
  #[test]
  fn test_remapping_loop_repeat_1() {
    let layout = Layout {
      mappings: vec![
        Mapping { from: vec![A], to: vec![A], repeat: Repeat::Disabled, ..Default::default() },
        Mapping { from: vec![B], to: vec![B], repeat: Repeat::Special { keys: vec![C], delay_ms: 130, interval_ms: 30 }, ..Default::default() },
      ]
    };
    
    let mut ops: VecDeque<TestOp> = VecDeque::new();
    ops.push_back(TestOp::RegisterPoll);
    
    ops.push_back(TestOp::Poll { timeout: None, result: PollResult::DeviceEvent(vec![Device::Keyboard]) });
    ops.push_back(TestOp::NextKeyboard { result: Next::One(Pressed(LEFTSHIFT)) });
    ops.push_back(TestOp::Send { evs: vec![Pressed(LEFTSHIFT)] });
    ops.push_back(TestOp::NextKeyboard { result: Next::Busy });
    
    ops.push_back(TestOp::Poll { timeout: None, result: PollResult::DeviceEvent(vec![Device::Keyboard]) });
    ops.push_back(TestOp::NextKeyboard { result: Next::One(Pressed(A)) });
    ops.push_back(TestOp::Send { evs: vec![Pressed(A), Released(A)] });
    ops.push_back(TestOp::NextKeyboard { result: Next::Busy });
    
    ops.push_back(TestOp::Poll { timeout: None, result: PollResult::DeviceEvent(vec![Device::Keyboard]) });
    ops.push_back(TestOp::NextKeyboard { result: Next::One(Released(A)) });
    ops.push_back(TestOp::NextKeyboard { result: Next::Busy });
    
    ops.push_back(TestOp::Poll { timeout: None, result: PollResult::DeviceEvent(vec![Device::Keyboard]) });
    ops.push_back(TestOp::NextKeyboard { result: Next::One(Pressed(B)) });
    ops.push_back(TestOp::Send { evs: vec![Pressed(B), Released(B)] });
    ops.push_back(TestOp::NextKeyboard { result: Next::Busy });
    
    ops.push_back(TestOp::Poll { timeout: Some(Duration::from_millis(130)), result: PollResult::TimedOut });
    ops.push_back(TestOp::Send { evs: vec![Pressed(C), Released(C)] });
    
    ops.push_back(TestOp::Poll { timeout: Some(Duration::from_millis(160)), result: PollResult::TimedOut });
    ops.push_back(TestOp::Send { evs: vec![Pressed(C), Released(C)] });
    
    ops.push_back(TestOp::Poll { timeout: Some(Duration::from_millis(190)), result: PollResult::DeviceEvent(vec![Device::Keyboard]) });
    ops.push_back(TestOp::NextKeyboard { result: Next::One(Released(B)) });
    ops.push_back(TestOp::NextKeyboard { result: Next::Busy });
    
    ops.push_back(TestOp::Poll { timeout: None, result: PollResult::DeviceEvent(vec![Device::Keyboard]) });
    ops.push_back(TestOp::NextKeyboard { result: Next::One(Released(LEFTSHIFT)) });
    ops.push_back(TestOp::Send { evs: vec![Released(LEFTSHIFT)] });
    ops.push_back(TestOp::NextKeyboard { result: Next::End });
    
    let mut driver = TestDriver { ops };
    do_remapping_loop_one_device(&mut driver, layout, true).unwrap();
    driver.finish();
  }
  
  #[test]
  fn test_remapping_loop_repeat_2() {
    let layout = Layout {
      mappings: vec![
        Mapping { from: vec![A], to: vec![A], repeat: Repeat::Disabled, ..Default::default() },
        Mapping { from: vec![B], to: vec![B], repeat: Repeat::Special { keys: vec![C], delay_ms: 130, interval_ms: 30 }, ..Default::default() },
      ]
    };
    
    let mut ops: VecDeque<TestOp> = VecDeque::new();
    ops.push_back(TestOp::RegisterPoll);
    
    ops.push_back(TestOp::Poll { timeout: None, result: PollResult::DeviceEvent(vec![Device::Keyboard]) });
    ops.push_back(TestOp::NextKeyboard { result: Next::One(Pressed(LEFTSHIFT)) });
    ops.push_back(TestOp::Send { evs: vec![Pressed(LEFTSHIFT)] });
    ops.push_back(TestOp::NextKeyboard { result: Next::Busy });
    
    ops.push_back(TestOp::Poll { timeout: None, result: PollResult::DeviceEvent(vec![Device::Keyboard]) });
    ops.push_back(TestOp::NextKeyboard { result: Next::One(Pressed(A)) });
    ops.push_back(TestOp::Send { evs: vec![Pressed(A), Released(A)] });
    ops.push_back(TestOp::NextKeyboard { result: Next::Busy });
    
    ops.push_back(TestOp::Poll { timeout: None, result: PollResult::DeviceEvent(vec![Device::Keyboard]) });
    ops.push_back(TestOp::NextKeyboard { result: Next::One(Released(A)) });
    ops.push_back(TestOp::NextKeyboard { result: Next::Busy });
    
    ops.push_back(TestOp::Poll { timeout: None, result: PollResult::DeviceEvent(vec![Device::Keyboard]) });
    ops.push_back(TestOp::NextKeyboard { result: Next::One(Pressed(B)) });
    ops.push_back(TestOp::Send { evs: vec![Pressed(B), Released(B)] });
    ops.push_back(TestOp::NextKeyboard { result: Next::Busy });
    
    ops.push_back(TestOp::Poll { timeout: Some(Duration::from_millis(130)), result: PollResult::TimedOut });
    ops.push_back(TestOp::Send { evs: vec![Pressed(C), Released(C)] });
    
    ops.push_back(TestOp::Poll { timeout: Some(Duration::from_millis(160)), result: PollResult::DeviceEvent(vec![Device::Keyboard]) });
    ops.push_back(TestOp::NextKeyboard { result: Next::One(Pressed(D)) });
    ops.push_back(TestOp::Send { evs: vec![Pressed(D)] });
    ops.push_back(TestOp::NextKeyboard { result: Next::Busy });
    
    ops.push_back(TestOp::Poll { timeout: None, result: PollResult::DeviceEvent(vec![Device::Keyboard]) });
    ops.push_back(TestOp::NextKeyboard { result: Next::End });
    
    let mut driver = TestDriver { ops };
    do_remapping_loop_one_device(&mut driver, layout, true).unwrap();
    driver.finish();
  }
  
  #[test]
  fn test_remapping_loop_repeat_3() {
    let layout = Layout {
      mappings: vec![
        Mapping { from: vec![A], to: vec![A], repeat: Repeat::Disabled, ..Default::default() },
        Mapping { from: vec![B], to: vec![B], repeat: Repeat::Special { keys: vec![LEFTCTRL, C], delay_ms: 130, interval_ms: 30 }, ..Default::default() },
      ]
    };
    
    let mut ops: VecDeque<TestOp> = VecDeque::new();
    ops.push_back(TestOp::RegisterPoll);
    
    ops.push_back(TestOp::Poll { timeout: None, result: PollResult::DeviceEvent(vec![Device::Keyboard]) });
    ops.push_back(TestOp::NextKeyboard { result: Next::One(Pressed(LEFTSHIFT)) });
    ops.push_back(TestOp::Send { evs: vec![Pressed(LEFTSHIFT)] });
    ops.push_back(TestOp::NextKeyboard { result: Next::Busy });
    
    ops.push_back(TestOp::Poll { timeout: None, result: PollResult::DeviceEvent(vec![Device::Keyboard]) });
    ops.push_back(TestOp::NextKeyboard { result: Next::One(Pressed(A)) });
    ops.push_back(TestOp::Send { evs: vec![Pressed(A), Released(A)] });
    ops.push_back(TestOp::NextKeyboard { result: Next::Busy });
    
    ops.push_back(TestOp::Poll { timeout: None, result: PollResult::DeviceEvent(vec![Device::Keyboard]) });
    ops.push_back(TestOp::NextKeyboard { result: Next::One(Released(A)) });
    ops.push_back(TestOp::NextKeyboard { result: Next::Busy });
    
    ops.push_back(TestOp::Poll { timeout: None, result: PollResult::DeviceEvent(vec![Device::Keyboard]) });
    ops.push_back(TestOp::NextKeyboard { result: Next::One(Pressed(B)) });
    ops.push_back(TestOp::Send { evs: vec![Pressed(B), Released(B)] });
    ops.push_back(TestOp::NextKeyboard { result: Next::Busy });
    
    ops.push_back(TestOp::Poll { timeout: Some(Duration::from_millis(130)), result: PollResult::TimedOut });
    ops.push_back(TestOp::Send { evs: vec![Pressed(LEFTCTRL), Pressed(C), Released(C), Released(LEFTCTRL)] });
    
    ops.push_back(TestOp::Poll { timeout: Some(Duration::from_millis(160)), result: PollResult::DeviceEvent(vec![Device::Keyboard]) });
    ops.push_back(TestOp::NextKeyboard { result: Next::One(Pressed(D)) });
    ops.push_back(TestOp::Send { evs: vec![Pressed(D)] });
    ops.push_back(TestOp::NextKeyboard { result: Next::Busy });
    
    ops.push_back(TestOp::Poll { timeout: None, result: PollResult::DeviceEvent(vec![Device::Keyboard]) });
    ops.push_back(TestOp::NextKeyboard { result: Next::End });
    
    let mut driver = TestDriver { ops };
    do_remapping_loop_one_device(&mut driver, layout, true).unwrap();
    driver.finish();
  }
}

