
// vim: shiftwidth=2

use std::ffi::CString;
use std::fs::OpenOptions;
use std::io::Write;
use std::os::unix::prelude::MetadataExt;
use std::path::Path;
use std::process::Command;
use crate::keys::Layout;
use crate::keyboard_listing::list_keyboards;

fn convert_io_error<T>(whats_happening: &str, res: Result<T, std::io::Error>) -> Result<T, String> {
  match res {
    Ok(t) => Ok(t),
    Err(e) => Err(format!("Error {}: {}", whats_happening, e))
  }
}

fn convert_json_error<T>(whats_happening: &str, res: Result<T, serde_json::Error>) -> Result<T, String> {
  match res {
    Ok(t) => Ok(t),
    Err(e) => Err(format!("Error {}: {}", whats_happening, e))
  }
}

pub fn add_systemd_service<'s, I: Iterator<Item=&'s str>>(layout: &Layout, excludes: I) -> Result<(), String> {
  check_usr_bin_totalmapper_exists();
  write_layout_to_global_config(layout)?;
  create_input_group_if_necessary()?;
  create_user_if_necessary()?;
  set_permissions_if_necessary()?;
  create_perm_udev_rule()?;
  write_udev_rule()?;
  write_systemd_service(excludes)?;
  refresh_udev()?;
  refresh_systemd()?;
  Ok(())
}

fn find_program(cmd: &str) -> Result<String, String> {
  {
    let p = format!("/bin/{}", cmd);
    if std::fs::metadata(p.clone()).is_ok() {
      return Ok(p);
    }
  }
  
  {
    let p = format!("/sbin/{}", cmd);
    if std::fs::metadata(p.clone()).is_ok() {
      return Ok(p);
    }
  }
  
  {
    let p = format!("/usr/bin/{}", cmd);
    if std::fs::metadata(p.clone()).is_ok() {
      return Ok(p);
    }
  }

  {
    let p = format!("/usr/sbin/{}", cmd);
    if std::fs::metadata(p.clone()).is_ok() {
      return Ok(p);
    }
  }

  Err(format!("Could not find {} in /bin/, /sbin/, /usr/bin/, or /usr/sbin/", cmd))
}

fn check_usr_bin_totalmapper_exists() {
  if !Path::new("/usr/bin/totalmapper").exists() {
    eprintln!("WARNING: /usr/bin/totalmapper does not exist. systemd service will be unable to run until it is installed.");
  }
}

fn write_layout_to_global_config(layout: &Layout) -> Result<(), String> {
  let file_out = convert_io_error(
    "saving layout to /etc/totalmapper.json",
    OpenOptions::new()
      .truncate(true).read(false).create(true).write(true)
      .open("/etc/totalmapper.json")
  )?;
  
  let buffered_out = std::io::BufWriter::new(file_out);
  
  convert_json_error(
    "saving layout to /etc/totalmapper.json",
    serde_json::to_writer_pretty(
      buffered_out,
      layout
    )
  )?;
  
  Ok(())
}

fn create_input_group_if_necessary() -> Result<(), String> {
  let input_group_exists =
    match Command::new("/usr/bin/getent").args(&["group", "input"]).output() {
      Err(e) => Err(format!("Failed to run getent: {}", e)),
      Ok(output) => {
        match output.status.code() {
          None => Err("getent terminated by signal".to_string()),
          Some(0) => Ok(true),
          Some(2) => Ok(false),
          Some(other_code) =>  Err(format!("getent returned unexpected code {}", other_code))
        }
      }
    }?;
  
  if !input_group_exists {
    match Command::new("/usr/sbin/groupadd").args(&["--system", "input"]).output() {
      Err(e) => Err(format!("Failed to run groupadd: {}", e)),
      Ok(output) => {
        match output.status.code() {
          None => Err("groupadd terminated by signal".to_string()),
          Some(0) => Ok(()),
          Some(9) => Ok(()),
          Some(other_code) => Err(format!("groupadd returned unexpected code {}", other_code))
        }
      }
    }?;
  }
  
  Ok(())
}

fn create_perm_udev_rule() -> Result<(), String> {
  if !std::fs::metadata("/etc/udev").is_ok() {
    return Err("Your system does not have /etc/udev. It is likely your system does not use udev. Cannot create needed udev rules.".to_string());
  }
  
  if !std::fs::metadata("/etc/udev/rules.d").is_ok() {
    match std::fs::create_dir("/etc/udev/rules.d") {
      Ok(_) => Ok(()),
      Err(e) => Err(format!("/etc/udev/rules.d does not exist and could not create it: {}", e))
    }?;
  }
  
  let path = "/etc/udev/rules.d/79-input.rules";
  let mut out_file = match OpenOptions::new()
    .truncate(true).read(false).create(true).write(true)
    .open(path)
  {
    Err(err) => {
      match err.kind() {
        std::io::ErrorKind::PermissionDenied => {
          return Err(format!("Permission denied writing to {}. You likely must run this sub-command as root.", path));
        },
        _ => return Err(format!("Error writing to {}: {}", path, err))
      }
    },
    Ok(out_file) => out_file
  };
  
  match out_file.write(
    "KERNEL==\"uinput\", MODE=\"0660\", GROUP=\"input\", OPTIONS+=\"static_node=uinput\"\n\
     SUBSYSTEM==\"misc\", KERNEL==\"uinput\", MODE=\"0660\", GROUP=\"input\"".as_bytes()
  ) {
    Err(err) => return Err(format!("{}", err)),
    Ok(_) => ()
  };
  
  Ok(())
}

fn set_permissions_if_necessary() -> Result<(), String> {
  let stat = match std::fs::metadata("/dev/uinput") {
    Err(e) => Err(format!("Could not stat /dev/uinput: {}", e)),
    Ok(meta) => Ok(meta)
  }?;
  
  let gid = stat.gid();
  
  let input_gid = unsafe {
    let c_str = CString::new("input").unwrap();
    (*libc::getgrnam(c_str.as_ptr())).gr_gid
  };
  
  if gid != input_gid {
    match Command::new("/usr/bin/chown").args(&["root:input", "/dev/uinput"]).output() {
      Err(e) => Err(format!("Failed to run /usr/bin/chown: {}", e)),
      Ok(_) => Ok(())
    }?;
  }
  
  let mode = stat.mode();
  let group_readable = mode & 0o040;
  let group_writable = mode & 0o020;
  
  if (group_readable == 0) || (group_writable == 0) {
    match Command::new("/usr/bin/chmod").args(&["g+rw", "/dev/uinput"]).output() {
      Err(e) => Err(format!("Failed to run /usr/bin/chmod: {}", e)),
      Ok(_) => Ok(())
    }?;
  }
  
  Ok(())
}

fn create_user_if_necessary() -> Result<(), String> {
  let user_exists =
    match Command::new("/usr/bin/id").args(&["-u", "totalmapper"]).output() {
      Err(e) => Err(format!("Failed to run /usr/bin/id: {}", e)),
      Ok(output) => {
        match output.status.code() {
          None => Err("id terminated by signal".to_string()),
          Some(0) => Ok(true),
          Some(1) => Ok(false),
          Some(other_code) => Err(format!("/usr/bin/id returned unexpected code {}", other_code))
        }
      }
    }?;

  if !user_exists {
    // On Debian systems, this is needed to correctly create a system user
    if Path::new("/usr/sbin/adduser").exists() {
      match Command::new("/usr/sbin/adduser").args(&["--system", "--no-create-home", "totalmapper"]).output() {
        Err(e) => Err(format!("Failed to run /usr/sbin/adduser: {}", e)),
        Ok(output) => {
          match output.status.code() {
            None => Err("adduser terminated by signal".to_string()),
            Some(0) => Ok(()),
            Some(9) => Ok(()),
            Some(other_code) => Err(format!("/usr/sbin/adduser returned unexpected code {}", other_code))
          }
        }
      }?;
    }
    else {
      match Command::new("/usr/sbin/useradd").args(&["--system", "--no-create-home", "totalmapper"]).output() {
        Err(e) => Err(format!("Failed to run /usr/sbin/useradd: {}", e)),
        Ok(output) => {
          match output.status.code() {
            None => Err("useradd terminated by signal".to_string()),
            Some(0) => Ok(()),
            Some(9) => Ok(()),
            Some(other_code) => Err(format!("/usr/sbin/useradd returned unexpected code {}", other_code))
          }
        }
      }?;
    }
  }
  
  match Command::new("/usr/sbin/usermod").args(&["-a", "-G", "input", "totalmapper"]).output() {
    Err(e) => Err(format!("Failed to run usermod: {}", e)),
    Ok(output) => {
      match output.status.code() {
        None => Err("usermod terminated by signal".to_string()),
        Some(0) => Ok(()),
        Some(other_code) => Err(format!("usermod returned unexpected code {}", other_code))
      }
    }
  }?;
  
  Ok(())
}

fn write_udev_rule() -> Result<(), String> {
  let path = "/etc/udev/rules.d/80-totalmapper.rules";
  let mut out_file = match OpenOptions::new()
    .truncate(true).read(false).create(true).write(true)
    .open(path)
  {
    Err(err) => {
      match err.kind() {
        std::io::ErrorKind::PermissionDenied => {
          return Err(format!("Permission denied writing to {}. You likely must run this sub-command as root.", path));
        },
        _ => return Err(format!("{}", err))
      }
    },
    Ok(out_file) => out_file
  };
  
  match out_file.write(
    "KERNEL==\"event*\", ACTION==\"add\", TAG+=\"systemd\", ENV{SYSTEMD_WANTS}=\"totalmapper@%N.service\"\n".as_bytes()
  ) {
    Err(err) => return Err(format!("{}", err)),
    Ok(_) => ()
  };
  
  Ok(())
}

fn write_systemd_service<'s, I: Iterator<Item = &'s str>>(excludes: I) -> Result<(), String> {
  let path = "/etc/systemd/system/totalmapper@.service";
  let mut out_file = match OpenOptions::new()
    .truncate(true).read(false).create(true).write(true)
    .open(path)
  {
    Err(err) => {
      match err.kind() {
        std::io::ErrorKind::PermissionDenied => {
          return Err(format!("Permission denied writing to {}. You likely must run this sub-command as root.", path));
        },
        _ => return Err(format!("{}", err))
      }
    },
    Ok(out_file) => out_file
  };
   
  match out_file.write(build_service_text(excludes).as_bytes()) {
    Err(err) => return Err(format!("{}", err)),
    Ok(_) => ()
  };
  
  Ok(())
}

fn build_service_text<'s, I: Iterator<Item = &'s str>>(excludes: I) -> String {
  let exclude_text = build_exclude_text(excludes);
  
  format!(
    "[Unit]\n\
     Description=Totalmapper\n\
     \n\
     [Service]\n\
     Type=simple\n\
     User=totalmapper\n\
     Group=input\n\
     ExecStart=/usr/bin/totalmapper remap --verbose --layout-file /etc/totalmapper.json --only-if-keyboard {} --dev-file /%I\n",
    exclude_text
  )
}

fn escape_one_char(c: char) -> String {
  match c {
    '\\' => "\\\\".to_owned(),
    ' ' => "\\s".to_owned(),
    '\x07' => "\\a".to_owned(),
    '\x08' => "\\b".to_owned(),
    '\n' => "\\n".to_owned(),
    '\r' => "\\r".to_owned(),
    '\t' => "\\t".to_owned(),
    '"' => "\\\"".to_owned(),
    '\'' => "\\'".to_owned(),
    '%' => "%%".to_owned(),
    '$' => "$$".to_owned(),
    ';' => "\\x3b".to_owned(),
    '*' => "\\x2a".to_owned(),
    '?' => "\\x3f".to_owned(),
    _ => {
      if c.is_control() {
        let i = c as u64;
        if i < 128 {
          format!("\\x{:02x}", i)
        }
        else if i < 0x10000 {
          format!("\\u{:04x}", i)
        }
        else {
          format!("\\U{:08x}", i)
        }
      }
      else {
        format!("{}", c)
      }
    }
  }
}

fn systemd_arg_escape(text: &str) -> String {
  let mut res = Vec::new();
  for c in text.chars() {
    res.extend(escape_one_char(c).chars());
  }
  res.iter().collect()
}

fn build_exclude_text<'s, I: Iterator<Item = &'s str>>(excludes: I) -> String {
  let chunks: Vec<String> = excludes.map(|pattern| format!("--exclude {}", systemd_arg_escape(pattern))).collect();
  chunks.join(" ")
}

fn refresh_udev() -> Result<(), String> {
  match Command::new(find_program("udevadm")?).args(&["control", "--reload"]).status() {
    Err(e) => Err(format!("Failed to run udevadm: {}", e)),
    Ok(_) => Ok(())
  }?;
  
  match Command::new(find_program("udevadm")?).args(&["trigger"]).output() {
    Err(e) => Err(format!("Failed to run udevadm: {}", e)),
    Ok(_) => Ok(())
  }?;
  
  Ok(())
}

fn refresh_systemd() -> Result<(), String> {
  match Command::new(find_program("systemctl")?).args(&["daemon-reload"]).status() {
    Err(e) => Err(format!("Failed to reload systemd: {}", e)),
    Ok(_) => Ok(())
  }?;
  
  Ok(())
}

pub fn start_systemd_service() -> Result<(), String> {
  for k in convert_io_error("listing keyboards", list_keyboards(false))? {
    if let Some(p) = k.dev_path.to_str() {
      eprintln!("Starting for {}", p);
      let escaped_p = p.replace('/', "-");
      let mut unit = "totalmapper@".to_string();
      unit.push_str(&escaped_p);
      match Command::new(find_program("systemctl")?).args(&["start", &unit]).status() {
        Err(e) => {
          Err(format!("Failed to run systemctl: {}", e))
        },
        Ok(c) => {
          if let Some(code) = c.code() {
            if code == 4 {
              Err("Permission denied running systemctl. Likely you need to run this as root.".to_string())
            }
            else if code == 0 {
              Ok(())
            }
            else {
              Err(format!("systemctl failed with code {}", code))
            }
          }
          else {
            Err("systemctl terminated by signal".to_string())
          }
        }
      }?;
    }
    else {
      eprintln!("WARNING: failed to start for {:?} because couldn't handle non-UTF8 path", k.dev_path);
    }
  }
  
  Ok(())
}

#[cfg(test)]
mod tests {
  use crate::udev_utils::{systemd_arg_escape, build_exclude_text};

  #[test]
  fn test_escaping_1() {
    assert_eq!(systemd_arg_escape("*"), "\\x2a");
    assert_eq!(systemd_arg_escape("*Mouse*"), "\\x2aMouse\\x2a");
    assert_eq!(systemd_arg_escape("Dell Mouse"), "Dell\\sMouse");
  }
  
  #[test]
  fn test_excludes_1() {
    let excludes = vec!["*Mouse*", "*Switch*"];
    assert_eq!(build_exclude_text(excludes.into_iter()), "--exclude \\x2aMouse\\x2a --exclude \\x2aSwitch\\x2a");
  }
}

