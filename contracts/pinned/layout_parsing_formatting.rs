
use std::str::FromStr;
use key_codes::KeyCode;
use serde_json::{Value, Map};
use Value::{Object, Array};
use crate::{fancy_keys::{Layout, Mapping, SingleMapping, AliasMapping, RowMapping, Modifier, SingleFromKeys, RowFromKeys, SingleToKeys, RowToKeys, SingleTerminalToKey, SingleRepeat, RowRepeat, Row, AliasToKeys, AliasFromKeys, RepeatOnlySingleMapping}, key_codes};
use serde_json::Value as j;
use serde_json::json;
use lazy_static::lazy_static;
use std::collections::HashMap;

pub fn parse_layout_from_json(root: &Value) -> Result<Layout, String> {
  match root {
    Object(root_values) => {
      if has_exactly_keys(root_values, &vec!["mappings"]) {
        let mappings_v = root_values.get("mappings").unwrap();
        match mappings_v {
          Array(mapping_vs) => {
            let mut mappings = Vec::new();
              
            for mapping_v in mapping_vs {
              match parse_mapping_from_json(mapping_v) {
                Ok(m) => mappings.push(m),
                Err(e) => return Err(format!("Malformed mapping {}: {}", mapping_v, e)),
              }
            }
            
            let mut defined_alias_names = std::collections::HashSet::new();
            for m in &mappings {
              match m {
                Mapping::Alias(alias) => {
                  defined_alias_names.insert(alias.to.terminal.clone());
                }
                _ => ()
              }
            }
            
            for m in &mappings {
              let used_aliases = mapping_all_used_aliases(m);
              for a in &used_aliases {
                if !defined_alias_names.contains(a) {
                  return Err(format!("Error in mapping {}: alias {} is not defined", format_mapping(m), a));
                }
              }
            }
            
            Ok(Layout {
              mappings
            })
          },
          _ => {
            Err("\"mappings\" must be an array".to_owned())
          }
        }
      }
      else {
        Err("Layout must have a single field \"mappings\"".to_owned())
      }
    },
    _ => {
      Err("Layout JSON must be an object".to_owned())
    }
  }
}

fn just_mods(m: &Modifier) -> Option<String> {
  match m {
    Modifier::Alias(name) => Some(name.clone()),
    _ => None  
  }
}

fn mapping_all_used_aliases(m: &Mapping) -> Vec<String> {
  let none = vec![];
  match m {
    Mapping::Alias(_) => vec![],
    Mapping::Single(single) => {
      single.from.modifiers.iter().filter_map(just_mods)
        .chain(single.to.initial.iter().filter_map(just_mods))
        .chain((match &single.repeat {
          SingleRepeat::Special { keys, delay_ms: _, interval_ms: _ } => &keys.initial,
          _ => &none
        }).iter().filter_map(just_mods))
        .chain(single.absorbing.iter().filter_map(just_mods))
        .collect()
    },
    Mapping::Row(row) => {
      row.from.modifiers.iter().filter_map(just_mods)
        .chain(row.to.initial.iter().filter_map(just_mods))
        .chain((match &row.repeat {
          RowRepeat::Special { keys, delay_ms: _, interval_ms: _ } => &keys.initial,
          _ => &none
        }).iter().filter_map(just_mods))
        .chain(row.absorbing.iter().filter_map(just_mods))
        .collect()
    },
    Mapping::RepeatOnlySingle(single) => {
      single.from.modifiers.iter().filter_map(just_mods)
        .chain((match &single.repeat {
          SingleRepeat::Special { keys, delay_ms: _, interval_ms: _ } => &keys.initial,
          _ => &none
        }).iter().filter_map(just_mods))
        .collect()
    },
  }
}

fn parse_mapping_from_json(mapping_v: &Value) -> Result<Mapping, String> {
  match mapping_v {
    Object(mapping_values) => {
      if has_at_least_keys(mapping_values, &vec!["from", "to"]) {
        let from = parse_from(mapping_values.get("from").unwrap())?;
        match from {
          FromKeys::Single(from) => {
            let to = parse_single_or_alias_to(mapping_values.get("to").unwrap())?;
            match to {
              SingleOrAliasToKeys::Single(to) => {
                let repeat = parse_single_repeat(&mapping_values.get("repeat"))?;
                let absorbing = parse_absorbing(&mapping_values.get("absorbing"))?;
                for m in &absorbing {
                  if !from.modifiers.contains(m) {
                    return Err(format!("Error in mapping {}: absorbed modifier {} does not appear on `from` side", mapping_v, m));
                  }
                }
                
                Ok(Mapping::Single(SingleMapping {
                  from, to, repeat, absorbing
                }))
              },
              SingleOrAliasToKeys::Alias(to) => {
                if mapping_values.contains_key("repeat") { Err("`repeat` not allowed for alias mappings")?; }
                if mapping_values.contains_key("absorbing") { Err("`absorbing` not allowed for alias mappings")?; }
                Ok(Mapping::Alias(AliasMapping { from: single_to_alias_from(&from)?, to }))
              }
            }
          },
          FromKeys::Row(from) => {
            let to = parse_row_to(mapping_values.get("to").unwrap())?;
            let repeat = parse_row_repeat(&mapping_values.get("repeat"))?;
            match &repeat {
              RowRepeat::Special { keys, delay_ms: _, interval_ms: _ } => {
                let num_repeat_chars = keys.terminal.chars().count();
                let num_to_chars = to.terminal.chars().count();
                if num_repeat_chars > num_to_chars {
                  return Err(format!("Row mapping {} has more letters in its `repeat` ({} = {}) than its `to` ({} = {}). This is not allowed because it is not clear how such keys should be mapped. Use individual mappings instead.",
                    mapping_v,
                    keys.terminal,
                    num_repeat_chars,
                    to.terminal,
                    num_to_chars
                  ));
                }
              }
              _ => ()
            };
            
            let absorbing = parse_absorbing(&mapping_values.get("absorbing"))?;
            for m in &absorbing {
              if !from.modifiers.contains(m) {
                return Err(format!("Error in mapping {}: absorbed modifier {} does not appear on `from` side", mapping_v, m));
              }
            }

            Ok(Mapping::Row(RowMapping {
              from, to, repeat, absorbing
            }))
          }
        }
      }
      else if has_exactly_keys(mapping_values, &vec!["from", "repeat"]) {
        let from = parse_from(mapping_values.get("from").unwrap())?;
        match from {
          FromKeys::Single(from) => {
            let repeat = parse_single_repeat(&mapping_values.get("repeat"))?;
            Ok(Mapping::RepeatOnlySingle(RepeatOnlySingleMapping { from, repeat }))
          },
          FromKeys::Row(_) => {
            Err("Cannot have a repeat-only row mapping".to_owned())
          }
        }
      }
      else {
        return Err("Mapping must have \"from\" and \"to\" or \"from\" and \"repeat\" ".to_owned())
      }
    },
    _ => {
      return Err("Each \"mapping\" must be an object".to_owned())
    }
  }
}

fn single_to_alias_from(from: &SingleFromKeys) -> Result<AliasFromKeys, String> {
  let mut keys = Vec::new();
  
  for m in &from.modifiers {
    match m {
      Modifier::Key(key) => {
        keys.push(key.clone());
      },
      Modifier::Alias(_) => {
        return Err("Alias mapping cannot use alias modifier".to_owned());
      }
    }
  }
  
  keys.push(from.key.clone());
  
  Ok(AliasFromKeys { keys })
}

enum FromKeys {
  Single(SingleFromKeys),
  Row(RowFromKeys)
}

fn parse_from(from_v: &Value) -> Result<FromKeys, String> {
  if let Array(from_elems) = from_v {
    if from_elems.len() == 0 {
      Err("Can't map from zero keys, i.e. []".to_owned())
    }
    else {
      let modifiers = parse_from_modifiers(&from_elems[0..from_elems.len()-1])?;
      let key = parse_from_key(&from_elems[from_elems.len()-1])?;
      match key {
        FromKey::Single(key) => Ok(FromKeys::Single(SingleFromKeys { modifiers, key })),
        FromKey::Row(row) => Ok(FromKeys::Row(RowFromKeys { modifiers, row }))
      }
    }
  }
  else {
    let key = parse_from_key(from_v)?;
    match key {
      FromKey::Single(key) => Ok(FromKeys::Single(SingleFromKeys { modifiers: vec![], key })),
      FromKey::Row(row) => Ok(FromKeys::Row(RowFromKeys { modifiers: vec![], row }))
    }
  }
}

fn parse_from_modifiers(mod_vs: &[Value]) -> Result<Vec<Modifier>, String> {
  let mut res = vec![];
  
  for v in mod_vs.iter() {
    res.push(parse_from_modifier(v)?);
  }
    
  Ok(res)
}

fn parse_from_modifier(v: &Value) -> Result<Modifier, String> {
  if let j::String(text) = v {
    if text.starts_with("@") {
      Ok(Modifier::Alias(text.to_owned()))
    }
    else {
      Ok(Modifier::Key(parse_key_code(text)?))
    }
  }
  else {
    Err(format!("Modifier must be a string, found {}", v))
  }
}

enum FromKey {
  Single(KeyCode),
  Row(Row)
}

fn parse_from_key(key_v: &Value) -> Result<FromKey, String> {
  if let j::String(text) = key_v {
    parse_from_key_text(text)
  }
  else if let j::Object(obj) = key_v {
    parse_from_key_obj(obj)
  }
  else {
    Err(format!("`from` key must be a string or an object, found {}", key_v))
  }
}

fn parse_from_row(elems: &Map<String, Value>) -> Result<FromKey, String> {
  if has_exactly_keys(elems, &vec!["row"]) {
    let row_obj = elems.get("row").unwrap();
    if let j::String(row_text) = row_obj {
      Ok(FromKey::Row(parse_row(row_text)?))
    }
    else {
      Err(format!("`row` must be a string, found {}", row_obj))
    }
  }
  else {
    Err("Row must be specified by single key, `row`, which is the first key in theh row".to_owned())
  }
}

lazy_static! {
  static ref ROW_NAMES: HashMap<String, Row> = {
    use crate::fancy_keys::Row::*;
    vec![
     ("`".to_string(), USQuertyGrave),
     ("1".to_string(), USQuerty1),
     ("Q".to_string(), USQuertyQ),
     ("A".to_string(), USQuertyA),
     ("Z".to_string(), USQuertyZ),
    ].into_iter().collect()
  };
}

fn parse_row(text: &str) -> Result<Row, String> {
  match ROW_NAMES.get(&text.to_uppercase()) {
    None => {
      let expected: Vec<String> = ROW_NAMES.keys().map(|s| s.to_owned()).collect();
      let expected = expected.join(", ");
      Err(format!("Don't know row {}, expected one of {}", text, expected))
    },
    Some(row) => Ok(row.clone())
  }
}

fn parse_from_key_text(from_text: &str) -> Result<FromKey, String> {
  Ok(FromKey::Single(parse_key_code(from_text)?))
}

fn parse_from_key_obj(obj: &Map<String, Value>) -> Result<FromKey, String> {
  if has_exactly_keys(obj, &vec!["row"]) {
    Ok(parse_from_row(obj)?)
  }
  else {
    Err(format!("Don't understand `from` object with keys {}, expected possibly key `row`",
        keys_string(obj)))
  }
}

enum SingleOrAliasToKeys {
  Single(SingleToKeys),
  Alias(AliasToKeys)
}

fn parse_single_or_alias_to(to_v: &Value) -> Result<SingleOrAliasToKeys, String> {
  if let j::Array(to_elems) = to_v {
    parse_single_or_alias_to_array(to_elems)
  }
  else {
    let terminal = parse_single_or_alias_to_terminal(to_v)?;
    match terminal {
      SingleOrAliasToTerminal::Single(terminal) => Ok(SingleOrAliasToKeys::Single(SingleToKeys { initial: vec![], terminal })),
      SingleOrAliasToTerminal::Alias(terminal) => Ok(SingleOrAliasToKeys::Alias(AliasToKeys { initial: vec![], terminal }))
    }
  }
}

fn parse_single_to(to_v: &Value) -> Result<SingleToKeys, String> {
  if let j::Array(to_elems) = to_v {
    parse_single_to_array(to_elems)
  }
  else {
    Ok(SingleToKeys {
      initial: vec![],
      terminal: parse_single_to_terminal(to_v)?
    })
  }
}

fn parse_row_to(to_v: &Value) -> Result<RowToKeys, String> {
  if let j::Array(to_elems) = to_v {
    parse_row_to_array(to_elems)
  }
  else {
    Ok(RowToKeys {
      initial: vec![],
      terminal: parse_row_to_terminal(to_v)?
    })
  }
}

enum SingleOrAliasToTerminal {
  Single(SingleTerminalToKey),
  Alias(String)
}

fn parse_single_or_alias_to_terminal(to_v: &Value) -> Result<SingleOrAliasToTerminal, String> {
  if let j::String(to_text) = to_v {
    parse_single_or_alias_to_text(to_text)
  }
  else if let j::Object(_) = to_v {
    Err(format!("`to` object of unrecognized form {}", to_v))
  }
  else {
    Err(format!("`to` should be a string, array, or object; found {}", to_v))
  }
}

fn parse_single_to_terminal(to_v: &Value) -> Result<SingleTerminalToKey, String> {
  if let j::String(to_text) = to_v {
    parse_single_to_text(to_text)
  }
  else if let j::Object(_) = to_v {
    Err(format!("`to` object of unrecognized form {}", to_v))
  }
  else {
    Err(format!("`to` should be a string, array, or object; found {}", to_v))
  }
}

fn parse_row_to_terminal(to_v: &Value) -> Result<String, String> {
  if let j::Object(to_attrs) = to_v {
    parse_row_to_obj(to_attrs)
  }
  else {
    Err(format!("`to` should be object with key `letters`; found {}", to_v))
  }
}

fn parse_single_or_alias_to_text(to_text: &str) -> Result<SingleOrAliasToTerminal, String> {
  if to_text.starts_with("@") {
    Ok(SingleOrAliasToTerminal::Alias(to_text.to_owned()))
  }
  else {
    Ok(SingleOrAliasToTerminal::Single(SingleTerminalToKey::Physical(parse_key_code(to_text)?)))
  }
}

fn parse_single_to_text(to_text: &str) -> Result<SingleTerminalToKey, String> {
  if to_text.starts_with("@") {
    Err(format!("Alias {} not allowed in this position", to_text))
  }
  else {
    Ok(SingleTerminalToKey::Physical(parse_key_code(to_text)?))
  }
}

fn parse_single_or_alias_to_array(to_elems: &[Value]) -> Result<SingleOrAliasToKeys, String> {
  if to_elems.len() == 0 {
    Ok(SingleOrAliasToKeys::Single(SingleToKeys {
      initial: vec![],
      terminal: SingleTerminalToKey::Null
    }))
  }
  else {
    let terminal = parse_single_or_alias_to_terminal(&to_elems[to_elems.len()-1])?;
    
    match terminal {
      SingleOrAliasToTerminal::Single(terminal) => Ok(SingleOrAliasToKeys::Single(SingleToKeys {
        initial: parse_to_initial(&to_elems[0..to_elems.len()-1])?,
        terminal
      })),
      SingleOrAliasToTerminal::Alias(terminal) => Ok(SingleOrAliasToKeys::Alias(AliasToKeys {
        initial: parse_alias_to_initial(&to_elems[0..to_elems.len()-1])?,
        terminal
      })),
    }
  }
}

fn parse_single_to_array(to_elems: &[Value]) -> Result<SingleToKeys, String> {
  if to_elems.len() == 0 {
    Ok(SingleToKeys {
      initial: vec![],
      terminal: SingleTerminalToKey::Null
    })
  }
  else {
    Ok(SingleToKeys {
      initial: parse_to_initial(&to_elems[0..to_elems.len()-1])?,
      terminal: parse_single_to_terminal(&to_elems[to_elems.len()-1])?
    })
  }
}

fn parse_row_to_array(to_elems: &[Value]) -> Result<RowToKeys, String> {
  if to_elems.len() == 0 {
    Err("Cannot map row to an empty array, must map to { \"letters\": \"...\" }".to_owned())
  }
  else {
    Ok(RowToKeys {
      initial: parse_to_initial(&to_elems[0..to_elems.len()-1])?,
      terminal: parse_row_to_terminal(&to_elems[to_elems.len()-1])?
    })
  }
}

fn parse_to_initial(initial_elems: &[Value]) -> Result<Vec<Modifier>, String> {
  let mut res = vec![];
  
  for elem in initial_elems {
    res.push(parse_to_initial_elem(elem)?);
  }
  
  Ok(res)
}

fn parse_alias_to_initial(initial_elems: &[Value]) -> Result<Vec<KeyCode>, String> {
  let mut res = vec![];
  
  for elem in initial_elems {
    res.push(parse_key_code_j(elem)?);
  }
  
  Ok(res)
}

fn parse_to_initial_elem(elem: &Value) -> Result<Modifier, String> {
  if let j::String(text) = elem {
    if text.starts_with("@") {
      Ok(Modifier::Alias(text.to_owned()))
    }
    else {
      Ok(Modifier::Key(parse_key_code(&text)?))
    }
  }
  else {
    Err(format!("Modifier must be a string, found {}", elem))
  }
}

fn parse_row_to_obj(to_attrs: &Map<String, Value>) -> Result<String, String> {
  if has_exactly_keys(to_attrs, &vec!["letters"]) {
    let letters = to_attrs.get("letters").unwrap();
    if let j::String(letters_text) = letters {
      Ok(letters_text.to_owned())
    }
    else {
      Err(format!("`letters` must be a string, found {}", letters))
    }
  }
  else {
    Err(format!("`to` object of unrecognized form {}, expected, for example, `letters`", j::Object(to_attrs.clone())))
  }
}

fn parse_key_code_j(v: &Value) -> Result<KeyCode, String> {
  if let j::String(text) = v {
    parse_key_code(text)
  }
  else {
    Err(format!("A string (keycode) was expected, but found {}", v))
  }
}

fn parse_key_code(text: &str) -> Result<KeyCode, String> {
  if text.starts_with("@") {
    Err(format!("A real key was expected, but alias modifier {} was found", text))
  }
  else {
    match text {
      "0" => Ok(KeyCode::K0),
      "1" => Ok(KeyCode::K1),
      "2" => Ok(KeyCode::K2),
      "3" => Ok(KeyCode::K3),
      "4" => Ok(KeyCode::K4),
      "5" => Ok(KeyCode::K5),
      "6" => Ok(KeyCode::K6),
      "7" => Ok(KeyCode::K7),
      "8" => Ok(KeyCode::K8),
      "9" => Ok(KeyCode::K9),
      _ => KeyCode::from_str(&text).map_err(|_| format!("Unknown key code: {}", text))
    }
  }
}

fn parse_modifier(text: &str) -> Result<Modifier, String> {
  if text.starts_with("@") {
    Ok(Modifier::Alias(text.to_owned()))
  }
  else {
    Ok(Modifier::Key(parse_key_code(text)?))
  }
}

fn parse_single_repeat(v: &Option<&Value>) -> Result<SingleRepeat, String> {
  if let Some(v) = v {
    if let j::String(text) = v {
      if text.to_lowercase() == "normal" {
        Ok(SingleRepeat::Normal)
      }
      else if text.to_lowercase() == "disabled" {
        Ok(SingleRepeat::Disabled)
      }
      else {
        Err(format!("Unrecognized repeat style: {}", text))
      }
    }
    else if let j::Object(params) = v {
      if has_exactly_keys(params, &vec!["Special"]) {
        let special = params.get("Special").unwrap();
        if let j::Object(special) = special {
          if has_exactly_keys(special, &vec!["keys", "delay_ms", "interval_ms"]) {
            let keys = special.get("keys").unwrap();
            let delay_ms = special.get("delay_ms").unwrap();
            let interval_ms = special.get("interval_ms").unwrap();
            
            Ok(SingleRepeat::Special {
              keys: parse_single_repeat_keys(keys)?,
              delay_ms: parse_repeat_delay_ms(delay_ms)?,
              interval_ms: parse_repeat_interval_ms(interval_ms)?
            })
          }
          else {
            Err(format!("`Special` repeat must have attributes `keys`, `delay_ms`, and `interval_ms`, found {}", keys_string(special)))
          }
        }
        else {
          Err(format!("`Special` repeat must be an object, found {}", special))
        }
      }
      else {
        Err(format!("Unknown repeat style: {}", v))
      }
    }
    else {
      Err(format!("Unknown repeat style: {}", v))
    }
  }
  else {
    Ok(SingleRepeat::Normal)
  }
}

fn parse_row_repeat(v: &Option<&Value>) -> Result<RowRepeat, String> {
  if let Some(v) = v {
    if let j::String(text) = v {
      if text.to_lowercase() == "normal" {
        Ok(RowRepeat::Normal)
      }
      else if text.to_lowercase() == "disabled" {
        Ok(RowRepeat::Disabled)
      }
      else {
        Err(format!("Unrecognized repeat style: {}", text))
      }
    }
    else if let j::Object(params) = v {
      if has_exactly_keys(params, &vec!["Special"]) {
        let special = params.get("Special").unwrap();
        if let j::Object(special) = special {
          if has_exactly_keys(special, &vec!["keys", "delay_ms", "interval_ms"]) {
            let keys = special.get("keys").unwrap();
            let delay_ms = special.get("delay_ms").unwrap();
            let interval_ms = special.get("interval_ms").unwrap();
            
            Ok(RowRepeat::Special {
              keys: parse_row_repeat_keys(keys)?,
              delay_ms: parse_repeat_delay_ms(delay_ms)?,
              interval_ms: parse_repeat_interval_ms(interval_ms)?
            })
          }
          else {
            Err(format!("`Special` repeat must have attributes `keys`, `delay_ms`, and `interval_ms`, found {}", keys_string(special)))
          }
        }
        else {
          Err(format!("`Special` repeat must be an object, found {}", special))
        }
      }
      else {
        Err(format!("Unknown repeat style: {}", v))
      }
    }
    else {
      Err(format!("Unknown repeat style: {}", v))
    }
  }
  else {
    Ok(RowRepeat::Normal)
  }
}

fn parse_single_repeat_keys(v: &Value) -> Result<SingleToKeys, String> {
  parse_single_to(v)
}

fn parse_row_repeat_keys(v: &Value) -> Result<RowToKeys, String> {
  parse_row_to(v)
}

fn parse_repeat_delay_ms(v: &Value) -> Result<i32, String> {
  if let j::Number(n) = v {
    Ok(n.as_i64().ok_or(format!("Invalid delay_ms number: {}", v))? as i32)
  }
  else {
    Err(format!("delay_ms must be a number, found {}", v))
  }
}

fn parse_repeat_interval_ms(v: &Value) -> Result<i32, String> {
  if let j::Number(n) = v {
    Ok(n.as_i64().ok_or(format!("Invalid interval_ms number: {}", v))? as i32)
  }
  else {
    Err(format!("interval_ms must be a number, found {}", v))
  }
}

fn parse_absorbing(v: &Option<&Value>) -> Result<Vec<Modifier>, String> {
  if let Some(v) = v {
    if let j::Array(elems) = v {
      let mut res = vec![];
      for elem in elems {
        if let j::String(elem) = elem {
          res.push(parse_modifier(elem)?);
        }
        else {
          Err(format!("`absorbing` must be a list of modifiers, found {}", elem))?;
        }
      }
      Ok(res)
    }
    else if let j::String(elem) = v {
      Ok(vec![parse_modifier(elem)?])
    }
    else {
      Err(format!("`absorbing` must be a list of modifiers, found {}", v))
    }
  }
  else {
    Ok(vec![])
  }
}

fn keys_string(values: &Map<String, Value>) -> String {
  let v1: Vec<&str> = values.keys().map(|s|s.as_str()).collect();
  v1.join(", ")
}

fn has_exactly_keys(values: &Map<String, Value>, check: &Vec<&str>) -> bool {
  let mut v1: Vec<&str> = values.keys().map(|s|s.as_str()).collect();
  let mut v2: Vec<&str> = check.iter().map(|s|*s).collect();
  v1.sort();
  v2.sort();
  v1 == v2
}

fn has_at_least_keys(values: &Map<String, Value>, check: &Vec<&str>) -> bool {
  for key in check {
    if !values.contains_key(*key) {
      return false;
    }
  }
  true
}

#[cfg(test)]
pub fn format_layout_as_json(layout: &Layout) -> Value {
  let mappings: Vec<Value> = layout.mappings.iter().map(format_mapping).collect();
  
  let mut keys = Map::new();
  keys.insert("mappings".to_owned(), j::Array(mappings));
  
  j::Object(keys)
}

fn format_mapping(mapping: &Mapping) -> Value {
  match mapping {
    Mapping::Single(single) => format_single_mapping(single),
    Mapping::Alias(alias) => format_alias_mapping(alias),
    Mapping::Row(row) => format_row_mapping(row),
    Mapping::RepeatOnlySingle(single) => format_repeat_only_single_mapping(single),
  }
}

fn format_single_mapping(mapping: &SingleMapping) -> Value {
  let mut keys = Map::new();
  
  keys.insert("from".to_owned(), format_single_from(&mapping.from));
  keys.insert("to".to_owned(), format_single_to(&mapping.to));
  if let Some(repeat) = format_single_repeat(&mapping.repeat) {
    keys.insert("repeat".to_owned(), repeat);
  }
  if let Some(absorbing) = format_absorbing(&mapping.absorbing) {
    keys.insert("absorbing".to_owned(), absorbing);
  }
  
  j::Object(keys)
}

fn format_repeat_only_single_mapping(mapping: &RepeatOnlySingleMapping) -> Value {
  let mut keys = Map::new();
  
  keys.insert("from".to_owned(), format_single_from(&mapping.from));
  if let Some(repeat) = format_single_repeat(&mapping.repeat) {
    keys.insert("repeat".to_owned(), repeat);
  }
  
  j::Object(keys)
}

fn format_alias_mapping(mapping: &AliasMapping) -> Value {
  let mut keys = Map::new();
  
  keys.insert("from".to_owned(), format_alias_from(&mapping.from));
  keys.insert("to".to_owned(), format_alias_to(&mapping.to));
  
  j::Object(keys)
}

fn format_row_mapping(mapping: &RowMapping) -> Value {
  let mut keys = Map::new();
  
  keys.insert("from".to_owned(), format_row_from(&mapping.from));
  keys.insert("to".to_owned(), format_row_to(&mapping.to));
  if let Some(repeat) = format_row_repeat(&mapping.repeat) {
    keys.insert("repeat".to_owned(), repeat);
  }
  if let Some(absorbing) = format_absorbing(&mapping.absorbing) {
    keys.insert("absorbing".to_owned(), absorbing);
  }
  
  j::Object(keys)
}

fn format_single_from(from: &SingleFromKeys) -> Value {
  let mut elems = Vec::new();
  
  for m in &from.modifiers {
    elems.push(format_modifier(m));
  }
  
  elems.push(format_key_code(&from.key));
  
  if elems.len() == 1 {
    elems.remove(0)
  }
  else {
    j::Array(elems)
  }
}

fn format_alias_from(from: &AliasFromKeys) -> Value {
  let mut elems = Vec::new();
  
  for m in &from.keys {
    elems.push(format_key_code(m));
  }
  
  if elems.len() == 1 {
    elems.remove(0)
  }
  else {
    j::Array(elems)
  }
}

fn format_row_from(from: &RowFromKeys) -> Value {
  let mut elems = Vec::new();
  
  for m in &from.modifiers {
    elems.push(format_modifier(m));
  }
  
  elems.push(format_row(&from.row));
  
  if elems.len() == 1 {
    elems.remove(0)
  }
  else {
    j::Array(elems)
  }
}

fn format_key_code(k: &KeyCode) -> Value {
  match k {
    KeyCode::K0 => json!("0"),
    KeyCode::K1 => json!("1"),
    KeyCode::K2 => json!("2"),
    KeyCode::K3 => json!("3"),
    KeyCode::K4 => json!("4"),
    KeyCode::K5 => json!("5"),
    KeyCode::K6 => json!("6"),
    KeyCode::K7 => json!("7"),
    KeyCode::K8 => json!("8"),
    KeyCode::K9 => json!("9"),
    _ => j::String(format!("{}", k))
  }
}

fn format_modifier(m: &Modifier) -> Value {
  match m {
    Modifier::Key(k) => format_key_code(k),
    Modifier::Alias(a) => j::String(a.clone())
  }
}

fn format_row(row: &Row) -> Value {
  let mut keys = Map::new();
  use crate::fancy_keys::Row::*;

  keys.insert("row".to_owned(), j::String(match row {
    USQuertyGrave => "`".to_owned(),
    USQuerty1 => "1".to_owned(),
    USQuertyQ => "Q".to_owned(),
    USQuertyA => "A".to_owned(),
    USQuertyZ => "Z".to_owned()
  }));
  
  j::Object(keys)
}

fn format_alias_to(to: &AliasToKeys) -> Value {
  let mut elems = Vec::new();
  
  for m in &to.initial {
    elems.push(format_key_code(m));
  }
  
  elems.push(j::String(to.terminal.clone()));
  
  if elems.len() == 1 {
    elems.remove(0)
  }
  else {
    j::Array(elems)
  }
}

fn format_single_to(to: &SingleToKeys) -> Value {
  let mut elems = Vec::new();
  
  for m in &to.initial {
    elems.push(format_modifier(m));
  }
  
  match &to.terminal {
    SingleTerminalToKey::Null => elems.clear(),
    SingleTerminalToKey::Physical(k) => elems.push(format_key_code(k)),
  }
  
  if elems.len() == 1 {
    elems.remove(0)
  }
  else {
    j::Array(elems)
  }
}

fn format_row_to(to: &RowToKeys) -> Value {
  let mut elems = Vec::new();
  
  for m in &to.initial {
    elems.push(format_modifier(m));
  }
  
  elems.push(format_letters(&to.terminal));
  
  if elems.len() == 1 {
    elems.remove(0)
  }
  else {
    j::Array(elems)
  }
}

fn format_letters(s: &str) -> Value {
  let mut keys = Map::new();
  
  keys.insert("letters".to_owned(), j::String(s.to_owned()));
  
  j::Object(keys)
}

fn format_single_repeat(repeat: &SingleRepeat) -> Option<Value> {
  match repeat {
    SingleRepeat::Normal => None,
    SingleRepeat::Disabled => Some(j::String("Disabled".to_owned())),
    SingleRepeat::Special { keys, delay_ms, interval_ms } => Some(format_single_repeat_special(keys, *delay_ms, *interval_ms))
  }
}

fn format_row_repeat(repeat: &RowRepeat) -> Option<Value> {
  match repeat {
    RowRepeat::Normal => None,
    RowRepeat::Disabled => Some(j::String("Disabled".to_owned())),
    RowRepeat::Special { keys, delay_ms, interval_ms } => Some(format_row_repeat_special(keys, *delay_ms, *interval_ms))
  }
}

fn format_single_repeat_special(keys: &SingleToKeys, delay_ms: i32, interval_ms: i32) -> Value {
  let mut elems1 = Map::new();
  let mut elems2 = Map::new();
  
  elems2.insert("keys".to_owned(), format_single_to(keys));
  elems2.insert("delay_ms".to_owned(), json!(delay_ms));
  elems2.insert("interval_ms".to_owned(), json!(interval_ms));
  
  elems1.insert("Special".to_owned(), j::Object(elems2));
  
  j::Object(elems1)
}

fn format_row_repeat_special(keys: &RowToKeys, delay_ms: i32, interval_ms: i32) -> Value {
  let mut elems1 = Map::new();
  let mut elems2 = Map::new();
  
  elems2.insert("keys".to_owned(), format_row_to(keys));
  elems2.insert("delay_ms".to_owned(), json!(delay_ms));
  elems2.insert("interval_ms".to_owned(), json!(interval_ms));
  
  elems1.insert("Special".to_owned(), j::Object(elems2));
  
  j::Object(elems1)
}

fn format_absorbing(absorbing: &Vec<Modifier>) -> Option<Value> {
  if absorbing.is_empty() {
    None
  }
  else {
    let mut res = Vec::new();
    
    for m in absorbing {
      res.push(format_modifier(m));
    }
    
    if res.len() == 1 {
      Some(res.remove(0))
    }
    else {
      Some(j::Array(res))
    }
  }
}

#[cfg(test)]
mod tests {
  use std::str::FromStr;
  use crate::fancy_keys::{Layout, Mapping, SingleMapping, RowMapping, SingleFromKeys, RowFromKeys, Modifier, SingleToKeys, RowToKeys, SingleTerminalToKey, SingleRepeat, RowRepeat, AliasMapping, AliasFromKeys, AliasToKeys};
  use super::{parse_layout_from_json, format_layout_as_json};
  use crate::key_codes::KeyCode::*;

  #[test]
  fn test_parsing_1() {
    let text = r#"{
  "mappings": [
    { "from": "CAPSLOCK", "to": "@symbol" },
    { "from": "RIGHTALT", "to": "@symbol" }
  ]
}"#;
    let json = serde_json::Value::from_str(text).unwrap();
    let parsed = parse_layout_from_json(&json).unwrap();
    assert_eq!(parsed, Layout {
      mappings: vec![
        Mapping::Alias(AliasMapping { from: AliasFromKeys { keys: vec![CAPSLOCK] }, to: AliasToKeys { initial: vec![], terminal: "@symbol".to_owned() } }),
        Mapping::Alias(AliasMapping { from: AliasFromKeys { keys: vec![RIGHTALT] }, to: AliasToKeys { initial: vec![], terminal: "@symbol".to_owned() } }),
      ]
    });
  }

  #[test]
  fn test_parsing_2() {
    let text = r#"{
  "mappings": [
    { "from": "CAPSLOCK", "to": "@symbol" },
    { "from": "RIGHTALT", "to": "@symbol" },
    { "from": ["@symbol", {"row": "Q"}], "to": {"letters": " {}% \\*][|"} },
    { "from": ["@symbol", {"row": "A"}], "to": {"letters": "   = &)(/_$"} },
    { "from": ["@symbol", {"row": "Z"}], "to": {"letters": "\"    !+#"} }
  ]
}"#;
    let json = serde_json::Value::from_str(text).unwrap();
    let parsed = parse_layout_from_json(&json).unwrap();
    use crate::fancy_keys::Row::*;
    assert_eq!(parsed, Layout {
      mappings: vec![
        Mapping::Alias(AliasMapping { from: AliasFromKeys { keys: vec![CAPSLOCK] }, to: AliasToKeys { initial: vec![], terminal: "@symbol".to_owned() } }),
        Mapping::Alias(AliasMapping { from: AliasFromKeys { keys: vec![RIGHTALT] }, to: AliasToKeys { initial: vec![], terminal: "@symbol".to_owned() } }),
      
        Mapping::Row(RowMapping { from: RowFromKeys { modifiers: vec![Modifier::Alias("@symbol".to_owned())], row: USQuertyQ }, to: RowToKeys { initial: vec![], terminal: " {}% \\*][|".to_owned() }, repeat: RowRepeat::Normal, absorbing: vec![] }),
        Mapping::Row(RowMapping { from: RowFromKeys { modifiers: vec![Modifier::Alias("@symbol".to_owned())], row: USQuertyA }, to: RowToKeys { initial: vec![], terminal: "   = &)(/_$".to_owned() }, repeat: RowRepeat::Normal, absorbing: vec![] }),
        Mapping::Row(RowMapping { from: RowFromKeys { modifiers: vec![Modifier::Alias("@symbol".to_owned())], row: USQuertyZ }, to: RowToKeys { initial: vec![], terminal: "\"    !+#".to_owned() }, repeat: RowRepeat::Normal, absorbing: vec![] }),
      ]
    });
  }

  #[test]
  fn test_parsing_3() {
    let text = r#"{
  "mappings": [
    {"from":["COMMA"], "to":["W"], "repeat":{"Special":{"keys":["LEFTCTRL","F24"], "delay_ms":180, "interval_ms":30}}, "absorbing":[]}
  ]
}"#;
    let json = serde_json::Value::from_str(text).unwrap();
    let parsed = parse_layout_from_json(&json).unwrap();
    assert_eq!(parsed, Layout {
      mappings: vec![
        Mapping::Single(SingleMapping { from: SingleFromKeys { modifiers: vec![], key: COMMA }, to: SingleToKeys { initial: vec![], terminal: SingleTerminalToKey::Physical(W) }, repeat: SingleRepeat::Special { keys: SingleToKeys { initial: vec![Modifier::Key(LEFTCTRL)], terminal: SingleTerminalToKey::Physical(F24) }, delay_ms: 180, interval_ms: 30 }, absorbing: vec![] })
      ]
    });
  }

  #[test]
  fn test_formatting_1() {
    let text = r#"{
  "mappings": [
    { "from": "CAPSLOCK", "to": "@symbol" },
    { "from": "RIGHTALT", "to": "@symbol" },
    { "from": ["@symbol", {"row": "Q"}], "to": {"letters": " {}% \\*][|"} },
    { "from": ["@symbol", {"row": "A"}], "to": {"letters": "   = &)(/_$"} },
    { "from": ["@symbol", {"row": "Z"}], "to": {"letters": "\"    !+#"} }
  ]
}"#;
    let json = serde_json::Value::from_str(text).unwrap();
    let restringed1 = json.to_string();
    let layout = parse_layout_from_json(&json).unwrap();
    let formatted = format_layout_as_json(&layout);
    let restringed2 = formatted.to_string();

    if restringed1 != restringed2 {
      println!("{}", restringed1);
      println!("{}", restringed2);
    }
    assert_eq!(restringed1, restringed2);
  }

  #[test]
  fn test_formatting_2() {
    let text = r#"{
  "mappings": [
    {"from":"COMMA", "to":"W", "repeat":{"Special":{"keys":["LEFTCTRL","F24"], "delay_ms":180, "interval_ms":30}}}
  ]
}"#;
    let json = serde_json::Value::from_str(text).unwrap();
    let restringed1 = json.to_string();
    let layout = parse_layout_from_json(&json).unwrap();
    let formatted = format_layout_as_json(&layout);
    let restringed2 = formatted.to_string();

    if restringed1 != restringed2 {
      println!("{}", restringed1);
      println!("{}", restringed2);
    }
    assert_eq!(restringed1, restringed2);
  }

  #[test]
  fn test_numbers() {
    let text = r#"{
  "mappings": [
    {"from":["4"], "to":["3"]}
  ]
}"#;
    let json = serde_json::Value::from_str(text).unwrap();
    let parsed = parse_layout_from_json(&json).unwrap();
    assert_eq!(parsed, Layout {
      mappings: vec![
        Mapping::Single(SingleMapping { from: SingleFromKeys { modifiers: vec![], key: K4}, to: SingleToKeys { initial: vec![], terminal: SingleTerminalToKey::Physical(K3) }, repeat: SingleRepeat::Normal, absorbing: vec![] })
      ]
    });
  }

  #[test]
  fn test_numbers_2() {
    let text = r#"{
  "mappings": [
    {"from":"3", "to":"4", "repeat":{"Special":{"keys":["LEFTCTRL","F24"], "delay_ms":180, "interval_ms":30}}}
  ]
}"#;
    let json = serde_json::Value::from_str(text).unwrap();
    let restringed1 = json.to_string();
    let layout = parse_layout_from_json(&json).unwrap();
    let formatted = format_layout_as_json(&layout);
    let restringed2 = formatted.to_string();

    if restringed1 != restringed2 {
      println!("{}", restringed1);
      println!("{}", restringed2);
    }
    assert_eq!(restringed1, restringed2);
  }
}

