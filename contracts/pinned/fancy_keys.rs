
use std::fmt::Display;

// vim: shiftwidth=2
 
pub use crate::key_codes::KeyCode; 
pub use crate::events::Event;
pub use Event::Pressed;
pub use Event::Released;

#[derive(Debug, Clone, PartialEq, Eq)]
pub struct Layout {
  pub mappings: Vec<Mapping>
}

#[derive(Debug, Clone, PartialEq, Eq)]
pub enum Mapping {
  Single(SingleMapping),
  Alias(AliasMapping),
  Row(RowMapping),
  RepeatOnlySingle(RepeatOnlySingleMapping),
}

#[derive(Debug, Clone, PartialEq, Eq)]
pub struct AliasMapping {
  pub from: AliasFromKeys,
  pub to: AliasToKeys
}

#[derive(Debug, Clone, PartialEq, Eq)]
pub struct SingleMapping {
  pub from: SingleFromKeys,
  pub to: SingleToKeys,
  pub repeat: SingleRepeat,
  pub absorbing: Vec<Modifier>
}

#[derive(Debug, Clone, PartialEq, Eq)]
pub struct RepeatOnlySingleMapping {
  pub from: SingleFromKeys,
  pub repeat: SingleRepeat,
}

#[derive(Debug, Clone, PartialEq, Eq)]
pub struct RowMapping {
  pub from: RowFromKeys,
  pub to: RowToKeys,
  pub repeat: RowRepeat,
  pub absorbing: Vec<Modifier>
}

#[derive(Debug, Clone, PartialEq, Eq)]
pub struct SingleFromKeys {
  pub modifiers: Vec<Modifier>,
  pub key: KeyCode
}

#[derive(Debug, Clone, PartialEq, Eq)]
pub struct AliasFromKeys {
  pub keys: Vec<KeyCode>
}

#[derive(Debug, Clone, PartialEq, Eq)]
pub struct RowFromKeys {
  pub modifiers: Vec<Modifier>,
  pub row: Row
}

#[derive(Debug, Clone, PartialEq, Eq, Hash)]
pub enum Row {
  USQuertyGrave,
  USQuerty1,
  USQuertyQ,
  USQuertyA,
  USQuertyZ,
}

impl Display for Row {
  fn fmt(&self, f: &mut std::fmt::Formatter<'_>) -> std::fmt::Result {
    match self {
      Row::USQuertyGrave => f.write_str("`"),
      Row::USQuerty1 => f.write_str("1"),
      Row::USQuertyQ => f.write_str("Q"),
      Row::USQuertyA => f.write_str("A"),
      Row::USQuertyZ => f.write_str("Z"),
    }
  }
}

#[derive(Debug, Clone, PartialEq, Eq)]
pub enum Modifier {
  Key(KeyCode),
  Alias(String)
}

impl Display for Modifier {
  fn fmt(&self, f: &mut std::fmt::Formatter<'_>) -> std::fmt::Result {
    match self {
      Modifier::Key(k) => f.write_fmt(format_args!("{}", k)),
      Modifier::Alias(name) => f.write_str(name)
    }
  }
}

#[derive(Debug, Clone, PartialEq, Eq)]
pub struct SingleToKeys {
  pub initial: Vec<Modifier>,
  pub terminal: SingleTerminalToKey
}

#[derive(Debug, Clone, PartialEq, Eq)]
pub struct AliasToKeys {
  pub initial: Vec<KeyCode>,
  pub terminal: String
}

#[derive(Debug, Clone, PartialEq, Eq)]
pub struct RowToKeys {
  pub initial: Vec<Modifier>,
  pub terminal: String
}

#[derive(Debug, Clone, PartialEq, Eq)]
pub enum SingleTerminalToKey {
  Physical(KeyCode),
  Null
}

#[derive(Debug, Clone, PartialEq, Eq)]
pub enum SingleRepeat {
  Normal,
  Disabled,
  Special {
    keys: SingleToKeys,
    delay_ms: i32,
    interval_ms: i32
  }
}

#[derive(Debug, Clone, PartialEq, Eq)]
pub enum RowRepeat {
  Normal,
  Disabled,
  Special {
    keys: RowToKeys,
    delay_ms: i32,
    interval_ms: i32
  }
}

