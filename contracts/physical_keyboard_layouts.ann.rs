// E5: the lazy_static table US_KEYBOARD_LAYOUT is replaced by an accessor with an assumed contract.
// (lazy_static! cannot be expanded by single-file Verus; what is trusted: `get` behaves like HashMap::get on the
// table built by _us_keyboard_layout, i.e. it returns None or a reference to one of the five row slices.)
/// the table as a function: the keys of a physical row, left to right - uninterpreted; compared with the US-QWERTY layout by the enumeration `tables`
pub uninterp spec fn ukl_row(r: Row) -> Option<Seq<KeyCode>>;
pub struct UKL {}
impl UKL {
  #[verifier::external_body]
  pub fn get(&self, r: &Row) -> (res: Option<&&'static [KeyCode]>)
    ensures
      //@ C13 | ASSUMED (E5): a lookup in the immutable table is a function of the row
      match res { Some(sl) => ukl_row(*r) == Some((**sl)@), None => ukl_row(*r) is None },
  { unimplemented!() }
}
pub exec static US_KEYBOARD_LAYOUT: UKL ensures true { UKL{} }
