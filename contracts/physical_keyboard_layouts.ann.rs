// E5: the lazy_static table US_KEYBOARD_LAYOUT is replaced by an accessor with an assumed contract.
// (lazy_static! cannot be expanded by single-file Verus; what is trusted: `get` behaves like HashMap::get on the
// table built by _us_keyboard_layout, i.e. it returns None or a reference to one of the five row slices.)
pub struct UKL {}
impl UKL {
  #[verifier::external_body]
  pub fn get(&self, r: &Row) -> (res: Option<&&'static [KeyCode]>)
  { unimplemented!() }
}
pub exec static US_KEYBOARD_LAYOUT: UKL ensures true { UKL{} }
