// Overlay for src/keys.rs: abstract views of Mapping / Repeat and the written-out Clone (E2').
// ---------- views and written-out Clone (E2') ----------
pub enum RepeatV { Normal, Disabled, Special { keys: Seq<KeyCode>, delay_ms: i32, interval_ms: i32 } }

pub struct MappingV { pub from: Seq<KeyCode>, pub to: Seq<KeyCode>, pub repeat: RepeatV, pub absorbing: Seq<KeyCode> }

pub open spec fn rview(r: Repeat) -> RepeatV {
  match r { Repeat::Normal => RepeatV::Normal, Repeat::Disabled => RepeatV::Disabled,
    Repeat::Special { keys, delay_ms, interval_ms } => RepeatV::Special { keys: keys@, delay_ms, interval_ms } }
}

pub open spec fn mview(m: Mapping) -> MappingV { MappingV { from: m.from@, to: m.to@, repeat: rview(m.repeat), absorbing: m.absorbing@ } }

impl Clone for Repeat {
  fn clone(&self) -> (r: Self)
    ensures rview(r) == rview(*self)
  {
    match self {
      Repeat::Normal => Repeat::Normal,
      Repeat::Disabled => Repeat::Disabled,
      Repeat::Special { keys, delay_ms, interval_ms } => Repeat::Special { keys: keys.clone(), delay_ms: *delay_ms, interval_ms: *interval_ms },
    }
  }
}

impl Clone for Mapping {
  fn clone(&self) -> (r: Self)
    ensures mview(r) == mview(*self)
  {
    Mapping { from: self.from.clone(), to: self.to.clone(), repeat: self.repeat.clone(), absorbing: self.absorbing.clone() }
  }
}


// ---- what the mapper and the event loop require of a layout (established by the converter, C14) ----
// repeat parameters the event loop can turn into a Duration: non-negative milliseconds, no key twice in the chord
pub open spec fn repeatv_ok(r: RepeatV) -> bool {
  match r { RepeatV::Special { keys, delay_ms, interval_ms } => delay_ms >= 0 && interval_ms >= 0 && keys.no_duplicates(), _ => true }
}
pub open spec fn repeat_ok(r: Repeat) -> bool { repeatv_ok(rview(r)) }
pub open spec fn mapping_ok(m: Mapping) -> bool {
  m.from@.len() >= 1 && m.from@.no_duplicates() && m.to@.no_duplicates() && repeat_ok(m.repeat)
}

pub open spec fn layout_ok(l: Layout) -> bool {
  forall|i: int| 0 <= i < l.mappings@.len() ==> mapping_ok(#[trigger] l.mappings@[i])
}

