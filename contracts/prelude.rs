// Assumed contracts on std (DESIGN 4.3). Every item in this file is an
// assumption and is listed in the evidence by the assumption scan.
pub assume_specification<T: PartialEq> [ <[T]>::contains ] (s: &[T], x: &T) -> (b: bool)
  ensures b == s@.contains(*x);
use vstd::std_specs::hash::*;
use crate::key_codes::KeyCode;
#[verifier::external_body]
pub proof fn axiom_vec_len_isize<T>(v: &Vec<T>)
  ensures v@.len() <= isize::MAX
{}

#[verifier::external_body]
pub proof fn axiom_keycode_key_model()
  ensures obeys_key_model::<KeyCode>()
{}

pub uninterp spec fn borrowed_key_updated<K, V, Q: ?Sized>(old_m: Map<K, V>, new_m: Map<K, V>, k: &Q, v: V) -> bool;

#[verifier::external_body]
pub proof fn axiom_borrowed_key_updated_deref<K, V>(old_m: Map<K, V>, new_m: Map<K, V>, k: &K, v: V)
  ensures borrowed_key_updated::<K, V, K>(old_m, new_m, k, v) <==> new_m == old_m.insert(*k, v)
{}

pub assume_specification<'a, K: Eq + std::hash::Hash + std::borrow::Borrow<Q>, V, S: std::hash::BuildHasher, A: std::alloc::Allocator, Q: std::hash::Hash + Eq + ?Sized> [std::collections::HashMap::<K, V, S, A>::get_mut] (m: &'a mut std::collections::HashMap<K, V, S, A>, k: &Q) -> (r: Option<&'a mut V>)
  ensures
    obeys_key_model::<K>() && builds_valid_hashers::<S>() ==> (match r {
      Some(v) => contains_borrowed_key(old(m)@, k) && maps_borrowed_key_to_value(old(m)@, k, *v)
                 && borrowed_key_updated(old(m)@, final(m)@, k, *final(v)),
      None => !contains_borrowed_key(old(m)@, k) && final(m)@ == old(m)@,
    });

