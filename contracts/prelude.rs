// Assumed contracts on std (DESIGN 4.3). Every item in this file is an
// assumption and is listed in the evidence by the assumption scan.
pub assume_specification<T: PartialEq> [ <[T]>::contains ] (s: &[T], x: &T) -> (b: bool)
  ensures b == s@.contains(*x);
use vstd::std_specs::hash::*;
//#if key_codes
use crate::key_codes::KeyCode;
//#endif
#[verifier::external_body]
pub proof fn axiom_vec_len_isize<T>(v: &Vec<T>)
  ensures v@.len() <= isize::MAX
{}

//#if key_codes
#[verifier::external_body]
pub proof fn axiom_keycode_key_model()
  ensures obeys_key_model::<KeyCode>()
{}
//#endif

pub uninterp spec fn borrowed_key_updated<K, V, Q: ?Sized>(old_m: Map<K, V>, new_m: Map<K, V>, k: &Q, v: V) -> bool;

#[verifier::external_body]
pub proof fn axiom_borrowed_key_updated_deref<K, V>(old_m: Map<K, V>, new_m: Map<K, V>, k: &K, v: V)
  ensures borrowed_key_updated::<K, V, K>(old_m, new_m, k, v) <==> new_m == old_m.insert(*k, v)
{}

pub assume_specification<'a, K: Eq + std::hash::Hash + std::borrow::Borrow<Q>, V, S: std::hash::BuildHasher, A: std::alloc::Allocator, Q: std::hash::Hash + Eq + ?Sized> [std::collections::HashMap::<K, V, S, A>::get_mut] (m: &'a mut std::collections::HashMap<K, V, S, A>, k: &Q) -> (r: Option<&'a mut V>)
  ensures
    obeys_key_model::<K>() && builds_valid_hashers::<S>() ==> (match r {
      Some(v) => contains_borrowed_key(old(m)@, k) && maps_borrowed_key_to_value(old(m)@, k, *v)
                 && borrowed_key_updated(old(m)@, final(m)@, k, *final(v)),
      None => !contains_borrowed_key(old(m)@, k) && final(m)@ == old(m)@,
    });


// ---- time, sleeping, diagnostics output (event loop) ----
use vstd::std_specs::ops::*;
use vstd::std_specs::cmp::*;
use std::time::{Instant, Duration};
#[verifier::external_type_specification]
#[verifier::external_body]
pub struct ExInstant(std::time::Instant);
pub uninterp spec fn inst_ns(i: Instant) -> int;     // nanoseconds since an arbitrary epoch (mathematical integer)
pub uninterp spec fn dur_ns(d: Duration) -> int;
pub uninterp spec fn is_now_reading(i: Instant) -> bool;   // marks the values returned by Instant::now()
pub assume_specification [std::time::Instant::now] () -> (r: std::time::Instant)
  ensures is_now_reading(r);
pub assume_specification [std::time::Duration::from_millis] (ms: u64) -> (r: std::time::Duration)
  ensures dur_ns(r) == ms * 1000000;
pub assume_specification [std::thread::sleep] (d: std::time::Duration);
pub assume_specification [std::io::_eprint] (a: std::fmt::Arguments<'_>);

// Instant arithmetic: integer arithmetic on the uninterpreted nanosecond views. std documents `Instant + Duration` to panic
// on overflow of the underlying representation; the model makes that a precondition for durations above ADD_SAFE_NS
// (about 24.8 days, i32::MAX milliseconds): adding a duration that came from a non-negative i32 millisecond count never
// overflows, adding a wrapped negative one (u64 above 2^63 ms) is not allowed.
pub open spec fn add_safe_ns() -> int { 2147483647int * 1000000int }
#[verifier::external_body]
pub broadcast proof fn axiom_instant_add(a: Instant, d: Duration)
  ensures
    #![trigger <Instant as AddSpec<Duration>>::add_req(a, d)]
    #![trigger <Instant as AddSpec<Duration>>::add_spec(a, d)]
    <Instant as AddSpec<Duration>>::add_req(a, d) == (0 <= dur_ns(d) <= add_safe_ns()),
    inst_ns(<Instant as AddSpec<Duration>>::add_spec(a, d)) == inst_ns(a) + dur_ns(d),
{}
#[verifier::external_body]
pub broadcast proof fn axiom_instant_obeys_add()
  ensures #[trigger] <Instant as AddSpec<Duration>>::obeys_add_spec()
{}
#[verifier::external_body]
pub broadcast proof fn axiom_instant_obeys_sub()
  ensures #[trigger] <Instant as SubSpec<Instant>>::obeys_sub_spec()
{}
#[verifier::external_body]
pub broadcast proof fn axiom_instant_obeys_cmp()
  ensures #[trigger] <Instant as PartialOrdSpec<Instant>>::obeys_partial_cmp_spec()
{}
#[verifier::external_body]
pub broadcast proof fn axiom_instant_cmp(a: Instant, b: Instant)
  ensures
    #[trigger] <Instant as PartialOrdSpec<Instant>>::partial_cmp_spec(&a, &b) == Some(if inst_ns(a) < inst_ns(b) { core::cmp::Ordering::Less } else if inst_ns(a) == inst_ns(b) { core::cmp::Ordering::Equal } else { core::cmp::Ordering::Greater }),
{}
// `a - b` on Instants saturates at zero (documented since Rust 1.60)
#[verifier::external_body]
pub broadcast proof fn axiom_instant_sub(a: Instant, b: Instant)
  ensures
    #![trigger <Instant as SubSpec<Instant>>::sub_req(a, b)]
    #![trigger <Instant as SubSpec<Instant>>::sub_spec(a, b)]
    <Instant as SubSpec<Instant>>::sub_req(a, b),
    dur_ns(<Instant as SubSpec<Instant>>::sub_spec(a, b)) == (if inst_ns(a) >= inst_ns(b) { inst_ns(a) - inst_ns(b) } else { 0 }),
{}
pub broadcast group group_instant_axioms { axiom_instant_add, axiom_instant_obeys_add, axiom_instant_obeys_sub, axiom_instant_obeys_cmp, axiom_instant_cmp, axiom_instant_sub }

// ---- converter ----
// `sort` leaves a permutation of the elements that is ascending in the order `Ord` defines (std documentation). `ord_leq::<T>` stands for that order;
// that it is a total order consistent with `==` is assumed for KeyCode only (derived Ord/Eq on a field-less enum with distinct discriminants).
pub uninterp spec fn ord_leq<T>(a: T, b: T) -> bool;
pub open spec fn ord_leq_fn<T>() -> spec_fn(T, T) -> bool { |a: T, b: T| ord_leq::<T>(a, b) }
pub assume_specification<T: Ord> [ <[T]>::sort ] (s: &mut [T])
  ensures final(s)@.len() == old(s)@.len(),
    vstd::relations::sorted_by(final(s)@, ord_leq_fn::<T>()),
    final(s)@.to_multiset() == old(s)@.to_multiset();
//#if key_codes
#[verifier::external_body]
pub proof fn axiom_keycode_total_order()
  ensures vstd::relations::total_ordering(ord_leq_fn::<KeyCode>())
{}
//#endif
// the byte length of a String: no relation to the number of characters is stated (none holds)
pub assume_specification [std::string::String::len] (_0: &std::string::String) -> usize;
// `count` consumes the iterator and returns how many items were left (std documentation); vstd knows that `s.chars()` has all of `s@` left
pub assume_specification<'a> [<std::str::Chars<'a> as std::iter::Iterator>::count] (c: std::str::Chars<'a>) -> (r: usize)
  ensures r == vstd::std_specs::iter::IteratorSpec::remaining(&c).len();
// Vec::extend over references to Copy values appends copies of the items the argument yields, in order (std documentation of `Extend<&'a T> for Vec<T>`);
// what a `&Vec<T>` yields is its elements in order (axiom_ext_items_vec). Both are ASSUMED.
pub uninterp spec fn ext_items<T, I>(i: I) -> Seq<T>;
pub assume_specification<'a, T: Copy + 'a, A: std::alloc::Allocator, I: std::iter::IntoIterator<Item = &'a T>> [<std::vec::Vec<T, A> as std::iter::Extend<&'a T>>::extend] (v: &mut std::vec::Vec<T, A>, i: I)
  ensures final(v)@ == old(v)@ + ext_items::<T, I>(i);
#[verifier::external_body]
pub proof fn axiom_ext_items_vec<'a, T>(x: &'a Vec<T>)
  ensures ext_items::<T, &'a Vec<T>>(x) == x@
{}

// ---- udev (C17): the escaper is the concatenation of the per-character escapes ----
// Vec::extend over an iterator of owned items appends the items the iterator yields, in order (std documentation); what a `Chars` yields is the characters it has left
pub uninterp spec fn ext_own<T, I>(i: I) -> Seq<T>;
pub assume_specification<T, A: std::alloc::Allocator, I: std::iter::IntoIterator<Item = T>> [<std::vec::Vec<T, A> as std::iter::Extend<T>>::extend] (v: &mut std::vec::Vec<T, A>, i: I)
  ensures final(v)@ == old(v)@ + ext_own::<T, I>(i);
#[verifier::external_body]
pub proof fn axiom_ext_own_chars<'a>(c: std::str::Chars<'a>)
  ensures ext_own::<char, std::str::Chars<'a>>(c) == vstd::std_specs::iter::IteratorSpec::remaining(&c)
{}
// collecting `&char` items into a String gives the string of those characters, in order (std: `impl FromIterator<&char> for String`)
#[verifier::external_body]
pub proof fn axiom_string_from_chars(items: Seq<&char>, r: String)
  ensures <String as vstd::std_specs::iter::FromIteratorSpec<&char>>::from_iter_ensures(items, r) ==> r@ == items.map_values(|x: &char| *x)
{}
