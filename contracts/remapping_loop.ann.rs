// Overlay for src/remapping_loop.rs: ghost driver state + contracts of the Driver trait, contracts of the per-device loop
use crate::key_transforms::{apply, ev1, all_released, lemma_apply_append, rrepeat_ok};
use crate::prelude_specs::*;

// ---------------------------------------------------------------------------------------------------------
// The repeat chord of C11: the keys that are not already held, pressed in listed order, released in reverse
// ---------------------------------------------------------------------------------------------------------
pub open spec fn chord_press(keys: Seq<KeyCode>, held: Set<KeyCode>, n: int) -> Seq<Event>
  decreases n
{
  if n <= 0 { Seq::empty() } else {
    let r = chord_press(keys, held, n - 1);
    if held.contains(keys[n - 1]) { r } else { r.push(Event::Pressed(keys[n - 1])) }
  }
}
// releases of keys[lo..], last key first
pub open spec fn chord_release(keys: Seq<KeyCode>, held: Set<KeyCode>, lo: int) -> Seq<Event>
  decreases keys.len() - lo
{
  if lo >= keys.len() { Seq::empty() } else {
    let r = chord_release(keys, held, lo + 1);
    if held.contains(keys[lo]) { r } else { r.push(Event::Released(keys[lo])) }
  }
}
pub open spec fn chord(keys: Seq<KeyCode>, held: Set<KeyCode>) -> Seq<Event> {
  chord_press(keys, held, keys.len() as int) + chord_release(keys, held, 0)
}
pub open spec fn fresh_keys(keys: Seq<KeyCode>, held: Set<KeyCode>, n: int) -> Set<KeyCode> {
  keys.take(n).to_set().difference(held)
}
proof fn lemma_take_push(keys: Seq<KeyCode>, n: int)
  requires keys.no_duplicates(), 0 < n <= keys.len()
  ensures keys.take(n).to_set() =~= keys.take(n - 1).to_set().insert(keys[n - 1]), !keys.take(n - 1).to_set().contains(keys[n - 1])
{
  let t0 = keys.take(n - 1); let t1 = keys.take(n); let k = keys[n - 1];
  assert(t1 =~= t0.push(k));
  assert forall|x: KeyCode| t1.contains(x) <==> (t0.contains(x) || x == k) by {
    if t0.contains(x) { let j = choose|j: int| 0 <= j < t0.len() && t0[j] == x; assert(t1[j] == x); }
    if x == k { assert(t1[n - 1] == k); }
    if t1.contains(x) { let j = choose|j: int| 0 <= j < t1.len() && t1[j] == x; if j < n - 1 { assert(t0[j] == x); } }
  }
  assert(!t0.contains(k)) by { if t0.contains(k) { let j = choose|j: int| 0 <= j < t0.len() && t0[j] == k; assert(keys[j] == keys[n - 1]); } }
}
proof fn lemma_chord_press(keys: Seq<KeyCode>, held: Set<KeyCode>, n: int)
  requires keys.no_duplicates(), 0 <= n <= keys.len()
  ensures apply(held, chord_press(keys, held, n)) == Some(held.union(fresh_keys(keys, held, n)))
  decreases n
{
  if n > 0 {
    lemma_chord_press(keys, held, n - 1);
    let k = keys[n - 1];
    lemma_take_push(keys, n);
    if held.contains(k) {
      assert(fresh_keys(keys, held, n) =~= fresh_keys(keys, held, n - 1));
    } else {
      let r = chord_press(keys, held, n - 1);
      assert(r.push(Event::Pressed(k)).drop_last() =~= r);
      assert(held.union(fresh_keys(keys, held, n - 1)).insert(k) =~= held.union(fresh_keys(keys, held, n)));
    }
  } else {
    assert(keys.take(0) =~= Seq::<KeyCode>::empty());
    assert(fresh_keys(keys, held, 0) =~= Set::<KeyCode>::empty());
    assert(held.union(Set::<KeyCode>::empty()) =~= held);
  }
}
proof fn lemma_chord_release(keys: Seq<KeyCode>, held: Set<KeyCode>, lo: int)
  requires keys.no_duplicates(), 0 <= lo <= keys.len()
  ensures apply(held.union(fresh_keys(keys, held, keys.len() as int)), chord_release(keys, held, lo)) == Some(held.union(fresh_keys(keys, held, lo)))
  decreases keys.len() - lo
{
  if lo < keys.len() {
    lemma_chord_release(keys, held, lo + 1);
    let k = keys[lo];
    lemma_take_push(keys, lo + 1);
    if held.contains(k) {
      assert(fresh_keys(keys, held, lo + 1) =~= fresh_keys(keys, held, lo));
    } else {
      let r = chord_release(keys, held, lo + 1);
      assert(r.push(Event::Released(k)).drop_last() =~= r);
      assert(held.union(fresh_keys(keys, held, lo + 1)).remove(k) =~= held.union(fresh_keys(keys, held, lo)));
    }
  } else {
    assert(keys.take(keys.len() as int) =~= keys);
  }
}
// transience: folding the chord over the held set gives the held set back
proof fn lemma_chord_transient(keys: Seq<KeyCode>, held: Set<KeyCode>)
  requires keys.no_duplicates()
  ensures apply(held, chord(keys, held)) == Some(held)
{
  lemma_chord_press(keys, held, keys.len() as int);
  lemma_chord_release(keys, held, 0);
  lemma_apply_append(held, chord_press(keys, held, keys.len() as int), chord_release(keys, held, 0));
  assert(keys.take(0) =~= Seq::<KeyCode>::empty());
  assert(fresh_keys(keys, held, 0) =~= Set::<KeyCode>::empty());
  assert(held.union(Set::<KeyCode>::empty()) =~= held);
}

pub open spec fn flatten(b: Seq<Seq<Event>>) -> Seq<Event>
  decreases b.len()
{
  if b.len() == 0 { Seq::empty() } else { flatten(b.drop_last()) + b.last() }
}

// what the loop must remember of the mapper's last repeat request (C09 -> C11): None = no timer
pub struct RepeatReq { pub keys: Seq<KeyCode>, pub delay_ms: int, pub interval_ms: int }
spec fn wr_matches(wr: WorkingRepeat, exp: Option<RepeatReq>, nw_ns: int) -> bool {
  match wr {
    WorkingRepeat::Idle => exp is None,
    WorkingRepeat::Repeating { keys, next_wakeup, interval_ms } =>
      exp is Some && keys@ == exp.unwrap().keys && interval_ms == exp.unwrap().interval_ms && inst_ns(next_wakeup) == nw_ns
      && interval_ms >= 0 && keys@.no_duplicates(),
  }
}

//@ C10 C11 C12 C20 | default: trait Driver (environment contract of the loop; every implementation that meets it is covered)
trait Driver {
  type PollRegistry;
  spec fn failed(&self) -> bool;                 // some call returned Err
  spec fn last_error(&self) -> Seq<char>;        // ... with this message
  spec fn sends(&self) -> Seq<Seq<Event>>;       // batches written to the virtual keyboard, in order
  spec fn reads_live(&self) -> Seq<Event>;       // keyboard events delivered while the tablet switch was off
  spec fn kb_pending(&self) -> bool;             // notified about the keyboard and not yet drained to Busy
  spec fn tab_pending(&self) -> bool;
  spec fn tablet(&self) -> bool;                 // last delivered switch event was On
  spec fn just_switched(&self) -> bool;          // the previous driver call delivered a switch event
  spec fn interrupts(&self) -> nat;              // Interrupted results since the last device event
  // environment assumption (finite bursts): how many events the device will still hand out before it next answers Busy; a measure for the drain loops only
  spec fn kb_left(&self) -> nat;
  spec fn tab_left(&self) -> nat;

  fn register_poll(&mut self) -> (r: Result<Self::PollRegistry, String>)
    requires
      //@ C20 | no driver call after a failure
      !old(self).failed(),
    ensures (r matches Err(e) ==> final(self).failed() && final(self).last_error() == e@), r is Ok ==> !final(self).failed(),
      final(self).sends() == old(self).sends(), final(self).reads_live() == old(self).reads_live(),
      final(self).kb_pending() == old(self).kb_pending(), final(self).tab_pending() == old(self).tab_pending(),
      final(self).tablet() == old(self).tablet(), !final(self).just_switched(), final(self).interrupts() == old(self).interrupts();
  fn poll(&mut self, registry: &mut Self::PollRegistry, timeout: Option<Duration>) -> (r: Result<PollResult, String>)
    requires
      //@ C20 | no driver call after a failure
      !old(self).failed(),
      //@ C10 | the loop never goes back to waiting while events it has been notified about are unread
      !old(self).kb_pending(), !old(self).tab_pending(),
    ensures (r matches Err(e) ==> final(self).failed() && final(self).last_error() == e@), r is Ok ==> !final(self).failed(),
      final(self).sends() == old(self).sends(), final(self).reads_live() == old(self).reads_live(),
      final(self).tablet() == old(self).tablet(), !final(self).just_switched(),
      match r { Ok(PollResult::DeviceEvent(devs)) => final(self).kb_pending() == devs@.contains(Device::Keyboard) && final(self).tab_pending() == devs@.contains(Device::Tablet) && final(self).interrupts() == 0,
                // environment assumption: fewer than 50 interruptions between two device events (beyond that `1000 * (1 << restart_count)` overflows)
                Ok(PollResult::Interrupted) => !final(self).kb_pending() && !final(self).tab_pending() && final(self).interrupts() == old(self).interrupts() + 1 && final(self).interrupts() < 50,
                _ => !final(self).kb_pending() && !final(self).tab_pending() && final(self).interrupts() == old(self).interrupts() };
  fn next_keyboard(&mut self) -> (r: Result<Next<Event>, String>)
    requires
      //@ C20 | no driver call after a failure
      !old(self).failed(),
    ensures (r matches Err(e) ==> final(self).failed() && final(self).last_error() == e@), r is Ok ==> !final(self).failed(),
      final(self).sends() == old(self).sends(), final(self).tablet() == old(self).tablet(), !final(self).just_switched(),
      final(self).tab_pending() == old(self).tab_pending(), final(self).interrupts() == old(self).interrupts(),
      final(self).tab_left() == old(self).tab_left(),
      match r { Ok(Next::One(e)) => final(self).kb_pending() == old(self).kb_pending() && final(self).kb_left() < old(self).kb_left()
                                    && final(self).reads_live() == (if old(self).tablet() { old(self).reads_live() } else { old(self).reads_live().push(e) }),
                Ok(Next::Busy) => !final(self).kb_pending() && final(self).reads_live() == old(self).reads_live() && final(self).kb_left() == old(self).kb_left(),
                _ => final(self).reads_live() == old(self).reads_live() };
  fn next_tablet(&mut self) -> (r: Result<Next<TableModeEvent>, String>)
    requires
      //@ C20 | no driver call after a failure
      !old(self).failed(),
    ensures (r matches Err(e) ==> final(self).failed() && final(self).last_error() == e@), r is Ok ==> !final(self).failed(),
      final(self).sends() == old(self).sends(), final(self).reads_live() == old(self).reads_live(),
      final(self).kb_pending() == old(self).kb_pending(), final(self).interrupts() == old(self).interrupts(), final(self).kb_left() == old(self).kb_left(),
      match r { Ok(Next::One(TableModeEvent::On)) => final(self).tablet() && final(self).just_switched() && final(self).tab_pending() == old(self).tab_pending() && final(self).tab_left() < old(self).tab_left(),
                Ok(Next::One(TableModeEvent::Off)) => !final(self).tablet() && final(self).just_switched() && final(self).tab_pending() == old(self).tab_pending() && final(self).tab_left() < old(self).tab_left(),
                Ok(Next::Busy) => !final(self).tab_pending() && final(self).tablet() == old(self).tablet() && !final(self).just_switched() && final(self).tab_left() == old(self).tab_left(),
                _ => final(self).tablet() == old(self).tablet() && !final(self).just_switched() };
  fn send(&mut self, evs: &Vec<Event>) -> (r: Result<(), String>)
    requires
      //@ C20 | no driver call (in particular no further write) after a failure
      !old(self).failed(),
      //@ C12 | nothing is written while the tablet switch is on, except the release batch directly after the On event
      !old(self).tablet() || old(self).just_switched(),
    ensures (r matches Err(e) ==> final(self).failed() && final(self).last_error() == e@ && final(self).sends() == old(self).sends()),
      r is Ok ==> !final(self).failed() && final(self).sends() == old(self).sends().push(evs@),
      final(self).reads_live() == old(self).reads_live(), final(self).kb_pending() == old(self).kb_pending(), final(self).tab_pending() == old(self).tab_pending(),
      final(self).tablet() == old(self).tablet(), !final(self).just_switched(), final(self).interrupts() == old(self).interrupts(),
      final(self).kb_left() == old(self).kb_left(), final(self).tab_left() == old(self).tab_left();
}

// the loop invariant, shared by the nested loops (a loop body sees only its invariants), one predicate per property
spec fn inv_c20<D: Driver>(driver: D) -> bool { !driver.failed() }
spec fn inv_c12<D: Driver>(driver: D, in_tablet_mode: bool, working_repeat: WorkingRepeat) -> bool {
  in_tablet_mode == driver.tablet() && (in_tablet_mode ==> working_repeat is Idle)
}
spec fn inv_c10<D: Driver>(driver: D, s0: Seq<Seq<Event>>, outs: Seq<Seq<Event>>, stepped: Seq<Event>) -> bool {
  driver.sends() == s0 + outs && stepped == driver.reads_live()
}
spec fn inv_c11(working_repeat: WorkingRepeat, exp: Option<RepeatReq>, nw_ns: int, outs: Seq<Seq<Event>>, mapper: key_transforms::Mapper) -> bool {
  wr_matches(working_repeat, exp, nw_ns) && apply(Set::<KeyCode>::empty(), flatten(outs)) == Some(mapper.held_view())
}
spec fn inv_aux<D: Driver>(driver: D, mapper: key_transforms::Mapper, restart_count: i32) -> bool {
  mapper.inv() && 0 <= restart_count && restart_count == driver.interrupts() && restart_count < 50
}

proof fn lemma_shift_bound(rc: u32)
  requires rc < 50
  ensures (1u64 << rc) <= 0x2000000000000u64, 1000 * (1u64 << rc) <= u64::MAX
{
  assert((1u64 << rc) <= 0x2000000000000u64) by (bit_vector) requires rc < 50;
}

proof fn lemma_out(outs: Seq<Seq<Event>>, b: Seq<Event>, h0: Set<KeyCode>, h1: Set<KeyCode>)
  requires apply(Set::<KeyCode>::empty(), flatten(outs)) == Some(h0), apply(h0, b) == Some(h1)
  ensures apply(Set::<KeyCode>::empty(), flatten(outs.push(b))) == Some(h1)
{
  assert(outs.push(b).drop_last() =~= outs);
  lemma_apply_append(Set::<KeyCode>::empty(), flatten(outs), b);
}

//@ C10 C11 C12 C20 | default: fn do_remapping_loop_one_device
#[verifier::exec_allows_no_decreases_clause]
fn do_remapping_loop_one_device(driver: &mut impl Driver, layout: Layout, verbose: bool) -> (res: Result<(), String>)
  requires !old(driver).failed(), !old(driver).kb_pending(), !old(driver).tab_pending(), !old(driver).tablet(), old(driver).reads_live().len() == 0, old(driver).interrupts() == 0,
    crate::keys::layout_ok(layout),
  ensures
    //@ C20 | the loop returns Err exactly when a driver call failed, and it is that call's error
    res is Err <==> final(driver).failed(),
    res matches Err(e) ==> e@ == final(driver).last_error(),
{ //@ | body
  let ghost s0 = driver.sends();
  let ghost mut outs: Seq<Seq<Event>> = Seq::empty();     // what the loop is supposed to have written, in order
  let ghost mut stepped: Seq<Event> = Seq::empty();       // events handed to mapper.step, in order
  let ghost mut exp: Option<RepeatReq> = None;             // the mapper's last repeat request that is still in force
  let ghost mut nw_ns: int = 0;                            // when the next chord is due (nanoseconds)
  let mut mapper = key_transforms::Mapper::for_layout(&layout);
  let mut working_repeat: WorkingRepeat = WorkingRepeat::Idle;

  let mut poll = driver.register_poll()?;

  let mut in_tablet_mode: bool = false;
  let mut restart_count: i32 = 0;

  if verbose { eprintln!("Starting remapping loop."); }
  proof { assert(s0 + outs =~= s0); assert(stepped =~= driver.reads_live()); assert(flatten(outs) =~= Seq::<Event>::empty()); assert(mapper.held_view() == Set::<KeyCode>::empty()); }

  loop
    invariant
      //@ C20 | nothing has failed so far (a failure returns at once)
      inv_c20(*driver),
      //@ C12 | in_tablet_mode equals the state of the switch; in tablet mode there is no timer
      inv_c12(*driver, in_tablet_mode, working_repeat),
      //@ C10 | what has been written is exactly s0 + the batches the mapper / timer produced, once each and in order; what has been stepped is exactly what was delivered while live
      inv_c10(*driver, s0, outs, stepped),
      //@ C11 | the timer is exactly the mapper's last repeat request still in force; the device (fold of everything written) equals the mapper's record, so chords are transient
      inv_c11(working_repeat, exp, nw_ns, outs, mapper),
      //@  | auxiliary: mapper consistent, restart_count equals the number of interruptions since the last device event
      inv_aux(*driver, mapper, restart_count),
      //@ C10 | nothing notified is left unread when the loop goes back to waiting
      !driver.kb_pending(), !driver.tab_pending(),
  { //@ | body
    loop
      invariant
        //@ C20 | nothing has failed so far (a failure returns at once)
        inv_c20(*driver),
        //@ C12 | in_tablet_mode equals the state of the switch; in tablet mode there is no timer
        inv_c12(*driver, in_tablet_mode, working_repeat),
        //@ C10 | what has been written is exactly s0 + the batches the mapper / timer produced, once each and in order; what has been stepped is exactly what was delivered while live
        inv_c10(*driver, s0, outs, stepped),
        //@ C11 | the timer is exactly the mapper's last repeat request still in force; the device (fold of everything written) equals the mapper's record, so chords are transient
        inv_c11(working_repeat, exp, nw_ns, outs, mapper),
        //@  | auxiliary: mapper consistent, restart_count equals the number of interruptions since the last device event
        inv_aux(*driver, mapper, restart_count),
        //@ C10 | nothing notified is left unread when the loop goes back to waiting
        !driver.kb_pending(), !driver.tab_pending(),
    { //@ | body
      broadcast use group_instant_axioms;
      let ghost mut now_ns: int = 0;
      let timeout = match working_repeat {
        WorkingRepeat::Idle => None,
        WorkingRepeat::Repeating { keys: _, next_wakeup, interval_ms: _ } => {
          let now = Instant::now();
          proof { now_ns = inst_ns(now); }
          if now >= next_wakeup {
            Some(Duration::from_millis(1))
          }
          else {
            Some(next_wakeup - now)
          }
        }
      };
      proof {
        //@ C11 | the wait is exactly what is left until the next chord is due, measured from a clock reading taken in this iteration (when the chord is already due: at most 1 ms); no timer ==> wait without time-out
        assert(match exp { None => timeout is None,
                           Some(_) => timeout is Some && (if now_ns >= nw_ns { 0 <= dur_ns(timeout.unwrap()) <= 1000000 } else { dur_ns(timeout.unwrap()) == nw_ns - now_ns }) });
      }

      match driver.poll(&mut poll, timeout)? {
        PollResult::TimedOut => {
          let ghost outs_t0 = outs; let ghost exp_t0 = exp; let ghost held_t0 = mapper.held_view();
          match working_repeat {
            WorkingRepeat::Idle => {
              // Well that's weird. I guess just keep going?
            },
            WorkingRepeat::Repeating { keys, next_wakeup, interval_ms } => {
              if !in_tablet_mode {
                let mut repeat_send = Vec::new();
                let ghost held = mapper.held_view();
                for key in it: &keys
                  invariant
                    //@ C11 | chord, first half: presses of the repeat keys that are not already held, in listed order
                    repeat_send@ == chord_press(keys@, held, it.index@ as int),
                    held == mapper.held_view(), it.seq().len() == keys@.len(), forall|j: int| 0 <= j < keys@.len() ==> *it.seq()[j] == keys@[j],
                { //@ | body
                  if !mapper.is_held_on_output(key) {
                    repeat_send.push(Pressed(*key));
                  }
                }
                let ghost n = keys@.len() as int;
                for key in it: (&keys).iter().rev()
                  invariant
                    //@ C11 | chord, second half: releases in reverse order
                    repeat_send@ == chord_press(keys@, held, n) + chord_release(keys@, held, n - it.index@),
                    held == mapper.held_view(), n == keys@.len(), it.seq().len() == n, forall|j: int| 0 <= j < n ==> *it.seq()[j] == keys@[n - 1 - j],
                { //@ | body
                  let ghost rs0 = repeat_send@;
                  if !mapper.is_held_on_output(key) {
                    repeat_send.push(Released(*key));
                  }
                  proof { assert(repeat_send@ =~= chord_press(keys@, held, n) + chord_release(keys@, held, n - it.index@ - 1)); }
                }
                proof {
                  //@ C11 | the payload written on a timer tick is exactly the chord of the last repeat request, and folding it over the held set gives the held set back (transient)
                  assert(exp is Some && keys@ == exp.unwrap().keys);
                  assert(repeat_send@ == chord(keys@, held));
                  lemma_chord_transient(keys@, held);
                  assert(apply(held, repeat_send@) == Some(held));
                  lemma_out(outs, repeat_send@, held, held);
                  outs = outs.push(repeat_send@);
                  assert(s0 + outs =~= (s0 + outs.drop_last()).push(repeat_send@));
                }
                driver.send(&repeat_send)?;
                //@ C20 | a failed write has returned: nothing has failed when execution goes on after a write
                proof { assert(!driver.failed()); }
                //@ C11 | the timer after a tick
                working_repeat = WorkingRepeat::Repeating {
                  keys,
                  next_wakeup: next_wakeup + Duration::from_millis(interval_ms as u64),
                  interval_ms
                };
                proof {
                  //@ C11 | no drift: the next chord is due exactly one interval after the previous due time (not after "now")
                  nw_ns = nw_ns + interval_ms * 1000000;
                }
              }
              else {
                working_repeat = WorkingRepeat::Idle;
                proof { exp = None; }
              }
            }
          };
          proof {
            //@ C11 | a time-out while a repeat is in force (the switch is then off) writes the chord of that repeat, once; any other time-out writes nothing
            assert(match exp_t0 { Some(rq) => driver.sends() == s0 + outs_t0.push(chord(rq.keys, held_t0)), None => driver.sends() == s0 + outs_t0 });
          }
        },
        PollResult::Interrupted => {
          if verbose { eprintln!("poll() interrupted"); }
          restart_count += 1;
          if restart_count > 1 {
            // Avoid burning the CPU if we keep getting interrupted for some reason
            proof { lemma_shift_bound(restart_count as u32); }
            thread::sleep(Duration::from_millis(1000 * (1 << restart_count)));
          }
        },
        PollResult::DeviceEvent(dev_evs) => {
          restart_count = 0;
          let ghost devs = dev_evs@;
          proof { assert(devs.skip(0) =~= devs); }
          for dev_ev in it: dev_evs
            invariant
              //@ C20 | nothing has failed so far (a failure returns at once)
              inv_c20(*driver),
              //@ C12 | in_tablet_mode equals the state of the switch; in tablet mode there is no timer
              inv_c12(*driver, in_tablet_mode, working_repeat),
              //@ C10 | what has been written is exactly s0 + the batches the mapper / timer produced, once each and in order; what has been stepped is exactly what was delivered while live
              inv_c10(*driver, s0, outs, stepped),
              //@ C11 | the timer is exactly the mapper's last repeat request still in force; the device (fold of everything written) equals the mapper's record, so chords are transient
              inv_c11(working_repeat, exp, nw_ns, outs, mapper),
              //@  | auxiliary: mapper consistent, restart_count equals the number of interruptions since the last device event
              inv_aux(*driver, mapper, restart_count),
              it.seq() == devs,
              //@ C10 | a device that was notified and is not yet drained is still in the list of devices to handle
              driver.kb_pending() ==> devs.skip(it.index@ as int).contains(Device::Keyboard),
              driver.tab_pending() ==> devs.skip(it.index@ as int).contains(Device::Tablet),
          { //@ | body
            proof { let r0 = devs.skip(it.index@ as int); let r1 = devs.skip(it.index@ as int + 1); assert(r0[0] == dev_ev); assert(r1 =~= r0.skip(1));
              assert forall|d: Device| r0.contains(d) && d != dev_ev implies r1.contains(d) by { let j = choose|j: int| 0 <= j < r0.len() && r0[j] == d; assert(r1[j - 1] == d); } }
            match dev_ev {
              Device::Keyboard => {
                loop
                  invariant
                    //@ C20 | nothing has failed so far (a failure returns at once)
                    inv_c20(*driver),
                    //@ C12 | in_tablet_mode equals the state of the switch; in tablet mode there is no timer
                    inv_c12(*driver, in_tablet_mode, working_repeat),
                    //@ C10 | what has been written is exactly s0 + the batches the mapper / timer produced, once each and in order; what has been stepped is exactly what was delivered while live
                    inv_c10(*driver, s0, outs, stepped),
                    //@ C11 | the timer is exactly the mapper's last repeat request still in force; the device (fold of everything written) equals the mapper's record, so chords are transient
                    inv_c11(working_repeat, exp, nw_ns, outs, mapper),
                    //@  | auxiliary: mapper consistent, restart_count equals the number of interruptions since the last device event
                    inv_aux(*driver, mapper, restart_count),
                    driver.tab_pending() ==> devs.skip(it.index@ as int + 1).contains(Device::Tablet),
                  ensures
                    //@ C10 | the keyboard is drained until Busy before anything else happens
                    !driver.kb_pending(),
                  //@ C10 C11 C12 | ... and no further: once the keyboard has answered Busy the loop goes back to waiting (a loop that keeps reading an idle device never serves the timer or the switch again)
                  decreases driver.kb_left(), (if driver.kb_pending() { 1nat } else { 0nat }),
                { //@ | body
                  broadcast use group_instant_axioms;
                  match driver.next_keyboard()? {
                    Next::Busy => {
                      break;
                    }
                    Next::End => {
                      if verbose { eprintln!("Ending remapping loop because no more keyboard events."); }
                      return Ok(());
                    }
                    Next::One(ev_in) => {
                      if !in_tablet_mode {
                        let ghost ev_g = ev_in; let ghost h_pre = mapper.held_view();
                        let step_out = mapper.step(ev_in);
                        let ghost rep_g = step_out.repeat;
                        proof {
                          //@ C10 | every delivered event is stepped exactly once, in order; every non-empty step output is due to be written once, in order
                          stepped = stepped.push(ev_g);
                          if step_out.events@.len() > 0 { lemma_out(outs, step_out.events@, h_pre, mapper.held_view()); outs = outs.push(step_out.events@); assert(s0 + outs =~= (s0 + outs.drop_last()).push(step_out.events@)); }
                          else { assert(mapper.held_view() == h_pre); }
                          //@ C11 | any key event the mapper acts on replaces the timer by what the step prescribes (C09); ignored events leave it alone
                          match rep_g {
                            ResultingRepeat::Repeating { keys, delay_ms, interval_ms } => { exp = Some(RepeatReq { keys: keys@, delay_ms: delay_ms as int, interval_ms: interval_ms as int }); },
                            ResultingRepeat::Disabled => { exp = None; },
                            ResultingRepeat::NoChange => {},
                          }
                        }
                        let evs_out = step_out.events;

                        if !evs_out.is_empty() {
                          driver.send(&evs_out)?;
                        }
                        proof {
                          //@ C20 | a failed write has returned: nothing has failed when execution goes on after a write
                          assert(!driver.failed());
                          //@ C10 | the output of the step just made has been written, unless it is empty
                          assert(driver.sends() == s0 + outs);
                        }

                        working_repeat = match step_out.repeat {
                          ResultingRepeat::Repeating { keys, delay_ms, interval_ms } => WorkingRepeat::Repeating {
                            keys,
                            next_wakeup: Instant::now() + Duration::from_millis(delay_ms as u64),
                            interval_ms
                          },
                          ResultingRepeat::Disabled => WorkingRepeat::Idle,
                          ResultingRepeat::NoChange => working_repeat
                        };
                        proof {
                          //@ C11 | a new timer is due delay_ms after a clock reading taken when the Special mapping fired
                          match working_repeat {
                            WorkingRepeat::Repeating { next_wakeup, .. } => {
                              if !(rep_g is NoChange) {
                                assert(exists|x: Instant| is_now_reading(x) && inst_ns(next_wakeup) == inst_ns(x) + exp.unwrap().delay_ms * 1000000);
                                nw_ns = inst_ns(next_wakeup);
                              }
                            },
                            _ => {},
                          }
                        }
                      }
                    }
                  }
                }
              },
              Device::Tablet => {
                loop
                  invariant
                    //@ C20 | nothing has failed so far (a failure returns at once)
                    inv_c20(*driver),
                    //@ C12 | in_tablet_mode equals the state of the switch; in tablet mode there is no timer
                    inv_c12(*driver, in_tablet_mode, working_repeat),
                    //@ C10 | what has been written is exactly s0 + the batches the mapper / timer produced, once each and in order; what has been stepped is exactly what was delivered while live
                    inv_c10(*driver, s0, outs, stepped),
                    //@ C11 | the timer is exactly the mapper's last repeat request still in force; the device (fold of everything written) equals the mapper's record, so chords are transient
                    inv_c11(working_repeat, exp, nw_ns, outs, mapper),
                    //@  | auxiliary: mapper consistent, restart_count equals the number of interruptions since the last device event
                    inv_aux(*driver, mapper, restart_count),
                    driver.kb_pending() ==> devs.skip(it.index@ as int + 1).contains(Device::Keyboard),
                  ensures
                    //@ C10 | the tablet switch is drained until Busy
                    !driver.tab_pending(),
                  //@ C10 C11 C12 | ... and no further: once the switch has answered Busy the loop goes back to waiting
                  decreases driver.tab_left(), (if driver.tab_pending() { 1nat } else { 0nat }),
                { //@ | body
                  match driver.next_tablet()? {
                    Next::Busy => {
                      break;
                    },
                    Next::End => {
                      return Ok(());
                    },
                    Next::One(ev_in) => {
                      match ev_in {
                        On => {
                          in_tablet_mode = true;
                          working_repeat = WorkingRepeat::Idle;
                          let ghost h_pre = mapper.held_view();
                          let release_events = mapper.release_all();
                          proof {
                            //@ C12 | switch on: every held key is released at once (release_all leaves nothing pressed, nothing held), the timer is stopped
                            assert(mapper.held_view() == Set::<KeyCode>::empty() && mapper.pressed_view().len() == 0);
                            exp = None;
                            if release_events@.len() > 0 { lemma_out(outs, release_events@, h_pre, mapper.held_view()); outs = outs.push(release_events@); assert(s0 + outs =~= (s0 + outs.drop_last()).push(release_events@)); }
                            else { assert(mapper.held_view() == h_pre); }
                          }
                          if !release_events.is_empty() {
                            driver.send(&release_events)?;
                          }
                          proof {
                            //@ C20 | a failed write has returned: nothing has failed when execution goes on after a write
                            assert(!driver.failed());
                            //@ C12 | the releases of everything that was held have been written at once, before anything else is read
                            assert(driver.sends() == s0 + outs);
                          }
                        },
                        Off => {
                          in_tablet_mode = false;
                          working_repeat = WorkingRepeat::Idle;
                          let ghost h_pre = mapper.held_view();
                          let release_events = mapper.release_all();
                          proof {
                            //@ C12 | switch off: mapping resumes from a mapper with nothing pressed and nothing held
                            assert(mapper.held_view() == Set::<KeyCode>::empty() && mapper.pressed_view().len() == 0);
                            exp = None;
                            if release_events@.len() > 0 { lemma_out(outs, release_events@, h_pre, mapper.held_view()); outs = outs.push(release_events@); assert(s0 + outs =~= (s0 + outs.drop_last()).push(release_events@)); }
                            else { assert(mapper.held_view() == h_pre); }
                          }
                          if !release_events.is_empty() {
                            driver.send(&release_events)?;
                          }
                          proof {
                            //@ C20 | a failed write has returned: nothing has failed when execution goes on after a write
                            assert(!driver.failed());
                            //@ C12 | the releases of everything that was held have been written at once, before anything else is read
                            assert(driver.sends() == s0 + outs);
                          }
                        }
                      }
                    }
                  }
                }
              }
            }
          }
        }
      }
    }
  }
}
