// Overlay for src/layout_parsing_formatting.rs (the JSON front end: serde_json::Value -> fancy_keys AST). Only panic-freedom (C14) is claimed here:
// every `unwrap`, slice index and subtraction of the parse_* functions is an obligation. serde_json is represented by assumed declarations (spec/json_stub.rs).

// ASSUMED: formatting a serde_json::Value / Modifier / String / number for an error message returns normally
//@ C14 | default: fn axiom_fmt_json
#[verifier::external_body]
pub proof fn axiom_fmt_json() ensures vstd::std_specs::fmt::fmt_req_all::<Value>(), vstd::std_specs::fmt::fmt_req_all::<Modifier>(), vstd::std_specs::fmt::fmt_req_all::<String>(), vstd::std_specs::fmt::fmt_req_all::<usize>() {}
// ASSUMED contracts on std string functions the parser uses (no functional content: they return normally)
pub assume_specification<P: std::str::pattern::Pattern> [str::starts_with] (_0: &str, _1: P) -> bool;
pub assume_specification<T: std::clone::Clone> [<T as std::borrow::ToOwned>::to_owned] (_0: &T) -> T;
pub assume_specification [str::to_lowercase] (_0: &str) -> std::string::String;

//@ C14 | default: fn parse_layout_from_json


pub fn parse_layout_from_json(root: &Value) -> Result<Layout, String>
  { //@ | body
  proof { axiom_fmt_json(); }
  broadcast use vstd::std_specs::fmt::group_fmt_axioms;
  match root {
    Object(root_values) => {
      if has_exactly_keys(root_values, &vec!["mappings"]) {
        let mappings_v = root_values.get("mappings").unwrap();
        match mappings_v {
          Array(mapping_vs) => {
            let mut mappings = Vec::new();
              
            for mapping_v in mapping_vs { //@ | body
      proof { axiom_fmt_json(); }
              match parse_mapping_from_json(mapping_v) {
                Ok(m) => mappings.push(m),
                Err(e) => return Err(format!("Malformed mapping {}: {}", mapping_v, e)),
              }
            }
            
            let mut defined_alias_names = std::collections::HashSet::new();
            for m in &mappings { //@ | body
      proof { axiom_fmt_json(); }
              match m {
                Mapping::Alias(alias) => {
                  defined_alias_names.insert(alias.to.terminal.clone());
                }
                _ => ()
              }
            }
            
            for m in &mappings { //@ | body
      proof { axiom_fmt_json(); }
              let used_aliases = mapping_all_used_aliases(m);
              for a in &used_aliases { //@ | body
      proof { axiom_fmt_json(); }
                if !defined_alias_names.contains(a) {
                  return Err(format!("Error in mapping {}: alias {} is not defined", format_mapping(m), a));
                }
              }
            }
            
            Ok(Layout {
              mappings
            })
          },
          _ => {
            Err("\"mappings\" must be an array".to_owned())
          }
        }
      }
      else {
        Err("Layout must have a single field \"mappings\"".to_owned())
      }
    },
    _ => {
      Err("Layout JSON must be an object".to_owned())
    }
  }
}

//@ C14 | default: fn parse_mapping_from_json


fn parse_mapping_from_json(mapping_v: &Value) -> Result<Mapping, String>
  { //@ | body
  proof { axiom_fmt_json(); }
  broadcast use vstd::std_specs::fmt::group_fmt_axioms;
  match mapping_v {
    Object(mapping_values) => {
      if has_at_least_keys(mapping_values, &vec!["from", "to"]) {
        let from = parse_from(mapping_values.get("from").unwrap())?;
        match from {
          FromKeys::Single(from) => {
            let to = parse_single_or_alias_to(mapping_values.get("to").unwrap())?;
            match to {
              SingleOrAliasToKeys::Single(to) => {
                let repeat = parse_single_repeat(&mapping_values.get("repeat"))?;
                let absorbing = parse_absorbing(&mapping_values.get("absorbing"))?;
                for m in &absorbing { //@ | body
      proof { axiom_fmt_json(); }
                  if !from.modifiers.contains(m) {
                    return Err(format!("Error in mapping {}: absorbed modifier {} does not appear on `from` side", mapping_v, m));
                  }
                }
                
                Ok(Mapping::Single(SingleMapping {
                  from, to, repeat, absorbing
                }))
              },
              SingleOrAliasToKeys::Alias(to) => {
                if mapping_values.contains_key("repeat") { Err("`repeat` not allowed for alias mappings")?; }
                if mapping_values.contains_key("absorbing") { Err("`absorbing` not allowed for alias mappings")?; }
                Ok(Mapping::Alias(AliasMapping { from: single_to_alias_from(&from)?, to }))
              }
            }
          },
          FromKeys::Row(from) => {
            let to = parse_row_to(mapping_values.get("to").unwrap())?;
            let repeat = parse_row_repeat(&mapping_values.get("repeat"))?;
            match &repeat {
              RowRepeat::Special { keys, delay_ms: _, interval_ms: _ } => {
                let num_repeat_chars = keys.terminal.chars().count();
                let num_to_chars = to.terminal.chars().count();
                if num_repeat_chars > num_to_chars {
                  return Err(format!("Row mapping {} has more letters in its `repeat` ({} = {}) than its `to` ({} = {}). This is not allowed because it is not clear how such keys should be mapped. Use individual mappings instead.",
                    mapping_v,
                    keys.terminal,
                    num_repeat_chars,
                    to.terminal,
                    num_to_chars
                  ));
                }
              }
              _ => ()
            };
            
            let absorbing = parse_absorbing(&mapping_values.get("absorbing"))?;
            for m in &absorbing { //@ | body
      proof { axiom_fmt_json(); }
              if !from.modifiers.contains(m) {
                return Err(format!("Error in mapping {}: absorbed modifier {} does not appear on `from` side", mapping_v, m));
              }
            }

            Ok(Mapping::Row(RowMapping {
              from, to, repeat, absorbing
            }))
          }
        }
      }
      else if has_exactly_keys(mapping_values, &vec!["from", "repeat"]) {
        let from = parse_from(mapping_values.get("from").unwrap())?;
        match from {
          FromKeys::Single(from) => {
            let repeat = parse_single_repeat(&mapping_values.get("repeat"))?;
            Ok(Mapping::RepeatOnlySingle(RepeatOnlySingleMapping { from, repeat }))
          },
          FromKeys::Row(_) => {
            Err("Cannot have a repeat-only row mapping".to_owned())
          }
        }
      }
      else {
        return Err("Mapping must have \"from\" and \"to\" or \"from\" and \"repeat\" ".to_owned())
      }
    },
    _ => {
      return Err("Each \"mapping\" must be an object".to_owned())
    }
  }
}

//@ C14 | default: fn single_to_alias_from


fn single_to_alias_from(from: &SingleFromKeys) -> Result<AliasFromKeys, String>
  { //@ | body
  proof { axiom_fmt_json(); }
  broadcast use vstd::std_specs::fmt::group_fmt_axioms;
  let mut keys = Vec::new();
  
  for m in &from.modifiers { //@ | body
      proof { axiom_fmt_json(); }
    match m {
      Modifier::Key(key) => {
        keys.push(key.clone());
      },
      Modifier::Alias(_) => {
        return Err("Alias mapping cannot use alias modifier".to_owned());
      }
    }
  }
  
  keys.push(from.key.clone());
  
  Ok(AliasFromKeys { keys })
}

//@ C14 | default: fn parse_from


fn parse_from(from_v: &Value) -> Result<FromKeys, String>
  { //@ | body
  proof { axiom_fmt_json(); }
  broadcast use vstd::std_specs::fmt::group_fmt_axioms;
  if let Array(from_elems) = from_v {
    if from_elems.len() == 0 {
      Err("Can't map from zero keys, i.e. []".to_owned())
    }
    else {
      let modifiers = parse_from_modifiers(&from_elems[0..from_elems.len()-1])?;
      let key = parse_from_key(&from_elems[from_elems.len()-1])?;
      match key {
        FromKey::Single(key) => Ok(FromKeys::Single(SingleFromKeys { modifiers, key })),
        FromKey::Row(row) => Ok(FromKeys::Row(RowFromKeys { modifiers, row }))
      }
    }
  }
  else {
    let key = parse_from_key(from_v)?;
    match key {
      FromKey::Single(key) => Ok(FromKeys::Single(SingleFromKeys { modifiers: vec![], key })),
      FromKey::Row(row) => Ok(FromKeys::Row(RowFromKeys { modifiers: vec![], row }))
    }
  }
}

//@ C14 | default: fn parse_from_modifiers


fn parse_from_modifiers(mod_vs: &[Value]) -> Result<Vec<Modifier>, String>
  { //@ | body
  proof { axiom_fmt_json(); }
  broadcast use vstd::std_specs::fmt::group_fmt_axioms;
  let mut res = vec![];
  
  for v in mod_vs.iter() { //@ | body
      proof { axiom_fmt_json(); }
    res.push(parse_from_modifier(v)?);
  }
    
  Ok(res)
}

//@ C14 | default: fn parse_from_modifier


fn parse_from_modifier(v: &Value) -> Result<Modifier, String>
  { //@ | body
  proof { axiom_fmt_json(); }
  broadcast use vstd::std_specs::fmt::group_fmt_axioms;
  if let j::String(text) = v {
    if text.starts_with("@") {
      Ok(Modifier::Alias(text.to_owned()))
    }
    else {
      Ok(Modifier::Key(parse_key_code(text)?))
    }
  }
  else {
    Err(format!("Modifier must be a string, found {}", v))
  }
}

//@ C14 | default: fn parse_from_key


fn parse_from_key(key_v: &Value) -> Result<FromKey, String>
  { //@ | body
  proof { axiom_fmt_json(); }
  broadcast use vstd::std_specs::fmt::group_fmt_axioms;
  if let j::String(text) = key_v {
    parse_from_key_text(text)
  }
  else if let j::Object(obj) = key_v {
    parse_from_key_obj(obj)
  }
  else {
    Err(format!("`from` key must be a string or an object, found {}", key_v))
  }
}

//@ C14 | default: fn parse_from_row


fn parse_from_row(elems: &Map<String, Value>) -> Result<FromKey, String>
  { //@ | body
  proof { axiom_fmt_json(); }
  broadcast use vstd::std_specs::fmt::group_fmt_axioms;
  if has_exactly_keys(elems, &vec!["row"]) {
    let row_obj = elems.get("row").unwrap();
    if let j::String(row_text) = row_obj {
      Ok(FromKey::Row(parse_row(row_text)?))
    }
    else {
      Err(format!("`row` must be a string, found {}", row_obj))
    }
  }
  else {
    Err("Row must be specified by single key, `row`, which is the first key in theh row".to_owned())
  }
}

//@ C14 | default: fn parse_from_key_text


fn parse_from_key_text(from_text: &str) -> Result<FromKey, String>
  { //@ | body
  proof { axiom_fmt_json(); }
  broadcast use vstd::std_specs::fmt::group_fmt_axioms;
  Ok(FromKey::Single(parse_key_code(from_text)?))
}

//@ C14 | default: fn parse_from_key_obj


fn parse_from_key_obj(obj: &Map<String, Value>) -> Result<FromKey, String>
  { //@ | body
  proof { axiom_fmt_json(); }
  broadcast use vstd::std_specs::fmt::group_fmt_axioms;
  if has_exactly_keys(obj, &vec!["row"]) {
    Ok(parse_from_row(obj)?)
  }
  else {
    Err(format!("Don't understand `from` object with keys {}, expected possibly key `row`",
        keys_string(obj)))
  }
}

//@ C14 | default: fn parse_single_or_alias_to


fn parse_single_or_alias_to(to_v: &Value) -> Result<SingleOrAliasToKeys, String>
  { //@ | body
  proof { axiom_fmt_json(); }
  broadcast use vstd::std_specs::fmt::group_fmt_axioms;
  if let j::Array(to_elems) = to_v {
    parse_single_or_alias_to_array(to_elems)
  }
  else {
    let terminal = parse_single_or_alias_to_terminal(to_v)?;
    match terminal {
      SingleOrAliasToTerminal::Single(terminal) => Ok(SingleOrAliasToKeys::Single(SingleToKeys { initial: vec![], terminal })),
      SingleOrAliasToTerminal::Alias(terminal) => Ok(SingleOrAliasToKeys::Alias(AliasToKeys { initial: vec![], terminal }))
    }
  }
}

//@ C14 | default: fn parse_single_to


fn parse_single_to(to_v: &Value) -> Result<SingleToKeys, String>
  { //@ | body
  proof { axiom_fmt_json(); }
  broadcast use vstd::std_specs::fmt::group_fmt_axioms;
  if let j::Array(to_elems) = to_v {
    parse_single_to_array(to_elems)
  }
  else {
    Ok(SingleToKeys {
      initial: vec![],
      terminal: parse_single_to_terminal(to_v)?
    })
  }
}

//@ C14 | default: fn parse_row_to


fn parse_row_to(to_v: &Value) -> Result<RowToKeys, String>
  { //@ | body
  proof { axiom_fmt_json(); }
  broadcast use vstd::std_specs::fmt::group_fmt_axioms;
  if let j::Array(to_elems) = to_v {
    parse_row_to_array(to_elems)
  }
  else {
    Ok(RowToKeys {
      initial: vec![],
      terminal: parse_row_to_terminal(to_v)?
    })
  }
}

//@ C14 | default: fn parse_single_or_alias_to_terminal


fn parse_single_or_alias_to_terminal(to_v: &Value) -> Result<SingleOrAliasToTerminal, String>
  { //@ | body
  proof { axiom_fmt_json(); }
  broadcast use vstd::std_specs::fmt::group_fmt_axioms;
  if let j::String(to_text) = to_v {
    parse_single_or_alias_to_text(to_text)
  }
  else if let j::Object(_) = to_v {
    Err(format!("`to` object of unrecognized form {}", to_v))
  }
  else {
    Err(format!("`to` should be a string, array, or object; found {}", to_v))
  }
}

//@ C14 | default: fn parse_single_to_terminal


fn parse_single_to_terminal(to_v: &Value) -> Result<SingleTerminalToKey, String>
  { //@ | body
  proof { axiom_fmt_json(); }
  broadcast use vstd::std_specs::fmt::group_fmt_axioms;
  if let j::String(to_text) = to_v {
    parse_single_to_text(to_text)
  }
  else if let j::Object(_) = to_v {
    Err(format!("`to` object of unrecognized form {}", to_v))
  }
  else {
    Err(format!("`to` should be a string, array, or object; found {}", to_v))
  }
}

//@ C14 | default: fn parse_row_to_terminal


fn parse_row_to_terminal(to_v: &Value) -> Result<String, String>
  { //@ | body
  proof { axiom_fmt_json(); }
  broadcast use vstd::std_specs::fmt::group_fmt_axioms;
  if let j::Object(to_attrs) = to_v {
    parse_row_to_obj(to_attrs)
  }
  else {
    Err(format!("`to` should be object with key `letters`; found {}", to_v))
  }
}

//@ C14 | default: fn parse_single_or_alias_to_text


fn parse_single_or_alias_to_text(to_text: &str) -> Result<SingleOrAliasToTerminal, String>
  { //@ | body
  proof { axiom_fmt_json(); }
  broadcast use vstd::std_specs::fmt::group_fmt_axioms;
  if to_text.starts_with("@") {
    Ok(SingleOrAliasToTerminal::Alias(to_text.to_owned()))
  }
  else {
    Ok(SingleOrAliasToTerminal::Single(SingleTerminalToKey::Physical(parse_key_code(to_text)?)))
  }
}

//@ C14 | default: fn parse_single_to_text


fn parse_single_to_text(to_text: &str) -> Result<SingleTerminalToKey, String>
  { //@ | body
  proof { axiom_fmt_json(); }
  broadcast use vstd::std_specs::fmt::group_fmt_axioms;
  if to_text.starts_with("@") {
    Err(format!("Alias {} not allowed in this position", to_text))
  }
  else {
    Ok(SingleTerminalToKey::Physical(parse_key_code(to_text)?))
  }
}

//@ C14 | default: fn parse_single_or_alias_to_array


fn parse_single_or_alias_to_array(to_elems: &[Value]) -> Result<SingleOrAliasToKeys, String>
  { //@ | body
  proof { axiom_fmt_json(); }
  broadcast use vstd::std_specs::fmt::group_fmt_axioms;
  if to_elems.len() == 0 {
    Ok(SingleOrAliasToKeys::Single(SingleToKeys {
      initial: vec![],
      terminal: SingleTerminalToKey::Null
    }))
  }
  else {
    let terminal = parse_single_or_alias_to_terminal(&to_elems[to_elems.len()-1])?;
    
    match terminal {
      SingleOrAliasToTerminal::Single(terminal) => Ok(SingleOrAliasToKeys::Single(SingleToKeys {
        initial: parse_to_initial(&to_elems[0..to_elems.len()-1])?,
        terminal
      })),
      SingleOrAliasToTerminal::Alias(terminal) => Ok(SingleOrAliasToKeys::Alias(AliasToKeys {
        initial: parse_alias_to_initial(&to_elems[0..to_elems.len()-1])?,
        terminal
      })),
    }
  }
}

//@ C14 | default: fn parse_single_to_array


fn parse_single_to_array(to_elems: &[Value]) -> Result<SingleToKeys, String>
  { //@ | body
  proof { axiom_fmt_json(); }
  broadcast use vstd::std_specs::fmt::group_fmt_axioms;
  if to_elems.len() == 0 {
    Ok(SingleToKeys {
      initial: vec![],
      terminal: SingleTerminalToKey::Null
    })
  }
  else {
    Ok(SingleToKeys {
      initial: parse_to_initial(&to_elems[0..to_elems.len()-1])?,
      terminal: parse_single_to_terminal(&to_elems[to_elems.len()-1])?
    })
  }
}

//@ C14 | default: fn parse_row_to_array


fn parse_row_to_array(to_elems: &[Value]) -> Result<RowToKeys, String>
  { //@ | body
  proof { axiom_fmt_json(); }
  broadcast use vstd::std_specs::fmt::group_fmt_axioms;
  if to_elems.len() == 0 {
    Err("Cannot map row to an empty array, must map to { \"letters\": \"...\" }".to_owned())
  }
  else {
    Ok(RowToKeys {
      initial: parse_to_initial(&to_elems[0..to_elems.len()-1])?,
      terminal: parse_row_to_terminal(&to_elems[to_elems.len()-1])?
    })
  }
}

//@ C14 | default: fn parse_to_initial


fn parse_to_initial(initial_elems: &[Value]) -> Result<Vec<Modifier>, String>
  { //@ | body
  proof { axiom_fmt_json(); }
  broadcast use vstd::std_specs::fmt::group_fmt_axioms;
  let mut res = vec![];
  
  for elem in initial_elems { //@ | body
      proof { axiom_fmt_json(); }
    res.push(parse_to_initial_elem(elem)?);
  }
  
  Ok(res)
}

//@ C14 | default: fn parse_alias_to_initial


fn parse_alias_to_initial(initial_elems: &[Value]) -> Result<Vec<KeyCode>, String>
  { //@ | body
  proof { axiom_fmt_json(); }
  broadcast use vstd::std_specs::fmt::group_fmt_axioms;
  let mut res = vec![];
  
  for elem in initial_elems { //@ | body
      proof { axiom_fmt_json(); }
    res.push(parse_key_code_j(elem)?);
  }
  
  Ok(res)
}

//@ C14 | default: fn parse_to_initial_elem


fn parse_to_initial_elem(elem: &Value) -> Result<Modifier, String>
  { //@ | body
  proof { axiom_fmt_json(); }
  broadcast use vstd::std_specs::fmt::group_fmt_axioms;
  if let j::String(text) = elem {
    if text.starts_with("@") {
      Ok(Modifier::Alias(text.to_owned()))
    }
    else {
      Ok(Modifier::Key(parse_key_code(&text)?))
    }
  }
  else {
    Err(format!("Modifier must be a string, found {}", elem))
  }
}

//@ C14 | default: fn parse_row_to_obj


fn parse_row_to_obj(to_attrs: &Map<String, Value>) -> Result<String, String>
  { //@ | body
  proof { axiom_fmt_json(); }
  broadcast use vstd::std_specs::fmt::group_fmt_axioms;
  if has_exactly_keys(to_attrs, &vec!["letters"]) {
    let letters = to_attrs.get("letters").unwrap();
    if let j::String(letters_text) = letters {
      Ok(letters_text.to_owned())
    }
    else {
      Err(format!("`letters` must be a string, found {}", letters))
    }
  }
  else {
    Err(format!("`to` object of unrecognized form {}, expected, for example, `letters`", j::Object(to_attrs.clone())))
  }
}

//@ C14 | default: fn parse_key_code_j


fn parse_key_code_j(v: &Value) -> Result<KeyCode, String>
  { //@ | body
  proof { axiom_fmt_json(); }
  broadcast use vstd::std_specs::fmt::group_fmt_axioms;
  if let j::String(text) = v {
    parse_key_code(text)
  }
  else {
    Err(format!("A string (keycode) was expected, but found {}", v))
  }
}

//@ C14 | default: fn parse_modifier


fn parse_modifier(text: &str) -> Result<Modifier, String>
  { //@ | body
  proof { axiom_fmt_json(); }
  broadcast use vstd::std_specs::fmt::group_fmt_axioms;
  if text.starts_with("@") {
    Ok(Modifier::Alias(text.to_owned()))
  }
  else {
    Ok(Modifier::Key(parse_key_code(text)?))
  }
}

//@ C14 | default: fn parse_single_repeat


fn parse_single_repeat(v: &Option<&Value>) -> Result<SingleRepeat, String>
  { //@ | body
  proof { axiom_fmt_json(); }
  broadcast use vstd::std_specs::fmt::group_fmt_axioms;
  if let Some(v) = v {
    if let j::String(text) = v {
      if text.to_lowercase() == "normal" {
        Ok(SingleRepeat::Normal)
      }
      else if text.to_lowercase() == "disabled" {
        Ok(SingleRepeat::Disabled)
      }
      else {
        Err(format!("Unrecognized repeat style: {}", text))
      }
    }
    else if let j::Object(params) = v {
      if has_exactly_keys(params, &vec!["Special"]) {
        let special = params.get("Special").unwrap();
        if let j::Object(special) = special {
          if has_exactly_keys(special, &vec!["keys", "delay_ms", "interval_ms"]) {
            let keys = special.get("keys").unwrap();
            let delay_ms = special.get("delay_ms").unwrap();
            let interval_ms = special.get("interval_ms").unwrap();
            
            Ok(SingleRepeat::Special {
              keys: parse_single_repeat_keys(keys)?,
              delay_ms: parse_repeat_delay_ms(delay_ms)?,
              interval_ms: parse_repeat_interval_ms(interval_ms)?
            })
          }
          else {
            Err(format!("`Special` repeat must have attributes `keys`, `delay_ms`, and `interval_ms`, found {}", keys_string(special)))
          }
        }
        else {
          Err(format!("`Special` repeat must be an object, found {}", special))
        }
      }
      else {
        Err(format!("Unknown repeat style: {}", v))
      }
    }
    else {
      Err(format!("Unknown repeat style: {}", v))
    }
  }
  else {
    Ok(SingleRepeat::Normal)
  }
}

//@ C14 | default: fn parse_row_repeat


fn parse_row_repeat(v: &Option<&Value>) -> Result<RowRepeat, String>
  { //@ | body
  proof { axiom_fmt_json(); }
  broadcast use vstd::std_specs::fmt::group_fmt_axioms;
  if let Some(v) = v {
    if let j::String(text) = v {
      if text.to_lowercase() == "normal" {
        Ok(RowRepeat::Normal)
      }
      else if text.to_lowercase() == "disabled" {
        Ok(RowRepeat::Disabled)
      }
      else {
        Err(format!("Unrecognized repeat style: {}", text))
      }
    }
    else if let j::Object(params) = v {
      if has_exactly_keys(params, &vec!["Special"]) {
        let special = params.get("Special").unwrap();
        if let j::Object(special) = special {
          if has_exactly_keys(special, &vec!["keys", "delay_ms", "interval_ms"]) {
            let keys = special.get("keys").unwrap();
            let delay_ms = special.get("delay_ms").unwrap();
            let interval_ms = special.get("interval_ms").unwrap();
            
            Ok(RowRepeat::Special {
              keys: parse_row_repeat_keys(keys)?,
              delay_ms: parse_repeat_delay_ms(delay_ms)?,
              interval_ms: parse_repeat_interval_ms(interval_ms)?
            })
          }
          else {
            Err(format!("`Special` repeat must have attributes `keys`, `delay_ms`, and `interval_ms`, found {}", keys_string(special)))
          }
        }
        else {
          Err(format!("`Special` repeat must be an object, found {}", special))
        }
      }
      else {
        Err(format!("Unknown repeat style: {}", v))
      }
    }
    else {
      Err(format!("Unknown repeat style: {}", v))
    }
  }
  else {
    Ok(RowRepeat::Normal)
  }
}

//@ C14 | default: fn parse_single_repeat_keys


fn parse_single_repeat_keys(v: &Value) -> Result<SingleToKeys, String>
  { //@ | body
  proof { axiom_fmt_json(); }
  broadcast use vstd::std_specs::fmt::group_fmt_axioms;
  parse_single_to(v)
}

//@ C14 | default: fn parse_row_repeat_keys


fn parse_row_repeat_keys(v: &Value) -> Result<RowToKeys, String>
  { //@ | body
  proof { axiom_fmt_json(); }
  broadcast use vstd::std_specs::fmt::group_fmt_axioms;
  parse_row_to(v)
}

//@ C14 | default: fn parse_repeat_delay_ms


fn parse_repeat_delay_ms(v: &Value) -> Result<i32, String>
  { //@ | body
  proof { axiom_fmt_json(); }
  broadcast use vstd::std_specs::fmt::group_fmt_axioms;
  if let j::Number(n) = v {
    Ok(n.as_i64().ok_or(format!("Invalid delay_ms number: {}", v))? as i32)
  }
  else {
    Err(format!("delay_ms must be a number, found {}", v))
  }
}

//@ C14 | default: fn parse_repeat_interval_ms


fn parse_repeat_interval_ms(v: &Value) -> Result<i32, String>
  { //@ | body
  proof { axiom_fmt_json(); }
  broadcast use vstd::std_specs::fmt::group_fmt_axioms;
  if let j::Number(n) = v {
    Ok(n.as_i64().ok_or(format!("Invalid interval_ms number: {}", v))? as i32)
  }
  else {
    Err(format!("interval_ms must be a number, found {}", v))
  }
}

//@ C14 | default: fn parse_absorbing


fn parse_absorbing(v: &Option<&Value>) -> Result<Vec<Modifier>, String>
  { //@ | body
  proof { axiom_fmt_json(); }
  broadcast use vstd::std_specs::fmt::group_fmt_axioms;
  if let Some(v) = v {
    if let j::Array(elems) = v {
      let mut res = vec![];
      for elem in elems { //@ | body
      proof { axiom_fmt_json(); }
        if let j::String(elem) = elem {
          res.push(parse_modifier(elem)?);
        }
        else {
          Err(format!("`absorbing` must be a list of modifiers, found {}", elem))?;
        }
      }
      Ok(res)
    }
    else if let j::String(elem) = v {
      Ok(vec![parse_modifier(elem)?])
    }
    else {
      Err(format!("`absorbing` must be a list of modifiers, found {}", v))
    }
  }
  else {
    Ok(vec![])
  }
}

//@ C14 | default: fn has_exactly_keys
// ASSUMED contract (external_body: the body collects and sorts the key names through iterator adapters): if it answers true, every listed name is a member
#[verifier::external_body]
fn has_exactly_keys(values: &Map<String, Value>, check: &Vec<&str>) -> (r: bool)
  ensures
    //@ C14 | ASSUMED: true only if the object has every listed member (so the `unwrap` after `get` cannot fail)
    r ==> forall|i: int| 0 <= i < check@.len() ==> values.has((#[trigger] check@[i])@),
  { //@ | body
  let mut v1: Vec<&str> = values.keys().map(|s|s.as_str()).collect();
  let mut v2: Vec<&str> = check.iter().map(|s|*s).collect();
  v1.sort();
  v2.sort();
  v1 == v2
}

//@ C14 | default: fn has_at_least_keys
fn has_at_least_keys(values: &Map<String, Value>, check: &Vec<&str>) -> (r: bool)
  ensures
    //@ C14 | true only if the object has every listed member (so the `unwrap` after `get` cannot fail)
    r ==> forall|i: int| 0 <= i < check@.len() ==> values.has((#[trigger] check@[i])@),
  { //@ | body
  for key in it: check
    invariant
      //@ C14 | the names checked so far are members
      it.seq().len() == check@.len(), forall|j: int| 0 <= j < check@.len() ==> *it.seq()[j] == check@[j],
      forall|i: int| 0 <= i < it.index@ ==> values.has((#[trigger] check@[i])@),
    { //@ | body
    proof { assert(*key == check@[it.index@ as int]); }
    if !values.contains_key(*key) {
      return false;
    }
  }
  true
}

