// ASSUMED contracts on the dependency serde_json (Value / Map / Number as the parser uses them). The crate cannot be linked by single-file Verus,
// so its three types are re-declared here with the variant names and method signatures of serde_json 1.x; every method is an external_body
// declaration (an assumption, listed by the assumption scan). What is assumed: `get` and `contains_key` agree on which keys an object has;
// nothing else. The parser text itself is the real one from /repo/src/layout_parsing_formatting.rs.
pub mod serde_json {
use vstd::prelude::*;
verus! {
#[verifier::external_body]
#[verifier::accept_recursive_types(K)]
#[verifier::accept_recursive_types(V)]
pub struct Map<K, V> { m: std::collections::BTreeMap<K, V> }
#[verifier::external_body]
pub struct Number { n: i64 }
pub enum Value { Null, Bool(bool), Number(Number), String(String), Array(Vec<Value>), Object(Map<String, Value>) }
impl Map<String, Value> {
  /// the object has a member with this name
  pub uninterp spec fn has(&self, k: Seq<char>) -> bool;
  #[verifier::external_body]
  pub fn get(&self, k: &str) -> (r: Option<&Value>)
    ensures r is Some == self.has(k@)
  { self.m.get(k) }
  #[verifier::external_body]
  pub fn contains_key(&self, k: &str) -> (r: bool)
    ensures r == self.has(k@)
  { self.m.contains_key(k) }
  #[verifier::external]
  pub fn keys(&self) -> std::collections::btree_map::Keys<'_, String, Value> { self.m.keys() }
  #[verifier::external]
  pub fn values(&self) -> std::collections::btree_map::Values<'_, String, Value> { self.m.values() }
  #[verifier::external]
  pub fn iter(&self) -> std::collections::btree_map::Iter<'_, String, Value> { self.m.iter() }
  #[verifier::external_body]
  pub fn len(&self) -> (r: usize) { self.m.len() }
  #[verifier::external_body]
  pub fn is_empty(&self) -> (r: bool) { self.m.is_empty() }
}
// further accessors of serde_json::Value / Number, declared so that code which uses them stays inside the verified text (a change that starts to use one
// of them is then judged by its obligations - e.g. an `unwrap` on an accessor that can answer None - instead of making the unit unbuildable).
// ASSUMED, as documented by serde_json: an `as_*` accessor answers Some exactly for its own variant; nothing is assumed about numbers.
impl Value {
  #[verifier::external_body]
  pub fn as_str(&self) -> (r: Option<&str>) ensures r is Some == (self is String) { match self { Value::String(s) => Some(s.as_str()), _ => None } }
  #[verifier::external_body]
  pub fn as_array(&self) -> (r: Option<&Vec<Value>>) ensures r is Some == (self is Array) { match self { Value::Array(a) => Some(a), _ => None } }
  #[verifier::external_body]
  pub fn as_object(&self) -> (r: Option<&Map<String, Value>>) ensures r is Some == (self is Object) { match self { Value::Object(o) => Some(o), _ => None } }
  #[verifier::external_body]
  pub fn as_bool(&self) -> (r: Option<bool>) ensures r is Some == (self is Bool) { match self { Value::Bool(b) => Some(*b), _ => None } }
  #[verifier::external_body]
  pub fn as_i64(&self) -> (r: Option<i64>) ensures r is Some ==> (self is Number) { match self { Value::Number(n) => n.as_i64(), _ => None } }
  #[verifier::external_body]
  pub fn as_u64(&self) -> (r: Option<u64>) ensures r is Some ==> (self is Number) { match self { Value::Number(n) => n.as_u64(), _ => None } }
  #[verifier::external_body]
  pub fn as_f64(&self) -> (r: Option<f64>) ensures r is Some ==> (self is Number) { match self { Value::Number(n) => n.as_f64(), _ => None } }
  #[verifier::external_body]
  pub fn is_null(&self) -> (r: bool) ensures r == (self is Null) { matches!(self, Value::Null) }
  #[verifier::external_body]
  pub fn is_string(&self) -> (r: bool) ensures r == (self is String) { matches!(self, Value::String(_)) }
  #[verifier::external_body]
  pub fn is_array(&self) -> (r: bool) ensures r == (self is Array) { matches!(self, Value::Array(_)) }
  #[verifier::external_body]
  pub fn is_object(&self) -> (r: bool) ensures r == (self is Object) { matches!(self, Value::Object(_)) }
  #[verifier::external_body]
  pub fn is_number(&self) -> (r: bool) ensures r == (self is Number) { matches!(self, Value::Number(_)) }
  #[verifier::external_body]
  pub fn get(&self, k: &str) -> (r: Option<&Value>) ensures r is Some ==> (self is Object) { match self { Value::Object(o) => o.get(k), _ => None } }
}
impl Clone for Map<String, Value> {
  #[verifier::external_body]
  fn clone(&self) -> (r: Self) { Map { m: self.m.clone() } }
}
impl Number {
  #[verifier::external_body]
  pub fn as_i64(&self) -> (r: Option<i64>) { Some(self.n) }
  #[verifier::external_body]
  pub fn as_u64(&self) -> (r: Option<u64>) { if self.n >= 0 { Some(self.n as u64) } else { None } }
  #[verifier::external_body]
  pub fn as_f64(&self) -> (r: Option<f64>) { None }
  #[verifier::external_body]
  pub fn is_i64(&self) -> (r: bool) { true }
  #[verifier::external_body]
  pub fn is_u64(&self) -> (r: bool) { self.n >= 0 }
  #[verifier::external_body]
  pub fn is_f64(&self) -> (r: bool) { false }
}
} // verus!
impl Clone for Number { fn clone(&self) -> Self { Number { n: self.n } } }
impl Clone for Value { fn clone(&self) -> Self { unimplemented!() } }
impl std::fmt::Display for Value { fn fmt(&self, f: &mut std::fmt::Formatter<'_>) -> std::fmt::Result { write!(f, "<json>") } }
}
