// ASSUMED contracts on the dependency serde_json (Value / Map / Number as the parser uses them). The crate cannot be linked by single-file Verus,
// so its three types are re-declared here with the variant names and method signatures of serde_json 1.x; every method is an external_body
// declaration (an assumption, listed by the assumption scan). What is assumed: `get` and `contains_key` agree on which keys an object has;
// nothing else. The parser text itself is the real one from /repo/src/layout_parsing_formatting.rs.
pub mod serde_json {
use vstd::prelude::*;
verus! {
#[verifier::external_body]
#[verifier::accept_recursive_types(K)]
#[verifier::accept_recursive_types(V)]
pub struct Map<K, V> { m: std::collections::BTreeMap<K, V> }
#[verifier::external_body]
pub struct Number { n: i64 }
pub enum Value { Null, Bool(bool), Number(Number), String(String), Array(Vec<Value>), Object(Map<String, Value>) }
impl Map<String, Value> {
  /// the object has a member with this name
  pub uninterp spec fn has(&self, k: Seq<char>) -> bool;
  #[verifier::external_body]
  pub fn get(&self, k: &str) -> (r: Option<&Value>)
    ensures r is Some == self.has(k@)
  { self.m.get(k) }
  #[verifier::external_body]
  pub fn contains_key(&self, k: &str) -> (r: bool)
    ensures r == self.has(k@)
  { self.m.contains_key(k) }
  #[verifier::external]
  pub fn keys(&self) -> std::collections::btree_map::Keys<'_, String, Value> { self.m.keys() }
}
impl Clone for Map<String, Value> {
  #[verifier::external_body]
  fn clone(&self) -> (r: Self) { Map { m: self.m.clone() } }
}
impl Number {
  #[verifier::external_body]
  pub fn as_i64(&self) -> (r: Option<i64>) { Some(self.n) }
}
} // verus!
impl Clone for Number { fn clone(&self) -> Self { Number { n: self.n } } }
impl Clone for Value { fn clone(&self) -> Self { unimplemented!() } }
impl std::fmt::Display for Value { fn fmt(&self, f: &mut std::fmt::Formatter<'_>) -> std::fmt::Result { write!(f, "<json>") } }
}
