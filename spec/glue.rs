// C14 glue: whatever the converter accepts can be installed in the mapper and driven with any operation sequence.
// Verified like any caller: only the contracts of `convert` (fancy_layout_interpreting.rs) and of the universal client
// (which itself calls the real Mapper::for_layout / step / release_all) are visible. Never executed.
use crate::trace::{universal_client, Op};

//@ C14 | load-then-run: the layout returned by convert satisfies the precondition of the mapper, for every converter input and every operation sequence
pub fn load_then_run(f: &crate::fancy_keys::Layout, ops: &Vec<Op>) {
  match crate::fancy_layout_interpreting::convert(f) {
    Ok(layout) => { universal_client(&layout, ops); },
    Err(_message) => { },
  }
}

//@ C14 | parse-load-then-run: for every JSON value, the real parser, the real converter and the real mapper compose without a precondition left open: whatever the parser returns the converter takes, whatever the converter accepts the mapper runs, for every operation sequence
pub fn parse_load_then_run(v: &crate::serde_json::Value, ops: &Vec<Op>) {
  match crate::layout_parsing_formatting::parse_layout_from_json(v) {
    Ok(f) => {
      match crate::fancy_layout_interpreting::convert(&f) {
        Ok(layout) => { universal_client(&layout, ops); },
        Err(_message) => { },
      }
    },
    Err(_message) => { },
  }
}
