// C14 glue: whatever the converter accepts can be installed in the mapper and driven with any operation sequence.
// Verified like any caller: only the contracts of `convert` (fancy_layout_interpreting.rs) and of the universal client
// (which itself calls the real Mapper::for_layout / step / release_all) are visible. Never executed.
use crate::trace::{universal_client, Op};

//@ C14 | load-then-run: the layout returned by convert satisfies the precondition of the mapper, for every converter input and every operation sequence
pub fn load_then_run(f: &crate::fancy_keys::Layout, ops: &Vec<Op>) {
  match crate::fancy_layout_interpreting::convert(f) {
    Ok(layout) => { universal_client(&layout, ops); },
    Err(_message) => { },
  }
}
